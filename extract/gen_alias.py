"""
Translator recipes for Gen.Alias: the table  alias string -> kernel class  of `RFM.kernel_from_str`
on the CPU branch (`use_kermac = False`), and which argument of `kernel_from_str` feeds which
constructor parameter of that class (bandwidth, exponent -> exponent or q, norm_p -> p, ...).

Source shape understood (anything else raises Unsupported -> pinned fallback):

    if   kernel_str in [<str>, ...]   |  kernel_str == <str> :
        [name = <expr>]*                       # e.g. eps_val = 1e-10 if eps is None else eps
        [if use_kermac: return Kermac...(...)] # GPU branch, skipped
        return <Class>(<param>=<name>, ...)
    elif ...
    else:
        raise ValueError(...)
"""
import ast

import py2lean

U = py2lean.U
Unsupported = py2lean.Unsupported
RFM_PY = py2lean.RFM_PY

# CPU kernel classes of xrfm/rfm_src/kernels.py -> constructor of the Lean inductive
CLASSES = {
    'LaplaceKernel': 'Laplace',
    'LightLaplaceKernel': 'LightLaplace',
    'ProductLaplaceKernel': 'ProductLaplace',
    'LpqLaplaceKernel': 'Lpq',
    'SumPowerLaplaceKernel': 'SumPower',
}
# arguments of kernel_from_str (and locals derived from exactly one of them) -> Lean `Arg`
ARGS = {'bandwidth': 'bandwidth', 'exponent': 'exponent', 'norm_p': 'normP', 'const_mix': 'constMix',
        'power': 'power', 'eps': 'eps'}

DECLS = '''/-- CPU kernel classes of `xrfm/rfm_src/kernels.py` reachable from `RFM.kernel_from_str`. -/
inductive KernelClass
  | Laplace | LightLaplace | ProductLaplace | Lpq | SumPower
  deriving DecidableEq, Repr

/-- Arguments of `RFM.kernel_from_str` that are forwarded to a kernel constructor. -/
inductive Arg
  | bandwidth | exponent | normP | constMix | power | eps
  deriving DecidableEq, Repr'''


def _lean_str(s):
    if not all(32 <= ord(ch) < 127 and ch not in '"\\' for ch in s):
        raise Unsupported(f'alias string {s!r}')
    return '"' + s + '"'


def _test_strings(test):
    """`kernel_str in [..]` / `kernel_str == '..'` -> list of alias strings"""
    if not (isinstance(test, ast.Compare) and len(test.ops) == 1 and U(test.left) == 'kernel_str'):
        raise Unsupported(f'kernel_from_str: test `{U(test)}`')
    op, rhs = test.ops[0], test.comparators[0]
    if isinstance(op, ast.In) and isinstance(rhs, (ast.List, ast.Tuple, ast.Set)):
        elts = rhs.elts
    elif isinstance(op, ast.Eq):
        elts = [rhs]
    else:
        raise Unsupported(f'kernel_from_str: test `{U(test)}`')
    out = []
    for e in elts:
        if not (isinstance(e, ast.Constant) and isinstance(e.value, str)):
            raise Unsupported(f'kernel_from_str: non-literal alias `{U(e)}`')
        out.append(e.value)
    return out


def _derived_from(expr):
    """the single kernel_from_str argument a local such as `eps_val` is computed from"""
    names = {n.id for n in ast.walk(expr) if isinstance(n, ast.Name)} & set(ARGS)
    if len(names) != 1:
        raise Unsupported(f'kernel_from_str: local derived from {sorted(names)}')
    return names.pop()


def _cpu_return(body):
    """(class name, [(ctor parameter, kernel_from_str argument)]) of the CPU path through a branch body"""
    local = {}
    for s in py2lean.strip_doc(body):
        if isinstance(s, ast.Assign) and len(s.targets) == 1 and isinstance(s.targets[0], ast.Name):
            local[s.targets[0].id] = _derived_from(s.value)
            continue
        if isinstance(s, ast.If) and U(s.test) == 'use_kermac':
            if s.orelse:
                return _cpu_return_with(s.orelse, local)
            continue  # GPU-only block
        if isinstance(s, ast.If) and U(s.test) == 'not use_kermac':
            return _cpu_return_with(s.body, local)
        if isinstance(s, ast.Return):
            return _ctor(s.value, local)
        raise Unsupported(f'kernel_from_str: branch statement `{U(s)[:60]}`')
    raise Unsupported('kernel_from_str: branch without CPU return')


def _cpu_return_with(body, local):
    for s in body:
        if isinstance(s, ast.Return):
            return _ctor(s.value, local)
        raise Unsupported(f'kernel_from_str: nested statement `{U(s)[:60]}`')
    raise Unsupported('kernel_from_str: empty CPU block')


def _ctor(call, local):
    if not (isinstance(call, ast.Call) and isinstance(call.func, ast.Name)):
        raise Unsupported(f'kernel_from_str: return `{U(call)[:60]}`')
    cls = call.func.id
    if cls not in CLASSES:
        raise Unsupported(f'kernel_from_str: CPU branch returns unknown class {cls}')
    if call.args:
        raise Unsupported(f'kernel_from_str: positional constructor arguments in `{U(call)[:60]}`')
    kws = []
    for k in call.keywords:
        if k.arg is None or not isinstance(k.value, ast.Name):
            raise Unsupported(f'kernel_from_str: constructor argument `{U(k.value)}`')
        v = k.value.id
        v = local.get(v, v)
        if v not in ARGS:
            raise Unsupported(f'kernel_from_str: constructor argument `{k.arg}={k.value.id}`')
        kws.append((k.arg, ARGS[v]))
    return cls, kws


def _branches(src):
    f = src.func(RFM_PY, 'RFM', 'kernel_from_str')
    chain = [s for s in py2lean.strip_doc(f.body) if isinstance(s, ast.If)]
    if len(chain) != 1:
        raise Unsupported('kernel_from_str: expected one if-chain')
    node = chain[0]
    out = []
    while True:
        cls, kws = _cpu_return(node.body)
        for a in _test_strings(node.test):
            out.append((a, cls, kws))
        if len(node.orelse) == 1 and isinstance(node.orelse[0], ast.If):
            node = node.orelse[0]
            continue
        tail = node.orelse
        break
    raises = (len(tail) == 1 and isinstance(tail[0], ast.Raise) and isinstance(tail[0].exc, ast.Call)
              and U(tail[0].exc.func) == 'ValueError')
    if not raises and tail:
        raise Unsupported('kernel_from_str: else branch is not `raise ValueError(...)`')
    seen = set()
    first = []
    for a, cls, kws in out:  # an alias listed twice: the first branch wins, as in the if-chain
        if a not in seen:
            seen.add(a)
            first.append((a, cls, kws))
    return first, raises


def alias_aliases(src):
    br, _ = _branches(src)
    rows = ',\n   '.join(f'({_lean_str(a)}, .{CLASSES[cls]})' for a, cls, _ in br)
    return ('/-- `RFM.kernel_from_str`, CPU branch (`use_kermac = False`): alias string -> kernel class, in source order. -/\n'
            'def aliases : List (String × KernelClass) :=\n  [' + rows + ']')


def alias_ctorArgs(src):
    br, _ = _branches(src)
    rows = []
    for a, _, kws in br:
        inner = ', '.join(f'({_lean_str(p)}, .{v})' for p, v in kws)
        rows.append(f'({_lean_str(a)}, [{inner}])')
    return ('/-- `RFM.kernel_from_str`, CPU branch: per alias, constructor parameter name -> forwarded argument. -/\n'
            'def ctorArgs : List (String × List (String × Arg)) :=\n  [' + ',\n   '.join(rows) + ']')


def alias_elseRaises(src):
    _, raises = _branches(src)
    return ('/-- `RFM.kernel_from_str`: a string matching no branch ends in `raise ValueError`. -/\n'
            f'def unknownRaisesValueError : Bool := {"true" if raises else "false"}')


py2lean.register('Alias', RFM_PY, [], [
    ('decls', py2lean.const(DECLS)),
    ('aliases', alias_aliases),
    ('ctorArgs', alias_ctorArgs),
    ('unknownRaisesValueError', alias_elseRaises),
])
