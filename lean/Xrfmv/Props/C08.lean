/-
C08 — Prediction-time routing agrees with training-time assignment.

Model: the index-level construction `Xrfmv.BuildIndex.build` (regenerated `Gen.Split`/`Gen.Refill`) and the
prediction routing `Xrfmv.RouteAgree.routeTo` (regenerated `Gen.Route.goesLeft`).  Projections live in an
arbitrary linear order; `torch.sort` / `torch.median` are oracles with the contract `NodeContract`
(ascending permutation, lower median `sorted[(n-1)/2]`), which the correspondence checks on every recorded node.
-/
import Xrfmv.Lemmas.RouteAgree
import Xrfmv.Lemmas.RouteAgreeOk
import Mathlib.Tactic.IntervalCases

namespace Xrfmv.Props.C08
open Xrfmv.BuildIndex Xrfmv.RouteAgree Xrfmv.Gen.Split Xrfmv.Gen.Route

variable {α : Type} [LinearOrder α]

/-- **C08 (one node)** For odd and even node sizes and every overlap band leaving two unshared samples, a
sample whose projection is not tied with the split threshold is sent by the rule "`≤ threshold` goes left" to a
child that received it from the rank-based training split. -/
theorem node_routing_agrees (n o : Nat) (proj : Nat → α) (sorted : List Nat) (thr : α)
    (hc : NodeContract n proj sorted thr) (ho : o + 2 ≤ n) (i : Nat) (hi : i < n) (hne : proj i ≠ thr) :
    (goesLeft (proj i) thr = true → sideMask n sorted (o : Int) .left i = true) ∧
    (goesLeft (proj i) thr = false → sideMask n sorted (o : Int) .right i = true) :=
  node_agree n o proj sorted thr hc ho i hi hne

/-- **C08 (whole tree)** Every training sample whose projections are not tied with a threshold on its predicted
route is routed, at prediction time, to a leaf that received it during training (as a center or as a sample
moved to that leaf's validation set) — any depth, any overlap, any oracle meeting the contracts. -/
theorem train_route_agree (cfg : Cfg) (O : Oracles) (P : ProjOracles α)
    (hperm : ∀ path n, IsPermOfRange (O.permO path n) n) (fuel n : Nat)
    (hcons : Consistent cfg O P fuel [] (List.range n) 0)
    (hok : (build cfg O fuel [] (List.range n) true 0).1.ok = true)
    (x : Nat) (hx : x < n) (hunt : Untied P (build cfg O fuel [] (List.range n) true 0).1 [] x) :
    ∃ l ∈ (build cfg O fuel [] (List.range n) true 0).1.leaves,
      l.1 = routeTo P (build cfg O fuel [] (List.range n) true 0).1 [] x ∧ x ∈ l.2.1 ++ l.2.2 :=
  route_agree cfg O P hperm fuel [] (List.range n) true 0 hcons hok x (List.mem_range.mpr hx) hunt

/-- **C08 (whole tree, without the `ok` hypothesis)** Without a forced split count and with fuel `n + 1`, the per-node
contracts collected in `Consistent` already imply that the construction succeeds, so the agreement holds for every
training sample that is untied along its predicted route. -/
theorem train_route_agree_unconditional (cfg : Cfg) (O : Oracles) (P : ProjOracles α) (hns : cfg.nsplits = none)
    (hperm : ∀ path n, IsPermOfRange (O.permO path n) n) (n : Nat)
    (hcons : Consistent cfg O P (n + 1) [] (List.range n) 0)
    (x : Nat) (hx : x < n) (hunt : Untied P (build cfg O (n + 1) [] (List.range n) true 0).1 [] x) :
    ∃ l ∈ (build cfg O (n + 1) [] (List.range n) true 0).1.leaves,
      l.1 = routeTo P (build cfg O (n + 1) [] (List.range n) true 0).1 [] x ∧ x ∈ l.2.1 ++ l.2.2 :=
  train_route_agree cfg O P hperm (n + 1) n hcons
    (ok_of_consistent cfg O P hns (n + 1) [] (List.range n) true 0 (by simp) hcons) x hx hunt

/-- **C08 (validation points)** The caller's validation points are assigned to subtrees by the same predicate
that prediction uses (both regenerated from the source: `projections_val <= train_median` and
`projections <= split_point`, the stored split point being that median). -/
theorem val_rule_eq_predict_rule (proj thr : α) : valGoesLeft proj thr = goesLeft proj thr := rfl

/-- Non-vacuity: five projections `[3,1,4,1,5]`, the stable ascending permutation `[1,3,0,2,4]` and the lower
median `3` meet the node contract. -/
example : NodeContract 5 (fun i => ([3, 1, 4, 1, 5] : List Nat).getD i 0) [1, 3, 0, 2, 4] 3 := by
  refine ⟨by unfold IsPermOfRange; decide, ?_, by decide⟩
  intro a b hab hb
  have ha : a < 5 := by omega
  interval_cases b <;> interval_cases a <;> simp_all

end Xrfmv.Props.C08
