/-
Gram matrices of the Lpq Laplace kernel of `Model/Kernel.lean` are positive semi-definite for
`0 < q ≤ p ≤ 2` (any transform, any dimension, any number of points): the list-based model is brought to
`Fin m → ℝ` (all transformed points have one length) and `Psd.isPSD_lpq` (`Lemmas/PsdLpq.lean`) applies.
-/
import Xrfmv.Lemmas.Kernel
import Xrfmv.Lemmas.PsdLpq

namespace Xrfmv.Kernel
open Xrfmv Xrfmv.Psd

/-- number of features after the transform, for inputs of dimension `d` -/
def tlen : Transform ℝ → ℕ → ℕ
  | .none, d => d
  | .diag v, d => min d v.length
  | .full cols, _ => cols.length

theorem applyT_length (T : Transform ℝ) {d : ℕ} (x : Fin d → ℝ) :
    (applyT T (List.ofFn x)).length = tlen T d := by
  cases T <;> simp [applyT, tlen]

theorem list_eq_ofFn_getD' {m : ℕ} (l : List ℝ) (h : l.length = m) :
    l = List.ofFn fun e : Fin m => l.getD e 0 := by
  apply List.ext_getElem
  · simp [h]
  · intro i h1 h2
    simp [List.getD_eq_getElem?_getD, List.getElem?_eq_getElem h1]

theorem powSum_ofFn (p : ℝ) {m : ℕ} (a b : Fin m → ℝ) :
    powSum p (List.ofFn a) (List.ofFn b) = ∑ k, |a k - b k| ^ p := by
  simp only [powSum, absDiffs, zipWith_ofFn, List.map_ofFn, Function.comp_def, sumL_ofFn, abs_real, rpow_real]

theorem lpqCore_ofFn {p : ℝ} (hp : 0 < p) (q L : ℝ) {m : ℕ} (a b : Fin m → ℝ) :
    lpqCore p q L (List.ofFn a) (List.ofFn b) =
      Real.exp (-(1 / L ^ q * (∑ k, |a k - b k| ^ p) ^ (q / p))) := by
  have h0 : 0 ≤ ∑ k, |a k - b k| ^ p :=
    Finset.sum_nonneg fun k _ => Real.rpow_nonneg (abs_nonneg _) _
  simp only [lpqCore, lap, pdist, powSum_ofFn, rpow_real, exp_real]
  rw [← Real.rpow_mul h0, show 1 / p * q = q / p by field_simp]
  congr 1; ring

/-- **Gram matrices of the Lpq Laplace kernel are positive semi-definite** for `0 < q ≤ p ≤ 2`. -/
theorem lpq_gram_psd {p q L : ℝ} (hq : 0 < q) (hqp : q ≤ p) (hp2 : p ≤ 2) (hL : 0 < L)
    (T : Transform ℝ) {d n : ℕ} (xs : Fin n → Fin d → ℝ) (w : Fin n → ℝ) :
    0 ≤ ∑ i, ∑ j, w i * w j * entry (.lpq p q L) T (List.ofFn (xs i)) (List.ofFn (xs j)) := by
  have hp : 0 < p := lt_of_lt_of_le hq hqp
  let a : Fin n → Fin (tlen T d) → ℝ := fun i k => (applyT T (List.ofFn (xs i))).getD k 0
  have hU : ∀ i, applyT T (List.ofFn (xs i)) = List.ofFn (a i) := fun i =>
    list_eq_ofFn_getD' _ (applyT_length T (xs i))
  have hc : (0 : ℝ) ≤ 1 / L ^ q := by positivity
  have h := (isPSD_lpq (tlen T d) hq hqp hp2 hc).2 n a w
  simp only [qf] at h
  refine h.trans_eq (Finset.sum_congr rfl fun i _ => Finset.sum_congr rfl fun j _ => ?_)
  have : entry (.lpq p q L) T (List.ofFn (xs i)) (List.ofFn (xs j)) =
      lpqCore p q L (applyT T (List.ofFn (xs i))) (applyT T (List.ofFn (xs j))) := rfl
  rw [this, hU i, hU j, lpqCore_ofFn hp]

theorem sumPowerCore_ofFn (q L c : ℝ) (P : ℕ) {m : ℕ} (a b : Fin m → ℝ) :
    sumPowerCore q L c (P : ℝ) (List.ofFn a) (List.ofFn b) =
      ((1 - c) * ((∑ k, Real.exp (-(1 / L ^ q * |a k - b k| ^ q))) / (m : ℝ)) + c) ^ P := by
  simp only [sumPowerCore, absDiffs, zipWith_ofFn, List.map_ofFn, Function.comp_def, sumL_ofFn,
    count_eq_length, List.length_ofFn, abs_real, rpow_real, exp_real, Real.rpow_natCast]
  congr 4
  refine Finset.sum_congr rfl fun k _ => ?_
  congr 1; ring

/-- **Gram matrices of the sum-power kernel are positive semi-definite** for `0 < q ≤ 2`,
`0 ≤ c ≤ 1` and a natural power (beyond what C05 claims, which is the Laplace family). -/
theorem sumPower_gram_psd {q L c : ℝ} (hq : 0 < q) (hq2 : q ≤ 2) (hL : 0 < L) (hc0 : 0 ≤ c) (hc1 : c ≤ 1)
    (P : ℕ) (T : Transform ℝ) {d n : ℕ} (xs : Fin n → Fin d → ℝ) (w : Fin n → ℝ) :
    0 ≤ ∑ i, ∑ j, w i * w j * entry (.sumPower q L c (P : ℝ)) T (List.ofFn (xs i)) (List.ofFn (xs j)) := by
  let a : Fin n → Fin (tlen T d) → ℝ := fun i k => (applyT T (List.ofFn (xs i))).getD k 0
  have hU : ∀ i, applyT T (List.ofFn (xs i)) = List.ofFn (a i) := fun i =>
    list_eq_ofFn_getD' _ (applyT_length T (xs i))
  have hc : (0 : ℝ) ≤ 1 / L ^ q := by positivity
  have h := (isPSD_sumPower (tlen T d) hq hq2 hc hc0 hc1 P).2 n a w
  simp only [qf] at h
  refine h.trans_eq (Finset.sum_congr rfl fun i _ => Finset.sum_congr rfl fun j _ => ?_)
  have : entry (.sumPower q L c (P : ℝ)) T (List.ofFn (xs i)) (List.ofFn (xs j)) =
      sumPowerCore q L c (P : ℝ) (applyT T (List.ofFn (xs i))) (applyT T (List.ofFn (xs j))) := rfl
  rw [this, hU i, hU j, sumPowerCore_ofFn]

/-- Gram matrix of a kernel at the centers `xs` (what `(K + λI)α = Y` is solved with). -/
noncomputable def gram (K : Spec ℝ) (T : Transform ℝ) {d n : ℕ} (xs : Fin n → Fin d → ℝ) :
    Matrix (Fin n) (Fin n) ℝ :=
  Matrix.of fun i j => entry K T (List.ofFn (xs i)) (List.ofFn (xs j))

theorem gram_lpq_posSemidef {p q L : ℝ} (hq : 0 < q) (hqp : q ≤ p) (hp2 : p ≤ 2) (hL : 0 < L)
    (T : Transform ℝ) {d n : ℕ} (xs : Fin n → Fin d → ℝ) : (gram (.lpq p q L) T xs).PosSemidef := by
  refine Matrix.PosSemidef.of_dotProduct_mulVec_nonneg ?_ fun v => ?_
  · ext i j
    simp only [gram, Matrix.conjTranspose_apply, Matrix.of_apply, star_trivial, entry, coreEntry, lpqCore]
    rw [pdist_comm]
  · have h := lpq_gram_psd hq hqp hp2 hL T xs v
    simp only [dotProduct, Matrix.mulVec, gram, Matrix.of_apply, star_trivial, Pi.star_apply, Finset.mul_sum]
    exact h.trans_eq (Finset.sum_congr rfl fun i _ => Finset.sum_congr rfl fun j _ => by ring)

theorem gram_sumPower_posSemidef {q L c : ℝ} (hq : 0 < q) (hq2 : q ≤ 2) (hL : 0 < L) (hc0 : 0 ≤ c)
    (hc1 : c ≤ 1) (P : ℕ) (T : Transform ℝ) {d n : ℕ} (xs : Fin n → Fin d → ℝ) :
    (gram (.sumPower q L c (P : ℝ)) T xs).PosSemidef := by
  refine Matrix.PosSemidef.of_dotProduct_mulVec_nonneg ?_ fun v => ?_
  · ext i j
    simp only [gram, Matrix.conjTranspose_apply, Matrix.of_apply, star_trivial, entry, coreEntry, sumPowerCore]
    rw [absDiffs_comm]
  · have h := sumPower_gram_psd hq hq2 hL hc0 hc1 P T xs v
    simp only [dotProduct, Matrix.mulVec, gram, Matrix.of_apply, star_trivial, Pi.star_apply, Finset.mul_sum]
    exact h.trans_eq (Finset.sum_congr rfl fun i _ => Finset.sum_congr rfl fun j _ => by ring)

theorem gram_laplace_eq (q L : ℝ) (T : Transform ℝ) {d n : ℕ} (xs : Fin n → Fin d → ℝ) :
    gram (.laplace q L) T xs = gram (.lpq 2 q L) T xs := rfl

theorem gram_product_eq {q : ℝ} (hq : 0 < q) (L : ℝ) (T : Transform ℝ) {d n : ℕ} (xs : Fin n → Fin d → ℝ) :
    gram (.product q L) T xs = gram (.lpq q q L) T xs := by
  ext i j
  exact productCore_eq_lpq hq L _ _

end Xrfmv.Kernel
