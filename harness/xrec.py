"""
Outside-the-repo recorder for `xRFM.fit`: a subclass that logs, per node of every tree, what
`_build_tree` received, the rank split that was computed (projections, the sorting permutation, the
median, the masks), the refill (routed validation count, the permutation drawn, how many were moved) and
the arguments of every leaf `RFM.fit`.  Nothing in /repo is modified; methods are overridden to call
`super()` and log.
"""
import contextlib

import torch

import xrfm.xrfm as xmod
from xrfm import xRFM
from xrfm.rfm_src import RFM


def row_key(t):
    return t.detach().cpu().contiguous().numpy().tobytes()


class StubLeaf:
    """Stands in for a leaf RFM when only the tree skeleton matters (no kernel work)."""

    def __init__(self, *a, **k):
        self.M = None
        self.sqrtM = None
        self.weights = None
        self.agop_best_model = None
        self.kernel_obj = type('K', (), {'bandwidth': 1.0})()

    def fit(self, train, val, **kw):
        self.centers = train[0]
        self.n_out = train[1].shape[1] if train[1].dim() > 1 else 1
        self.weights = torch.zeros(train[0].shape[0], self.n_out)

    def predict(self, X, **kw):
        return torch.zeros(X.shape[0], self.n_out)

    def predict_proba(self, X, **kw):
        return torch.full((X.shape[0], max(self.n_out, 2)), 1.0 / max(self.n_out, 2))


class RecXRFM(xRFM):
    def __init__(self, *a, stub_leaves=False, **k):
        super().__init__(*a, **k)
        self.rec_roots = []
        self._stack = []
        self._stub = stub_leaves
        self._in_subset = 0

    # ---- per node -----------------------------------------------------------------------------
    def _build_tree(self, X, y, X_val, y_val, train_indices=None, **kw):
        node = {'n': int(X.shape[0]), 'nval': int(X_val.shape[0]),
                'idx': None if train_indices is None else train_indices.tolist(),
                'is_root': bool(kw.get('is_root', False)), 'children': [],
                'count_in': None if kw.get('split_tracker') is None else int(kw['split_tracker']['count']),
                'val_keys': [row_key(r) for r in X_val] if self.rec_rows else None}
        (self._stack[-1]['children'] if self._stack else self.rec_roots).append(node)
        self._stack.append(node)
        try:
            out = super()._build_tree(X, y, X_val, y_val, train_indices=train_indices, **kw)
        finally:
            self._stack.pop()
        node['type'] = out['type']
        if out['type'] == 'leaf':
            node['train_indices'] = out['train_indices'].tolist()
        else:
            node['split_point'] = float(out['split_point'])
            node['direction'] = out['split_direction'].detach().cpu().double().tolist()
            node['scale'] = float(out['adaptive_temp_scaling'])
        return out

    rec_rows = True

    def _get_balanced_split(self, projections, train_median):
        lm, rm = super()._get_balanced_split(projections, train_median)
        if self._stack:
            _, si = torch.sort(projections)   # deterministic: the same permutation the method used
            self._stack[-1]['split'] = {
                'proj': projections.detach().cpu().double().tolist(), 'sorted': si.tolist(),
                'median': float(train_median), 'left': lm.tolist(), 'right': rm.tolist(),
                'dtype': str(projections.dtype)}
        return lm, rm

    def _refill_val_set(self, X, y, X_val, y_val, train_indices):
        cap = {}
        orig = torch.randperm

        def rp(n, *a, **k):
            r = orig(n, *a, **k)
            cap['perm'] = r.tolist()
            return r
        torch.randperm = rp
        try:
            out = super()._refill_val_set(X, y, X_val, y_val, train_indices)
        finally:
            torch.randperm = orig
        if self._stack:
            self._stack[-1]['refill'] = {'n_before': len(X), 'nval_before': len(X_val), 'perm': cap.get('perm'),
                                         'n_after': len(out[0]), 'nval_after': len(out[2]),
                                         'idx_before': train_indices.tolist()}
        return out

    def _get_agop_on_subset(self, *a, **k):
        self._in_subset += 1
        try:
            return super()._get_agop_on_subset(*a, **k)
        finally:
            self._in_subset -= 1

    # ---- leaf fits ----------------------------------------------------------------------------
    def _leaf_fit_hook(self, model, train, val, kw):
        if self._in_subset or not self._stack:
            return
        node = self._stack[-1]
        node['leaf_fit'] = {
            'n': int(train[0].shape[0]), 'nval': int(val[0].shape[0]),
            'x_keys': [row_key(r) for r in train[0]] if self.rec_rows else None,
            'xval_keys': [row_key(r) for r in val[0]] if self.rec_rows else None,
            'y': train[1].detach().cpu().double().tolist() if self.rec_rows else None,
            'yval': val[1].detach().cpu().double().tolist() if self.rec_rows else None,
            'x_dtype': str(train[0].dtype), 'y_dtype': str(train[1].dtype), 'y_shape': list(train[1].shape),
            'yval_dtype': str(val[1].dtype), 'yval_shape': list(val[1].shape), 'xval_dtype': str(val[0].dtype),
        }


@contextlib.contextmanager
def recording(owner):
    """Patch the RFM class used by xrfm.xrfm so that leaf fits are logged (and optionally stubbed)."""
    orig = xmod.RFM

    class RecRFM(orig):
        def fit(self, train, val=None, **kw):
            owner._leaf_fit_hook(self, train, val, kw)
            return super().fit(train, val, **kw)

    class RecStub(StubLeaf):
        def fit(self, train, val=None, **kw):
            owner._leaf_fit_hook(self, train, val, kw)
            return super().fit(train, val, **kw)

    xmod.RFM = RecStub if owner._stub else RecRFM
    try:
        yield
    finally:
        xmod.RFM = orig


def fit_recorded(X, y, Xv, yv, stub_leaves=False, rec_rows=True, **ctor):
    m = RecXRFM(stub_leaves=stub_leaves, **ctor)
    m.rec_rows = rec_rows
    with recording(m):
        m.fit(X, y, Xv, yv)
    return m


def walk(node, path=()):
    """Yield (path, node) in construction (left-first) order; path = tuple of 0 (left) / 1 (right)."""
    yield path, node
    for k, c in enumerate(node['children']):
        yield from walk(c, path + (k,))


def size_tree(node):
    if node['type'] == 'leaf':
        # a leaf's recorded `n` is the size _build_tree received, before the refill
        return {'leaf': node['n']}
    return {'node': node['n'], 'l': size_tree(node['children'][0]), 'r': size_tree(node['children'][1])}
