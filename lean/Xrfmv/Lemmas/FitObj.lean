/-
Lemmas about the object model of `xRFM.fit` (`Xrfmv/Model/FitObj.lean`).  Core Lean only.
-/
import Xrfmv.Model.FitObj

namespace Xrfmv.FitObj
open Xrfmv.Gen.FitObj
open Xrfmv.Rng (Rng)

theorem factsOk_iff (F : FitFacts) : factsOk F = true ↔
    F.treesReset = true ∧ F.dataDimReset = true ∧ F.nClassesReset = true ∧ F.extraParamsReset = true ∧
    F.converterResetIfClass = true ∧ F.tempResetIfTuning = true ∧ F.tempResetFromCtor = true ∧
    F.metricSetIfUnset = true ∧ F.tuneGuardedByFlag = true ∧ F.tempOnlySetByTuning = true := by
  simp [factsOk, and_assoc]

theorem inv_fresh (dv : Derive) (cfg : Cfg) (c : Bool) : Inv dv cfg c (fresh cfg) where
  cfg_eq := rfl
  temp := fun _ => rfl
  metric := ⟨fun _ h => h, fun h => Or.inl h⟩
  conv := fun _ => rfl

/-- The entry block makes two objects of the same configuration and task history indistinguishable. -/
theorem atEntry_eq {F : FitFacts} (hF : factsOk F = true) (dv : Derive) {cfg : Cfg} {o₁ o₂ : Obj} {D : Data}
    (h₁ : Inv dv cfg D.isClass o₁) (h₂ : Inv dv cfg D.isClass o₂) :
    atEntry F dv o₁ D = atEntry F dv o₂ D := by
  obtain ⟨f1, f2, f3, f4, f5, f6, f7, f8, -, -⟩ := (factsOk_iff F).1 hF
  obtain ⟨c₁, t₁, ⟨ms₁, mn₁⟩, v₁⟩ := h₁
  obtain ⟨c₂, t₂, ⟨ms₂, mn₂⟩, v₂⟩ := h₂
  have hcfg : o₁.cfg = o₂.cfg := c₁.trans c₂.symm
  -- tuning metric
  have hmetric : (if F.metricSetIfUnset && o₁.tuningMetric.isNone then some (dv.defaultMetric D.isClass) else o₁.tuningMetric)
      = (if F.metricSetIfUnset && o₂.tuningMetric.isNone then some (dv.defaultMetric D.isClass) else o₂.tuningMetric) := by
    rw [f8]
    cases hm : cfg.metricArg with
    | some m => rw [ms₁ m hm, ms₂ m hm]
    | none =>
        rcases mn₁ hm with a | a <;> rcases mn₂ hm with b | b <;> simp [a, b]
  -- class converter
  have hconv : (if F.converterResetIfClass && D.isClass then some (dv.converter o₁.cfg D) else o₁.classConverter)
      = (if F.converterResetIfClass && D.isClass then some (dv.converter o₂.cfg D) else o₂.classConverter) := by
    rw [f5, hcfg]
    cases hc : D.isClass with
    | true => simp
    | false => simp [v₁ hc, v₂ hc]
  -- temperature
  have htemp : (if F.tempResetIfTuning && F.tempResetFromCtor && o₁.cfg.useTuning then o₁.cfg.configuredTemp else o₁.splitTemperature)
      = (if F.tempResetIfTuning && F.tempResetFromCtor && o₂.cfg.useTuning then o₂.cfg.configuredTemp else o₂.splitTemperature) := by
    rw [f6, f7, hcfg, c₂]
    cases hu : cfg.useTuning with
    | true => simp
    | false => simp [t₁ hu, t₂ hu]
  unfold atEntry
  rw [hmetric, hconv, htemp, f1, f2, f3, f4, hcfg]
  simp

/-- Re-fitting and fitting fresh give the same object. -/
theorem fitObj_eq {F : FitFacts} (hF : factsOk F = true) (dv : Derive) (L : Learner) {cfg : Cfg} {o₁ o₂ : Obj} {D : Data}
    (h₁ : Inv dv cfg D.isClass o₁) (h₂ : Inv dv cfg D.isClass o₂) (r : Rng) :
    fitObj F dv L o₁ D r = fitObj F dv L o₂ D r := by
  unfold fitObj
  rw [atEntry_eq hF dv h₁ h₂]

/-- The invariant is preserved by a fit of the same task type. -/
theorem inv_fitObj {F : FitFacts} (hF : factsOk F = true) (dv : Derive) (L : Learner) {cfg : Cfg} {o : Obj} {D : Data}
    (h : Inv dv cfg D.isClass o) (r : Rng) : Inv dv cfg D.isClass (fitObj F dv L o D r) := by
  obtain ⟨f1, f2, f3, f4, f5, f6, f7, f8, f9, f10⟩ := (factsOk_iff F).1 hF
  obtain ⟨c, t, ⟨ms, mn⟩, v⟩ := h
  refine ⟨?_, ?_, ⟨?_, ?_⟩, ?_⟩
  · simpa [fitObj, atEntry] using c
  · intro hu
    have hu' : o.cfg.useTuning = false := by rw [c]; exact hu
    simp [fitObj, atEntry, f9, f10, hu', t hu]
  · intro m hm
    simp [fitObj, atEntry, ms m hm]
  · intro hm
    rcases mn hm with a | a
    · right; simp [fitObj, atEntry, f8, a]
    · right; simp [fitObj, atEntry, a]
  · intro hc
    simp [fitObj, atEntry, hc, v hc]

/-- … hence by any history of fits of that task type. -/
theorem inv_afterHistory {F : FitFacts} (hF : factsOk F = true) (dv : Derive) (L : Learner) (cfg : Cfg) (c : Bool)
    (hist : List (Data × Rng)) (hc : ∀ h ∈ hist, h.1.isClass = c) :
    Inv dv cfg c (afterHistory F dv L cfg hist) := by
  unfold afterHistory
  suffices H : ∀ o, Inv dv cfg c o → Inv dv cfg c (hist.foldl (fun o h => fitObj F dv L o h.1 h.2) o) from
    H _ (inv_fresh dv cfg c)
  induction hist with
  | nil => intro o ho; exact ho
  | cons h rest ih =>
      intro o ho
      have hh : h.1.isClass = c := hc h (List.mem_cons_self ..)
      have step : Inv dv cfg c (fitObj F dv L o h.1 h.2) := by
        have := inv_fitObj hF dv L (D := h.1) (hh ▸ ho) h.2
        exact hh ▸ this
      exact ih (fun x hx => hc x (List.mem_cons_of_mem _ hx)) _ step

end Xrfmv.FitObj
