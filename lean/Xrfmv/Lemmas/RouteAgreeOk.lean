/- `ok` of the construction follows from the per-node contracts collected in `Consistent` (C08). -/
import Xrfmv.Lemmas.RouteAgree
import Xrfmv.Lemmas.BuildIndexOk

namespace Xrfmv.RouteAgree
open Xrfmv.BuildIndex Xrfmv.Gen.Split Xrfmv.Gen.Route List

variable {α : Type} [LinearOrder α]

theorem ok_of_consistent (cfg : Cfg) (O : Oracles) (P : ProjOracles α) (hns : cfg.nsplits = none) :
    ∀ (fuel : Nat) (path : List Bool) (idx : List Nat) (isRoot : Bool) (count : Nat),
      idx.length + 1 ≤ fuel → Consistent cfg O P fuel path idx count →
      (build cfg O fuel path idx isRoot count).1.ok = true := by
  intro fuel
  induction fuel with
  | zero => intro path idx isRoot count h; omega
  | succ fuel ih =>
    intro path idx isRoot count hfuel hcons
    simp only [Consistent] at hcons
    simp only [build]
    split
    · split <;> simp [ITree.ok]
    · rename_i hleaf
      rw [if_neg hleaf] at hcons
      obtain ⟨hnode, ⟨o, hov', ho2⟩, hcl, hcr⟩ := hcons
      have hlen := child_lengths idx (O.sortO path idx.length) o hnode.perm (by omega)
      simp only [leftChild, rightChild, hov'] at hcl hcr ⊢
      set li := selectBy (sideMask idx.length (O.sortO path idx.length) (o : Int) .left) idx with hli
      set ri := selectBy (sideMask idx.length (O.sortO path idx.length) (o : Int) .right) idx with hri
      have hl1 : li.length = (idx.length - o + 1) / 2 + o := by rw [hlen.1]; omega
      have hr1 : ri.length = idx.length - (idx.length - o + 1) / 2 := hlen.2
      have hlne : li ≠ [] := by intro h; rw [h] at hl1; simp at hl1; omega
      have hrne : ri ≠ [] := by intro h; rw [h] at hr1; simp at hr1; omega
      have hcond : ¬ (idx.length = 0 ∨ li = [] ∨ ri = []) := by
        rintro (h | h | h)
        · omega
        · exact hlne h
        · exact hrne h
      rw [if_neg hcond]
      have h1 := ih (path ++ [false]) li false (count + 1) (by omega) (by simpa using hcl)
      have h2 := ih (path ++ [true]) ri false
        (build cfg O fuel (path ++ [false]) li false (count + 1)).2 (by omega) (by simpa using hcr)
      simp only [ITree.ok, Bool.not_true, Bool.and_eq_true]
      exact ⟨h1, h2⟩

end Xrfmv.RouteAgree
