import Xrfmv.Drv.C02

def main : IO Unit := Xrfmv.Drv.runDriver Xrfmv.Drv.C02.ops
