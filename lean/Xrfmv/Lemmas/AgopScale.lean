/-
Scale behaviour of the AGOP step (towards C19's `AgopScaleCovariant` contract): if every gradient row is multiplied by a
common factor `a ≠ 0` (what rescaling inputs and bandwidth by `c` does to the gradients: `a = 1/c`, see C04), the AGOP is
multiplied by `a²` and the max-normalised AGOP is unchanged.
-/
import Xrfmv.Lemmas.Agop

namespace Xrfmv.Agop
open Xrfmv.Grad (vsum)

theorem vsum_map_mul_left (a : ℝ) (f : List ℝ → ℝ) : ∀ (G : List (List ℝ)),
    vsum (G.map fun g => a * f g) = a * vsum (G.map f)
  | [] => by simp [Xrfmv.Grad.vsum]
  | g :: G => by
    simp only [List.map_cons, Xrfmv.Grad.vsum_cons, vsum_map_mul_left a f G]
    ring

/-- Entries of the AGOP of rescaled gradient rows. -/
theorem agopFull_scale (d : ℕ) (G : List (List ℝ)) (a : ℝ) :
    agopFull d (G.map fun g => g.map (a * ·)) = (agopFull d G).map fun r => r.map ((a * a) * ·) := by
  simp only [agopFull, List.map_map]
  apply List.map_congr_left
  intro i _
  simp only [Function.comp_def, List.map_map]
  apply List.map_congr_left
  intro j _
  rw [← vsum_map_mul_left (a * a) (fun g => g.getD i 0 * g.getD j 0) G]
  congr 1
  apply List.map_congr_left
  intro g _
  have h : ∀ k, (g.map (a * ·)).getD k 0 = a * g.getD k 0 := by
    intro k
    simp only [List.getD_eq_getElem?_getD, List.getElem?_map]
    cases g[k]? <;> simp
  rw [h i, h j]
  ring

theorem maxList_scale (b : ℝ) (hb : 0 < b) : ∀ (l : List ℝ), maxList (l.map (b * ·)) = b * maxList l
  | [] => by simp [maxList]
  | [x] => by simp [maxList]
  | x :: y :: l => by
    have ih := maxList_scale b hb (y :: l)
    simp only [List.map_cons] at ih ⊢
    rw [maxList_cons_cons, maxList_cons_cons, ih]
    by_cases h : maxList (y :: l) < x
    · have : b * maxList (y :: l) < b * x := by nlinarith
      simp [h, this]
    · have : ¬ b * maxList (y :: l) < b * x := by
        intro hc; exact h (by nlinarith)
      simp [h, this]

/-- **Normalised AGOP is scale free**: multiplying every gradient row by `a ≠ 0` leaves `M / max M` unchanged. -/
theorem normalised_agop_scale_invariant (d : ℕ) (G : List (List ℝ)) (a : ℝ) (ha : a ≠ 0) :
    normalise 0 (agopFull d (G.map fun g => g.map (a * ·))) = normalise 0 (agopFull d G) := by
  rw [agopFull_scale]
  have hb : 0 < a * a := mul_self_pos.mpr ha
  simp only [normalise, add_zero, maxEntry, List.map_map]
  have hflat : (List.map (fun r => List.map (fun x => a * a * x) r) (agopFull d G)).flatten =
      (agopFull d G).flatten.map (a * a * ·) := by
    rw [List.map_flatten]
  rw [hflat, maxList_scale (a * a) hb]
  apply List.map_congr_left
  intro r _
  simp only [Function.comp_def, List.map_map]
  apply List.map_congr_left
  intro x _
  by_cases hm : maxList (agopFull d G).flatten = 0
  · simp [hm]
  · field_simp

end Xrfmv.Agop
