"""
C16 — tuning metrics are correct and their optimisation direction is truthful.

Proof: lean/Xrfmv/Props/C16.lean (perfect predictions optimal for every metric; `direction_table` over the
regenerated Gen.Metrics.flags).
Correspondence: the real `Metric.from_name(name).compute(...)` (torch tensors, float64 and float32) versus the
Lean model (driver op `metric`: mse/mae/brier/accuracy/f1/auc evaluated EXACTLY over rationals on the very same
floats, rmse/logloss at Float) under a computed rounding allowance; runtime class attributes versus the
regenerated Gen.Metrics tables.
Property oracle, evaluated directly on the implementation (independent of the Lean model):
  * value = an independent textbook computation in numpy (float64),
  * predictions identical to the targets score at least as well as the generated predictions in the direction
    the real class declares (`should_maximize`).
"""
import itertools
import warnings
from fractions import Fraction

from harness import core

MOD = 'harness.props.c16'
REG = ['mse', 'rmse', 'mae']
CLS = ['accuracy', 'brier', 'logloss', 'f1', 'auc']
EPS = {'float64': 2.0 ** -52, 'float32': 2.0 ** -23}
TINY = 1e-300
PMIN = 2e-6   # generated probability entries are >= PMIN before normalisation, hence >= 1e-6 after it


# ------------------------------------------------------------------------------------------------
# case construction (deterministic from the params)
# ------------------------------------------------------------------------------------------------
def build_reg(p):
    import numpy as np
    if 'y' in p:
        y, q = np.array(p['y'], dtype=np.float64), np.array(p['pred'], dtype=np.float64)
    else:
        g = np.random.default_rng(p['seed'])
        n, k, sc = p['n'], p['k'], p['scale']
        if p.get('integer'):
            y = g.integers(-3, 4, size=(n, k)).astype(np.float64) * sc
        else:
            y = g.standard_normal((n, k)) * sc
        kind = p['pred']
        if kind == 'perfect':
            q = y.copy()
        elif kind == 'random':
            q = y + g.standard_normal((n, k)) * sc * p.get('noise', 1.0)
        elif kind == 'near':
            q = y * (1 + 1e-7) + sc * 1e-9
        elif kind == 'const-mean':
            q = np.broadcast_to(y.mean(axis=0, keepdims=True), y.shape).copy()
        elif kind == 'const-zero':
            q = np.zeros_like(y)
        elif kind == 'anti':
            q = -y
        elif kind == 'offset':
            q = y + 1e3 * sc
        elif kind == 'outlier':
            q = y.copy()
            q[g.integers(0, n), g.integers(0, k)] += 1e4 * sc
        elif kind == 'permuted':
            q = y[g.permutation(n)]
        elif kind == 'swapped-columns':
            q = y[:, ::-1].copy()
        elif kind == 'one-row-off':
            q = y.copy()
            q[0] = q[0] + sc
        elif kind == 'tail-off':       # errors concentrated in the last rows (a mean of block means differs)
            q = y.copy()
            m = max(1, n // 7)
            q[n - m:] += sc * (1.0 + g.random((m, k)))
        else:
            raise ValueError(kind)
    dt = np.float32 if p['dtype'] == 'float32' else np.float64
    return y.astype(dt), q.astype(dt)


def labels_all_present(g, n, K, imbalance):
    import numpy as np
    w = np.ones(K) if not imbalance else g.dirichlet(np.ones(K) * 0.4) + 1e-3
    extra = g.choice(K, size=n - K, p=w / w.sum())
    y = np.concatenate([np.arange(K), extra])
    g.shuffle(y)
    return y.astype(np.int64)


def normalise(P):
    import numpy as np
    P = np.maximum(P, PMIN)
    return P / P.sum(axis=1, keepdims=True)


def build_cls(p):
    import numpy as np
    if 'y' in p:
        y = np.array(p['y'], dtype=np.int64)
        P = np.array(p['proba'], dtype=np.float64)
        K = P.shape[1]
    else:
        g = np.random.default_rng(p['seed'])
        n, K = p['n'], p['K']
        y = labels_all_present(g, n, K, p.get('imbalance', False))
        onehot = np.eye(K)[y]
        kind = p['pred']
        if kind == 'perfect':
            P = onehot.copy()
        elif kind == 'perfect-soft':
            P = normalise(onehot * 1.0)
        elif kind == 'random':
            z = g.standard_normal((n, K)) * p.get('temp', 1.0)
            P = normalise(np.exp(z - z.max(axis=1, keepdims=True)))
        elif kind == 'informative':
            z = g.standard_normal((n, K)) + onehot * p.get('temp', 1.0)
            P = normalise(np.exp(z - z.max(axis=1, keepdims=True)))
        elif kind == 'uniform':
            P = np.full((n, K), 1.0 / K)
        elif kind == 'prior':
            P = np.broadcast_to(np.bincount(y, minlength=K) / n, (n, K)).copy()
        elif kind == 'always-one-class':
            c = int(g.integers(0, K))
            P = normalise(np.broadcast_to(np.eye(K)[c], (n, K)).copy())
        elif kind == 'confident-wrong':
            P = normalise(np.eye(K)[(y + 1 + g.integers(0, K - 1, size=n)) % K])
        elif kind == 'shifted':
            P = normalise(np.eye(K)[(y + 1) % K] * 0.9 + 0.1 / K)
        elif kind == 'quantised':      # many exact ties between rows and inside rows
            z = g.integers(1, 4, size=(n, K)).astype(np.float64)
            P = z / z.sum(axis=1, keepdims=True)
        elif kind == 'row-ties':       # the two largest entries of every row are equal
            z = g.integers(1, 3, size=(n, K)).astype(np.float64)
            z[np.arange(n), y] = 3.0
            z[np.arange(n), (y + 1) % K] = 3.0
            P = z / z.sum(axis=1, keepdims=True)
        elif kind == 'anti':           # the true class gets the smallest probability
            z = g.random((n, K)) + 1.0
            z[np.arange(n), y] = 0.5 * g.random(n)
            P = normalise(z)
        elif kind == 'ulp-ties':       # differences of one ulp around 1/K
            P = np.full((n, K), 1.0 / K)
            P[np.arange(n), g.integers(0, K, size=n)] = np.nextafter(1.0 / K, 1.0)
        elif kind == 'tail-wrong':     # good predictions first, confidently wrong ones in the last rows
            z = g.standard_normal((n, K)) + onehot * 4.0
            m = max(1, n // 7)
            z[n - m:] = g.standard_normal((m, K)) + np.eye(K)[(y[n - m:] + 1) % K] * 4.0
            P = normalise(np.exp(z - z.max(axis=1, keepdims=True)))
        elif kind == 'unnormalised':   # not a distribution (only metrics that do not insist are run)
            P = np.maximum(g.random((n, K)) * p.get('temp', 1.0), PMIN)
            P = np.minimum(P, 1.0)
        else:
            raise ValueError(kind)
    dt = np.float32 if p['dtype'] == 'float32' else np.float64
    P = P.astype(dt)
    perfect = np.eye(K, dtype=dt)[y]
    return y, P, perfect


# ------------------------------------------------------------------------------------------------
# independent textbook definitions (numpy, float64)
# ------------------------------------------------------------------------------------------------
def textbook(name, y, q):
    import numpy as np
    if name in REG:
        y, q = y.astype(np.float64), q.astype(np.float64)
        if name == 'mse':
            return float(np.mean((y - q) ** 2))
        if name == 'rmse':
            return float(np.sqrt(np.mean((y - q) ** 2)))
        return float(np.mean(np.abs(y - q)))
    P = q.astype(np.float64)
    n, K = P.shape
    if name == 'accuracy':
        return float(np.sum(np.argmax(P, axis=1) == y)) / n
    if name == 'brier':   # the convention the code documents: mean over samples x classes
        return float(np.sum((np.eye(K)[y] - P) ** 2) / (n * K))
    if name == 'logloss':
        return float(-np.mean(np.log(P[np.arange(n), y])))
    if name == 'f1':
        h = np.argmax(P, axis=1)

        def f(c):
            tp = int(np.sum((y == c) & (h == c)))
            fp = int(np.sum((y != c) & (h == c)))
            fn = int(np.sum((y == c) & (h != c)))
            return 0.0 if 2 * tp + fp + fn == 0 else 2 * tp / (2 * tp + fp + fn)
        return f(1) if K == 2 else sum(f(c) for c in range(K)) / K
    if name == 'auc':
        def a(c):
            pos, neg = P[y == c, c], P[y != c, c]
            gt = np.sum(pos[:, None] > neg[None, :])
            eq = np.sum(pos[:, None] == neg[None, :])
            return (float(gt) + 0.5 * float(eq)) / (len(pos) * len(neg))
        return a(1) if K == 2 else sum(a(c) for c in range(K)) / K
    raise ValueError(name)


def allowance(name, value, n_entries, n_rows, dtype):
    """Rounding allowance of the implementation's value around the exact one (DESIGN 4.3): sums of
    non-negative terms computed in `dtype` -> relative (N+8) eps; accuracy is a float32 division;
    f1/auc are float64 arithmetic on integer counts; log-loss adds sklearn's clip of 1 to 1-eps."""
    e = EPS[dtype]
    v = abs(value)
    if name in ('mse', 'mae', 'brier', 'rmse'):
        return (n_entries + 8) * e * v + TINY
    if name == 'accuracy':
        return 2 * EPS['float32'] * v + TINY
    if name == 'f1':
        return 16 * EPS['float64']
    if name == 'auc':
        return 4 * (n_rows + 16) * EPS['float64']
    if name == 'logloss':
        return e * ((n_rows + 8) * v + 4)
    raise ValueError(name)


# ------------------------------------------------------------------------------------------------
def impl_value(name, kw):
    from xrfm.rfm_src.metrics import Metric
    return float(Metric.from_name(name).compute(**kw))


def run_case(drv, p):
    import numpy as np
    import torch
    from xrfm.rfm_src.metrics import Metric
    res = {'family': p['family'], 'params': p, 'disagreements': [], 'failures': [], 'dist': {}}
    dtype = p['dtype']
    if p['kind'] == 'reg':
        y, q = build_reg(p)
        perfect = y
        names = REG
        n_rows, n_entries = y.shape[0], y.size
        tk = lambda a: {'y_true_reg': torch.from_numpy(y.copy()), 'y_pred': torch.from_numpy(np.ascontiguousarray(a))}
        dk = lambda a: {'y_true_reg': core.fl(y.astype(np.float64)), 'y_pred': core.fl(a.astype(np.float64))}
        in_quantifier = lambda name: True
    else:
        y, q, perfect = build_cls(p)
        names = [m for m in CLS if m not in p.get('skip', [])]
        n_rows, n_entries = q.shape[0], q.size
        K = q.shape[1]
        tk = lambda a: {'y_true_class': torch.from_numpy(y.copy()), 'y_pred_proba': torch.from_numpy(np.ascontiguousarray(a))}
        dk = lambda a: {'y_true_class': [int(c) for c in y], 'y_pred_proba': core.fl(a.astype(np.float64))}
        all_present = len(set(y.tolist())) == K
        # AUC with an absent class is outside the property (sklearn raises); model must reject it too
        in_quantifier = lambda name: all_present or name != 'auc'
    vals = {}
    for name in names:
        try:
            maximize = bool(Metric.from_name(name).should_maximize)
        except Exception as e:
            res['failures'].append({'signature': f'C16:raises:{type(e).__name__}', 'detail': f'from_name({name}): {e}'[:300]})
            continue
        m = drv.ask(dict({'op': 'metric', 'name': name}, **dk(q)))
        try:
            v = impl_value(name, tk(q))
        except Exception as e:
            if in_quantifier(name):
                res['failures'].append({'signature': f'C16:raises:{type(e).__name__}',
                                        'detail': f'{name}.compute raised {type(e).__name__}: {e}'[:300]})
            elif 'error' not in m:
                res['disagreements'].append({'detail': f'{name}: implementation raises {type(e).__name__}, model answers {m}'})
            continue
        # one metric object that has scored another data set of the same shape before (equally sized folds, validation then
        # test set): the value is a function of the inputs of this call alone
        if in_quantifier(name):
            try:
                mo = Metric.from_name(name)
                if p['kind'] == 'reg':
                    mo.compute(y_true_reg=torch.from_numpy(np.ascontiguousarray(y[::-1].copy())), y_pred=torch.from_numpy(np.ascontiguousarray(q[::-1].copy())))
                else:
                    yd = ((y.astype(np.int64) + 1) % K).astype(y.dtype)      # every label changed, same shape, same class set
                    mo.compute(y_true_class=torch.from_numpy(yd), y_pred_proba=torch.from_numpy(np.ascontiguousarray(q)))
                v2 = float(mo.compute(**tk(q)))
                if not (v2 == v or (v2 != v2 and v != v)):
                    res['failures'].append({'signature': f'C16:object-history:{name}',
                                            'detail': f'{name}: a metric object that scored another data set of the same shape before returns {v2!r}, '
                                                      f'a fresh object {v!r}'})
            except Exception as e:
                res['failures'].append({'signature': f'C16:raises:{type(e).__name__}', 'detail': f'{name}.compute on a re-used metric object: {e}'[:300]})
        if not in_quantifier(name):   # sklearn >= 1.9 answers NaN (older versions raise) when a class is absent
            if ('error' in m) != (v != v):
                res['disagreements'].append({'detail': f'{name}: model answers {m}, implementation returns {v}'})
            continue
        # ---- property oracle 1: value = textbook definition ---------------------------------------
        t = textbook(name, y, q)
        al = allowance(name, t, n_entries, n_rows, dtype)
        if not (abs(v - t) <= al + allowance(name, t, n_entries, n_rows, 'float64')):
            res['failures'].append({'signature': f'C16:value:{name}',
                                    'detail': f'{name} ({dtype}) returns {v!r}, textbook value {t!r}, allowance {al:.3g}'})
        # ---- property oracle 2: perfect predictions are optimal in the DECLARED direction ------------
        try:
            vp = impl_value(name, tk(perfect))
            tol = al + allowance(name, vp, n_entries, n_rows, dtype)
            worse = (vp < v - tol) if maximize else (vp > v + tol)
            if worse or vp != vp or v != v:
                res['failures'].append({'signature': f'C16:direction:{name}',
                                        'detail': f'{name}.should_maximize={maximize} but predictions identical to the '
                                                  f'targets score {vp!r} and the generated predictions {v!r}'})
        except Exception as e:
            res['failures'].append({'signature': f'C16:raises:{type(e).__name__}',
                                    'detail': f'{name}.compute on perfect predictions: {e}'[:300]})
            vp = None
        # ---- correspondence with the Lean model ---------------------------------------------------
        if 'error' in m:
            res['disagreements'].append({'detail': f'{name}: model rejects the case: {m["error"]}'})
        else:
            if name in ('rmse', 'logloss'):
                mv = core.b2f(m['f'])
            else:
                mv = Fraction(int(m['num']), int(m['den']))
            alm = allowance(name, float(mv), n_entries, n_rows, dtype)
            diff = abs(Fraction(v) - mv) if isinstance(mv, Fraction) else abs(v - mv)
            if not (diff <= alm):
                res['disagreements'].append({'detail': f'{name} ({dtype}): implementation {v!r}, model {float(mv)!r}, '
                                                       f'|diff| {float(diff):.3g} > allowance {alm:.3g}'})
            if name == 'rmse':   # rmse = sqrt(mse): the exact mse returned alongside must square back
                ms = float(Fraction(int(m['num']), int(m['den'])))
                if not (abs(v * v - ms) <= 2 * alm * max(v, 1e-150) + 4 * EPS[dtype] * ms + TINY):
                    res['disagreements'].append({'detail': f'rmse² {v * v!r} vs exact mse {ms!r}'})
        vals[name] = {'impl': v, 'perfect': vp, 'textbook': t, 'maximize': maximize}
    trivial = all(x['impl'] == x['perfect'] for x in vals.values()) if vals else True
    res['nontrivial'] = None if trivial else [p.get('seed'), p.get('y'), p.get('pred'), p.get('proba'), dtype, p['family'],
                                               p.get('n'), p.get('K'), p.get('k')]
    res['dist'] = {'kind': p['kind'], 'dtype': dtype, 'pred': p.get('pred', 'grid'),
                   'classes_or_outputs': (q.shape[1]), 'rows': ('1-5' if n_rows <= 5 else '6-20' if n_rows <= 20 else '21-100' if n_rows <= 100 else '8193+'),
                   'metric_evaluations': len(vals)}
    res['sample'] = {'params': {k: v for k, v in p.items() if k not in ('y', 'proba')} if n_rows > 8 else p, 'values': vals}
    return res


def run_error_case(drv, p):
    """Inputs the real code rejects: the model must reject them too (never default)."""
    import numpy as np
    import torch
    res = {'family': p['family'], 'params': p, 'disagreements': [], 'failures': [], 'nontrivial': [p['what'], p['name']],
           'dist': {'kind': 'rejects', 'what': p['what']}}
    name = p['name']
    if p['what'] == 'missing-quantity':
        y = np.array([[0.5], [1.5]])
        if name in REG:
            kw, dkw = {'y_true_reg': torch.from_numpy(y)}, {'y_true_reg': core.fl(y)}
        else:
            kw, dkw = {'y_pred_proba': torch.tensor([[0.5, 0.5], [0.25, 0.75]], dtype=torch.float64)}, \
                      {'y_pred_proba': core.fl([[0.5, 0.5], [0.25, 0.75]])}
    elif p['what'] == 'unknown-name':
        kw, dkw = {}, {}
    else:
        raise ValueError(p['what'])
    try:
        v = impl_value(name, kw)
        raised = None
    except (ValueError, KeyError) as e:
        raised = type(e).__name__
        v = None
    m = drv.ask(dict({'op': 'metric', 'name': name}, **dkw))
    if (raised is None) != ('error' not in m):
        res['disagreements'].append({'detail': f'{p["what"]} {name}: implementation {"raises " + raised if raised else v}, model {m}'})
    res['sample'] = {'params': p, 'impl': raised or v, 'model': m}
    return res


def run_tables(drv, p):
    """Runtime class attributes versus the regenerated Gen.Metrics tables (translator tie)."""
    from xrfm.rfm_src.metrics import Metric
    res = {'family': p['family'], 'params': p, 'disagreements': [], 'failures': [], 'nontrivial': 'tables',
           'dist': {'kind': 'tables'}}
    t = drv.ask({'op': 'tables'})
    seen = {}
    for name in REG + CLS:
        try:
            m = Metric.from_name(name)
        except Exception as e:
            res['failures'].append({'signature': f'C16:raises:{type(e).__name__}', 'detail': f'from_name({name!r}): {e}'[:300]})
            continue
        seen[name] = {'class': type(m).__name__, 'should_maximize': m.should_maximize,
                      'required': list(m.required_quantities), 'task_types': list(m.task_types)}
        if m.name != name:
            res['failures'].append({'signature': f'C16:lookup:{name}', 'detail': f'from_name({name!r}) returns metric {m.name!r}'})
        if t['flags'].get(name) is not m.should_maximize or t['shouldMaximize'].get(name) is not m.should_maximize:
            res['disagreements'].append({'detail': f'{name}: Gen.Metrics.flags says {t["flags"].get(name)}, runtime '
                                                   f'should_maximize is {m.should_maximize!r}'})
        if t['required'].get(name) != list(m.required_quantities):
            res['disagreements'].append({'detail': f'{name}: required {t["required"].get(name)} vs runtime {m.required_quantities}'})
        if t['taskTypes'].get(name) != list(m.task_types):
            res['disagreements'].append({'detail': f'{name}: task_types {t["taskTypes"].get(name)} vs runtime {m.task_types}'})
        if t['classes'].get(type(m).__name__) != name:
            res['disagreements'].append({'detail': f'{name}: class {type(m).__name__} not mapped to it in Gen.Metrics.classes'})
    res['sample'] = {'runtime': seen, 'gen': t}
    return res


def execute(chunk):
    warnings.filterwarnings('ignore')
    drv = core.Driver('C16')
    out = []
    try:
        for p in chunk['cases']:
            if p['kind'] == 'rejects':
                out.append(run_error_case(drv, p))
            elif p['kind'] == 'tables':
                out.append(run_tables(drv, p))
            else:
                out.append(run_case(drv, p))
    finally:
        drv.close()
    return out


# ------------------------------------------------------------------------------------------------
REG_PREDS = ['random', 'random', 'perfect', 'near', 'const-mean', 'const-zero', 'anti', 'offset', 'outlier', 'permuted',
             'swapped-columns', 'one-row-off']
CLS_PREDS = ['random', 'random', 'informative', 'informative', 'perfect', 'perfect-soft', 'uniform', 'prior',
             'always-one-class', 'confident-wrong', 'shifted', 'quantised', 'row-ties', 'anti', 'ulp-ties']


def exhaustive_cases(max_len, grid):
    """ALL label vectors over {0,1} of length 1..max_len x ALL assignments of rows [1-p, p], p in grid."""
    cases = []
    for n in range(1, max_len + 1):
        for y in itertools.product([0, 1], repeat=n):
            for ps in itertools.product(grid, repeat=n):
                cases.append(dict(family='exhaustive-binary', kind='cls', dtype='float64', y=list(y),
                                  proba=[[1.0 - a, a] for a in ps]))
    return cases


def gen_cases(run):
    r = run.rng
    quick = run.tier == 'quick'
    cases = [dict(family='tables', kind='tables')]
    for name in REG + CLS:
        cases.append(dict(family='rejected-inputs', kind='rejects', what='missing-quantity', name=name))
    cases.append(dict(family='rejected-inputs', kind='rejects', what='unknown-name', name='no_such_metric'))
    # exhaustive part
    grid = [0.25, 0.5, 0.75] if quick else [1e-6, 0.25, 0.5, 0.75]
    cases += exhaustive_cases(5, grid)
    run.extra['exhaustive_grid'] = grid
    run.extra['exhaustive_max_len'] = 5
    # regression: 1..3 outputs
    n_reg = 300 if quick else 4000
    for i in range(n_reg):
        dtype = 'float64' if r.random() < 0.6 else 'float32'
        big = r.random() < 0.08
        scale = (r.choice([1e-30, 1e100]) if dtype == 'float64' else r.choice([1e-6, 1e12])) if big \
            else r.choice([1e-3, 1.0, 1.0, 1e3, 1e6])
        cases.append(dict(family='regression', kind='reg', dtype=dtype, n=r.choice([1, 2, 3, 5, 8, 17, 40, 64]),
                          k=r.randint(1, 3), scale=scale, integer=r.random() < 0.25, noise=r.choice([1e-3, 0.3, 1.0, 10.0]),
                          pred=REG_PREDS[i % len(REG_PREDS)], seed=r.randint(0, 2 ** 31)))
    # classification: 2..5 classes, all present
    n_cls = 600 if quick else 8000
    for i in range(n_cls):
        K = r.randint(2, 5)
        cases.append(dict(family='classification', kind='cls', dtype='float64' if r.random() < 0.6 else 'float32', K=K,
                          n=K + r.choice([0, 1, 2, 5, 11, 30, 55]), imbalance=r.random() < 0.4,
                          temp=r.choice([0.3, 1.0, 3.0, 8.0]), pred=CLS_PREDS[i % len(CLS_PREDS)], seed=r.randint(0, 2 ** 31)))
    # many rows, errors unevenly spread over the row order (an average of per-block averages is not the average)
    for i in range(3 if quick else 16):
        K = r.randint(2, 4)
        cases.append(dict(family='many-rows', kind='cls', dtype='float64' if i % 2 == 0 else 'float32', K=K,
                          n=r.choice([8193, 9000, 12289, 20001, 30011]), imbalance=r.random() < 0.4,
                          pred='tail-wrong' if i % 4 != 3 else 'informative', temp=1.0, skip=['auc'],
                          seed=r.randint(0, 2 ** 31)))
    for i in range(2 if quick else 10):
        cases.append(dict(family='many-rows', kind='reg', dtype='float64' if i % 2 == 0 else 'float32',
                          n=r.choice([8193, 9000, 12289, 20001, 30011]), k=r.randint(1, 2), scale=r.choice([1e-3, 1.0, 1e3]),
                          integer=False, noise=1.0, pred='tail-off' if i % 3 != 2 else 'random', seed=r.randint(0, 2 ** 31)))
    # rows that are not distributions: only the metrics that accept any scores
    for i in range(40 if quick else 500):
        K = r.randint(2, 5)
        cases.append(dict(family='unnormalised-scores', kind='cls', dtype='float64' if i % 2 else 'float32', K=K,
                          n=K + r.choice([0, 3, 20]), temp=r.choice([1.0, 0.2]), pred='unnormalised',
                          skip=['logloss', 'auc'], seed=r.randint(0, 2 ** 31)))
    return cases


def check(run):
    run.rule = ('real Metric.from_name(name).compute on torch tensors (float64 and float32) for the eight built-in metrics: '
                'random / informative / perfect / constant / adversarial (anti, confident-wrong, tie-laden, outlier, '
                'permuted) predictions, and 8193..30011 rows with the errors concentrated in the last rows (AUC not run there), 1..3 outputs or 2..5 classes all present, entries >= 1e-6; EXHAUSTIVE: every label '
                'vector over {0,1} of length <= 5 x every assignment of rows [1-p,p], p in {.25,.5,.75} (thorough: also '
                '1e-6); an evaluation = one (targets, predictions) pair scored by every applicable metric; it is '
                'non-trivial when the predictions do not score like the targets themselves')
    run.assumptions = ['probability entries >= 1e-6 (log-loss clipping below is implementation-defined); one-hot rows only as '
                       'the perfect predictions',
                       'every class present in the targets (sklearn AUC raises otherwise; checked that the model rejects too)',
                       'finite values whose squares are representable in the dtype (overflow is a rounding matter)',
                       'Brier is the convention the code documents: mean over samples x classes',
                       'floating-point rounding is absorbed by a computed allowance, not proved']
    run.trusted = ['sklearn roc_auc_score / f1_score / log_loss and torch reductions are modelled (exact definitions), '
                   'not verified; compared on every generated case']
    run.lean()
    cases = gen_cases(run)
    run.extra['exhaustive'] = True
    run.extra['exhaustive_part'] = ('family exhaustive-binary: all label vectors over {0,1} of length 1..%d x all row '
                                    'assignments from the probability grid' % run.extra['exhaustive_max_len'])
    run.extra['allowances'] = {'mse/mae/brier/rmse': '(entries+8)*eps(dtype)*|value|', 'accuracy': '2*eps32*|value|',
                               'f1': '16*eps64', 'auc': '4*(rows+16)*eps64', 'logloss': 'eps(dtype)*((rows+8)*|value|+4)'}
    if run.driver_ok:
        big = [c for c in cases if c['family'] == 'many-rows']
        cases = [c for c in cases if c['family'] != 'many-rows']
        head, rest = cases[:10], cases[10:]
        run.rng.shuffle(rest)
        results = core.pmap(MOD, [{'cases': [c]} for c in big] + [{'cases': c} for c in core.chunks(head + rest, 64)])
        run.absorb('c16', results)
        run.extra['metric_evaluations'] = sum(int(k) * v for k, v in run.dist.get('metric_evaluations', {}).items())


def replay(run, payload):
    run.lean()
    results = core.pmap(MOD, [{'cases': [payload['params']]}], workers=1)
    run.absorb('replay', results)
