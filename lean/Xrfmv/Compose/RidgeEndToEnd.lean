/-
Composition across properties (built by `./check --setup` with the rest of the library; no property check depends on it, so that
a change which breaks one property is not reported under another one's name).

C02 ∘ C05: the ridge system end to end over the regenerated code of both the kernel matrix and the solver.
-/
import Xrfmv.Props.C02
import Xrfmv.Props.C05

namespace Xrfmv.Compose
open Xrfmv Xrfmv.Kernel Xrfmv.Props.C02 Matrix

open Xrfmv.Kernel in
/-- The Gram matrix `self.kernel(centers, centers)` as the *regenerated* chain of tensor operations of the kernel class computes it
(`Gen.KernelOps`, C05). -/
noncomputable def gramGen (K : Spec ℝ) (T : Transform ℝ) {d k : ℕ} (xs : Fin k → Fin d → ℝ) : Matrix (Fin k) (Fin k) ℝ :=
  Matrix.of fun i j => KernelOps.genEntry K T (List.ofFn (xs i)) (List.ofFn (xs j))

open Xrfmv.Kernel in
/-- **C02 end to end over the regenerated code (Lp/Lq Laplace family).**  Take the kernel matrix as the regenerated chain of
`_get_kernel_matrix_impl` computes it and the solver plan as regenerated from `fit_predictor_lstsq`; model `torch.linalg` as an
exact solve (`hsol`).  Then for every centers (repeated ones included), transform, `0 < q ≤ p ≤ 2`, `L > 0`, `reg > 0` and targets,
the coefficients every solver branch returns are *the* solution of `(K + reg·I) α = Y` with `K` the closed-form Gram matrix of the
stored centers — there is exactly one, and `solve`, `cholesky` and `lu` return it. -/
theorem gen_fit_predictor_returns_the_ridge_solution_lpq {p q L : ℝ} (hq : 0 < q) (hqp : q ≤ p) (hp2 : p ≤ 2) (hL : 0 < L)
    (T : Transform ℝ) {d k c : ℕ} (xs : Fin k → Fin d → ℝ) (reg : ℝ) (hreg : 0 < reg) (Y : Matrix (Fin k) (Fin c) ℝ)
    (sol : String → Matrix (Fin k) (Fin c) ℝ)
    (hsol : ∀ b ∈ Gen.Ridge.plan.branches, ∀ A R,
      Ridge.systemOf Gen.Ridge.plan b (gramGen (.lpq p q L) T xs) reg Y = some (A, R) → A * sol b.name = R) :
    ∀ b ∈ Gen.Ridge.plan.branches,
      (gram (.lpq p q L) T xs + reg • (1 : Matrix (Fin k) (Fin k) ℝ)) * sol b.name = Y ∧
      ∀ A : Matrix (Fin k) (Fin c) ℝ, (gram (.lpq p q L) T xs + reg • (1 : Matrix (Fin k) (Fin k) ℝ)) * A = Y → A = sol b.name := by
  have hg : gramGen (.lpq p q L) T xs = gram (.lpq p q L) T xs := by
    ext i j
    simp only [gramGen, gram, Matrix.of_apply]
    exact Xrfmv.Props.C05.gen_pipeline_eq_model (.lpq p q L) ⟨hL, hq, lt_of_lt_of_le hq hqp⟩ T _ _ (by intro h; cases h)
  rw [hg] at hsol
  have hK := gram_lpq_posSemidef hq hqp hp2 hL T xs
  intro b hb
  have h := (gen_solvers_return_the_ridge_solution _ hK reg hreg Y sol hsol b hb b hb).1
  exact ⟨h, fun A hA => ridge_unique_matrix _ hK reg hreg A _ Y hA h⟩

end Xrfmv.Compose

#print axioms Xrfmv.Compose.gen_fit_predictor_returns_the_ridge_solution_lpq
