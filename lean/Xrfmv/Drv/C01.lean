/- Driver ops for C01 (none yet). -/
import Xrfmv.Drv.Common

namespace Xrfmv.Drv.C01

def ops : List (String × Handler) := []

end Xrfmv.Drv.C01
