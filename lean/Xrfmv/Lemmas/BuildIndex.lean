/- Helper lemmas for the index-level model of `_build_tree` (`Xrfmv.BuildIndex`). -/
import Xrfmv.Model.BuildIndex
import Mathlib.Data.List.Perm.Basic
import Mathlib.Data.List.Perm.Subperm
import Mathlib.Data.List.Range
import Mathlib.Data.List.Nodup
import Mathlib.Tactic.Linarith

namespace Xrfmv.BuildIndex
open Xrfmv.Gen.Split Xrfmv.Gen.Refill List

variable {α : Type}

/-! ### slices -/

theorem pySlice_some_some (l : List α) (a b : Nat) (hab : a ≤ b) (hb : b ≤ l.length) :
    pySlice l (some (a : Int), some (b : Int)) = (l.drop a).take (b - a) := by
  simp only [pySlice, Option.getD_some]
  have h1 : (max 0 (min (a : Int) (l.length : Int))).toNat = a := by omega
  have h2 : ((max 0 (min (b : Int) (l.length : Int))) - (max 0 (min (a : Int) (l.length : Int)))).toNat = b - a := by omega
  rw [h1, h2]

theorem pySlice_none_some (l : List α) (b : Nat) (hb : b ≤ l.length) :
    pySlice l (none, some (b : Int)) = l.take b := by
  simp only [pySlice, Option.getD_some, Option.getD_none]
  have h1 : (max (0 : Int) (min 0 (l.length : Int))).toNat = 0 := by omega
  have h2 : ((max 0 (min (b : Int) (l.length : Int))) - (max (0 : Int) (min 0 (l.length : Int)))).toNat = b := by omega
  rw [h1, h2]; simp

theorem pySlice_some_none (l : List α) (a : Nat) (ha : a ≤ l.length) :
    pySlice l (some (a : Int), none) = l.drop a := by
  simp only [pySlice, Option.getD_some, Option.getD_none]
  have h1 : (max 0 (min (a : Int) (l.length : Int))).toNat = a := by omega
  have h2 : ((max (0 : Int) (min (l.length : Int) (l.length : Int))) - (max 0 (min (a : Int) (l.length : Int)))).toNat
      = l.length - a := by omega
  rw [h1, h2]
  exact List.take_of_length_le (by simp)

/-! ### boolean-mask indexing -/

theorem selectBy_compl_perm (p : Nat → Bool) (xs : List α) :
    (selectBy p xs ++ selectBy (fun i => !p i) xs).Perm xs := by
  unfold selectBy
  rw [← List.map_append]
  have h := List.filter_append_perm (fun xi : α × Nat => p xi.2) xs.zipIdx
  have h2 := h.map Prod.fst
  simpa using h2

theorem selectBy_congr (p q : Nat → Bool) (xs : List α) (h : ∀ i < xs.length, p i = q i) :
    selectBy p xs = selectBy q xs := by
  unfold selectBy
  congr 1
  apply List.filter_congr
  intro xi hxi
  obtain ⟨x, i⟩ := xi
  have := List.mem_zipIdx hxi
  simp only at this ⊢
  exact h i (by omega)

end Xrfmv.BuildIndex

namespace Xrfmv.BuildIndex
open Xrfmv.Gen.Split Xrfmv.Gen.Refill List

/-- What the regenerated integer code computes, in closed form (proved by `omega`, so any arithmetically equal
rewriting of the source keeps this lemma – and everything built on it – intact). -/
theorem counts_spec (n o : Nat) (ho : o ≤ n) :
    (counts n (o : Int)).leftUnique = (((n - o + 1) / 2 : Nat) : Int) ∧
    (counts n (o : Int)).overlapStart = (((n - o + 1) / 2 : Nat) : Int) ∧
    (counts n (o : Int)).overlapEnd = (((n - o + 1) / 2 + o : Nat) : Int) := by
  simp only [counts]
  omega

/-- The left mask selects the first `lu + o` entries of the sorted index list … -/
theorem maskSel_left (sorted : List Nat) (n o : Nat) (hn : sorted.length = n) (ho : o ≤ n) :
    maskSel n sorted (o : Int) leftMaskParts =
      sorted.take ((n - o + 1) / 2) ++ (sorted.drop ((n - o + 1) / 2)).take o := by
  obtain ⟨h1, h2, h3⟩ := counts_spec n o ho
  simp only [maskSel, leftMaskParts, List.flatMap_cons, List.flatMap_nil, List.append_nil, sliceOf, h1, h2, h3]
  rw [pySlice_none_some sorted _ (by omega), pySlice_some_some sorted _ _ (by omega) (by omega)]
  congr 2
  omega

/-- … and the right mask the last `ru + o` entries (written as the tail after the band, then the band). -/
theorem maskSel_right (sorted : List Nat) (n o : Nat) (hn : sorted.length = n) (ho : o ≤ n) :
    maskSel n sorted (o : Int) rightMaskParts =
      sorted.drop ((n - o + 1) / 2 + o) ++ (sorted.drop ((n - o + 1) / 2)).take o := by
  obtain ⟨h1, h2, h3⟩ := counts_spec n o ho
  simp only [maskSel, rightMaskParts, List.flatMap_cons, List.flatMap_nil, List.append_nil, sliceOf, h1, h2, h3]
  rw [pySlice_some_none sorted _ (by omega), pySlice_some_some sorted _ _ (by omega) (by omega)]
  congr 2
  omega

end Xrfmv.BuildIndex

namespace Xrfmv.BuildIndex
open Xrfmv.Gen.Split Xrfmv.Gen.Refill List

/-- Contract of `torch.sort` / `torch.randperm` as far as the index bookkeeping needs it. -/
def IsPermOfRange (l : List Nat) (n : Nat) : Prop := l.Perm (List.range n)

theorem IsPermOfRange.length {l : List Nat} {n : Nat} (h : IsPermOfRange l n) : l.length = n := by
  have := h.length_eq; simpa using this

theorem IsPermOfRange.nodup {l : List Nat} {n : Nat} (h : IsPermOfRange l n) : l.Nodup :=
  h.nodup_iff.mpr List.nodup_range

theorem IsPermOfRange.mem {l : List Nat} {n : Nat} (h : IsPermOfRange l n) (i : Nat) : i ∈ l ↔ i < n := by
  rw [h.mem_iff]; exact List.mem_range

/-- Every position is selected by the left or by the right mask (any overlap). -/
theorem masks_cover (sorted : List Nat) (n o : Nat) (hs : IsPermOfRange sorted n) (ho : o ≤ n) (i : Nat) (hi : i < n) :
    sideMask n sorted (o : Int) .left i = true ∨ sideMask n sorted (o : Int) .right i = true := by
  have hn := hs.length
  simp only [sideMask, maskSel_left sorted n o hn ho, maskSel_right sorted n o hn ho, List.contains_iff_mem,
    List.mem_append]
  have hmem : i ∈ sorted := (hs.mem i).mpr hi
  have hsplit : sorted = sorted.take ((n - o + 1) / 2) ++
      ((sorted.drop ((n - o + 1) / 2)).take o ++ sorted.drop ((n - o + 1) / 2 + o)) := by
    rw [← List.drop_drop, List.take_append_drop, List.take_append_drop]
  rw [hsplit] at hmem
  simp only [List.mem_append] at hmem
  tauto

/-- With zero overlap the two masks are complementary on `range n`. -/
theorem masks_exclusive (sorted : List Nat) (n : Nat) (hs : IsPermOfRange sorted n) (i : Nat) (hi : i < n) :
    sideMask n sorted 0 .right i = !(sideMask n sorted 0 .left i) := by
  have hn := hs.length
  have hl := maskSel_left sorted n 0 hn (Nat.zero_le n)
  have hr := maskSel_right sorted n 0 hn (Nat.zero_le n)
  simp only [Nat.cast_zero] at hl hr
  simp only [sideMask, hl, hr, List.take_zero, List.append_nil, Nat.add_zero, Nat.sub_zero]
  have hnd : (sorted.take ((n + 1) / 2) ++ sorted.drop ((n + 1) / 2)).Nodup := by
    rw [List.take_append_drop]; exact hs.nodup
  have hdisj := List.disjoint_of_nodup_append hnd
  have hmem : i ∈ sorted.take ((n + 1) / 2) ++ sorted.drop ((n + 1) / 2) := by
    rw [List.take_append_drop]; exact (hs.mem i).mpr hi
  rw [List.mem_append] at hmem
  by_cases h1 : i ∈ sorted.take ((n + 1) / 2)
  · have h2 : i ∉ sorted.drop ((n + 1) / 2) := fun h => hdisj h1 h
    simp [h1, h2]
  · have h2 : i ∈ sorted.drop ((n + 1) / 2) := by tauto
    simp [h1, h2]

/-- **Split partition** (zero overlap): the two children receive a partition of the node's index list. -/
theorem split_perm (idx sorted : List Nat) (hs : IsPermOfRange sorted idx.length) :
    (selectBy (sideMask idx.length sorted 0 .left) idx ++ selectBy (sideMask idx.length sorted 0 .right) idx).Perm idx := by
  have hc : selectBy (sideMask idx.length sorted 0 .right) idx =
      selectBy (fun i => !(sideMask idx.length sorted 0 .left i)) idx :=
    selectBy_congr _ _ idx fun i hi => masks_exclusive sorted idx.length hs i hi
  rw [hc]
  exact selectBy_compl_perm _ idx

theorem mem_selectBy {α : Type} (p : Nat → Bool) (xs : List α) (x : α) :
    x ∈ selectBy p xs ↔ ∃ i, i < xs.length ∧ xs[i]? = some x ∧ p i = true := by
  unfold selectBy
  simp only [List.mem_map, List.mem_filter, Prod.exists, exists_and_right, exists_eq_right]
  constructor
  · rintro ⟨i, hmem, hp⟩
    have h := List.mem_zipIdx hmem
    have hi : i < xs.length := by omega
    refine ⟨i, hi, ?_, hp⟩
    rw [List.getElem?_eq_getElem hi]
    have h3 := h.2.2
    simp only [Nat.sub_zero] at h3
    rw [h3]
  · rintro ⟨i, hi, hget, hp⟩
    refine ⟨i, ?_, hp⟩
    rw [List.mem_zipIdx_iff_getElem?]
    simpa using hget

/-- **Split cover** (any overlap): every index of the node goes to at least one child. -/
theorem split_cover (idx sorted : List Nat) (o : Nat) (hs : IsPermOfRange sorted idx.length) (ho : o ≤ idx.length)
    (x : Nat) (hx : x ∈ idx) :
    x ∈ selectBy (sideMask idx.length sorted (o : Int) .left) idx ∨
    x ∈ selectBy (sideMask idx.length sorted (o : Int) .right) idx := by
  obtain ⟨i, hi, hget⟩ := List.mem_iff_getElem.mp hx
  have hg : idx[i]? = some x := by rw [List.getElem?_eq_getElem hi, hget]
  rcases masks_cover sorted idx.length o hs ho i hi with h | h
  · left; exact (mem_selectBy _ _ _).mpr ⟨i, hi, hg, h⟩
  · right; exact (mem_selectBy _ _ _).mpr ⟨i, hi, hg, h⟩

end Xrfmv.BuildIndex

namespace Xrfmv.BuildIndex
open Xrfmv.Gen.Split Xrfmv.Gen.Refill List

theorem pySlice_prefix {α : Type} (l : List α) (k : Int) :
    pySlice l (none, some k) = l.take (max 0 (min k (l.length : Int))).toNat := by
  simp only [pySlice, Option.getD_some, Option.getD_none]
  have h1 : (max (0 : Int) (min 0 (l.length : Int))).toNat = 0 := by omega
  have h2 : (max 0 (min k (l.length : Int)) - max (0 : Int) (min 0 (l.length : Int))).toNat =
      (max 0 (min k (l.length : Int))).toNat := by omega
  rw [h1, h2]; simp

theorem pySlice_suffix {α : Type} (l : List α) (k : Int) :
    pySlice l (some k, none) = l.drop (max 0 (min k (l.length : Int))).toNat := by
  simp only [pySlice, Option.getD_some, Option.getD_none]
  have h2 : (max (0 : Int) (min (l.length : Int) (l.length : Int)) - max 0 (min k (l.length : Int))).toNat =
      l.length - (max 0 (min k (l.length : Int))).toNat := by omega
  rw [h2]
  exact List.take_of_length_le (by simp)

theorem map_getD_range (idx : List Nat) : (List.range idx.length).map (fun i => idx.getD i 0) = idx := by
  apply List.ext_getElem
  · simp
  · intro i h1 h2
    simp [List.getD_eq_getElem?_getD, List.getElem?_eq_getElem h2]

/-- **Refill partition**: kept centers and moved samples together are exactly the leaf's samples. -/
theorem refill_perm (cfg : Cfg) (O : Oracles) (path : List Bool) (idx : List Nat)
    (hp : IsPermOfRange (O.permO path idx.length) idx.length) :
    ((refill cfg O path idx).1 ++ (refill cfg O path idx).2).Perm idx := by
  unfold refill
  simp only
  split
  · rw [pySlice_prefix, pySlice_suffix, ← List.map_append]
    have h1 : (List.drop (max 0 (min (numValToAdd cfg.minVal (O.nvalO path) (O.frac idx.length))
          ((O.permO path idx.length).length : Int))).toNat (O.permO path idx.length) ++
        List.take (max 0 (min (numValToAdd cfg.minVal (O.nvalO path) (O.frac idx.length))
          ((O.permO path idx.length).length : Int))).toNat (O.permO path idx.length)).Perm
        (O.permO path idx.length) := by
      refine List.perm_append_comm.trans ?_
      rw [List.take_append_drop]
    have h2 := (h1.trans hp).map (fun i => idx.getD i 0)
    rw [map_getD_range] at h2
    exact h2
  · simp

/-- **Moved count**: at most `min(refill_size − routed validation, frac)` samples are moved, none when the
routed validation points already exceed the refill size. -/
theorem refill_moved_le (cfg : Cfg) (O : Oracles) (path : List Bool) (idx : List Nat) :
    ((refill cfg O path idx).2.length : Int) ≤
      max 0 (min ((cfg.minVal : Int) - (O.nvalO path : Int)) (O.frac idx.length)) ∧
    (cfg.minVal < O.nvalO path → (refill cfg O path idx).2 = []) := by
  unfold refill
  simp only
  split
  · rename_i hg
    constructor
    · rw [pySlice_prefix]
      simp only [List.length_map, List.length_take, numValToAdd]
      omega
    · intro hlt
      simp only [refillGuard, decide_eq_true_eq] at hg
      omega
  · simp

end Xrfmv.BuildIndex

namespace Xrfmv.BuildIndex
open Xrfmv.Gen.Split Xrfmv.Gen.Refill List

/-- The oracle contracts: `torch.sort` and `torch.randperm` return permutations of `range n`. -/
structure Contracts (O : Oracles) : Prop where
  sort : ∀ path n, IsPermOfRange (O.sortO path n) n
  perm : ∀ path n, IsPermOfRange (O.permO path n) n

theorem selectBy_sublist {α : Type} (p : Nat → Bool) (xs : List α) : (selectBy p xs).Sublist xs := by
  unfold selectBy
  have h : (xs.zipIdx.filter fun xi => p xi.2).Sublist xs.zipIdx := List.filter_sublist
  have h2 := h.map Prod.fst
  simpa using h2

theorem all_leaf (p : List Bool) (c m : List Nat) : (ITree.leaf p c m).all = c ++ m := by
  simp [ITree.all, ITree.leaves]

theorem all_node (l r : ITree) : (ITree.node l r).all = l.all ++ r.all := by
  simp [ITree.all, ITree.leaves]

/-- **No loss, no duplicate** (zero overlap): the leaves' centers and moved samples together are a
permutation of the samples the node received. -/
theorem build_all_perm (cfg : Cfg) (O : Oracles) (hc : Contracts O) (hz : ∀ n, O.ov n = 0) :
    ∀ (fuel : Nat) (path : List Bool) (idx : List Nat) (isRoot : Bool) (count : Nat),
      (build cfg O fuel path idx isRoot count).1.ok = true →
      (build cfg O fuel path idx isRoot count).1.all.Perm idx := by
  intro fuel
  induction fuel with
  | zero => intro path idx isRoot count h; simp [build, ITree.ok] at h
  | succ fuel ih =>
    intro path idx isRoot count
    simp only [build]
    split
    · split
      · intro _
        rw [all_leaf]
        exact refill_perm cfg O path idx (hc.perm path idx.length)
      · intro _; rw [all_leaf]; simp
    · split
      · intro h; simp [ITree.ok] at h
      · intro hok
        simp only [ITree.ok, Bool.and_eq_true] at hok
        rw [all_node]
        have h1 := ih _ _ _ _ hok.1
        have h2 := ih _ _ _ _ hok.2
        have hs := split_perm idx (O.sortO path idx.length) (hc.sort path idx.length)
        rw [hz]
        simp only [leftChild, rightChild] at h1 h2 ⊢
        rw [hz] at h1 h2
        exact (h1.append h2).trans hs

/-- **At least once** (any overlap band `0 ≤ ov n ≤ n`): every sample the node received is held by some leaf. -/
theorem build_all_cover (cfg : Cfg) (O : Oracles) (hc : Contracts O) (hov : ∀ n, 0 ≤ O.ov n ∧ O.ov n ≤ n) :
    ∀ (fuel : Nat) (path : List Bool) (idx : List Nat) (isRoot : Bool) (count : Nat),
      (build cfg O fuel path idx isRoot count).1.ok = true →
      ∀ x ∈ idx, x ∈ (build cfg O fuel path idx isRoot count).1.all := by
  intro fuel
  induction fuel with
  | zero => intro path idx isRoot count h; simp [build, ITree.ok] at h
  | succ fuel ih =>
    intro path idx isRoot count
    simp only [build]
    split
    · split
      · intro _ x hx
        rw [all_leaf]
        exact (refill_perm cfg O path idx (hc.perm path idx.length)).mem_iff.mpr hx
      · intro _ x hx; rw [all_leaf]; simpa using hx
    · split
      · intro h; simp [ITree.ok] at h
      · intro hok x hx
        simp only [ITree.ok, Bool.and_eq_true] at hok
        rw [all_node, List.mem_append]
        obtain ⟨h0, hn⟩ := hov idx.length
        obtain ⟨o, ho⟩ : ∃ o : Nat, O.ov idx.length = (o : Int) := ⟨(O.ov idx.length).toNat, by omega⟩
        have hon : o ≤ idx.length := by omega
        rcases split_cover idx (O.sortO path idx.length) o (hc.sort path idx.length) hon x hx with h | h
        · left
          refine ih _ _ _ _ hok.1 x ?_
          simpa only [leftChild, ho] using h
        · right
          refine ih _ _ _ _ hok.2 x ?_
          simpa only [rightChild, ho] using h

/-- Each leaf's centers and moved samples are distinct samples (per leaf, any overlap). -/
theorem build_leaf_nodup (cfg : Cfg) (O : Oracles) (hc : Contracts O) :
    ∀ (fuel : Nat) (path : List Bool) (idx : List Nat) (isRoot : Bool) (count : Nat), idx.Nodup →
      ∀ l ∈ (build cfg O fuel path idx isRoot count).1.leaves, (l.2.1 ++ l.2.2).Nodup := by
  intro fuel
  induction fuel with
  | zero => intro path idx isRoot count _ l hl; simp [build, ITree.leaves] at hl
  | succ fuel ih =>
    intro path idx isRoot count hnd l
    simp only [build]
    split
    · split
      · intro hl
        simp only [ITree.leaves, List.mem_singleton] at hl
        subst hl
        exact (refill_perm cfg O path idx (hc.perm path idx.length)).nodup_iff.mpr hnd
      · intro hl
        simp only [ITree.leaves, List.mem_singleton] at hl
        subst hl; simpa using hnd
    · split
      · intro hl; simp [ITree.leaves] at hl
      · intro hl
        simp only [ITree.leaves, List.mem_append] at hl
        rcases hl with hl | hl
        · exact ih _ _ _ _ ((selectBy_sublist _ idx).nodup hnd) l hl
        · exact ih _ _ _ _ ((selectBy_sublist _ idx).nodup hnd) l hl

end Xrfmv.BuildIndex

namespace Xrfmv.BuildIndex
open Xrfmv.Gen.Split Xrfmv.Gen.Refill List

/-- The bound on the number of moved samples, per leaf. -/
def MovedBound (cfg : Cfg) (O : Oracles) (l : List Bool × List Nat × List Nat) : Prop :=
  ((l.2.2.length : Int) ≤
      max 0 (min ((cfg.minVal : Int) - (O.nvalO l.1 : Int)) (O.frac (l.2.1.length + l.2.2.length)))) ∧
  (cfg.minVal < O.nvalO l.1 → l.2.2 = [])

theorem build_moved_bound (cfg : Cfg) (O : Oracles) (hc : Contracts O) :
    ∀ (fuel : Nat) (path : List Bool) (idx : List Nat) (isRoot : Bool) (count : Nat),
      ∀ l ∈ (build cfg O fuel path idx isRoot count).1.leaves, MovedBound cfg O l := by
  intro fuel
  induction fuel with
  | zero => intro path idx isRoot count l hl; simp [build, ITree.leaves] at hl
  | succ fuel ih =>
    intro path idx isRoot count l
    simp only [build]
    split
    · split
      · intro hl
        simp only [ITree.leaves, List.mem_singleton] at hl
        subst hl
        have hlen := (refill_perm cfg O path idx (hc.perm path idx.length)).length_eq
        simp only [List.length_append] at hlen
        have hb := refill_moved_le cfg O path idx
        simp only [MovedBound]
        rw [hlen]
        exact hb
      · intro hl
        simp only [ITree.leaves, List.mem_singleton] at hl
        subst hl
        simp [MovedBound]
    · split
      · intro hl; simp [ITree.leaves] at hl
      · intro hl
        simp only [ITree.leaves, List.mem_append] at hl
        rcases hl with hl | hl
        · exact ih _ _ _ _ l hl
        · exact ih _ _ _ _ l hl

/-- A tree that is a single (root) leaf moves nothing. -/
theorem root_leaf_no_move (cfg : Cfg) (O : Oracles) (fuel : Nat) (idx : List Nat) (count : Nat)
    (hleaf : shouldCreateLeaf idx.length cfg.maxLeaf cfg.nsplits.isNone count (cfg.nsplits.getD 0) = true) :
    (build cfg O (fuel + 1) [] idx true count).1 = .leaf [] idx [] := by
  simp [build, hleaf, refillWhen]

end Xrfmv.BuildIndex
