/-
The regenerated weight programs (`Gen.GradOps`, translated from `LaplaceKernel._get_function_grad_impl` and
`LightLaplaceKernel.get_function_grads`) compute, at `ℝ`, the factor `−(q/L^q)·k·dist^{q−2}` of the closed-form gradient with
the coincidence mask `dist ≥ eps`; hence the gradients assembled from them are those of `Model/Grad.lean`.
-/
import Xrfmv.Model.GradGen
import Xrfmv.Lemmas.Grad

namespace Xrfmv.GradGen
open Xrfmv Xrfmv.Grad Xrfmv.TensorProg Xrfmv.KernelOps

/-- The body shared by the two programs, from a prepared distance `d ≥ 0`:
`exp(d^q·(−1/L^q)) · max(d, eps)^{q−2} · [d ≥ eps] · (−q/L^q)`. -/
theorem body_weight (P : Grad.Params ℝ) (d : ℝ) :
    run (Gen.GradOps.laplaceGrad (toOps P)).body (fun n => if n = "dists" then d else 0) "kernel_mat"
      = if d < P.eps then 0 else l2Factor P d := by
  simp only [Gen.GradOps.laplaceGrad, toOps, run, List.foldl, Stmt.exec, Env.set, Op.apply]
  by_cases h : d < P.eps
  · simp [h]
  · have hmax : max d P.eps = d := max_eq_left (not_lt.1 h)
    simp [h, hmax, l2Factor]
    have he : d ^ P.q * (-1 / P.L ^ P.q) = -d ^ P.q / P.L ^ P.q := by ring
    rw [he]
    ring

theorem lightBody_eq (P : Grad.Params ℝ) :
    (Gen.GradOps.lightGrad (toOps P)).body = (Gen.GradOps.laplaceGrad (toOps P)).body := rfl

theorem weight_laplace (P : Grad.Params ℝ) {d : ℝ} (hd : 0 ≤ d) :
    weight (Gen.GradOps.laplaceGrad (toOps P)) d = if d < P.eps then 0 else l2Factor P d := by
  have hprep : runOps (Gen.GradOps.laplaceGrad (toOps P)).prep d = d := by
    simp [Gen.GradOps.laplaceGrad, runOps, Op.apply, max_eq_left hd]
  unfold weight
  rw [hprep]
  exact body_weight P d

theorem weight_light (P : Grad.Params ℝ) (r : ℝ) :
    weight (Gen.GradOps.lightGrad (toOps P)) r
      = if Real.sqrt (max r 0) < P.eps then 0 else l2Factor P (Real.sqrt (max r 0)) := by
  have hprep : runOps (Gen.GradOps.lightGrad (toOps P)).prep r = Real.sqrt (max r 0) := by
    simp [Gen.GradOps.lightGrad, runOps, Op.apply]
  unfold weight
  rw [hprep, lightBody_eq]
  have hw : (Gen.GradOps.lightGrad (toOps P)).weights = "kernel_mat" := rfl
  rw [hw]
  exact body_weight P _

/-- L2 kernel: the gradient assembled from the regenerated program is the closed-form gradient (mask included). -/
theorem gradL2_eq (P : Grad.Params ℝ) (u v : List ℝ) :
    GradGen.gradL2 P u v = Grad.gradL2 P u v := by
  unfold GradGen.gradL2 Grad.gradL2
  simp only [sqrt_real]
  rw [weight_laplace P (Real.sqrt_nonneg _)]
  by_cases h : Real.sqrt (sqDist u v) < P.eps <;> simp [h]

/-- memory-light kernel, likewise. -/
theorem gradLight_eq (P : Grad.Params ℝ) (M : Grad.Transform ℝ) (x z : List ℝ) :
    GradGen.gradLight P M x z = Grad.gradLight P M x z := by
  unfold GradGen.gradLight Grad.gradLight
  simp only [sqrt_real]
  rw [weight_light P]
  have hr : max (dot (vsub z x) (applyT M (vsub z x))) 0 = lightSq M x z := by
    unfold lightSq
    by_cases h : dot (vsub z x) (applyT M (vsub z x)) < 0
    · simp [h, max_eq_right h.le]
    · simp [h, max_eq_left (not_lt.1 h)]
  rw [hr]
  by_cases h : Real.sqrt (lightSq M x z) < P.eps <;> simp [h]

/-- the whole tensor `get_function_grads` returns -/
theorem fgrad_eq (light : Bool) (P : Grad.Params ℝ) (T : Grad.Transform ℝ)
    (xs zs : List (List ℝ)) (coefs : List (List ℝ)) :
    GradGen.fgrad light P T xs zs coefs = Grad.fgrad (if light then .light else .l2) P T xs zs coefs := by
  have h2 : GradGen.gradL2 P = Grad.gradL2 P := by funext u v; exact gradL2_eq P u v
  have hl : GradGen.gradLight P T = Grad.gradLight P T := by funext x z; exact gradLight_eq P T x z
  have hp : pairGrad Kind.l2 P = Grad.gradL2 P := rfl
  cases light <;> simp [GradGen.fgrad, Grad.fgrad, h2, hl, hp]

end Xrfmv.GradGen
