import Xrfmv.Drv.C13

def main : IO Unit := Xrfmv.Drv.runDriver Xrfmv.Drv.C13.ops
