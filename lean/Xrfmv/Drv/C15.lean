/- Driver ops for C15 (none yet). -/
import Xrfmv.Drv.Common

namespace Xrfmv.Drv.C15

def ops : List (String × Handler) := []

end Xrfmv.Drv.C15
