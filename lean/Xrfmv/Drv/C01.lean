/- Driver ops for C01: the stack traversal / restore on given routing decisions, and the leaf kernel expansion
(kernel values from the C05 model, summed by `HardRoute.kexp`). -/
import Xrfmv.Drv.C05
import Xrfmv.Model.HardRoute

open Lean Xrfmv.Drv

namespace Xrfmv.Drv.C01
open Xrfmv.HardRoute Xrfmv.Kernel

/-- `{"leaf": id}` | `{"node": id, "l": …, "r": …}` -/
partial def parseTree (j : Json) : Except String (Tree Nat Nat) :=
  match j.getObjValAs? Nat "leaf" with
  | .ok id => pure (.leaf id)
  | .error _ => do
    let id ← j.getObjValAs? Nat "node"
    let l ← parseTree (← j.getObjVal? "l")
    let r ← parseTree (← j.getObjVal? "r")
    pure (.node id l r)

/-- `{"op":"groups","tree":…,"n":rows,"left":{nodeId:[bool per row]}}`: runs the stack machine on rows `0..n-1` with
the given goes-left decisions; returns the groups in order, the leaf each row is predicted by after `restore`, and the
recursive routing for comparison. -/
def opGroups : Handler := fun j => do
  let t ← parseTree (← j.getObjVal? "tree")
  let n ← j.getObjValAs? Nat "n"
  let left ← j.getObjVal? "left"
  let goes : Nat → Nat → Bool := fun g x =>
    match left.getObjValAs? (Array Bool) (toString g) with
    | .ok a => a.getD x false
    | .error _ => false
  let xs := List.range n
  let gs := groups goes t xs
  let restored := predictHard goes (fun m _ => m) t xs
  let routed := xs.map (route goes t)
  pure <| Json.mkObj [("groups", toJson (gs.map fun g => (g.2, g.1.map Prod.fst))),
    ("restored", toJson restored), ("routed", toJson routed)]

/-- `{"op":"expansion", <kernel spec as for kernel_matrix>, "transform":…, "x": rows, "z": centers, "alpha":[[bits]]}` →
`out[r][c] = Σ_i alpha[i][c] · k(x_r, z_i)`. -/
def opExpansion : Handler := fun j => do
  let K ← C05.getSpec j
  if !K.accepted then throw "bad-op: parameters rejected by the constructor (AssertionError)"
  let (xs, zs, d) ← C05.getPoints j
  let T ← C05.getTransform j d
  let alpha ← getFss j "alpha"
  if alpha.size != zs.length then throw "bad-op: one coefficient row per center"
  let nout := (alpha.getD 0 #[]).size
  let Km := matrixFast K T xs zs
  let out := Km.map fun krow =>
    (List.range nout).map fun c =>
      kexp (fun (_ : Nat) (i : Nat) => krow.getD i 0.0) (List.range zs.length)
        (alpha.toList.map fun a => a.getD c 0.0) 0
  pure <| Json.mkObj [("out", fssJson (C05.toArr out))]

def ops : List (String × Handler) := C05.ops ++ [("groups", opGroups), ("expansion", opExpansion)]

end Xrfmv.Drv.C01
