/- Driver ops for C14: AGOP accumulation, normalisation and roots (`Model/Agop.lean`) on `Float`;
gradients either given or produced from the closed forms of C04. -/
import Xrfmv.Drv.Common
import Xrfmv.Drv.C04
import Xrfmv.Model.Agop

open Lean Xrfmv.Drv

namespace Xrfmv.Drv.C14
open Xrfmv.Agop

abbrev Tensor3 := List (List (List Float))

def getTensor3 (j : Json) (k : String) : Except String Tensor3 := do
  let a ← j.getObjValAs? (Array (Array (Array Nat))) k
  pure (a.toList.map fun m => m.toList.map fun r => r.toList.map bitsToFloat)

/-- `torch.arange(n).split(b)`: consecutive batches of size `b` (the last one shorter). -/
def splitIdx (n b : Nat) : List (List Nat) :=
  let nb := (n + b - 1) / b
  (List.range nb).map fun t => (List.range (min b (n - t * b))).map fun i => t * b + i

/-- Rows of one batch, outputs × points merged (`f_grads.reshape(-1, d)` of the batch's `(f, |B|, d)` block). -/
def batchRows (g : Tensor3) (B : List Nat) : List (List Float) :=
  g.flatMap fun gl => B.map fun jdx => gl.getD jdx []

structure Opts where
  batch : Nat
  centre : Bool
  diag : Bool
  jitter : Float

def getOpts (j : Json) : Except String Opts := do
  let b ← j.getObjValAs? Nat "batch"
  if b == 0 then throw "bad-op: M_batch_size must be >= 1"
  let jit ← getF j "jitter"
  pure { batch := b, centre := ← j.getObjValAs? Bool "centre", diag := ← j.getObjValAs? Bool "diag", jitter := jit }

def matJson (m : List (List Float)) : Json := toJson (m.map fun r => r.map floatToBits)
def vecJson (v : List Float) : Json := toJson (v.map floatToBits)

/-- AGOP of a gradient tensor `(f, n, d)` accumulated over consecutive batches of points, then normalised. -/
def agopOf (g : Tensor3) (o : Opts) : Except String Json := do
  match g with
  | [] => throw "bad-op: no outputs"
  | g0 :: _ =>
    let n := g0.length
    if n == 0 then throw "bad-op: no points"
    let d := (g0.headD []).length
    if d == 0 then throw "bad-op: zero-dimensional gradients"
    if g.any (fun gl => gl.length != n || gl.any (fun r => r.length != d)) then throw "bad-op: ragged gradient tensor"
    if g.any (fun gl => gl.any (fun r => r.any (fun x => !x.isFinite))) then throw "bad-op: non-finite gradient"
    let batches := (splitIdx n o.batch).map (batchRows g)
    if o.diag then
      let raw := accumDiag d o.centre batches
      pure <| Json.mkObj [("raw", vecJson raw), ("M", vecJson (normaliseVec o.jitter raw)),
        ("batches", toJson batches.length)]
    else
      let raw := accumFull d o.centre batches
      pure <| Json.mkObj [("raw", matJson raw), ("M", matJson (normalise o.jitter raw)),
        ("batches", toJson batches.length)]

/-- `agop`: gradients given. -/
def opAgop : Handler := fun j => do
  agopOf (← getTensor3 j "grads") (← getOpts j)

/-- `agop_kernel`: gradients of the current predictor at the points `z` from the closed forms of C04
(a center coinciding with a point is masked there: its own kernel term is omitted). -/
def opAgopKernel : Handler := fun j => do
  let b ← C04.getBlock j
  agopOf (Grad.fgrad b.kind b.prm b.T b.x b.z b.coefs) (← getOpts j)

/-- `root`: `U·diag(√max(s,0))·Uᵀ` (full) for an oracle decomposition, and its square. -/
def opRoot : Handler := fun j => do
  let U := (← getFss j "U").toList.map Array.toList
  let s := (← getFs j "s").toList
  if U.any (fun r => r.length != s.length) || U.length != s.length then throw "bad-op: U must be d x d, s of length d"
  let r := rootFromEig U s
  pure <| Json.mkObj [("root", matJson r), ("square", matJson (mmul r r))]

/-- `rootdiag`: entrywise root of the clamped vector, and its square. -/
def opRootDiag : Handler := fun j => do
  let m := (← getFs j "m").toList
  let r := rootDiag m
  pure <| Json.mkObj [("root", vecJson r), ("square", vecJson (r.map fun x => x * x))]

def ops : List (String × Handler) :=
  [("agop", opAgop), ("agop_kernel", opAgopKernel), ("root", opRoot), ("rootdiag", opRootDiag)] ++ C04.ops

end Xrfmv.Drv.C14
