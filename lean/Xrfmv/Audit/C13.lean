import Xrfmv.Props.C13
#print axioms Xrfmv.Props.C13.decode_explicit
#print axioms Xrfmv.Props.C13.A_invertible
#print axioms Xrfmv.Props.C13.decode_stored_inverse
#print axioms Xrfmv.Props.C13.roundtrip_prevalence_decode
#print axioms Xrfmv.Props.C13.roundtrip_prevalence
#print axioms Xrfmv.Props.C13.roundtrip_zero_one
#print axioms Xrfmv.Props.C13.equidistant
#print axioms Xrfmv.Props.C13.zero_to_prior
#print axioms Xrfmv.Props.C13.decode_affine
#print axioms Xrfmv.Props.C13.decode_mixture_of_codes
#print axioms Xrfmv.Props.C13.clamp_norm_simplex
#print axioms Xrfmv.Props.C13.decode_valid
#print axioms Xrfmv.Props.C13.prior_is_distribution
#print axioms Xrfmv.Props.C13.Q4_contract
#print axioms Xrfmv.Props.C13.decode_valid_eps0
#print axioms Xrfmv.Props.C13.pos_entry_of_sum_one
#print axioms Xrfmv.Props.C13.decode_eps0_zero_row
