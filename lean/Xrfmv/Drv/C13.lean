/-
Driver ops for C13 (and, re-exported, C12): the label codec `Xrfmv.Codec` evaluated on `Float`.

  qcontract  {Q}                                   -> largest deviations from QᵀQ = I and QQᵀ = I − J/K
  codes      {Q, prior | counts}                   -> prior, mu, C = Q − mu, A = [Cᵀ;1ᵀ], explicit inverse [Q|prior]
  invcheck   {Q, prior | counts, invA}             -> largest deviation of A·invA and invA·A from I
  encode     {mode, K, labels, (Q, prior|counts)}  -> regression targets, one row per label
  decode     {mode, rows, eps, (invA | Q, prior|counts)}
                                                   -> raw decoded rows (before clamping), clamped-normalised
                                                      probabilities, arg-max labels
Rejected (`bad-op`): K < 2, ragged or wrongly sized matrices, non-finite numbers, labels ≥ K where the
code raises (one-hot, prevalence), an all-zero count vector, eps outside [0, 1) (the code accepts any float; `eps = 0` clamps to [0, 1]).
-/
import Xrfmv.Drv.Common
import Xrfmv.Model.Codec

open Lean Xrfmv.Drv Xrfmv.Codec

namespace Xrfmv.Drv.C13

def finiteF (x : Float) : Bool := !x.isNaN && !x.isInf

def toVec (a : Array Float) (n : Nat) : Vec Float n := fun i => a.getD i.val 0.0
def toMat (a : Array (Array Float)) (m n : Nat) : Mat Float m n := fun i j => (a.getD i.val #[]).getD j.val 0.0
def ofVec {n : Nat} (v : Vec Float n) : Array Float := Array.ofFn v
def ofMat {m n : Nat} (M : Mat Float m n) : Array (Array Float) := Array.ofFn fun i => Array.ofFn (M i)

def checkMat (name : String) (a : Array (Array Float)) (m n : Nat) : Except String Unit := do
  if a.size != m then throw s!"bad-op: {name} has {a.size} rows, expected {m}"
  if a.any (fun r => r.size != n) then throw s!"bad-op: {name} is not {m}x{n}"
  if a.any (fun r => r.any (fun x => !finiteF x)) then throw s!"bad-op: non-finite entry in {name}"

def checkVec (name : String) (a : Array Float) (n : Nat) : Except String Unit := do
  if a.size != n then throw s!"bad-op: {name} has {a.size} entries, expected {n}"
  if a.any (fun x => !finiteF x) then throw s!"bad-op: non-finite entry in {name}"

def maxAbs (xs : Array Float) : Float := xs.foldl (fun m x => if m < x.abs then x.abs else m) 0.0

/-- `Q` with its class count: `K = n + 1 ≥ 2`, shape `K × n`. -/
def getQ (j : Json) : Except String ((n : Nat) × Mat Float (n + 1) n) := do
  let q ← getFss j "Q"
  if q.size < 2 then throw "bad-op: n_classes < 2"
  let n := q.size - 1
  checkMat "Q" q (n + 1) n
  pure ⟨n, toMat q (n + 1) n⟩

/-- The prior, given directly (`prior`) or as class counts (`counts`, not all zero). -/
def getPrior (j : Json) (K : Nat) : Except String (Vec Float K) := do
  match ← optFs j "prior" with
  | some p =>
    checkVec "prior" p K
    pure (toVec p K)
  | none =>
    let c ← j.getObjValAs? (Array Nat) "counts"
    if c.size != K then throw s!"bad-op: counts has {c.size} entries, expected {K}"
    if c.all (· == 0) then throw "bad-op: labels must contain at least one element"
    -- materialised once: `priorOf` is a closure that would recompute `float(count)` on every access
    pure (toVec (ofVec (priorOf (α := Float) (fun (k : Fin K) => c.getD k.val 0))) K)

def getEps (j : Json) : Except String Float := do
  let e ← getF j "eps"
  if !(0.0 <= e && e < 1.0) then throw "bad-op: eps outside [0,1)"
  pure e

def opQContract : Handler := fun j => do
  let ⟨n, Q⟩ ← getQ j
  let o : Array Float := (ofMat (fun a b => qtqDev Q a b)).flatten
  let p : Array Float := (ofMat (fun k l => qqtDev Q k l)).flatten
  let colsum : Array Float := Array.ofFn fun (a : Fin n) => vsum (n + 1) (fun k => Q k a)
  pure <| Json.mkObj [("K", toJson (n + 1)), ("orthDev", fJson (maxAbs o)), ("projDev", fJson (maxAbs p)),
    ("colsumDev", fJson (maxAbs colsum))]

def opCodes : Handler := fun j => do
  let ⟨n, Q⟩ ← getQ j
  let prior ← getPrior j (n + 1)
  pure <| Json.mkObj [("prior", fsJson (ofVec prior)), ("mu", fsJson (ofVec (mu prior Q))),
    ("C", fssJson (ofMat (codes prior Q))), ("A", fssJson (ofMat (augA prior Q))),
    ("explicitInv", fssJson (ofMat (explicitInv prior Q))),
    ("priorSum", fJson (vsum (n + 1) prior))]

def opInvCheck : Handler := fun j => do
  let ⟨n, Q⟩ ← getQ j
  let prior ← getPrior j (n + 1)
  let ia ← getFss j "invA"
  checkMat "invA" ia (n + 1) (n + 1)
  let invA := toMat ia (n + 1) (n + 1)
  let A := augA prior Q
  let r : Array Float := (ofMat (fun a b => matMul A invA a b - delta a b)).flatten
  let l : Array Float := (ofMat (fun a b => matMul invA A a b - delta a b)).flatten
  let d : Array Float := (ofMat (fun a b => invA a b - explicitInv prior Q a b)).flatten
  pure <| Json.mkObj [("rightDev", fJson (maxAbs r)), ("leftDev", fJson (maxAbs l)), ("explicitDev", fJson (maxAbs d))]

def opEncode : Handler := fun j => do
  let mode ← j.getObjValAs? String "mode"
  let K ← j.getObjValAs? Nat "K"
  let labels ← j.getObjValAs? (Array Nat) "labels"
  if K < 2 then throw "bad-op: n_classes < 2"
  match mode with
  | "zero_one" =>
    if K == 2 then
      pure <| Json.mkObj [("rows", fssJson (labels.map fun l => ofVec (encodeBinary (α := Float) l)))]
    else
      if labels.any (· ≥ K) then throw "bad-op: label out of range"
      pure <| Json.mkObj [("rows", fssJson (labels.map fun l =>
        if h : l < K then ofVec (encodeOneHot (α := Float) K ⟨l, h⟩) else #[]))]
  | "prevalence" =>
    let ⟨n, Q⟩ ← getQ j
    if n + 1 != K then throw "bad-op: Q does not have K rows"
    let prior ← getPrior j (n + 1)
    if labels.any (· ≥ K) then throw "bad-op: label out of range"
    -- one evaluation of `encodePrev` per class, then `C[labels]`
    let table : Array (Array Float) := Array.ofFn fun (l : Fin (n + 1)) => ofVec (encodePrev prior Q l)
    pure <| Json.mkObj [("rows", fssJson (labels.map fun l => table.getD l #[]))]
  | _ => throw "bad-op: unknown mode"

/-- Decode one batch. Answer: `raw` (decoded, before clamping), `probs`, `labels`. -/
def decodeRows (j : Json) (rows : Array (Array Float)) : Except String Json := do
  let mode ← j.getObjValAs? String "mode"
  let eps ← getEps j
  if rows.any (fun r => r.any (fun x => !finiteF x)) then throw "bad-op: non-finite decoder input"
  match mode with
  | "zero_one" =>
    if rows.size == 0 then return Json.mkObj [("raw", fssJson #[]), ("probs", fssJson #[]), ("labels", toJson (#[] : Array Nat))]
    let w := (rows.getD 0 #[]).size
    if w == 0 then throw "bad-op: empty decoder rows"
    if rows.any (fun r => r.size != w) then throw "bad-op: ragged decoder input"
    if w == 1 then
      let raw := rows.map fun r => ofVec (expandBinary (toVec r 1))
      let probs := rows.map fun r => ofVec (probasBinary eps (toVec r 1))
      let labels := rows.map fun r => (labelBinary eps (toVec r 1)).val
      pure <| Json.mkObj [("raw", fssJson raw), ("probs", fssJson probs), ("labels", toJson labels)]
    else
      let n := w - 1
      let probs := rows.map fun r => ofVec (probasMulti eps (toVec r (n + 1)))
      let labels := rows.map fun r => (labelMulti eps (toVec r (n + 1))).val
      pure <| Json.mkObj [("raw", fssJson rows), ("probs", fssJson probs), ("labels", toJson labels)]
  | "prevalence" =>
    match ← optFss j "invA" with
    | some ia =>
      if ia.size < 2 then throw "bad-op: n_classes < 2"
      let n := ia.size - 1
      checkMat "invA" ia (n + 1) (n + 1)
      if rows.any (fun r => r.size != n) then throw "bad-op: decoder input width is not K-1"
      let invA := toMat ia (n + 1) (n + 1)
      let raw := rows.map fun r => ofVec (decodeInv invA (toVec r n))
      let probs := rows.map fun r => ofVec (probasPrevInv eps invA (toVec r n))
      let labels := rows.map fun r => (labelPrevInv eps invA (toVec r n)).val
      pure <| Json.mkObj [("raw", fssJson raw), ("probs", fssJson probs), ("labels", toJson labels)]
    | none =>
      let ⟨n, Q⟩ ← getQ j
      let prior ← getPrior j (n + 1)
      if rows.any (fun r => r.size != n) then throw "bad-op: decoder input width is not K-1"
      let raw := rows.map fun r => ofVec (decodeExplicit prior Q (toVec r n))
      let probs := rows.map fun r => ofVec (probasPrev eps prior Q (toVec r n))
      let labels := rows.map fun r => (labelPrev eps prior Q (toVec r n)).val
      pure <| Json.mkObj [("raw", fssJson raw), ("probs", fssJson probs), ("labels", toJson labels)]
  | _ => throw "bad-op: unknown mode"

def opDecode : Handler := fun j => do
  let rows ← getFss j "rows"
  decodeRows j rows

def ops : List (String × Handler) :=
  [("qcontract", opQContract), ("codes", opCodes), ("invcheck", opInvCheck), ("encode", opEncode),
   ("decode", opDecode)]

end Xrfmv.Drv.C13
