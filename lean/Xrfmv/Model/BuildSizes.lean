/-
Size skeleton of `xRFM._build_tree` (xrfm.py): which node sizes occur, where leaves are created, how
the split counter is threaded (left subtree first).  Sizes do not depend on the data – the split is
rank based – so this model needs no oracle except `ov n = int(round(2 * overlap_fraction * n))`.
All arithmetic and the leaf test come from the regenerated `Gen.Split`.
-/
import Xrfmv.Gen.Split

namespace Xrfmv.BuildSizes
open Xrfmv.Gen.Split

/-- Number of positions selected by a slice `(lo, hi)` of a sequence of length `n` (Python slice
semantics for bounds in `[0, n]`; `none` = open end). -/
def sliceLen (n : Int) : Option Int × Option Int → Int
  | (lo, hi) =>
    let l := (lo.getD 0)
    let h := (hi.getD n)
    let l := max 0 (min l n)
    let h := max 0 (min h n)
    max 0 (h - l)

/-- Size of a mask = total length of its parts (the parts are disjoint slices of a permutation). -/
def maskSize (n r : Int) (parts : List Part) : Int :=
  (parts.map fun p => sliceLen n (sliceOf (counts n r) p)).foldl (· + ·) 0

def leftSize (n r : Int) : Int := maskSize n r leftMaskParts
def rightSize (n r : Int) : Int := maskSize n r rightMaskParts

inductive STree
  | leaf (n : Nat)
  | node (n : Nat) (l r : STree)
  | assertFail (n : Nat)     -- `assert left_mask.any() and right_mask.any()` (or a size assertion) fails
  | outOfFuel (n : Nat)
  deriving Repr, DecidableEq

structure Cfg where
  maxLeaf : Nat
  nsplits : Option Nat       -- `number_of_splits`
  ov : Nat → Int             -- `int(round(2 * overlap_fraction * n))`

/-- `_build_tree` on a node of size `n` with split counter `count`; returns the subtree and the counter
after it (the tracker is shared and the left subtree is built first). -/
def build (cfg : Cfg) : (fuel : Nat) → (n count : Nat) → STree × Nat
  | 0, n, count => (.outOfFuel n, count)
  | fuel + 1, n, count =>
    if shouldCreateLeaf n cfg.maxLeaf cfg.nsplits.isNone count (cfg.nsplits.getD 0) then (.leaf n, count)
    else
      let count := count + 1
      let ls := leftSize n (cfg.ov n)
      let rs := rightSize n (cfg.ov n)
      let c := counts n (cfg.ov n)
      -- the assertions of `_get_balanced_split`
      if n = 0 ∨ ls ≤ 0 ∨ rs ≤ 0 ∨ ls - rs > 1 ∨ sliceLen n (sliceOf c .rightUnique) ≠ c.rightUnique then
        (.assertFail n, count)
      else
        let lres := build cfg fuel ls.toNat count
        let rres := build cfg fuel rs.toNat lres.2
        (.node n lres.1 rres.1, rres.2)

def STree.leaves : STree → List Nat
  | .leaf n => [n]
  | .node _ l r => l.leaves ++ r.leaves
  | .assertFail _ => []
  | .outOfFuel _ => []

def STree.ok : STree → Bool
  | .leaf _ => true
  | .node _ l r => l.ok && r.ok
  | .assertFail _ => false
  | .outOfFuel _ => false

def STree.depth : STree → Nat
  | .node _ l r => max l.depth r.depth + 1
  | _ => 0

def STree.splits : STree → Nat
  | .node _ l r => l.splits + r.splits + 1
  | _ => 0

end Xrfmv.BuildSizes
