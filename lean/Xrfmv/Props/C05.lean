/-
C05 — Kernel matrices match their mathematical definitions.

The definitions are `Xrfmv.Kernel` (`Model/Kernel.lean`, scalar-generic; executed at `Float` by the
driver and compared with the real `get_kernel_matrix` / `RFM.kernel`), read here at `ℝ`:
  `entry K T x z` = one matrix entry, `K : Spec ℝ` the kernel object, `T` the feature transform
  (`none` / `diag v` / `full cols`, applied as `x ↦ x·mat`; for the light kernel `T` is `M` itself).
All statements are for every dimension and every pair of points (lists of any length).
Exact real arithmetic: floating-point rounding is outside the theorems (the correspondence absorbs
it in a computed allowance).

Positive semi-definiteness for `0 < q ≤ p ≤ 2` (`C05_psd`, Schoenberg's theorem) is proved in full
(`C05_psd_holds`; `Lemmas/PsdKernel.lean`, `Lemmas/PsdBernstein.lean`, `Lemmas/PsdLpq.lean`,
`Lemmas/KernelPsd.lean`), with the L2, product and memory-light kernels as corollaries; the sum-power
kernel with a natural power is PSD as well (`psd_sumPower_nat`).
-/
import Xrfmv.Lemmas.Kernel
import Xrfmv.Lemmas.KernelPsd
import Xrfmv.Lemmas.KernelGen
import Mathlib.Analysis.SpecialFunctions.Pow.Continuity

namespace Xrfmv.Props.C05
open Xrfmv Xrfmv.Kernel

/-- Guards on the parameters (what the constructors assert, and `P ≥ 1`). -/
def Valid : Spec ℝ → Prop
  | .laplace q L | .light q L | .product q L => 0 < L ∧ 0 < q
  | .lpq p q L => 0 < L ∧ 0 < q ∧ 0 < p
  | .sumPower q L c P => 0 < L ∧ 0 < q ∧ 0 ≤ c ∧ c < 1 ∧ 1 ≤ P

/-- **C05 symmetry.** `k(x,z) = k(z,x)` for every kernel and transform.  For the memory-light kernel
the matrix `M` it is given must define a symmetric bilinear form at these two points (`hM`; true for
`none`, every `diag v` and every symmetric full matrix: `symmForm_none/diag/full` below). -/
theorem symm (K : Spec ℝ) (T : Transform ℝ) (x z : List ℝ)
    (hM : K.isLight = true → dot (applyT T x) z = dot (applyT T z) x) :
    entry K T x z = entry K T z x := by
  cases K with
  | laplace q L => simp only [entry, coreEntry, lpqCore, pdist_comm]
  | light q L =>
    have e : dot (applyT T x) x - 2 * dot (applyT T x) z + dot (applyT T z) z =
        dot (applyT T z) z - 2 * dot (applyT T z) x + dot (applyT T x) x := by rw [hM rfl]; ring
    simp only [entry, lightEntry, lightProfile, e]
  | product q L => simp only [entry, coreEntry, productCore, powSum_comm]
  | lpq p q L => simp only [entry, coreEntry, lpqCore, pdist_comm]
  | sumPower q L c P => simp only [entry, coreEntry, sumPowerCore, absDiffs_comm]

/-- The hypothesis of `symm` for the light kernel holds without a transform, -/
theorem symmForm_none (x z : List ℝ) : dot (applyT .none x) z = dot (applyT .none z) x :=
  Kernel.symmForm_none x z

/-- for every diagonal `M`, -/
theorem symmForm_diag (v x z : List ℝ) : dot (applyT (.diag v) x) z = dot (applyT (.diag v) z) x :=
  Kernel.symmForm_diag v x z

/-- and for every symmetric full `M` (any dimension `d`). -/
theorem symmForm_full {d : ℕ} (M : Matrix (Fin d) (Fin d) ℝ) (hM : M.IsSymm) (x z : Fin d → ℝ) :
    dot (applyT (.full (colsOf M)) (List.ofFn x)) (List.ofFn z) =
      dot (applyT (.full (colsOf M)) (List.ofFn z)) (List.ofFn x) :=
  Kernel.symmForm_full M hM x z

/-- **C05 unit diagonal.** `k(x,x) = 1` (sum-power: at least one feature after the transform). -/
theorem diag_one (K : Spec ℝ) (hK : Valid K) (T : Transform ℝ) (x : List ℝ)
    (hne : K.isSumPower = true → applyT T x ≠ []) :
    entry K T x x = 1 := by
  cases K with
  | laplace q L =>
    obtain ⟨_, hq⟩ := hK
    simp only [entry, coreEntry, lpqCore, pdist_self (show (0:ℝ) < 2 by norm_num), lap_zero hq]
  | light q L =>
    obtain ⟨_, hq⟩ := hK
    have h0 : dot (applyT T x) x - 2 * dot (applyT T x) x + dot (applyT T x) x = 0 := by ring
    simp only [entry, lightEntry, lightProfile, h0, max_self, rpow_real, exp_real]
    rw [Real.zero_rpow (by positivity : q / 2 ≠ 0)]
    simp
  | product q L =>
    obtain ⟨_, hq⟩ := hK
    simp [entry, coreEntry, productCore, powSum_self hq]
  | lpq p q L =>
    obtain ⟨_, hq, hp⟩ := hK
    simp only [entry, coreEntry, lpqCore, pdist_self hp, lap_zero hq]
  | sumPower q L c P =>
    obtain ⟨_, hq, _, _, _⟩ := hK
    have hx := hne rfl
    have hlen : ((applyT T x).length : ℝ) ≠ 0 := by
      exact_mod_cast fun h => hx (List.eq_nil_of_length_eq_zero h)
    have he : ((absDiffs (applyT T x) (applyT T x)).map fun t => exp (-(rpow t q) / rpow L q)) =
        (applyT T x).map fun _ => (1 : ℝ) := by
      rw [absDiffs_self, List.map_map]
      apply List.map_congr_left
      intro a _
      simp [Real.zero_rpow hq.ne']
    simp only [entry, coreEntry, sumPowerCore, he]
    have hs : sumL ((applyT T x).map fun _ => (1 : ℝ)) = ((applyT T x).length : ℝ) := by
      have := count_eq_length (applyT T x)
      simpa [count] using this
    rw [count_eq_length, hs, List.length_map, div_self hlen]
    simp

/-- **C05 range.** `0 < k(x,z) ≤ 1`. -/
theorem range (K : Spec ℝ) (hK : Valid K) (T : Transform ℝ) (x z : List ℝ)
    (hne : K.isSumPower = true → applyT T x ≠ [] ∧ applyT T z ≠ []) :
    0 < entry K T x z ∧ entry K T x z ≤ 1 := by
  cases K with
  | laplace q L =>
    exact ⟨lap_pos _ _ _, lap_le_one hK.1 (pdist_nonneg _ _ _)⟩
  | light q L =>
    refine ⟨Real.exp_pos _, ?_⟩
    simp only [entry, lightEntry, lightProfile, exp_real, rpow_real]
    rw [Real.exp_le_one_iff, neg_div]
    exact neg_nonpos.mpr (div_nonneg (Real.rpow_nonneg (le_max_right _ _) _) (Real.rpow_nonneg hK.1.le q))
  | product q L =>
    refine ⟨Real.exp_pos _, ?_⟩
    simp only [entry, coreEntry, productCore, exp_real, rpow_real]
    rw [Real.exp_le_one_iff, neg_div]
    exact neg_nonpos.mpr (div_nonneg (powSum_nonneg _ _ _) (Real.rpow_nonneg hK.1.le q))
  | lpq p q L =>
    exact ⟨lap_pos _ _ _, lap_le_one hK.1 (pdist_nonneg _ _ _)⟩
  | sumPower q L c P =>
    obtain ⟨hL, _, hc0, hc1, hP⟩ := hK
    obtain ⟨hx, hz⟩ := hne rfl
    obtain ⟨hb0, hb1⟩ := sumPower_base_mem (q := q) hL hc0 hc1 (absDiffs_ne_nil hx hz)
    simp only [entry, coreEntry, sumPowerCore, rpow_real]
    exact ⟨Real.rpow_pos_of_pos hb0 P, Real.rpow_le_one hb0.le hb1 (by linarith)⟩

/-- **C05 light = L2 (distance).** For symmetric `T` and `M = T·T` the expansion
`xᵀMx − 2xᵀMz + zᵀMz` the light kernel computes equals `‖xT − zT‖₂²` (every dimension `d`). -/
theorem light_expansion {d : ℕ} (T : Matrix (Fin d) (Fin d) ℝ) (hT : T.IsSymm) (x z : Fin d → ℝ) :
    lightSq (.full (colsOf (T * T))) (List.ofFn x) (List.ofFn z) =
      powSum 2 (applyT (.full (colsOf T)) (List.ofFn x)) (applyT (.full (colsOf T)) (List.ofFn z)) :=
  lightSq_full T hT x z

/-- from squared distance to kernel value -/
private theorem light_of_sq {q L : ℝ} {M T : Transform ℝ} {x z : List ℝ}
    (h : lightSq M x z = powSum 2 (applyT T x) (applyT T z)) :
    entry (.light q L) M x z = entry (.laplace q L) T x z := by
  have h2 : (0 : ℝ) < 2 := by norm_num
  show lightEntry q L M x z = lpqCore 2 q L (applyT T x) (applyT T z)
  rw [lightProfile_eq, h, max_eq_left (powSum_nonneg _ _ _), ← pdist_rpow h2]
  simp only [lpqCore, lap, rpow_real, exp_real]
  rw [← Real.rpow_mul (pdist_nonneg _ _ _)]
  congr 4
  ring

/-- **C05 light = L2.** The memory-light kernel given `M = T·T` (symmetric `T`) and the L2 kernel
given `T` have the same entries: full, diagonal and absent transform. -/
theorem light_eq_l2 {d : ℕ} {q L : ℝ} (T : Matrix (Fin d) (Fin d) ℝ) (hT : T.IsSymm)
    (x z : Fin d → ℝ) :
    entry (.light q L) (.full (colsOf (T * T))) (List.ofFn x) (List.ofFn z) =
      entry (.laplace q L) (.full (colsOf T)) (List.ofFn x) (List.ofFn z) :=
  light_of_sq (lightSq_full T hT x z)

theorem light_eq_l2_diag {d : ℕ} {q L : ℝ} (v x z : Fin d → ℝ) :
    entry (.light q L) (.diag (List.ofFn fun i => v i * v i)) (List.ofFn x) (List.ofFn z) =
      entry (.laplace q L) (.diag (List.ofFn v)) (List.ofFn x) (List.ofFn z) :=
  light_of_sq (lightSq_diag v x z)

theorem light_eq_l2_none {d : ℕ} {q L : ℝ} (x z : Fin d → ℝ) :
    entry (.light q L) .none (List.ofFn x) (List.ofFn z) =
      entry (.laplace q L) .none (List.ofFn x) (List.ofFn z) :=
  light_of_sq (lightSq_none x z)

/-- **C05 product kernel.** `exp(−Σ_d|Δ_d|^q / L^q)` is the Lpq kernel with `p = q`; the L2 kernel is
the Lpq kernel with `p = 2` (by definition). -/
theorem product_is_lpq_pp {q : ℝ} (hq : 0 < q) (L : ℝ) (T : Transform ℝ) (x z : List ℝ) :
    entry (.product q L) T x z = entry (.lpq q q L) T x z :=
  productCore_eq_lpq hq L _ _

theorem laplace_is_lpq_2q (q L : ℝ) (T : Transform ℝ) (x z : List ℝ) :
    entry (.laplace q L) T x z = entry (.lpq 2 q L) T x z := rfl

/-- **C05 closed forms**, spelled out at `ℝ` (what "matches its definition" means). -/
theorem lpq_closed_form (p q L : ℝ) (T : Transform ℝ) (x z : List ℝ) :
    entry (.lpq p q L) T x z =
      Real.exp (-((((absDiffs (applyT T x) (applyT T z)).map fun t => t ^ p).sum ^ (1 / p)) ^ q) / L ^ q) := by
  simp only [entry, coreEntry, lpqCore, lap, pdist, powSum, sumL_eq_sum, rpow_real, exp_real]

theorem sumPower_closed_form (q L c P : ℝ) (T : Transform ℝ) (x z : List ℝ) :
    entry (.sumPower q L c P) T x z =
      ((1 - c) * (((absDiffs (applyT T x) (applyT T z)).map fun t => Real.exp (-(t ^ q) / L ^ q)).sum /
        ((absDiffs (applyT T x) (applyT T z)).length : ℝ)) + c) ^ P := by
  simp only [entry, coreEntry, sumPowerCore, sumL_eq_sum, count_eq_length, rpow_real, exp_real,
    List.length_map]

/-- **C05 row-locality.** The matrix is the map `(i,j) ↦ k(x_i, z_j)`: row `i` is a function of `x_i`
and `zs` only (for a fixed bandwidth).  Holds for every scalar type, `Float` included. -/
theorem row_formula {α : Type} [Add α] [Sub α] [Mul α] [Div α] [Neg α] [OfNat α 0] [OfNat α 1] [OfNat α 2]
    [Max α] [HasExp α] [HasRpow α] [HasAbs α]
    (K : Spec α) (T : Transform α) (xs zs : List (List α)) (i : ℕ) :
    (matrix K T xs zs)[i]? = xs[i]?.map fun x => zs.map fun z => entry K T x z := by
  simp [matrix]

theorem row_local {α : Type} [Add α] [Sub α] [Mul α] [Div α] [Neg α] [OfNat α 0] [OfNat α 1] [OfNat α 2]
    [Max α] [HasExp α] [HasRpow α] [HasAbs α]
    (K : Spec α) (T : Transform α) (xs xs' zs : List (List α)) (i : ℕ) (h : xs[i]? = xs'[i]?) :
    (matrix K T xs zs)[i]? = (matrix K T xs' zs)[i]? := by
  rw [row_formula, row_formula, h]

/-- The matrix the driver computes (rows transformed once) is that map. -/
theorem driver_matrix_eq {α : Type} [Add α] [Sub α] [Mul α] [Div α] [Neg α] [OfNat α 0] [OfNat α 1] [OfNat α 2]
    [Max α] [HasExp α] [HasRpow α] [HasAbs α]
    (K : Spec α) (T : Transform α) (xs zs : List (List α)) : matrixFast K T xs zs = matrix K T xs zs :=
  matrixFast_eq K T xs zs

/-! ### the code's own chain of tensor operations (regenerated `Gen.KernelOps`) -/

/-- **C05, matrices match their definitions — over the regenerated source.**  For every CPU kernel class the chain of
tensor operations of its `_get_kernel_matrix_impl` as it is written *now* (creation of the distance matrix, `clamp_`,
`sqrt_`, `pow_`, the call of `_adapt_bandwidth`, `mul_`, `exp_`, for the sum-power kernel `abs_`, the reduction over the
feature axis, `add_`; translated statement by statement into `Gen.KernelOps` on every run) computes, entry by entry and for
every transform, pair of rows and admissible parameter, the closed form of the kernel (`Kernel.entry`, spelled out by
`lpq_closed_form` / `sumPower_closed_form` / `light_expansion`).  The sum-power kernel reads `x.shape[1]`: the two rows must
have the same number of features after the transform (always, for rows of two matrices given the same `mat`). -/
theorem gen_pipeline_eq_model (K : Spec ℝ) (hK : Valid K) (T : Transform ℝ) (x z : List ℝ)
    (hlen : K.isSumPower = true → (applyT T z).length = (applyT T x).length) :
    KernelOps.genEntry K T x z = entry K T x z := by
  unfold KernelOps.genEntry
  cases K with
  | laplace q L => exact KernelOps.laplace_eq _ T x z
  | light q L => exact KernelOps.light_eq _ T x z
  | product q L => exact KernelOps.product_eq hK.2 _ T x z
  | lpq p q L => exact KernelOps.lpq_eq _ T x z
  | sumPower q L c P => exact KernelOps.sumPower_eq T x z (hlen rfl)

/-- … hence the whole matrix returned by the regenerated chain is the matrix of closed forms. -/
theorem gen_matrix_eq_model (K : Spec ℝ) (hK : Valid K) (T : Transform ℝ) (xs zs : List (List ℝ))
    (hlen : K.isSumPower = true → ∀ x ∈ xs, ∀ z ∈ zs, (applyT T z).length = (applyT T x).length) :
    KernelOps.genMatrix K T xs zs = matrix K T xs zs := by
  unfold KernelOps.genMatrix matrix
  refine List.map_congr_left fun x hx => List.map_congr_left fun z hz => ?_
  exact gen_pipeline_eq_model K hK T x z fun h => hlen h x hx z hz

/-- **C05, the bandwidth in the formula is the one in use.**  In every regenerated chain each read of `self.bandwidth`
comes after the call of `_adapt_bandwidth` (a pending adaptation is performed before the bandwidth enters the formula; a
value read earlier would be the stale one). -/
theorem bandwidth_read_after_adaptation :
    KernelOps.bandwidthUses.all KernelOps.BandwidthUse.readsAfterAdapt = true := by decide

-- non-vacuity: the guards of `gen_pipeline_eq_model` are met by concrete kernels and rows of equal length
example : Valid (.sumPower 0.7 2 0.25 2) ∧
    (applyT (.diag [2, 3]) ([1, 5] : List ℝ)).length = (applyT (.diag [2, 3]) ([4, 6] : List ℝ)).length := by
  refine ⟨by unfold Valid; norm_num, by simp [applyT]⟩

/-! ### the alias table (regenerated `Gen.Alias`) -/
open Xrfmv.Gen.Alias in
/-- **C05 aliases.** Every documented alias maps to the documented class on the CPU branch. -/
theorem alias_table :
    aliases.lookup "laplace" = some .Laplace ∧ aliases.lookup "l2" = some .Laplace ∧
    aliases.lookup "l2_high_dim" = some .LightLaplace ∧ aliases.lookup "l2_light" = some .LightLaplace ∧
    aliases.lookup "product_laplace" = some .ProductLaplace ∧ aliases.lookup "l1" = some .ProductLaplace ∧
    aliases.lookup "lpq" = some .Lpq ∧ aliases.lookup "sum_power_laplace" = some .SumPower := by
  decide

/-- **C05 aliases, parameters.** `exponent` reaches the kernels as their exponent `q`, `norm_p` as the
norm `p` of the Lpq kernel, `bandwidth` as `L`; an unknown string is rejected. -/
theorem alias_spec (a : RfmArgs ℝ) :
    specOfAlias "laplace" a = some (.laplace a.exponent a.bandwidth) ∧
    specOfAlias "l2" a = some (.laplace a.exponent a.bandwidth) ∧
    specOfAlias "l2_high_dim" a = some (.light a.exponent a.bandwidth) ∧
    specOfAlias "l2_light" a = some (.light a.exponent a.bandwidth) ∧
    specOfAlias "product_laplace" a = some (.product a.exponent a.bandwidth) ∧
    specOfAlias "l1" a = some (.product a.exponent a.bandwidth) ∧
    specOfAlias "lpq" a = some (.lpq a.normP a.exponent a.bandwidth) ∧
    specOfAlias "sum_power_laplace" a = some (.sumPower a.exponent a.bandwidth a.constMix a.power) ∧
    specOfAlias "gaussian" a = none ∧ Gen.Alias.unknownRaisesValueError = true := by
  refine ⟨?_, ?_, ?_, ?_, ?_, ?_, ?_, ?_, ?_, ?_⟩ <;> rfl

/-- The Laplace profile `exp(−d^q/L^q)` tends to 0 as the distance grows (`q > 0`, `L > 0`): far from all
centres every kernel value vanishes (used by C12's far-row limit). -/
theorem lap_tendsto_zero {q L : ℝ} (hq : 0 < q) (hL : 0 < L) :
    Filter.Tendsto (fun d : ℝ => lap q L d) Filter.atTop (nhds 0) := by
  have h1 : Filter.Tendsto (fun d : ℝ => d ^ q / L ^ q) Filter.atTop Filter.atTop :=
    (tendsto_rpow_atTop hq).atTop_div_const (Real.rpow_pos_of_pos hL q)
  have h2 := Real.tendsto_exp_neg_atTop_nhds_zero.comp h1
  refine h2.congr fun d => ?_
  simp only [Function.comp, lap, rpow_real, exp_real, neg_div]

/-! ### positive semi-definiteness -/

/-- **C05 PSD — full statement.** For `0 < q ≤ p ≤ 2`, `L > 0`, any transform, any dimension `d` and
any finite point set, the Gram matrix of the Lpq kernel (hence of the L2, light and product kernels:
`psd_laplace`, `psd_product`, `psd_light*` below) is positive semi-definite. -/
def C05_psd : Prop :=
  ∀ (p q L : ℝ), 0 < q → q ≤ p → p ≤ 2 → 0 < L →
  ∀ (T : Transform ℝ) (d n : ℕ) (xs : Fin n → Fin d → ℝ) (w : Fin n → ℝ),
    0 ≤ ∑ i, ∑ j, w i * w j * entry (.lpq p q L) T (List.ofFn (xs i)) (List.ofFn (xs j))

/-- **`C05_psd` holds** (Schoenberg).  `(s−t)²` is conditionally negative definite; such kernels are
closed under `ψ ↦ ψ^a`, `0 < a ≤ 1` (Bernstein representation of `r^a` as a mixture of `1 − e^{−tr}`),
under sums over coordinates, and `exp(−ψ)` of one is positive semi-definite (power series and the
Schur product theorem). -/
theorem C05_psd_holds : C05_psd :=
  fun _ _ _ hq hqp hp2 hL T _ _ xs w => Kernel.lpq_gram_psd hq hqp hp2 hL T xs w

/-- **C05, the Gram matrix the code's own chain computes is positive semi-definite and has the Gram consequences.**  Everything
above is stated for the closed form; through `gen_pipeline_eq_model` it holds for the value the regenerated chain of
`LpqLaplaceKernel._get_kernel_matrix_impl` (`Gen.KernelOps.lpq`) yields entry by entry: the quadratic form is non-negative for every
weight vector, any centers (repeated ones included), transform and `0 < q ≤ p ≤ 2`; the matrix is symmetric with unit diagonal
and entries in `(0, 1]`. -/
theorem gen_lpq_gram_psd {p q L : ℝ} (hq : 0 < q) (hqp : q ≤ p) (hp2 : p ≤ 2) (hL : 0 < L)
    (T : Transform ℝ) {d n : ℕ} (xs : Fin n → Fin d → ℝ) (w : Fin n → ℝ) :
    0 ≤ ∑ i, ∑ j, w i * w j * KernelOps.genEntry (.lpq p q L) T (List.ofFn (xs i)) (List.ofFn (xs j)) := by
  have hv : Valid (.lpq p q L) := ⟨hL, hq, lt_of_lt_of_le hq hqp⟩
  have e : ∀ a b : List ℝ, KernelOps.genEntry (.lpq p q L) T a b = entry (.lpq p q L) T a b :=
    fun a b => gen_pipeline_eq_model (.lpq p q L) hv T a b (by intro h; cases h)
  simp only [e]
  exact C05_psd_holds p q L hq hqp hp2 hL T d n xs w

theorem gen_lpq_gram_consequences {p q L : ℝ} (hq : 0 < q) (hp : 0 < p) (hL : 0 < L) (T : Transform ℝ) (x z : List ℝ) :
    KernelOps.genEntry (.lpq p q L) T x z = KernelOps.genEntry (.lpq p q L) T z x ∧
    KernelOps.genEntry (.lpq p q L) T x x = 1 ∧
    0 < KernelOps.genEntry (.lpq p q L) T x z ∧ KernelOps.genEntry (.lpq p q L) T x z ≤ 1 := by
  have hv : Valid (.lpq p q L) := ⟨hL, hq, hp⟩
  have e := fun a b => gen_pipeline_eq_model (.lpq p q L) hv T a b (by intro h; cases h)
  rw [e x z, e z x, e x x]
  exact ⟨symm _ T x z (by intro h; cases h), diag_one _ hv T x (by intro h; cases h),
    range _ hv T x z (by intro h; cases h)⟩

/-- L2 Laplace kernel (`LaplaceKernel`: `'l2'`, `'l2_high_dim'`, …), exponent `0 < q ≤ 2`. -/
theorem psd_laplace {q L : ℝ} (hq : 0 < q) (hq2 : q ≤ 2) (hL : 0 < L) (T : Transform ℝ) {d n : ℕ}
    (xs : Fin n → Fin d → ℝ) (w : Fin n → ℝ) :
    0 ≤ ∑ i, ∑ j, w i * w j * entry (.laplace q L) T (List.ofFn (xs i)) (List.ofFn (xs j)) := by
  simpa only [laplace_is_lpq_2q] using C05_psd_holds 2 q L hq hq2 le_rfl hL T d n xs w

/-- Product Laplace kernel (`'l1'`, `'product_laplace'`), exponent `0 < q ≤ 2`. -/
theorem psd_product {q L : ℝ} (hq : 0 < q) (hq2 : q ≤ 2) (hL : 0 < L) (T : Transform ℝ) {d n : ℕ}
    (xs : Fin n → Fin d → ℝ) (w : Fin n → ℝ) :
    0 ≤ ∑ i, ∑ j, w i * w j * entry (.product q L) T (List.ofFn (xs i)) (List.ofFn (xs j)) := by
  simpa only [product_is_lpq_pp hq] using C05_psd_holds q q L hq le_rfl hq2 hL T d n xs w

/-- The same for the matrices the regenerated chains of the L2 (`'l2'`) and product (`'l1'`) kernels compute. -/
theorem gen_laplace_gram_psd {q L : ℝ} (hq : 0 < q) (hq2 : q ≤ 2) (hL : 0 < L) (T : Transform ℝ) {d n : ℕ}
    (xs : Fin n → Fin d → ℝ) (w : Fin n → ℝ) :
    0 ≤ ∑ i, ∑ j, w i * w j * KernelOps.genEntry (.laplace q L) T (List.ofFn (xs i)) (List.ofFn (xs j)) := by
  have e : ∀ a b : List ℝ, KernelOps.genEntry (.laplace q L) T a b = entry (.laplace q L) T a b :=
    fun a b => gen_pipeline_eq_model (.laplace q L) ⟨hL, hq⟩ T a b (by intro h; cases h)
  simp only [e]
  exact psd_laplace hq hq2 hL T xs w

theorem gen_product_gram_psd {q L : ℝ} (hq : 0 < q) (hq2 : q ≤ 2) (hL : 0 < L) (T : Transform ℝ) {d n : ℕ}
    (xs : Fin n → Fin d → ℝ) (w : Fin n → ℝ) :
    0 ≤ ∑ i, ∑ j, w i * w j * KernelOps.genEntry (.product q L) T (List.ofFn (xs i)) (List.ofFn (xs j)) := by
  have e : ∀ a b : List ℝ, KernelOps.genEntry (.product q L) T a b = entry (.product q L) T a b :=
    fun a b => gen_pipeline_eq_model (.product q L) ⟨hL, hq⟩ T a b (by intro h; cases h)
  simp only [e]
  exact psd_product hq hq2 hL T xs w

/-- Memory-light L2 kernel given `M = T·T` with `T` symmetric (what the fit hands it), -/
theorem psd_light {q L : ℝ} (hq : 0 < q) (hq2 : q ≤ 2) (hL : 0 < L) {d n : ℕ}
    (T : Matrix (Fin d) (Fin d) ℝ) (hT : T.IsSymm) (xs : Fin n → Fin d → ℝ) (w : Fin n → ℝ) :
    0 ≤ ∑ i, ∑ j, w i * w j *
      entry (.light q L) (.full (colsOf (T * T))) (List.ofFn (xs i)) (List.ofFn (xs j)) := by
  simpa only [light_eq_l2 T hT] using psd_laplace hq hq2 hL (.full (colsOf T)) xs w

/-- a diagonal `M = v²`, -/
theorem psd_light_diag {q L : ℝ} (hq : 0 < q) (hq2 : q ≤ 2) (hL : 0 < L) {d n : ℕ}
    (v : Fin d → ℝ) (xs : Fin n → Fin d → ℝ) (w : Fin n → ℝ) :
    0 ≤ ∑ i, ∑ j, w i * w j *
      entry (.light q L) (.diag (List.ofFn fun i => v i * v i)) (List.ofFn (xs i)) (List.ofFn (xs j)) := by
  simpa only [light_eq_l2_diag] using psd_laplace hq hq2 hL (.diag (List.ofFn v)) xs w

/-- or no `M`. -/
theorem psd_light_none {q L : ℝ} (hq : 0 < q) (hq2 : q ≤ 2) (hL : 0 < L) {d n : ℕ}
    (xs : Fin n → Fin d → ℝ) (w : Fin n → ℝ) :
    0 ≤ ∑ i, ∑ j, w i * w j * entry (.light q L) .none (List.ofFn (xs i)) (List.ofFn (xs j)) := by
  simpa only [light_eq_l2_none] using psd_laplace hq hq2 hL .none xs w

/-- Beyond the claim of C05 (which is about the Laplace family): the sum-power kernel
`((1−c)·mean_d exp(−|Δ_d|^q/L^q) + c)^P` is positive semi-definite too for `0 < q ≤ 2`, `0 ≤ c ≤ 1` and a
natural power `P` (mean of one-dimensional PSD kernels, a non-negative constant, Schur powers). -/
theorem psd_sumPower_nat {q L c : ℝ} (hq : 0 < q) (hq2 : q ≤ 2) (hL : 0 < L) (hc0 : 0 ≤ c) (hc1 : c ≤ 1)
    (P : ℕ) (T : Transform ℝ) {d n : ℕ} (xs : Fin n → Fin d → ℝ) (w : Fin n → ℝ) :
    0 ≤ ∑ i, ∑ j, w i * w j * entry (.sumPower q L c (P : ℝ)) T (List.ofFn (xs i)) (List.ofFn (xs j)) :=
  Kernel.sumPower_gram_psd hq hq2 hL hc0 hc1 P T xs w

/-- Non-vacuity / sharpness: the hypotheses are met by the defaults (`p = 2`, `q = 1`), and the
statement is about a kernel that is not constant (two distinct points give an entry below 1). -/
example : (0 : ℝ) < 1 ∧ (1 : ℝ) ≤ 2 ∧ (2 : ℝ) ≤ 2 ∧ (0 : ℝ) < 5 := by norm_num

/-- What follows from symmetry, unit diagonal and range alone: every `2 × 2` Gram matrix (two points) is
positive semi-definite — for every kernel and every parameter value, not only `q ≤ p ≤ 2` (and not only
natural powers of the sum-power kernel). -/
theorem psd_two_points_partial (K : Spec ℝ) (hK : Valid K) (T : Transform ℝ) (x z : List ℝ)
    (hM : K.isLight = true → dot (applyT T x) z = dot (applyT T z) x)
    (hne : K.isSumPower = true → applyT T x ≠ [] ∧ applyT T z ≠ []) (a b : ℝ) :
    0 ≤ a * a * entry K T x x + a * b * entry K T x z + b * a * entry K T z x + b * b * entry K T z z := by
  rw [diag_one K hK T x fun h => (hne h).1, diag_one K hK T z fun h => (hne h).2, ← symm K T x z hM]
  obtain ⟨h0, h1⟩ := range K hK T x z hne
  nlinarith [sq_nonneg (a + b), sq_nonneg (a - b), mul_nonneg h0.le (sub_nonneg.mpr h1)]

/-- Non-vacuity: the guards are met by concrete kernels of every class, and the light/L2 statement by
a concrete non-diagonal symmetric matrix. -/
example : Valid (.laplace 1.3 2) ∧ Valid (.light 0.7 0.01) ∧ Valid (.product 1 100) ∧
    Valid (.lpq 1.5 0.7 3) ∧ Valid (.sumPower 1.3 2 0.2 3) := by
  refine ⟨⟨?_, ?_⟩, ⟨?_, ?_⟩, ⟨?_, ?_⟩, ⟨?_, ?_, ?_⟩, ⟨?_, ?_, ?_, ?_, ?_⟩⟩ <;> norm_num

example : (!![2, 1; 1, 3] : Matrix (Fin 2) (Fin 2) ℝ).IsSymm := by
  ext i j; fin_cases i <;> fin_cases j <;> rfl

end Xrfmv.Props.C05
