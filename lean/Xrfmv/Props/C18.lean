/-
C18 — Fit and predict do not disturb caller data or process-wide settings.

Two halves, both thin by nature (DESIGN.md §6 C18: the theorem covers the *protocol*; aliasing inside torch
is runtime behaviour and is covered by the correspondence: `Tensor._version` and byte comparison).

(1) Process-wide settings: `bracket_restores` — every trace of the bracket grammar of
    `xRFM.fit/predict/predict_proba` (thread count) and `with_env_var` (PYTORCH_CUDA_ALLOC_CONF), nested to any
    depth and of any length, returns thread count and the variable (value or absence) to the initial state.
    The grammar is hand-modelled from xrfm.py / gpu_utils.py; real recorded traces are parsed against it by the
    driver (`Effects.accept`, proved sound in Lemmas/Effects.lean) on every run.

(2) Caller data: `inplace_sites_fresh_or_known` — every in-place tensor operation in the REGENERATED inventory
    `Gen.InPlace.sites` (extract/gen_inplace.py; recomputed from the current kernels.py, utils.py,
    recursive_feature_machine.py, xrfm.py, class_conversion.py on every run) targets a freshly allocated tensor
    according to the translator's alias pass, or is one of four allow-listed sites whose justification is below and
    is itself checked against the regenerated call/return inventories (`lstsq_kernel_matrix_is_fresh`,
    `matrix_power_arguments_known`).  A new in-place operation on an argument changes `Gen.InPlace.sites` and breaks
    the `decide`.
-/
import Xrfmv.Lemmas.Effects
import Xrfmv.Gen.InPlace

namespace Xrfmv.Props.C18
open Xrfmv.Effects
open Xrfmv.Gen.InPlace

/-! ## (1) process-wide settings -/

/-- **C18 (settings)** For every initial process state and every well-bracketed event trace — arbitrary nesting
depth and length — running the trace leaves the state unchanged: the torch thread count is what it was and
PYTORCH_CUDA_ALLOC_CONF has its previous value *or is absent again*. -/
theorem bracket_restores (s : State) (t : List Event) (h : WellBracketed s t) : exec s t = s :=
  exec_wellBracketed h

/-- The two components separately, as the property states them. -/
theorem bracket_restores_threads_and_env (s : State) (t : List Event) (h : WellBracketed s t) :
    (exec s t).threads = s.threads ∧ (exec s t).env = s.env := by
  rw [bracket_restores s t h]; exact ⟨rfl, rfl⟩

/-- Non-vacuity: `xRFM(n_threads=3).fit` on a one-leaf tree with `iters=1` starting from 8 threads and the variable
absent: the thread bracket around one `RFM.fit` env bracket that contains two `RFM.predict` env brackets.  The inner
brackets restore the *outer* value `expandable_segments:True`, the outer one deletes the variable. -/
example :
    WellBracketed ⟨8, none⟩
      [.getThreads, .setThreads 3,
         .envGet, .envSet "expandable_segments:True",
           .envGet, .envSet "expandable_segments:True", .envSet "expandable_segments:True",
           .envGet, .envSet "expandable_segments:True", .envSet "expandable_segments:True",
         .envDel,
       .setThreads 8] :=
  flatten_wellBracketed
    (.thr 3 (.env "expandable_segments:True"
              (.env "expandable_segments:True" .nil (.env "expandable_segments:True" .nil .nil)) .nil) .nil)
    ⟨8, none⟩

/-- … and with the variable initially set to a user value, which the outermost bracket puts back. -/
example : (accept ⟨4, some "max_split_size_mb:64"⟩
      [.envGet, .envSet "expandable_segments:True", .envSet "max_split_size_mb:64"]).toOption
    = some ⟨4, some "max_split_size_mb:64"⟩ := by decide

/-! ## (2) caller data: in-place operations -/

/-- In-place sites whose target the intraprocedural pass cannot classify as fresh, with the reason each is
harmless for *caller* data (features / targets handed to `fit`, `predict`, `predict_proba`, `get_grads`):

* `utils.py stable_matrix_power: M.diagonal().add_(1e-8)` and `M[M<0] = 0.` (1-D branch) mutate the function's
  ARGUMENT.  Who passes what is the regenerated `callArgs` (see `matrix_power_arguments_known`):
  `RFM.fit_M` passes `scaled_M = M / (M.max() + 1e-30)` — fresh; `xRFM._build_tree` passes `Xcov = Xb.T @ Xb` —
  fresh — or `M = self._get_agop_on_subset(...)`, i.e. `agop_best_model` of a throw-away split model, which is the
  value returned by `RFM.fit_M(..., inplace=False)` — fresh per `returns`; `avg_M` only exists for
  `n_tree_iters > 0` (not modelled, DESIGN §5) and is `torch.stack(...).mean(...)`.  Every one is a feature
  *matrix* (d×d AGOP / covariance) computed by the library, never a caller array.  Side remark (not a C18
  violation, recorded in evidence): the stored `self.M` of a leaf is therefore `scaled_M` *with* `1e-8` added to
  its diagonal, and the public helper `xrfm.rfm_src.matrix_power` mutates the matrix a user passes to it.
* `recursive_feature_machine.py RFM.fit_predictor_lstsq: kernel_matrix.diagonal().add_(reg)` (twice) and
  `torch.linalg.cholesky(kernel_matrix, out=kernel_matrix)`: `kernel_matrix = self.kernel(centers, centers)`
  (`aliasBindings`), `RFM.kernel` returns `self.kernel_obj.get_kernel_matrix(...)`, which returns
  `self._get_kernel_matrix_impl(...)` or `self._get_kernel_matrix_categorical_impl(...)` (`delegates`), and every
  CPU implementation of those two returns a fresh matrix (`returns`): `lstsq_kernel_matrix_is_fresh`. -/
def allowList : List (String × String × String) := [
  ("utils.py", "stable_matrix_power", "M.diagonal().add_"),
  ("utils.py", "stable_matrix_power", "M[...] ="),
  ("recursive_feature_machine.py", "RFM.fit_predictor_lstsq", "kernel_matrix.diagonal().add_"),
  ("recursive_feature_machine.py", "RFM.fit_predictor_lstsq", "out=kernel_matrix")]

/-- **C18 (caller data, static half)** Every in-place tensor operation of the regenerated inventory targets a
tensor the alias pass classifies as freshly allocated in the same function, or is an allow-listed site. -/
theorem inplace_sites_fresh_or_known :
    ∀ s ∈ sites, s.2.2.2 = Prov.fresh ∨ (s.1, s.2.1, s.2.2.1) ∈ allowList := by
  decide

/-- Justification of the `fit_predictor_lstsq` entries, over the regenerated inventories: the only binding of
`kernel_matrix` is a call of `self.kernel`; `RFM.kernel` delegates to `Kernel.get_kernel_matrix`, that to the two
`_get_kernel_matrix*_impl` methods only, and each CPU implementation of those returns a fresh tensor. -/
theorem lstsq_kernel_matrix_is_fresh :
    (("recursive_feature_machine.py", "RFM.fit_predictor_lstsq", "kernel_matrix", "self.kernel") ∈ aliasBindings ∧
     ∀ b ∈ aliasBindings, b.2.1 = "RFM.fit_predictor_lstsq" → b.2.2.1 = "kernel_matrix" → b.2.2.2 = "self.kernel") ∧
    (("recursive_feature_machine.py", "RFM.kernel", "self.kernel_obj.get_kernel_matrix") ∈ delegates ∧
     ∀ d ∈ delegates, d.2.1 = "RFM.kernel" → d.2.2 = "self.kernel_obj.get_kernel_matrix") ∧
    ((∃ d ∈ delegates, d.2.1 = "Kernel.get_kernel_matrix") ∧
     ∀ d ∈ delegates, d.2.1 = "Kernel.get_kernel_matrix" →
       d.2.2 = "self._get_kernel_matrix_impl" ∨ d.2.2 = "self._get_kernel_matrix_categorical_impl") ∧
    (∀ r ∈ returns, r.2.2.1 = "_get_kernel_matrix_impl" ∨ r.2.2.1 = "_get_kernel_matrix_categorical_impl" →
       r.2.2.2 = Prov.fresh) := by
  decide

/-- Justification of the `stable_matrix_power` entries, over the regenerated inventories: every matrix handed to
`matrix_power` / `stable_matrix_power` / `_generate_projection_from_M` is fresh at the call, or is one of the four
pass-through arguments traced in the doc-comment of `allowList`; the one of them that is bound locally comes from
`self._get_agop_on_subset`, and `RFM.fit_M` (whose return value that is) returns a fresh tensor. -/
theorem matrix_power_arguments_known :
    (∀ c ∈ callArgs, c.2.2.2.2 = Prov.fresh ∨
        (c.2.1, c.2.2.2.1) ∈ [("matrix_power", "M"), ("xRFM._generate_projection_from_M", "M"),
                              ("xRFM._build_tree", "avg_M"), ("xRFM._build_tree", "M")]) ∧
    (∀ b ∈ aliasBindings, b.2.1 = "xRFM._build_tree" → b.2.2.1 = "M" → b.2.2.2 = "self._get_agop_on_subset") ∧
    (∀ b ∈ aliasBindings, b.2.1 = "xRFM._build_tree" → b.2.2.1 = "avg_M" → b.2.2.2 = "<parameter>") ∧
    (∀ r ∈ returns, r.2.1 = "RFM" → r.2.2.1 = "fit_M" → r.2.2.2 = Prov.fresh) := by
  decide

/-- Non-vacuity of (2): the inventory is not empty and does contain kernel arithmetic (in-place operations on fresh
tensors in `kernels.py`, wherever a refactoring may have put them). -/
example : (sites.any fun s => s.1 == "kernels.py" && s.2.2.2 == Prov.fresh) = true ∧ 40 ≤ sites.length := by
  decide

end Xrfmv.Props.C18
