import Xrfmv.Props.C15
#print axioms Xrfmv.Props.C15.lp_pow_block_additive
#print axioms Xrfmv.Props.C15.onehot_lookup
#print axioms Xrfmv.Props.C15.categorical_eq_dense
#print axioms Xrfmv.Props.C15.categorical_eq_dense_blockdiag
#print axioms Xrfmv.Props.C15.categorical_matrix_eq_dense
#print axioms Xrfmv.Props.C15.agop_block_restriction
#print axioms Xrfmv.Props.C15.agop_blocks_disjoint
#print axioms Xrfmv.Props.C15.row_blocks_are_tilings
