/- Driver ops for C11 (none yet). -/
import Xrfmv.Drv.Common

namespace Xrfmv.Drv.C11

def ops : List (String × Handler) := []

end Xrfmv.Drv.C11
