"""
Translator recipes for Gen.Soft (property C09): the decision expressions of soft routing, read from the CURRENT
source of `xRFM._predict_tree_soft`, `_build_tree_cache`, `_predict_tree` and
`_get_leaf_groups_and_models_on_samples` (xrfm/xrfm.py) by `ast`:

    Side / pushOrder / pathFlag   `_build_tree_cache`: which child is pushed first, and the `took_left` flag that
                                  is appended to the path for each child (`stack.pop()` pops the last pushed)
    nodeLogit                     (X @ v - b) / (T * node_scale)
    gateTerm                      `log_prob + logsigmoid(-logits)` on left branches, `+ logsigmoid(logits)` else
    logClamp / clampLog           torch.clamp(., min=-50.0)
    sortDescending                torch.sort(weights, descending=True)
    cutoff                        `cumulative < keep`
    maxAllowed / clampCount       max(min(cap, n_leaves) - 1, 0), torch.clamp(keep_counts, max=max_allowed)
    keepPos                       `position <= keep_count`
    rejectT / routeHard / hardLeft  `T <= 0` raises; `not split_temperature` => hard routing; `proj <= split_point`

`Xrfmv.Soft` (Model/Soft.lean) calls these at every decision; `Props/C09` is proved over them.  A shape that is
not understood raises `Unsupported` (the item falls back to the pinned text, tie = correspondence only).
"""
import ast
import os
import sys

_main = sys.modules.get('__main__')
if 'py2lean' in sys.modules:
    P = sys.modules['py2lean']          # the module object whose `generate` is running
elif _main is not None and os.path.basename(getattr(_main, '__file__', '') or '') == 'py2lean.py' \
        and hasattr(_main, 'register') and hasattr(_main, 'MODULES'):
    P = _main          # translator run as a script without importing itself: it is the `__main__` module object
else:
    import py2lean as P

U = P.U
Unsupported = P.Unsupported
XRFM_PY = 'xrfm/xrfm.py'


# ------------------------------------------------------------------------------------------------
# helpers
# ------------------------------------------------------------------------------------------------
def _fn(src, name):
    return src.func(XRFM_PY, 'xRFM', name)


def _assigns(f, target):
    """all `target = value` statements of a function, in source order (any nesting depth)"""
    out = []
    for s in ast.walk(f):
        if isinstance(s, ast.Assign) and len(s.targets) == 1 and U(s.targets[0]) == target:
            out.append(s)
    out.sort(key=lambda s: (s.lineno, s.col_offset))
    return out


def _one_assign(f, target):
    a = _assigns(f, target)
    if len(a) != 1:
        raise Unsupported(f'expected exactly one assignment to `{target}`, found {len(a)}')
    return a[0].value


def _call(node, fname):
    if not (isinstance(node, ast.Call) and U(node.func) == fname):
        raise Unsupported(f'expected a call of `{fname}`, found `{U(node)[:60]}`')
    return node


def _kw(call):
    return {k.arg: k.value for k in call.keywords}


class TrS(P.Tr):
    """`Tr` + `F.logsigmoid(e)` (a function parameter `logsigmoid` of the generated definition)."""

    def num_expr(self, n):
        if isinstance(n, ast.Call) and U(n.func) in ('F.logsigmoid', 'torch.nn.functional.logsigmoid') \
                and len(n.args) == 1 and not n.keywords and U(n) not in self.env:
            return f'(logsigmoid {self.num_expr(n.args[0])})'
        return super().num_expr(n)


# ------------------------------------------------------------------------------------------------
# _build_tree_cache
# ------------------------------------------------------------------------------------------------
SIDE_DECL = '''/-- The two children of a split node. -/
inductive Side | left | right
  deriving DecidableEq, Repr'''


def _cache_pushes(src):
    """[(child_key, took_left_flag)] in push order, after checking the shape of the traversal."""
    f = _fn(src, '_build_tree_cache')
    body = P.strip_doc(f.body)
    loops = [s for s in body if isinstance(s, ast.While)]
    if len(loops) != 1 or U(loops[0].test) != 'stack':
        raise Unsupported('_build_tree_cache: `while stack:` loop not found')
    if U(_one_assign(f, 'stack')) != '[(tree, [])]':
        raise Unsupported('_build_tree_cache: initial stack')
    for counter in ('next_node_id', 'next_leaf_id'):
        init = [a for a in _assigns(f, counter)]
        if len(init) != 1 or U(init[0].value) != '0':
            raise Unsupported(f'_build_tree_cache: `{counter}` must start at 0')
    loop = loops[0]
    pops = [s for s in loop.body if isinstance(s, ast.Assign) and U(s.value) == 'stack.pop()']
    if len(pops) != 1 or U(pops[0].targets[0]) != '(node, path)' or loop.body[0] is not pops[0]:
        raise Unsupported('_build_tree_cache: `node, path = stack.pop()` (pop from the end) not found')
    ifs = [s for s in loop.body if isinstance(s, ast.If)]
    if len(ifs) != 1 or U(ifs[0].test) != "node['type'] == 'leaf'" or len(loop.body) != 2:
        raise Unsupported("_build_tree_cache: `if node['type'] == 'leaf'` not found")
    leaf_b, node_b = ifs[0].body, ifs[0].orelse
    want_leaf = ['leaf_id = next_leaf_id', 'next_leaf_id += 1', "leaf_models[leaf_id] = node['model']",
                 'leaf_paths[leaf_id] = tuple(path)', 'leaf_order.append(leaf_id)']
    if [U(s) for s in leaf_b] != want_leaf:
        raise Unsupported('_build_tree_cache: leaf branch changed')
    want_node = ['node_id = next_node_id', 'next_node_id += 1',
                 "split_directions[node_id] = node['split_direction']",
                 "split_thresholds[node_id] = node['split_point']",
                 "split_temp_scalings[node_id] = node.get('adaptive_temp_scaling', 1.0)"]
    got = [U(s) for s in node_b]
    if got[:len(want_node)] != want_node:
        raise Unsupported('_build_tree_cache: split branch changed')
    pushes = []
    for s in node_b[len(want_node):]:
        if not (isinstance(s, ast.Expr) and isinstance(s.value, ast.Call) and U(s.value.func) == 'stack.append'
                and len(s.value.args) == 1 and isinstance(s.value.args[0], ast.Tuple)
                and len(s.value.args[0].elts) == 2):
            raise Unsupported(f'_build_tree_cache: statement `{U(s)[:60]}`')
        child, ext = s.value.args[0].elts
        if U(child) not in ("node['left']", "node['right']"):
            raise Unsupported(f'_build_tree_cache: pushed child `{U(child)}`')
        key = 'left' if U(child) == "node['left']" else 'right'
        # path + [(node_id, <flag>)]
        if not (isinstance(ext, ast.BinOp) and isinstance(ext.op, ast.Add) and U(ext.left) == 'path'
                and isinstance(ext.right, ast.List) and len(ext.right.elts) == 1
                and isinstance(ext.right.elts[0], ast.Tuple) and len(ext.right.elts[0].elts) == 2
                and U(ext.right.elts[0].elts[0]) == 'node_id'
                and isinstance(ext.right.elts[0].elts[1], ast.Constant)
                and isinstance(ext.right.elts[0].elts[1].value, bool)):
            raise Unsupported(f'_build_tree_cache: path extension `{U(ext)}`')
        pushes.append((key, ext.right.elts[0].elts[1].value))
    if sorted(k for k, _ in pushes) != ['left', 'right']:
        raise Unsupported(f'_build_tree_cache: children pushed: {pushes}')
    return pushes


def soft_pushOrder(src):
    pushes = _cache_pushes(src)
    return ('/-- `_build_tree_cache`: children appended to the stack, in source order; `stack.pop()` takes the\n'
            'last one appended first. -/\n'
            'def pushOrder : List Side := [' + ', '.join(f'.{k}' for k, _ in pushes) + ']')


def soft_pathFlag(src):
    flags = dict(_cache_pushes(src))
    b = lambda v: 'true' if v else 'false'
    return ('/-- `_build_tree_cache`: the `took_left` flag of the pair `(node_id, flag)` appended to the path of\n'
            'each child. -/\n'
            'def pathFlag : Side → Bool\n'
            f'  | .left => {b(flags["left"])}\n'
            f'  | .right => {b(flags["right"])}')


# ------------------------------------------------------------------------------------------------
# _predict_tree_soft
# ------------------------------------------------------------------------------------------------
def _soft(src):
    return _fn(src, '_predict_tree_soft')


def soft_nodeLogit(src):
    f = _soft(src)
    if U(_one_assign(f, 'temperature_constant')) != 'self.split_temperature':
        raise Unsupported('_predict_tree_soft: temperature_constant')
    loops = [s for s in ast.walk(f) if isinstance(s, ast.For) and U(s.iter) == 'split_directions.items()']
    if len(loops) != 1 or U(loops[0].target) != '(node_id, direction)':
        raise Unsupported('_predict_tree_soft: loop over split_directions.items()')
    env = {'X @ direction': 'proj', 'split_thresholds[node_id]': 'thr', 'temp_scalings.get(node_id, 1.0)': 'scale',
           'temperature_constant': 'T'}
    tr = P.Tr(env, num='α')
    result = None
    for s in loops[0].body:
        if not (isinstance(s, ast.Assign) and len(s.targets) == 1):
            raise Unsupported(f'_predict_tree_soft: logits loop statement `{U(s)[:60]}`')
        tgt = U(s.targets[0])
        if tgt == 'node_logits[node_id]':
            result = tr.num_expr(s.value)
        elif isinstance(s.targets[0], ast.Name):
            env[tgt] = tr.num_expr(s.value)
        else:
            raise Unsupported(f'_predict_tree_soft: logits loop target `{tgt}`')
    if result is None:
        raise Unsupported('_predict_tree_soft: node_logits[node_id] not assigned')
    if U(_one_assign(f, 'temp_scalings')) != "cache.get('split_temp_scalings', {})":
        raise Unsupported('_predict_tree_soft: temp_scalings')
    return ('/-- `_predict_tree_soft`: the scaled logit of one split node (`proj = x · v`, `thr = b`). -/\n'
            'def nodeLogit {α : Type} [Add α] [Sub α] [Mul α] [Div α] [Neg α] (proj thr T scale : α) : α :=\n'
            f'  {result}')


def soft_gateTerm(src):
    f = _soft(src)
    outer = [s for s in ast.walk(f) if isinstance(s, ast.For) and U(s.iter) == 'leaf_order'
             and U(s.target) == 'leaf_id' and any(isinstance(b, ast.For) for b in s.body)]
    if len(outer) != 1:
        raise Unsupported('_predict_tree_soft: loop over leaf_order')
    stm = outer[0].body
    want = ['path = leaf_paths[leaf_id]', None, None, 'log_leaf_probs.append(log_prob)']
    if len(stm) != 4 or U(stm[0]) != want[0] or U(stm[3]) != want[3]:
        raise Unsupported('_predict_tree_soft: leaf loop body changed')
    init = stm[1]
    if not (isinstance(init, ast.Assign) and U(init.targets[0]) == 'log_prob' and isinstance(init.value, ast.Call)
            and U(init.value.func) == 'torch.zeros'):
        raise Unsupported('_predict_tree_soft: log_prob must start at zeros')
    inner = stm[2]
    if not (isinstance(inner, ast.For) and U(inner.iter) == 'path' and U(inner.target) == '(node_id, took_left)'):
        raise Unsupported('_predict_tree_soft: loop over path')
    ib = inner.body
    if not (len(ib) == 2 and U(ib[0]) == 'logits = node_logits[node_id]' and isinstance(ib[1], ast.If)):
        raise Unsupported('_predict_tree_soft: path loop body changed')
    br = ib[1]
    tr = TrS({'took_left': 'tookLeft', 'log_prob': 'logProb', 'logits': 'logits'}, num='α')

    def branch(b):
        if not (len(b) == 1 and isinstance(b[0], ast.Assign) and U(b[0].targets[0]) == 'log_prob'):
            raise Unsupported('_predict_tree_soft: gate branch')
        return tr.num_expr(b[0].value)
    return ('/-- `_predict_tree_soft`: one step of the accumulation of a leaf\'s log-probability along its path. -/\n'
            'def gateTerm {α : Type} [Add α] [Sub α] [Mul α] [Neg α] (logsigmoid : α → α) (tookLeft : Bool) '
            '(logProb logits : α) : α :=\n'
            f'  if {tr.bool_expr(br.test)} then {branch(br.body)} else {branch(br.orelse)}')


def _log_clamp_const(src):
    f = _soft(src)
    c = _call(_one_assign(f, 'leaf_log_prob_tensor'), 'torch.clamp')
    kw = _kw(c)
    if set(kw) != {'min'} or len(c.args) != 1 or U(c.args[0]) != 'torch.stack(log_leaf_probs, dim=1)':
        raise Unsupported('_predict_tree_soft: clamp of the leaf log-probabilities')
    return kw['min']


def soft_logClamp(src):
    v = _log_clamp_const(src)
    tr = P.Tr({}, num='α')
    if not (isinstance(v, ast.Constant) or (isinstance(v, ast.UnaryOp) and isinstance(v.operand, ast.Constant))):
        raise Unsupported('_predict_tree_soft: clamp bound is not a literal')
    return ('/-- `_predict_tree_soft`: lower clamp of the leaf log-probabilities. -/\n'
            'def logClamp {α : Type} [OfScientific α] [Neg α] : α :=\n'
            f'  {tr.num_expr(v)}')


def soft_clampLog(src):
    _log_clamp_const(src)
    return ('/-- `torch.clamp(lp, min=logClamp)`. -/\n'
            'def clampLog {α : Type} [Max α] [OfScientific α] [Neg α] (lp : α) : α :=\n'
            '  max lp logClamp')


def soft_sortDescending(src):
    f = _soft(src)
    v = _one_assign(f, '(sorted_weights, sorted_indices)')
    c = _call(v, 'torch.sort')
    kw = _kw(c)
    if len(c.args) != 1 or U(c.args[0]) != 'weights' or U(kw.get('dim', ast.Constant(1))) != '1':
        raise Unsupported('_predict_tree_soft: torch.sort arguments')
    d = kw.get('descending', ast.Constant(False))
    if not (isinstance(d, ast.Constant) and isinstance(d.value, bool)) or set(kw) - {'dim', 'descending'}:
        raise Unsupported('_predict_tree_soft: torch.sort keywords')
    if U(_one_assign(f, 'cumulative')) != 'torch.cumsum(sorted_weights, dim=1)':
        raise Unsupported('_predict_tree_soft: cumulative')
    return ('/-- `torch.sort(weights, dim=1, descending=...)`. -/\n'
            f'def sortDescending : Bool := {"true" if d.value else "false"}')


def soft_cutoff(src):
    f = _soft(src)
    c = _call(_assigns(f, 'keep_counts')[0].value, 'torch.sum')
    if len(c.args) != 1 or not isinstance(c.args[0], ast.Compare) or U(_kw(c).get('dim')) != '1':
        raise Unsupported('_predict_tree_soft: keep_counts')
    tr = P.Tr({'cumulative': 'cumulative', 'self.keep_weight_frac_in_predict': 'keep'}, num='α')
    return ('/-- `_predict_tree_soft`: sorted positions counted by `keep_counts` (cumulative mass still short of\n'
            'the keep fraction). -/\n'
            'def cutoff {α : Type} [LT α] [DecidableLT α] [LE α] [DecidableLE α] (cumulative keep : α) : Bool :=\n'
            f'  {tr.bool_expr(c.args[0])}')


def soft_maxAllowed(src):
    f = _soft(src)
    if U(_one_assign(f, 'n_leaves')) != 'weights.shape[1]':
        raise Unsupported('_predict_tree_soft: n_leaves')
    env = {'self.max_leaf_count_in_ensemble': 'cap', 'n_leaves': 'nLeaves'}
    tr = P.Tr(env, num='Int')
    a = _assigns(f, 'max_allowed')
    if not a:
        raise Unsupported('_predict_tree_soft: max_allowed')
    for s in a:
        env['max_allowed'] = tr.num_expr(s.value)
    return ('/-- `_predict_tree_soft`: largest admissible `keep_count` (kept leaves = `keep_count + 1`). -/\n'
            'def maxAllowed (cap nLeaves : Int) : Int :=\n'
            f'  {env["max_allowed"]}')


def soft_clampCount(src):
    f = _soft(src)
    a = _assigns(f, 'keep_counts')
    if len(a) != 2:
        raise Unsupported('_predict_tree_soft: keep_counts assignments')
    c = _call(a[1].value, 'torch.clamp')
    kw = _kw(c)
    if len(c.args) != 1 or U(c.args[0]) != 'keep_counts' or set(kw) != {'max'} or U(kw['max']) != 'max_allowed':
        raise Unsupported('_predict_tree_soft: clamp of keep_counts')
    return ('/-- `torch.clamp(keep_counts, max=max_allowed)`. -/\n'
            'def clampCount (count maxAllowed : Int) : Int :=\n'
            '  (min count maxAllowed)')


def soft_keepPos(src):
    f = _soft(src)
    v = _one_assign(f, 'keep_mask_sorted')
    pr = _one_assign(f, 'position_range')
    if not U(pr).startswith('torch.arange(n_leaves'):
        raise Unsupported('_predict_tree_soft: position_range')
    tr = P.Tr({'position_range': 'position', 'keep_counts.unsqueeze(1)': 'keepCount'}, num='Int')
    if not isinstance(v, ast.Compare):
        raise Unsupported('_predict_tree_soft: keep_mask_sorted')
    sc = [s for s in ast.walk(f) if isinstance(s, ast.Expr)
          and U(s.value) == 'active_mask.scatter_(1, sorted_indices, keep_mask_sorted)']
    if len(sc) != 1:
        raise Unsupported('_predict_tree_soft: scatter of the kept positions')
    return ('/-- `_predict_tree_soft`: which sorted positions stay active. -/\n'
            'def keepPos (position keepCount : Int) : Bool :=\n'
            f'  {tr.bool_expr(v)}')


def soft_rejectT(src):
    f = _soft(src)
    for s in ast.walk(f):
        if isinstance(s, ast.If) and len(s.body) == 1 and isinstance(s.body[0], ast.Raise) and not s.orelse \
                and 'temperature_constant' in U(s.test):
            tr = P.Tr({'temperature_constant': 'T'}, num='α')
            return ('/-- `_predict_tree_soft`: temperatures for which a `ValueError` is raised. -/\n'
                    'def rejectT {α : Type} [OfNat α 0] [LT α] [DecidableLT α] [LE α] [DecidableLE α] (T : α) : Bool :=\n'
                    f'  {tr.bool_expr(s.test)}')
    raise Unsupported('_predict_tree_soft: temperature guard not found')


# ------------------------------------------------------------------------------------------------
# _predict_tree (dispatch), _get_leaf_groups_and_models_on_samples (hard routing predicate)
# ------------------------------------------------------------------------------------------------
def soft_routeHard(src):
    f = _fn(src, '_predict_tree')
    body = P.strip_doc(f.body)
    if not (len(body) == 2 and isinstance(body[0], ast.If) and not body[0].orelse and len(body[0].body) == 1
            and isinstance(body[0].body[0], ast.Return) and isinstance(body[1], ast.Return)
            and U(body[0].body[0].value) == 'self._predict_tree_hard(X, tree, proba=proba)'
            and U(body[1].value) == 'self._predict_tree_soft(X, tree, proba=proba)'):
        raise Unsupported('_predict_tree: dispatch shape')
    t = U(body[0].test)
    # Python truthiness of the temperature: `not t` holds for None and for 0 / 0.0
    expr = {'not self.split_temperature': '(tempIsNone || tempIsZero)',
            'self.split_temperature is None': 'tempIsNone'}.get(t)
    if expr is None:
        raise Unsupported(f'_predict_tree: test `{t}`')
    return ('/-- `_predict_tree`: when the hard path is taken. -/\n'
            'def routeHard (tempIsNone tempIsZero : Bool) : Bool :=\n'
            f'  {expr}')


def soft_hardLeft(src):
    f = _fn(src, '_get_leaf_groups_and_models_on_samples')
    v = _one_assign(f, 'left_mask')
    if U(_one_assign(f, 'projections')) != "current_X @ current_node['split_direction']":
        raise Unsupported('_get_leaf_groups_and_models_on_samples: projections')
    if U(_one_assign(f, 'right_mask')) != '~left_mask':
        raise Unsupported('_get_leaf_groups_and_models_on_samples: right_mask')
    tr = P.Tr({'projections': 'proj', "current_node['split_point']": 'thr'}, num='α')
    return ('/-- `_get_leaf_groups_and_models_on_samples`: a row goes left (hard routing). -/\n'
            'def hardLeft {α : Type} [LT α] [DecidableLT α] [LE α] [DecidableLE α] (proj thr : α) : Bool :=\n'
            f'  {tr.bool_expr(v)}')


P.register('Soft', XRFM_PY, ['Xrfmv.Scalar'], [
    ('Side', P.const(SIDE_DECL)),
    ('pushOrder', soft_pushOrder),
    ('pathFlag', soft_pathFlag),
    ('nodeLogit', soft_nodeLogit),
    ('gateTerm', soft_gateTerm),
    ('logClamp', soft_logClamp),
    ('clampLog', soft_clampLog),
    ('sortDescending', soft_sortDescending),
    ('cutoff', soft_cutoff),
    ('maxAllowed', soft_maxAllowed),
    ('clampCount', soft_clampCount),
    ('keepPos', soft_keepPos),
    ('rejectT', soft_rejectT),
    ('routeHard', soft_routeHard),
    ('hardLeft', soft_hardLeft),
])
