/-
The index-level construction never hits an assertion and never runs out of fuel (C07/C08's `ok`), derived from the
size facts of C06: the two children receive `lu + o` and `ru + o` samples, both non-empty and strictly fewer than the
node, whenever the overlap oracle leaves two unshared samples at every node that is split.
-/
import Xrfmv.Lemmas.BuildIndex
import Xrfmv.Lemmas.BuildSizes

namespace Xrfmv.BuildIndex
open Xrfmv.Gen.Split Xrfmv.Gen.Refill List

theorem length_selectBy {α : Type} (p : Nat → Bool) (xs : List α) :
    (selectBy p xs).length = (List.range xs.length).countP p := by
  unfold selectBy
  rw [List.length_map, ← List.countP_eq_length_filter]
  have h : (xs.zipIdx.map Prod.snd).countP p = xs.zipIdx.countP (p ∘ Prod.snd) := List.countP_map
  have h2 : xs.zipIdx.map Prod.snd = List.range xs.length := by
    rw [List.zipIdx_map_snd, List.range_eq_range']
  rw [← h2, h]
  rfl

/-- Counting the positions of `range n` that belong to a duplicate-free list of positions `< n`. -/
theorem countP_contains (S : List Nat) (n : Nat) (hnd : S.Nodup) (hlt : ∀ i ∈ S, i < n) :
    (List.range n).countP (fun i => S.contains i) = S.length := by
  rw [List.countP_eq_length_filter]
  apply List.Perm.length_eq
  apply (List.perm_ext_iff_of_nodup (List.nodup_range.filter _) hnd).mpr
  intro i
  simp only [List.mem_filter, List.mem_range, List.contains_iff_mem]
  constructor
  · intro h; exact h.2
  · intro h; exact ⟨hlt i h, h⟩

/-- The left child receives `lu + o` samples, the right child `n - lu`. -/
theorem child_lengths (idx sorted : List Nat) (o : Nat) (hs : IsPermOfRange sorted idx.length) (ho : o ≤ idx.length) :
    (selectBy (sideMask idx.length sorted (o : Int) .left) idx).length = min ((idx.length - o + 1) / 2 + o) idx.length ∧
    (selectBy (sideMask idx.length sorted (o : Int) .right) idx).length = idx.length - (idx.length - o + 1) / 2 := by
  have hn := hs.length
  have hnd := hs.nodup
  set n := idx.length with hndef
  set lu := (n - o + 1) / 2 with hlu
  have hmem : ∀ i ∈ sorted, i < n := fun i hi => (hs.mem i).mp hi
  constructor
  · rw [length_selectBy]
    simp only [sideMask, maskSel_left sorted n o hn ho]
    rw [← hlu, ← List.take_add]
    rw [countP_contains _ n ((List.take_sublist _ _).nodup hnd) (fun i hi => hmem i (List.mem_of_mem_take hi))]
    simp [hn]
  · rw [length_selectBy]
    simp only [sideMask, maskSel_right sorted n o hn ho]
    rw [← hlu]
    have hperm : (sorted.drop (lu + o) ++ (sorted.drop lu).take o).Perm (sorted.drop lu) := by
      have : sorted.drop lu = (sorted.drop lu).take o ++ sorted.drop (lu + o) := by
        rw [← List.drop_drop, List.take_append_drop]
      have h2 : (sorted.drop (lu + o) ++ (sorted.drop lu).take o).Perm
          ((sorted.drop lu).take o ++ sorted.drop (lu + o)) := List.perm_append_comm
      exact h2.trans (by rw [← this])
    have hnd' : (sorted.drop (lu + o) ++ (sorted.drop lu).take o).Nodup :=
      hperm.nodup_iff.mpr ((List.drop_sublist _ _).nodup hnd)
    rw [countP_contains _ n hnd' (fun i hi => hmem i (List.mem_of_mem_drop (hperm.subset hi)))]
    rw [hperm.length_eq]
    simp [hn]

end Xrfmv.BuildIndex

namespace Xrfmv.BuildIndex
open Xrfmv.Gen.Split Xrfmv.Gen.Refill List

/-- The overlap oracle leaves two unshared samples at every node that is split (C06's hypothesis, derived there from
`(1 - 2f)·max_leaf_size ≥ 4`). -/
def OvOk (cfg : Cfg) (O : Oracles) : Prop :=
  ∀ m : Nat, cfg.maxLeaf < m → ∃ o : Nat, O.ov m = (o : Int) ∧ o + 2 ≤ m

/-- **The construction succeeds**: without a forced split count, with fuel `n + 1`, for every oracle meeting the sort
contract, no assertion of the balanced split fails and the recursion ends. -/
theorem index_build_ok (cfg : Cfg) (O : Oracles) (hns : cfg.nsplits = none) (hc : Contracts O) (hov : OvOk cfg O) :
    ∀ (fuel : Nat) (path : List Bool) (idx : List Nat) (isRoot : Bool) (count : Nat),
      idx.length + 1 ≤ fuel → (build cfg O fuel path idx isRoot count).1.ok = true := by
  intro fuel
  induction fuel with
  | zero => intro path idx isRoot count h; omega
  | succ fuel ih =>
    intro path idx isRoot count hfuel
    simp only [build]
    split
    · split <;> simp [ITree.ok]
    · rename_i hleaf
      have hgt : cfg.maxLeaf < idx.length := by
        simp only [hns, shouldCreateLeaf, Option.isNone_none, Bool.true_or, Bool.and_true, decide_eq_true_eq] at hleaf
        omega
      obtain ⟨o, hov', ho2⟩ := hov idx.length hgt
      have hlen := child_lengths idx (O.sortO path idx.length) o (hc.sort path idx.length) (by omega)
      simp only [leftChild, rightChild, hov']
      set li := selectBy (sideMask idx.length (O.sortO path idx.length) (o : Int) .left) idx with hli
      set ri := selectBy (sideMask idx.length (O.sortO path idx.length) (o : Int) .right) idx with hri
      have hl1 : li.length = (idx.length - o + 1) / 2 + o := by rw [hlen.1]; omega
      have hr1 : ri.length = idx.length - (idx.length - o + 1) / 2 := hlen.2
      have hlne : li ≠ [] := by intro h; rw [h] at hl1; simp at hl1; omega
      have hrne : ri ≠ [] := by intro h; rw [h] at hr1; simp at hr1; omega
      have hcond : ¬ (idx.length = 0 ∨ li = [] ∨ ri = []) := by
        rintro (h | h | h)
        · omega
        · exact hlne h
        · exact hrne h
      rw [if_neg hcond]
      have h1 := ih (path ++ [false]) li false (count + 1) (by omega)
      have h2 := ih (path ++ [true]) ri false
        (build cfg O fuel (path ++ [false]) li false (count + 1)).2 (by omega)
      simp only [ITree.ok, Bool.not_true, Bool.and_eq_true]
      exact ⟨h1, h2⟩

end Xrfmv.BuildIndex
