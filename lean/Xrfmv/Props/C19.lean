/-
C19 — Adaptive bandwidth follows the median heuristic and gives scale invariance.

Model: `Xrfmv.Median` (`Model/Median.lean`): `lowerMedian` = `sorted[(n−1)/2]` (what `torch.median`
returns), `pairDists` = the off-diagonal distance list, `adapt` = `base × median` with the code's
`< eps → 1` guard, `solveStep`/`iterate` = `RFM.fit_predictor`/`RFM.fit` in adaptive mode with the
linear solve and the AGOP step as oracles; kernels and distances are those of `Xrfmv.Kernel` (C05).
Everything at `ℝ`, for every dimension, number of points and (for the loop) number of iterations.

Proved: the scale laws of the median, the distances, the adapted bandwidth, every Laplace-family
kernel value and the whole Gram matrix; invariance of the predictions of every iterate **given** that
the AGOP step is scale-covariant (`AgopScaleCovariant`, the contract C04/C14 would have to supply –
not proved here), and unconditionally for the first solve (`M = I`).
The sum-power kernel is excluded: it has no adaptive mode (the code raises).
-/
import Xrfmv.Lemmas.Median
import Xrfmv.Lemmas.AgopScale
import Xrfmv.Lemmas.AgopStep

namespace Xrfmv.Props.C19
open Xrfmv Xrfmv.Kernel Xrfmv.Median

/-- **C19 median scale law.** `median (c·l) = c · median l` for `c > 0` (lower median by sorting;
mapping by a strictly monotone function commutes with the sort).  Same for the upper median, so any
convention between the two scales the same way. -/
theorem median_scale {c : ℝ} (hc : 0 < c) (l : List ℝ) :
    lowerMedian (l.map (c * ·)) = (lowerMedian l).map (c * ·) :=
  lowerMedian_map_strictMono (strictMono_mul_left hc) l

theorem upper_median_scale {c : ℝ} (hc : 0 < c) (l : List ℝ) :
    upperMedian (l.map (c * ·)) = (upperMedian l).map (c * ·) :=
  upperMedian_map_strictMono (strictMono_mul_left hc) l

/-- The median is defined exactly for non-empty lists, and is one of the entries. -/
theorem median_defined {l : List ℝ} (h : l ≠ []) : ∃ m, lowerMedian l = some m ∧ m ∈ l := by
  have := lowerMedian_isSome h
  obtain ⟨m, hm⟩ := Option.isSome_iff_exists.mp this
  exact ⟨m, hm, lowerMedian_mem hm⟩

/-- **C19 distance scale law.** `‖T(cx) − T(cz)‖ = c ‖T(x) − T(z)‖` in the kernel's own norm
(`p = 2`, `q`, `p`; the `M`-quadratic form for the light kernel), any transform, `c > 0`. -/
theorem dist_scale {c : ℝ} (hc : 0 < c) (K : Spec ℝ) (hK : ParamOK K) (T : Transform ℝ) (x z : List ℝ) :
    Kernel.dist K T (smul c x) (smul c z) = c * Kernel.dist K T x z :=
  dist_smul hc K hK T x z

/-- Hence the whole off-diagonal distance list scales by `c`. -/
theorem pairDists_scale {c : ℝ} (hc : 0 < c) (K : Spec ℝ) (hK : ParamOK K) (T : Transform ℝ)
    (X : List (List ℝ)) :
    pairDists (Kernel.dist K T) (X.map (smul c)) = (pairDists (Kernel.dist K T) X).map (c * ·) :=
  pairDists_map _ _ _ c (fun x z => dist_smul hc K hK T x z) X

/-- **C19 median heuristic under rescaling.** The adapted bandwidth `base × median` scales by `c`
when the inputs do — provided the `< eps → 1` guard fires at neither scale. -/
theorem bandwidth_scale {c eps base : ℝ} (hc : 0 < c) (K : Spec ℝ) (hK : ParamOK K) (T : Transform ℝ)
    (X : List (List ℝ))
    (hg : ∀ m, lowerMedian (pairDists (Kernel.dist K T) X) = some m → eps ≤ m ∧ eps ≤ c * m) :
    adapt eps base (pairDists (Kernel.dist K T) (X.map (smul c))) =
      (adapt eps base (pairDists (Kernel.dist K T) X)).map (c * ·) := by
  unfold adapt
  rw [pairDists_scale hc K hK, median_scale hc]
  cases hm : lowerMedian (pairDists (Kernel.dist K T) X) with
  | none => rfl
  | some m =>
    obtain ⟨h1, h2⟩ := hg m hm
    simp only [Xrfmv.Gen.Bandwidth.adapted, Xrfmv.Gen.Bandwidth.guardMult, Option.map_some, not_lt.mpr h1, not_lt.mpr h2, if_false]
    congr 1
    ring

/-- The profile identity behind it: `(c·d)^q / (c·L)^q = d^q / L^q`. -/
theorem profile_scale_invariant {c : ℝ} (hc : 0 < c) (q : ℝ) {L d : ℝ} (hL : 0 ≤ L) (hd : 0 ≤ d) :
    lap q (c * L) (c * d) = lap q L d :=
  lap_scale hc q hL hd

/-- **C19 kernel scale invariance.** Inputs and bandwidth both scaled by `c > 0` leave every
Laplace-family kernel value unchanged (L2, memory-light, product, Lpq; any transform). -/
theorem kernel_scale_invariant {c : ℝ} (hc : 0 < c) (K : Spec ℝ) (hK : ParamOK K) (hL : 0 ≤ K.L)
    (T : Transform ℝ) (x z : List ℝ) :
    entry (K.withL (c * K.L)) T (smul c x) (smul c z) = entry K T x z :=
  entry_scale hc K hK hL T x z

/-- **C19 Gram invariance.** The whole kernel matrix. -/
theorem gram_invariant {c : ℝ} (hc : 0 < c) (K : Spec ℝ) (hK : ParamOK K) (hL : 0 ≤ K.L)
    (T : Transform ℝ) (xs zs : List (List ℝ)) :
    matrix (K.withL (c * K.L)) T (xs.map (smul c)) (zs.map (smul c)) = matrix K T xs zs :=
  matrix_scale hc K hK hL T xs zs

/-- **C19 target (scale invariance of the fitted predictor), as a statement about the AGOP step `O.upd`
of the implementation.**  For every iterate `i` of the adaptive fit (any budget), every `c > 0`, every
test set: the iterate fitted on `(c·X, Y)` predicts at `c·X_test` what the iterate fitted on `(X, Y)`
predicts at `X_test` (so validation scores, hence the selected iterate, agree as well).  Guards: base
bandwidth `≥ 0`, `eps ≥ 0`, the `< eps` guard of the median fires at neither scale. -/
def fit_scale_invariant (O : Oracles ℝ) : Prop :=
  ∀ (c eps : ℝ) (K0 : Spec ℝ) (X Y Xtest : List (List ℝ)) (i : ℕ),
    0 < c → 0 ≤ eps → ParamOK K0 → 0 ≤ K0.L → GuardOff eps c O K0 X Y i →
    (iterate O eps K0 (X.map (smul c)) Y i).map (fun it => predict it (X.map (smul c)) (Xtest.map (smul c))) =
      (iterate O eps K0 X Y i).map fun it => predict it X Xtest

/-- **C19 partial (1): any number of iterations, conditional.**  `fit_scale_invariant` holds for every
AGOP step that is scale-covariant (`AgopScaleCovariant`: same normalised feature matrix from inputs and
bandwidth scaled by `c`).  That the implementation's `fit_M` has this property (gradients scale by
`1/c`; the `1e-30` regulariser idealised to 0) is NOT proved here. -/
theorem fit_scale_invariant_partial (O : Oracles ℝ) (hO : AgopScaleCovariant O) :
    fit_scale_invariant O := by
  intro c eps K0 X Y Xtest i hc heps hK hL hg
  rw [iterate_scale hc heps O hO K0 hK hL X Y i hg]
  cases hi : iterate O eps K0 X Y i with
  | none => rfl
  | some it =>
    simp only [Option.map_some]
    obtain ⟨hitL, L, hitK⟩ := iterate_L_nonneg heps O K0 hL X Y i it hi (hg i le_rfl it hi).1
    have hitP : ParamOK it.K := by rw [hitK]; exact paramOK_withL _ hK
    rw [predict_scale hc it hitP hitL]

/-- **C19 partial (2): unconditional for the first solve** (`iters = 0`, `M = I`, no AGOP step):
same Gram matrix ⇒ same coefficients (the solve is a function of the Gram matrix and the targets)
⇒ same predictions. -/
theorem fit_scale_invariant_iter0 (O : Oracles ℝ) (c eps : ℝ) (K0 : Spec ℝ) (X Y Xtest : List (List ℝ))
    (hc : 0 < c) (heps : 0 ≤ eps) (hK : ParamOK K0) (hL : 0 ≤ K0.L) (hg : GuardOff eps c O K0 X Y 0) :
    (iterate O eps K0 (X.map (smul c)) Y 0).map (fun it => predict it (X.map (smul c)) (Xtest.map (smul c))) =
      (iterate O eps K0 X Y 0).map fun it => predict it X Xtest := by
  have h0 : iterate O eps K0 (X.map (smul c)) Y 0 = (iterate O eps K0 X Y 0).map (scaleIt c) :=
    solveStep_scale hc heps O K0 hK hL X Y .none fun it h => hg 0 le_rfl it h
  rw [h0]
  cases hi : iterate O eps K0 X Y 0 with
  | none => rfl
  | some it =>
    simp only [Option.map_some]
    obtain ⟨hitL, L, hitK⟩ := iterate_L_nonneg heps O K0 hL X Y 0 it hi (hg 0 le_rfl it hi).1
    have hitP : ParamOK it.K := by rw [hitK]; exact paramOK_withL _ hK
    rw [predict_scale hc it hitP hitL]

/-- Non-vacuity: parameter guards are met by a concrete kernel of each adaptive class, a constant AGOP
step is scale-covariant, and for two distinct points the median guard is off at scales `1e-3` and `1e3`. -/
example : ParamOK (.laplace 1.3 2) ∧ ParamOK (.light 0.7 5) ∧ ParamOK (.product 1 0.5) ∧ ParamOK (.lpq 1.5 0.7 3) := by
  refine ⟨trivial, trivial, ?_, ?_⟩ <;> simp only [ParamOK] <;> norm_num

example : AgopScaleCovariant { solve := fun _ Y => Y, upd := fun _ _ _ _ => .none } :=
  fun _ _ _ _ _ _ => rfl

/-- the guard hypothesis is satisfiable for every data set (with `eps = 0`; the code's `eps` is `1e-14`) -/
example {c : ℝ} (hc : 0 < c) (O : Oracles ℝ) (K0 : Spec ℝ) (X Y : List (List ℝ)) (i : ℕ) :
    GuardOff 0 c O K0 X Y i := guardOff_zero hc O K0 X Y i

example : lowerMedian ([1, 2, 3, 4] : List ℝ) = some 2 ∧ upperMedian ([1, 2, 3, 4] : List ℝ) = some 3 := by
  have h : sort ([1, 2, 3, 4] : List ℝ) = [1, 2, 3, 4] := by
    unfold sort
    apply List.mergeSort_of_pairwise
    simp only [List.pairwise_cons, List.mem_cons, List.not_mem_nil, or_false, decide_eq_true_eq]
    norm_num
  constructor <;> simp [lowerMedian, upperMedian, h]

/-- **C19 (towards the AGOP contract)** One half of `AgopScaleCovariant` is proved on the AGOP model of C14: if every
gradient row is multiplied by a common factor `a ≠ 0` — which is what rescaling the inputs and the bandwidth by `c` does
to the gradients of every Laplace-family kernel (`a = 1/c`, a consequence of the closed forms of C04 that is *not* proved
here) — the max-normalised AGOP is unchanged.  What remains unproved of the contract is therefore only that homogeneity of
the gradients (and the idealisation of the `1e-30` regulariser). -/
theorem normalised_agop_scale_free (d : ℕ) (G : List (List ℝ)) (a : ℝ) (ha : a ≠ 0) :
    Xrfmv.Agop.normalise 0 (Xrfmv.Agop.agopFull d (G.map fun g => g.map (a * ·))) =
      Xrfmv.Agop.normalise 0 (Xrfmv.Agop.agopFull d G) :=
  Xrfmv.Agop.normalised_agop_scale_invariant d G a ha

/-! ### the whole adaptive fit with the implementation's AGOP step -/

/-- The oracles of the implementation: the AGOP step is the concrete one (`Model/AgopStep.lean`: closed-form gradients of
C04 at the centers, `GᵀG` of C14, division by the maximum, then a function `root` of the normalised matrix — square root
through the eigen-decomposition, or the matrix itself for the memory-light kernel, or its diagonal); only the linear
solve (a function of the Gram matrix and the targets) and `root` stay abstract. -/
noncomputable def implOracles (solve : List (List ℝ) → List (List ℝ) → List (List ℝ)) (gradEps : ℝ)
    (root : List (List ℝ) → Transform ℝ) : Oracles ℝ :=
  { solve := solve, upd := Xrfmv.AgopStep.agopStep gradEps 0 root }

/-- The coincidence masks of the gradients fire for the same pairs of centers at both scales, at every iterate before
`i` (true when distinct centers are at least `max(gradEps, gradEps/c)` apart in the kernel's own transformed norm). -/
def MaskGuardOff (c eps gradEps : ℝ) (O : Oracles ℝ) (K0 : Spec ℝ) (X Y : List (List ℝ)) (i : ℕ) : Prop :=
  ∀ j < i, ∀ it, iterate O eps K0 X Y j = some it → Xrfmv.AgopStep.MaskGuard c gradEps it.K it.T X

/-- **C19 (scale invariance of the fitted predictor, any iteration budget, the implementation's AGOP step).**
For every linear solver and every matrix-root function, every Laplace-family kernel, every number of iterations `i`,
every `c > 0`: the iterate fitted on `(c·X, Y)` predicts at `c·X_test` exactly what the iterate fitted on `(X, Y)`
predicts at `X_test`.  Guards: the `< eps` guard of the median and the `< gradEps` coincidence masks fire at neither /
at the same pairs at both scales; idealisations: the `1e-30` in the normalisation is 0, all centers are used (below the
sub-sampling limits), gradients are not centred. -/
theorem fit_scale_invariant_concrete (solve : List (List ℝ) → List (List ℝ) → List (List ℝ)) (gradEps : ℝ)
    (root : List (List ℝ) → Transform ℝ) (c eps : ℝ) (K0 : Spec ℝ) (X Y Xtest : List (List ℝ)) (i : ℕ)
    (hc : 0 < c) (heps : 0 ≤ eps) (hK : ParamOK K0) (hL : 0 ≤ K0.L)
    (hg : GuardOff eps c (implOracles solve gradEps root) K0 X Y i)
    (hmask : MaskGuardOff c eps gradEps (implOracles solve gradEps root) K0 X Y i) :
    (iterate (implOracles solve gradEps root) eps K0 (X.map (smul c)) Y i).map
        (fun it => predict it (X.map (smul c)) (Xtest.map (smul c))) =
      (iterate (implOracles solve gradEps root) eps K0 X Y i).map fun it => predict it X Xtest := by
  set O := implOracles solve gradEps root with hOdef
  have hstep : ∀ j < i, ∀ it, iterate O eps K0 X Y j = some it →
      O.upd (it.K.withL (c * it.K.L)) it.T (X.map (smul c)) it.alpha = O.upd it.K it.T X it.alpha := by
    intro j hj it hit
    obtain ⟨hitL, L, hitK⟩ := iterate_L_nonneg heps O K0 hL X Y j it hit (hg j hj.le it hit).1
    have hitP : ParamOK it.K := by rw [hitK]; exact paramOK_withL _ hK
    exact Xrfmv.AgopStep.agopStep_scale hc gradEps root it.K hitP hitL it.T X it.alpha (hmask j hj it hit)
  rw [iterate_scale_on hc heps O K0 hK hL X Y i hg hstep]
  cases hi : iterate O eps K0 X Y i with
  | none => rfl
  | some it =>
    simp only [Option.map_some]
    obtain ⟨hitL, L, hitK⟩ := iterate_L_nonneg heps O K0 hL X Y i it hi (hg i le_rfl it hi).1
    have hitP : ParamOK it.K := by rw [hitK]; exact paramOK_withL _ hK
    rw [predict_scale hc it hitP hitL]

/-- Non-vacuity: with `eps = gradEps = 0` both guards hold for every data set, every kernel, every budget. -/
example (solve : List (List ℝ) → List (List ℝ) → List (List ℝ)) (root : List (List ℝ) → Transform ℝ) {c : ℝ} (hc : 0 < c)
    (K0 : Spec ℝ) (X Y : List (List ℝ)) (i : ℕ) :
    GuardOff 0 c (implOracles solve 0 root) K0 X Y i ∧ MaskGuardOff c 0 0 (implOracles solve 0 root) K0 X Y i :=
  ⟨guardOff_zero hc _ K0 X Y i, fun _ _ it _ => Xrfmv.AgopStep.maskGuard_zero hc it.K it.T X⟩

end Xrfmv.Props.C19
