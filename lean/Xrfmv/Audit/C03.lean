import Xrfmv.Props.C03
#print axioms Xrfmv.Props.C03.selected_optimal
#print axioms Xrfmv.Props.C03.evaluated_prefix
#print axioms Xrfmv.Props.C03.best_iter_is_selected
#print axioms Xrfmv.Props.C03.returns_last
