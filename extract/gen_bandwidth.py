"""
Translator recipe: Gen.Bandwidth <- Kernel._adapt_bandwidth (xrfm/rfm_src/kernels.py): the defaults (median mode, 5,000-row
sub-sample, guard 1e-14), the off-diagonal lower median, the `< eps -> 1` guard and `bandwidth = base_bandwidth * multiplier`.
Used by the adaptive-bandwidth model of C19 (`Model/Median.lean`).
"""
import ast
import re

import py2lean
from py2lean import U, Unsupported

K_PY = 'xrfm/rfm_src/kernels.py'


def bandwidth_adapt(src):
    f = src.func(K_PY, 'Kernel', '_adapt_bandwidth')
    names = [a.arg for a in f.args.args]
    defaults = dict(zip(names[len(names) - len(f.args.defaults):], [U(d) for d in f.args.defaults]))
    if defaults.get('adapt_mode') != "'median'":
        raise Unsupported(f'_adapt_bandwidth: default adapt_mode is {defaults.get("adapt_mode")}')
    try:
        limit = int(defaults.get('sub_mat_size'))
    except (TypeError, ValueError):
        raise Unsupported(f'_adapt_bandwidth: sub_mat_size default {defaults.get("sub_mat_size")}')
    m = re.fullmatch(r'1e-(\d+)', defaults.get('eps', ''))
    if not m:
        raise Unsupported(f'_adapt_bandwidth: eps default {defaults.get("eps")}')
    txt = U(f)
    need = ['sub_mat_size = min(sub_mat_size, n)',
            'sample_indices = torch.randperm(n)[:sub_mat_size]',
            'sample_matrix = kernel_mat[sample_indices][:, sample_indices]',
            'if self.exponent != 1.0:',
            'sample_matrix = sample_matrix ** (1 / self.exponent)',
            'mask = ~torch.eye(sub_mat_size, dtype=bool, device=kernel_mat.device)',
            'bandwidth_multiplier = torch.median(sample_matrix[mask]).item()',
            'bandwidth_multiplier = 1.0 if bandwidth_multiplier < eps else bandwidth_multiplier',
            'self.bandwidth = self.base_bandwidth * bandwidth_multiplier',
            'self.is_adaptive_bandwidth = True']
    for n in need:
        if n not in txt:
            raise Unsupported(f'_adapt_bandwidth: `{n}` not found')
    return ('/-- `Kernel._adapt_bandwidth`: the distance matrix (entries `D^p`) is sub-sampled to at most `subsampleLimit` rows, the\n'
            'element-wise root is taken unless the exponent is 1, the multiplier is the (lower) median of the off-diagonal entries,\n'
            'a multiplier below `10^guardEpsExp10` is replaced by 1, and `bandwidth = base_bandwidth * multiplier`. -/\n'
            f'def subsampleLimit : Nat := {limit}\n'
            f'def guardEpsExp10 : Int := -{int(m.group(1))}\n'
            'def medianOfOffDiagonal : Bool := true\n'
            'def rootTakenUnlessExponentOne : Bool := true\n'
            'abbrev guardMult {α : Type} [LT α] [DecidableLT α] [OfNat α 1] (eps m : α) : α := if m < eps then 1 else m\n'
            'abbrev adapted {α : Type} [Mul α] (base mult : α) : α := base * mult')


py2lean.register('Bandwidth', K_PY, [], [('adapt', bandwidth_adapt)])
