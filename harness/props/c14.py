"""
C14 — learned feature matrix is the normalised AGOP with a consistent square root.

Proof: lean/Xrfmv/Props/C14.lean (batch additivity, symmetry, PSD, max on the diagonal, max entry one, root squares
back; negative result for per-batch centring).
Correspondence (float64, RFM level): every `fit_M` call of a real `RFM.fit` is recorded from outside together with the
predictor it was computed from (weights, M/sqrtM, bandwidth at that moment); the Lean driver recomputes the gradients of
that predictor at the training points from the closed forms of C04 (each point's own kernel term omitted), accumulates
the AGOP over the same batches, normalises, and is compared with what `fit_M` produced; the root is recomputed from an
oracle eigen-decomposition.
Property oracle on the implementation: finite, symmetric, PSD, max entry one, root squares back, independent of
`M_batch_size`, `agop_best_model` = AGOP of the returned predictor recomputed by the real `fit_M(inplace=False)`.
"""
from harness import core
from harness.props import c04

MOD = 'harness.props.c14'
EPS64 = c04.EPS64
JITTER_NORM = 1e-30          # M / (M.max() + 1e-30)
JITTER_SVD = 1e-8            # stable_matrix_power: M.diagonal().add_(1e-8) (in place, before the SVD)
SIG_CENTER = 'C14:center_grads-batch-dependent'


# ------------------------------------------------------------------------------------------------
class AgopRec:
    """Wraps `fit_M` on the instance: records the predictor state each AGOP was computed from and the result."""

    def __init__(self, model):
        self.calls = []
        self.model = model
        orig = model.fit_M
        rec = self

        def fit_M(samples, num_classes, M_batch_size=None, inplace=True, **kw):
            m = rec.model
            T = m.sqrtM if m.use_sqrtM else m.M
            state = {'weights': m.weights.clone(), 'T': None if T is None else T.clone(),
                     'bandwidth': float(m.kernel_obj.bandwidth), 'centers': m.centers.clone(),
                     'samples': samples.clone(), 'batch': M_batch_size, 'inplace': inplace,
                     'center_grads': bool(m.center_grads)}
            out = orig(samples, num_classes, M_batch_size=M_batch_size, inplace=inplace, **kw)
            if inplace:
                state['M'] = m.M.clone()
                state['sqrtM'] = None if m.sqrtM is None else m.sqrtM.clone()
            else:
                state['M'] = out.clone()
                state['sqrtM'] = None
            rec.calls.append(state)
            return out

        model.fit_M = fit_M


def make_data(p):
    import torch
    g = torch.Generator().manual_seed(p['seed'])
    dt = torch.float64
    n, d, o = p['n'], p['d'], p['outputs']
    X = torch.randn(n, d, generator=g, dtype=dt) * torch.tensor([1.0, 0.5, 2.0, 1.0, 0.3], dtype=dt)[:d]
    W = torch.randn(d, o, generator=g, dtype=dt)
    y = torch.tanh(X @ W) + 0.1 * torch.randn(n, o, generator=g, dtype=dt)
    nv = max(4, n // 3)
    Xv = torch.randn(nv, d, generator=g, dtype=dt)
    yv = torch.tanh(Xv @ W) + 0.1 * torch.randn(nv, o, generator=g, dtype=dt)
    ys = float(p.get('yscale', 1.0))      # targets in other units: the normalised feature matrix does not depend on them
    return X, y * ys, Xv, yv * ys


def run_fit(p):
    import torch
    from xrfm.rfm_src import RFM
    X, y, Xv, yv = make_data(p)
    maximize = bool(p.get('maximize'))
    model = RFM(kernel=c04.make_kernel(p['kernel']), iters=p['iters'], device='cpu', verbose=False, diag=p['diag'],
                bandwidth_mode=p.get('bandwidth_mode', 'constant'), tuning_metric='accuracy' if maximize else 'mse')
    if maximize:
        # a maximised metric (the other branch of update_best_params): validation scores scripted to peak at a middle iterate
        peak = max(1, p['iters'] // 2)
        calls = {'i': 0}

        def scripted(*a, **k):
            i = calls['i']
            calls['i'] += 1
            return {'accuracy': 1.0 - 0.1 * abs(i - peak)}
        model._compute_validation_metrics = scripted
    if p.get('refit') and not maximize:
        # object history: the same RFM was fitted before (other data of the same shape) and learned a feature matrix
        g0 = torch.Generator().manual_seed(p['seed'] + 11)
        X0 = torch.randn(X.shape, generator=g0, dtype=X.dtype)
        y0 = torch.tanh(X0[:, :1] * 2.0).expand(-1, y.shape[1]).contiguous() + 0.05 * torch.randn(y.shape, generator=g0, dtype=y.dtype)
        # ... possibly with per-call options of its own (a small AGOP sampling budget): they belong to that call only
        model.fit((X0, y0), (Xv, yv), iters=max(1, p['iters']), reg=p['reg'], verbose=False, early_stop_rfm=False,
                  **({'total_points_to_sample': 5} if p['seed'] % 2 else {}))
    rec = AgopRec(model)
    import contextlib
    import io
    # every third fit asks for progress output (a duplicated code path in several loops); what is printed is discarded
    talk = (p['seed'] % 3 == 0)
    with contextlib.redirect_stdout(io.StringIO()), contextlib.redirect_stderr(io.StringIO()):
        Ms = model.fit((X, y), (Xv, yv), iters=p['iters'], reg=p['reg'], verbose=talk, center_grads=p['center'],
                       M_batch_size=p['batch'], return_Ms=True, get_agop_best_model=True,
                       early_stop_rfm=p['early'], return_best_params=p['return_best'])
    return model, rec, Ms, X


# ------------------------------------------------------------------------------------------------
def grad_allowance(kobj, kind, x, z, T, coefs, g):
    """per-gradient allowance (f, n_z): 1e-9·(scale of the output) + the cancellation / expansion terms of C04."""
    cancel, expand, _ = c04.l2_leak_terms(kobj, kind, x, z, T, coefs.abs(), EPS64)
    scale = g.abs().amax(dim=(1, 2))                      # (f,)
    return 1e-9 * scale[:, None] + cancel + expand


def agop_allowance(g, delta, Mhat, centred, jitter_diag):
    """allowance for the normalised AGOP given per-gradient allowances `delta` (f, n)."""
    import torch
    f, n, d = g.shape
    A = g.abs().reshape(f * n, d)
    dr = delta.reshape(f * n)
    dM = A.T @ dr[:, None].expand(-1, d) + (A.T @ dr[:, None].expand(-1, d)).T + (dr ** 2).sum()
    if centred:
        dM = 4 * dM
    rows = g.reshape(f * n, d)
    raw = rows.T @ rows if Mhat.dim() == 2 else (rows ** 2).sum(dim=0)
    m = float(raw.max())
    if Mhat.dim() == 1:
        dM = dM.diagonal()
    allow = (dM + Mhat.abs() * float(dM.max())) / max(m, 1e-300) + 1e-12
    if jitter_diag:
        allow = allow + (1 + 1e-6) * JITTER_SVD * torch.eye(d, dtype=g.dtype)
    return allow


def spectral_oracle(res, M, use_sqrtM, label, extra_tol=0.0):
    """finite / symmetric / PSD / max entry one, on one matrix produced by the implementation."""
    import torch
    if not bool(torch.isfinite(M).all()):
        res['failures'].append({'signature': 'C14:nonfinite-M', 'detail': f'{label}: non-finite entries'})
        return False
    full = M.dim() == 2
    jit = JITTER_SVD if (full and use_sqrtM) else 0.0
    if float(M.abs().max()) <= 2 * jit:
        return True       # M = 0 (all gradients vanish; only the documented jitter is left): the property's proviso M ≠ 0
    mx = float(M.max())
    if abs(mx - 1.0) > 1e-12 + jit * (1 + 1e-6) + extra_tol:
        res['failures'].append({'signature': 'C14:max-entry-not-one', 'detail': f'{label}: max entry {mx!r}'})
    if full:
        asym = float((M - M.T).abs().max())
        if asym > 1e-12:
            res['failures'].append({'signature': 'C14:asymmetric-M', 'detail': f'{label}: max |M - M^T| = {asym:.3e}'})
        lam = float(torch.linalg.eigvalsh((M + M.T) / 2).min())
        if lam < -1e-10:
            res['failures'].append({'signature': 'C14:not-psd', 'detail': f'{label}: smallest eigenvalue {lam:.3e}'})
    else:
        if float(M.min()) < -1e-10:
            res['failures'].append({'signature': 'C14:not-psd', 'detail': f'{label}: negative diagonal entry {float(M.min()):.3e}'})
    return True


def loo_agop(kobj, x, z, C, T, centred, diag):
    """The property evaluated directly on the implementation: normalised sum over points and outputs of the gradient outer
    products, the gradient at z_j taken (by the real get_function_grads) of the predictor with every center equal to
    z_j physically removed.  Single batch (centring, if any, over all rows)."""
    import torch
    rows = []
    co = c04.coincident(x, z)
    for j in range(z.shape[0]):
        keep = torch.nonzero(~co[:, j]).flatten()
        if len(keep) == 0:
            rows.append(torch.zeros(C.shape[0], 1, x.shape[1], dtype=x.dtype))
        else:
            rows.append(kobj.get_function_grads(x[keep], z[j:j + 1], C[:, keep].contiguous(), T))
    G = torch.cat(rows, dim=1).reshape(-1, x.shape[1])
    if centred:
        G = G - G.mean(dim=0, keepdim=True)
    raw = (G ** 2).sum(dim=0) if diag else G.T @ G
    return raw / (raw.max() + JITTER_NORM)


def ref_loo_agop(kind, kd, x, z, C, T, centred, diag):
    """The same quantity with nothing taken from the implementation: the predictor f_l(z) = sum_i C[l,i] k(x_i, z) written out
    from the documented closed forms in float64 torch (bandwidth = the one the recorded predictor was solved with) and
    differentiated by reverse-mode autograd, the centers equal to z_j removed.  Returns None when a coordinate of some other
    center coincides with z_j (the closed form is not differentiable there)."""
    import torch
    L, q = float(kd['L']), float(kd['q'])
    x, z, C = x.double(), z.double(), C.double()
    T = None if T is None else T.double()
    tr = (lambda a: a) if T is None else ((lambda a: a * T) if T.dim() == 1 else (lambda a: a @ T))

    def f(zrow, Xk, Ck):
        if kind == 'light':
            D = Xk - zrow
            k = torch.exp(-((tr(D) * D).sum(-1).clamp_min(0) ** (q / 2)) / L ** q)
        else:
            A = (tr(Xk) - tr(zrow)).abs()
            if kind == 'l2':
                k = torch.exp(-((A ** 2).sum(-1).sqrt() ** q) / L ** q)
            elif kind == 'prod':
                k = torch.exp(-(A ** q).sum(-1) / L ** q)
            elif kind == 'lpq':
                pn = float(kd['p'])
                k = torch.exp(-((A ** pn).sum(-1) ** (q / pn)) / L ** q)
            else:
                k = ((1.0 - float(kd['cmix'])) * torch.exp(-(A ** q) / L ** q).mean(-1) + float(kd['cmix'])) ** float(kd['power'])
        return Ck @ k

    co = c04.coincident(x, z)
    rows = []
    for j in range(z.shape[0]):
        keep = torch.nonzero(~co[:, j]).flatten()
        if len(keep) == 0:
            rows.append(torch.zeros(C.shape[0], x.shape[1], dtype=torch.float64))
            continue
        if kind != 'light' and bool(((tr(x[keep]) - tr(z[j:j + 1])) == 0).any()) and (q < 1 or kind in ('prod', 'lpq', 'sumpower')):
            return None
        rows.append(torch.autograd.functional.jacobian(lambda zr: f(zr, x[keep], C[:, keep]), z[j].clone()))
    G = torch.stack(rows, dim=1).reshape(-1, x.shape[1])
    if not bool(torch.isfinite(G).all()):
        return None
    if centred:
        G = G - G.mean(dim=0, keepdim=True)
    raw = (G ** 2).sum(dim=0) if diag else G.T @ G
    return raw / (raw.max() + JITTER_NORM)


def execute_case(p, drv):
    import torch
    res = {'family': p['family'], 'params': p, 'disagreements': [], 'failures': []}
    try:
        model, rec, Ms, X = run_fit(p)
    except Exception as e:
        res['failures'].append({'signature': f'C14:raises:{type(e).__name__}', 'detail': str(e)[:300]})
        return res
    kobj = model.kernel_obj
    kind = c04.kind_of(kobj)
    use_sqrtM = bool(model.use_sqrtM)
    n, d = X.shape
    o = p['outputs']
    worst_corr = worst_root = 0.0
    inplace_calls = [c for c in rec.calls if c['inplace']]
    # ---- every recorded fit_M call: correspondence + spectral oracle --------------------------------------------
    for t, call in enumerate(rec.calls):
        b = call['batch'] if call['batch'] is not None else n
        kd = c04.kernel_desc(kobj)
        kd['L'] = call['bandwidth']
        T, x, z, C = call['T'], call['centers'], call['samples'], call['weights'].T.contiguous()
        label = f'fit_M call {t} ({"in place" if call["inplace"] else "inplace=False"}, batch {b})'
        ok = spectral_oracle(res, call['M'], use_sqrtM, label)
        if not ok:
            continue
        q = c04.driver_query(kd, T, x, z, C, op='agop_kernel')
        q.update({'batch': int(b), 'centre': call['center_grads'], 'diag': bool(p['diag']), 'jitter': core.f2b(JITTER_NORM)})
        m = drv.ask(q)
        if 'error' in m:
            res['disagreements'].append({'detail': f'{label}: model rejects the case: {m["error"]}'})
            continue
        Mm = torch.tensor(core.unfl(m['M']), dtype=torch.float64)
        if use_sqrtM and not p['diag']:
            # documented jitter: stable_matrix_power adds 1e-8 to the diagonal of the normalised matrix IN PLACE
            Mm = Mm + JITTER_SVD * torch.eye(d, dtype=torch.float64)
        # allowance from the gradients the implementation itself returns for this predictor
        keep = kobj.bandwidth
        kobj.bandwidth = call['bandwidth']
        try:
            g = kobj.get_function_grads(x, z, C, T)
            delta = grad_allowance(kobj, kind, x, z, T, C, g)
        finally:
            kobj.bandwidth = keep
        allow = agop_allowance(g, delta, call['M'], call['center_grads'], jitter_diag=False)
        # ---- property oracle: leave-own-term-out AGOP by the real gradient routine (single-batch semantics) ---------
        if t < 3 and (not call['center_grads'] or b >= z.shape[0]):
            kobj.bandwidth = call['bandwidth']
            try:
                Mo = loo_agop(kobj, x, z, C, T, call['center_grads'], bool(p['diag']))
            finally:
                kobj.bandwidth = keep
            if use_sqrtM and not p['diag']:
                Mo = Mo + JITTER_SVD * torch.eye(d, dtype=torch.float64)
            eo = (call['M'] - Mo).abs()
            if bool((eo > allow).any()):
                res['failures'].append({'signature': 'C14:M-not-normalised-agop-without-own-term', 'detail':
                                        f'{label}: M differs from the normalised sum of gradient outer products of the recorded '
                                        f'predictor (own kernel term removed): max |diff| {float(eo.max()):.3e}, allowance '
                                        f'{float(allow.max()):.3e}'})
            # ... and with the gradients taken by autograd of the documented closed form instead of the library's own routine
            Mr = ref_loo_agop(kind, kd, x, z, C, T, call['center_grads'], bool(p['diag'])) if t < 2 else None
            if Mr is not None:
                if use_sqrtM and not p['diag']:
                    Mr = Mr + JITTER_SVD * torch.eye(d, dtype=torch.float64)
                er = (call['M'].double() - Mr).abs()
                if bool((er > allow + 1e-8).any()):
                    res['failures'].append({'signature': 'C14:M-not-agop-of-the-predictor', 'detail':
                                            f'{label}: M differs from the normalised AGOP of f(z) = sum_i alpha_i k(x_i, z) differentiated by autograd '
                                            f'(closed-form kernel, bandwidth {kd["L"]} of the recorded predictor, own term removed): max |diff| '
                                            f'{float(er.max()):.3e}, allowance {float(allow.max()):.3e}'})
        err = (call['M'] - Mm).abs()
        r = float((err / allow).max())
        worst_corr = max(worst_corr, r)
        if r > 1.0:
            idx = int(torch.argmax(err / allow))
            res['disagreements'].append({'detail': f'{label}: M differs from the normalised AGOP of the recorded predictor: '
                                                   f'max |diff| {float(err.max()):.3e}, allowance there {float(allow.flatten()[idx]):.3e}; '
                                                   f'impl {call["M"].flatten()[:6].tolist()} model {Mm.flatten()[:6].tolist()}'})
        # ---- root ---------------------------------------------------------------------------------------------------
        if call['inplace'] and use_sqrtM:
            M, R = call['M'], call['sqrtM']
            if R is None or not bool(torch.isfinite(R).all()):
                res['failures'].append({'signature': 'C14:root-missing-or-nonfinite', 'detail': label})
                continue
            sq = R @ R if R.dim() == 2 else R * R
            e2 = float((sq - M).abs().max())
            if e2 > 1e-7:
                res['failures'].append({'signature': 'C14:root-does-not-square-back', 'detail':
                                        f'{label}: max |sqrtM·sqrtM − M| = {e2:.3e}'})
            if R.dim() == 2:
                s, U = torch.linalg.eigh((M + M.T) / 2)
                contract = float((U.T @ U - torch.eye(d, dtype=M.dtype)).abs().max())
                recon = float((U @ torch.diag(s) @ U.T - M).abs().max())
                if contract > 1e-10 or recon > 1e-10:
                    res['disagreements'].append({'detail': f'{label}: eigen-oracle contract violated ({contract:.2e}, {recon:.2e})'})
                mr = drv.ask({'op': 'root', 'U': core.fl(U), 's': core.fl(s)})
                Rm = torch.tensor(core.unfl(mr['root']), dtype=torch.float64)
                sqm = torch.tensor(core.unfl(mr['square']), dtype=torch.float64)
                er = float((R - Rm).abs().max())
                worst_root = max(worst_root, er / 1e-9)
                if er > 1e-9 or float((sqm - M).abs().max()) > 1e-10:
                    res['disagreements'].append({'detail': f'{label}: sqrtM differs from U·diag(√s)·Uᵀ by {er:.3e}'})
            else:
                mr = drv.ask({'op': 'rootdiag', 'm': core.fl(M)})
                Rm = torch.tensor(core.unfl(mr['root']), dtype=torch.float64)
                er = float((R - Rm).abs().max())
                worst_root = max(worst_root, er / 1e-12)
                if er > 1e-12:
                    res['disagreements'].append({'detail': f'{label}: diagonal sqrtM differs from the entrywise root by {er:.3e}'})
        elif call['inplace'] and not use_sqrtM and call['sqrtM'] is not None:
            res['disagreements'].append({'detail': f'{label}: kernel without use_sqrtM stores a root'})
    # ---- return_Ms = the in-place results, in order ---------------------------------------------------------------------
    if Ms is not None:
        if len(Ms) != len(inplace_calls) and not (len(Ms) == len(inplace_calls) - 0):
            res['failures'].append({'signature': 'C14:return_Ms-length', 'detail': f'{len(Ms)} returned, {len(inplace_calls)} in-place updates'})
        for i, (a, c) in enumerate(zip(Ms, inplace_calls)):
            if not torch.equal(torch.as_tensor(a), c['M']):
                res['failures'].append({'signature': 'C14:return_Ms-mismatch', 'detail': f'return_Ms[{i}] is not the feature matrix learned at iteration {i}'})
                break
    # ---- final state ---------------------------------------------------------------------------------------------------------
    if model.M is not None:
        spectral_oracle(res, model.M, use_sqrtM, 'model.M after fit')
    if use_sqrtM and model.sqrtM is not None:
        R = model.sqrtM
        # `M is None` denotes the identity (first iterate selected): the stored root must then be the identity's root
        Mref = model.M if model.M is not None else (torch.ones_like(R) if R.dim() == 1 else torch.eye(R.shape[0], dtype=R.dtype))
        if True:
            sq = R @ R if R.dim() == 2 else R * R
            e2 = float((sq - Mref).abs().max())
            if e2 > 1e-7:
                res['failures'].append({'signature': 'C14:root-does-not-square-back', 'detail':
                                        f'after fit: max |sqrtM·sqrtM − M| = {e2:.3e} (stale or unnormalised root)'})
    # ---- agop_best_model is the AGOP of the returned predictor -------------------------------------------------------------
    try:
        again = model.fit_M(X, model.n_classes, M_batch_size=p['batch'], inplace=False)
        rec.calls.pop()
        diff = float((again - model.agop_best_model).abs().max())
        if diff > 1e-12:
            res['failures'].append({'signature': 'C14:agop_best_model-not-of-returned-predictor', 'detail':
                                    f'agop_best_model differs from fit_M(inplace=False) on the returned predictor by {diff:.3e}'})
    except Exception as e:
        res['failures'].append({'signature': f'C14:raises:{type(e).__name__}', 'detail': 'fit_M(inplace=False) after fit: ' + str(e)[:300]})
    # ---- independence of the accumulation batch size, on the returned predictor ---------------------------------------
    batch_dep = None
    if p['vary_batch']:
        outs = {}
        for b in [b_ for b_ in (3, 1, n) if b_ <= n]:
            outs[b] = model.fit_M(X, model.n_classes, M_batch_size=b, inplace=False)
            rec.calls.pop()
        # allowance: rounding of the gradients (the unmasked self term of the L2-type kernels is the only sizeable part)
        C = model.weights.T.contiguous()
        T = model.sqrtM if use_sqrtM else model.M
        g = kobj.get_function_grads(model.centers, X, C, T)
        cancel, expand, _ = c04.l2_leak_terms(kobj, kind, model.centers, X, T, C.abs(), EPS64)
        delta = 1e-13 * g.abs().amax(dim=(1, 2))[:, None] + cancel + expand
        allow = agop_allowance(g, delta, outs[n], False, jitter_diag=False) - 1e-12 + 1e-10
        ref = outs[n]
        for b, Mb in outs.items():
            dd = (Mb - ref).abs()
            if bool((dd > allow).any()):
                batch_dep = (b, float(dd.max()))
                sig = SIG_CENTER if p['center'] else 'C14:batch-dependent'
                res['failures'].append({'signature': sig, 'detail':
                                        f'fit_M(M_batch_size={b}) differs from fit_M(M_batch_size={n}) on the same predictor: '
                                        f'max |ΔM| = {float(dd.max()):.4g} (allowance {float(allow.max()):.2e}); center_grads={p["center"]}, '
                                        f'kernel {kind}, n={n}, d={d}, outputs={o}'})
                break
    nontrivial = model.M is not None and bool((model.M != 0).any()) or any(bool((c['M'] != 0).any()) for c in rec.calls)
    res['nontrivial'] = [p['seed'], kind, p['diag'], p['center'], p['batch'], p['iters']] if nontrivial else None
    res['dist'] = {'kind': kind, 'diag': p['diag'], 'outputs': o, 'center_grads': p['center'], 'iters': p['iters'],
                   'batching': 'single' if (p['batch'] is None or p['batch'] >= n) else ('one-by-one' if p['batch'] == 1 else 'multi'),
                   'fit_M_calls': len(rec.calls), 'q': p['kernel']['q'], 'bandwidth_mode': p.get('bandwidth_mode', 'constant')}
    res['sample'] = {'kernel': p['kernel'], 'n': n, 'd': d, 'outputs': o, 'diag': p['diag'], 'center_grads': p['center'],
                     'batch': p['batch'], 'iters': p['iters'], 'fit_M_calls': len(rec.calls),
                     'corr_err_over_allowance': worst_corr, 'batch_dependence': batch_dep}
    res['metrics'] = {'corr': worst_corr, 'root': worst_root}
    return res


def execute(chunk):
    drv = core.Driver('C14')
    out = []
    try:
        for p in chunk['cases']:
            out.append(execute_case(p, drv))
    finally:
        drv.close()
    return out


# ------------------------------------------------------------------------------------------------
def gen_cases(r, n_cases):
    cases = []
    for t in range(n_cases):
        kind = c04.KINDS[t % len(c04.KINDS)]
        k = c04.gen_kernel(r, kind)
        k['L'] = r.choice([1.0, 2.0, 3.0, 5.0, 10.0])
        n = r.randint(8, 40)
        mode = t % 8
        center = mode in (5, 6, 7)
        if mode in (5,):
            batch = r.choice([n, n + 3, None])          # centring, single batch
            fam = 'center-grads-single-batch'
        elif mode in (6, 7):
            batch = r.choice([1, 2, 3, max(2, n // 2), n - 1])
            fam = 'center-grads-multibatch'
        else:
            batch = r.choice([1, 2, 3, 5, max(1, n // 2), n - 1, n, None])
            fam = 'leaf-fits'
        adaptive = kind != 'sumpower' and r.random() < 0.2
        cases.append({'family': fam, 'kernel': k, 'n': n, 'd': r.randint(2, 5), 'outputs': r.randint(1, 3),
                      'iters': r.randint(1, 4), 'diag': r.random() < 0.4, 'center': center, 'batch': batch,
                      'reg': r.choice([1e-3, 1e-2, 1e-1]), 'early': r.random() < 0.3, 'return_best': r.random() < 0.7,
                      'bandwidth_mode': 'adaptive' if adaptive else 'constant',
                      'vary_batch': fam != 'center-grads-single-batch', 'seed': r.randint(0, 2 ** 31 - 1),
                      'maximize': fam == 'leaf-fits' and t % 3 == 1,
                      'yscale': r.choice([1.0, 1.0, 1.0, 1.0, 1e-6, 1e-4, 1e3, 1e6]), 'refit': t % 5 == 3})
        if cases[-1]['maximize']:
            cases[-1]['return_best'] = True
            cases[-1]['iters'] = max(2, cases[-1]['iters'])
    return cases


def check(run):
    run.rule = ('every fit_M call of a real RFM.fit (recorded from outside with the predictor it was computed from) versus the '
                'Lean driver: closed-form gradients at the training points with the own kernel term omitted, summed over points '
                'and outputs in the same batches, divided by the max entry; roots from an oracle eigen-decomposition; property '
                'oracle on every produced matrix; a case is non-trivial when a learned matrix is non-zero')
    run.assumptions = ['float64 inputs, CPU kernels, total_points_to_sample >= n (all training points enter the AGOP)',
                       'documented jitters are part of the allowance: 1e-30 in the normalisation; 1e-8·I added IN PLACE to the '
                       'normalised matrix inside stable_matrix_power (so for use_sqrtM kernels in full mode the stored M has '
                       'max entry 1+1e-8)',
                       'theorems are exact-arithmetic; the eigen-decomposition is an oracle whose contract (UᵀU=I, U·diag(s)·Uᵀ=M) '
                       'is checked on every value used']
    run.lean()
    quick = run.tier == 'quick'
    cases = gen_cases(run.rng, 200 if quick else 2000)
    if run.driver_ok:
        nchunks = 48 if quick else 160
        groups = [cases[i::nchunks] for i in range(nchunks)]
        results = core.pmap(MOD, [{'cases': c} for c in groups if c])
        worst = {}
        for res in results:
            for key, v in (res.get('metrics') or {}).items():
                worst[key] = max(worst.get(key, 0.0), v)
        run.extra['worst_ratios'] = {'M_err_over_allowance': worst.get('corr'), 'root_err_over_allowance': worst.get('root')}
        deps = [res['sample']['batch_dependence'] for res in results if res.get('sample') and res['sample'].get('batch_dependence')
                and res['params']['center']]
        if deps:
            run.extra['center_grads_batch_dependence_max_abs_dM'] = max(d[1] for d in deps)
        run.absorb('c14', results)


def replay(run, payload):
    run.lean()
    # two chunks / two workers: core.pmap runs a single chunk in-process, where core._worker redirects sys.stdout to
    # /dev/null and the verdict lines of finish() would be lost
    results = core.pmap(MOD, [{'cases': [payload['params']]}, {'cases': []}], workers=2)
    run.absorb('replay', results)
