import Xrfmv.Drv.C01

def main : IO Unit := Xrfmv.Drv.runDriver Xrfmv.Drv.C01.ops
