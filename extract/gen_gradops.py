"""
Translator recipes: Gen.GradOps <- the closed-form gradient routines `LaplaceKernel._get_function_grad_impl` and
`LightLaplaceKernel.get_function_grads` (xrfm/rfm_src/kernels.py).

Both compute a weight tensor `kernel_mat` from the distance tensor `dists` by a sequence of statements over named tensors
(`kernel_mat = dists ** q`, in-place `mul_/exp_/clamp_/pow_`, `mask = dists >= eps`, `kernel_mat.mul_(dists)`,
`kernel_mat.mul_(mask)`) and return `einsum(coefs, W, zm) - einsum(coefs, W, xm)`.  The recipe walks the statements in order and
emits them as a `Xrfmv.TensorProg.GradProg` (interpreter: lean/Xrfmv/Model/TensorProg.lean).  `Props/C04.lean` proves that the
regenerated program yields the factor of the closed-form gradient with its coincidence mask; `Drv/C04.lean` runs it at Float.
"""
import ast

import py2lean
from py2lean import U, Unsupported, strip_doc
from gen_kernelops import Scalar, TX, TZ

K_PY = 'xrfm/rfm_src/kernels.py'

HEADER = '''open Xrfmv Xrfmv.KernelOps Xrfmv.TensorProg
variable {α : Type} [Add α] [Sub α] [Mul α] [Div α] [Neg α] [OfNat α 0] [OfNat α 1] [OfNat α 2] [BEq α] [HasRpow α]'''

RETURN = "return torch.einsum('li,ij,jd->ljd', coefs, {w}, zm) - torch.einsum('li,ij,id->ljd', coefs, {w}, xm)"


def scalar(node):
    s = Scalar({'self.eps': 'P.eps'})
    return s.expr(node)


def inplace_op(call):
    name = call.func.attr
    args, kws = call.args, {k.arg: k.value for k in call.keywords}
    if name == 'clamp_' and not args and set(kws) == {'min'}:
        return f'.clampMin {scalar(kws["min"])}'
    if name in ('sqrt_', 'abs_', 'exp_') and not args and not kws:
        return '.' + name[:-1]
    if name in ('pow_', 'mul_', 'add_') and len(args) == 1 and not kws:
        return f'.{name[:-1]} {scalar(args[0])}'
    raise Unsupported(f'tensor operation `{U(call)}`')


def gradprog(cls, fname, lean_name):
    def recipe(src):
        f = src.func(K_PY, cls, fname)
        body = strip_doc(f.body)
        names = {}
        init = None
        tensors = set()
        prep, stmts = [], []
        weights = None
        i = 0
        # ---- creation of `dists` --------------------------------------------------------------------------------
        while i < len(body) and init is None:
            s = body[i]
            i += 1
            if not (isinstance(s, ast.Assign) and len(s.targets) == 1 and isinstance(s.targets[0], ast.Name)):
                raise Unsupported(f'{cls}.{fname}: `{U(s)[:70]}` before the distance matrix exists')
            tgt, val = s.targets[0].id, U(s.value)
            names[tgt] = val
            if val == 'torch.cdist(xm, zm)':
                if names.get('xm') != TX or names.get('zm') != TZ:
                    raise Unsupported(f'{cls}.{fname}: cdist of `{names.get("xm")}`, `{names.get("zm")}`')
                init = '.cdist (2 : α)'
            elif val == 'xm_norm_sqr[:, None] - 2 * xm @ z.T + zm_norm_sqr[None, :]':
                want = {'xm': TX, 'zm': TZ, 'xm_norm_sqr': '(xm * x).sum(dim=-1)', 'zm_norm_sqr': '(zm * z).sum(dim=-1)'}
                if any(names.get(k) != v for k, v in want.items()):
                    raise Unsupported(f'{cls}.{fname}: quadratic forms changed: {names}')
                init = '.lightQuad'
            elif val not in (TX, TZ, '(xm * x).sum(dim=-1)', '(zm * z).sum(dim=-1)'):
                raise Unsupported(f'{cls}.{fname}: `{U(s)[:70]}` before the distance matrix exists')
            if init is not None:
                if tgt != 'dists':
                    raise Unsupported(f'{cls}.{fname}: the distance matrix is called `{tgt}`')
                tensors.add(tgt)
        if init is None:
            raise Unsupported(f'{cls}.{fname}: no distance matrix')
        # ---- the statements over named tensors ----------------------------------------------------------------------
        in_prep = True
        for s in body[i:]:
            txt = U(s)
            if isinstance(s, ast.Return):
                cands = [t for t in tensors if txt == RETURN.format(w=t)]
                if len(cands) != 1:
                    raise Unsupported(f'{cls}.{fname}: returns `{txt[:90]}`')
                weights = cands[0]
                break
            if isinstance(s, ast.Expr) and isinstance(s.value, ast.Call) and isinstance(s.value.func, ast.Attribute) \
                    and isinstance(s.value.func.value, ast.Name) and s.value.func.value.id in tensors:
                dst = s.value.func.value.id
                c = s.value
                if c.func.attr == 'mul_' and len(c.args) == 1 and isinstance(c.args[0], ast.Name) and c.args[0].id in tensors:
                    in_prep = False
                    stmts.append(f'.mulBy "{dst}" "{c.args[0].id}"')
                elif in_prep and dst == 'dists':
                    prep.append(inplace_op(c))
                else:
                    stmts.append(f'.op "{dst}" ({inplace_op(c)})')
                continue
            if isinstance(s, ast.Assign) and len(s.targets) == 1 and isinstance(s.targets[0], ast.Name):
                in_prep = False
                tgt, v = s.targets[0].id, s.value
                if isinstance(v, ast.BinOp) and isinstance(v.op, ast.Pow) and isinstance(v.left, ast.Name) and v.left.id in tensors:
                    stmts.append(f'.powOf "{tgt}" "{v.left.id}" {scalar(v.right)}')
                elif isinstance(v, ast.Compare) and len(v.ops) == 1 and isinstance(v.ops[0], ast.GtE) and isinstance(v.left, ast.Name) \
                        and v.left.id in tensors:
                    stmts.append(f'.geOf "{tgt}" "{v.left.id}" {scalar(v.comparators[0])}')
                else:
                    raise Unsupported(f'{cls}.{fname}: assignment `{txt[:80]}`')
                tensors.add(tgt)
                continue
            raise Unsupported(f'{cls}.{fname}: statement `{txt[:80]}`')
        if weights is None:
            raise Unsupported(f'{cls}.{fname}: no return')
        return (f'/-- `{cls}.{fname}`, statement by statement. -/\n'
                f'def {lean_name} (P : Params α) : GradProg α :=\n'
                f'  {{ init := {init}\n'
                f'    prep := [{", ".join(prep)}]\n'
                f'    body := [{", ".join(stmts)}]\n'
                f'    weights := "{weights}"\n'
                f'    weightedDifferences := true }}')
    return recipe


py2lean.register('GradOps', K_PY, ['Xrfmv.Model.TensorProg'], [
    ('header', py2lean.const(HEADER)),
    ('laplaceGrad', gradprog('LaplaceKernel', '_get_function_grad_impl', 'laplaceGrad')),
    ('lightGrad', gradprog('LightLaplaceKernel', 'get_function_grads', 'lightGrad')),
])
