#!/usr/bin/env python3
"""Regenerate MANIFEST.json from the table below (kept valid at every commit)."""
import json
import os

HERE = os.path.dirname(os.path.dirname(os.path.abspath(__file__)))

TB = ('Trusted: Lean 4.33 kernel; axioms propext/Classical.choice/Quot.sound only (audited on every run by #print axioms; '
      'no sorry/native_decide/bv_decide/user axioms); Mathlib v4.33 single modules; the translator extract/py2lean.py; '
      'the correspondence harness (harness/, lean/Driver.lean). ')

CHECKS = {
    'C02': dict(
        text='Theorems (Props/C02.lean): over the regenerated selection program the weights, M, sqrtM and bandwidth left by fit '
             'belong to one iterate for every budget/history/flag combination (with and without restoration; the incoherent '
             'early-stop branch is proved unreachable); (K+lam I)alpha=Y iff K alpha = Y - lam alpha; uniqueness of the ridge solution '
             'for PSD K and lam>0 (so solve/cholesky/lu must agree). Correspondence in float64 against real fits: iterate tags vs the '
             'Lean machine and the residual of the ridge system with K recomputed from the stored state by an independent reference, '
             'under a computed rounding allowance.',
        note=TB + 'Modelled, not verified: torch.linalg.solve/cholesky/lu_factor (exact solve; checked through residuals), '
             'floating-point rounding (absorbed by the allowance of DESIGN 4.3), PSD of the Gram matrix (hypothesis; C05 leaves it unproved).',
        technique='Lean 4 proof (loop invariant over regenerated program + matrix algebra) + float64 differential check with property oracle',
        ref='DESIGN.md §6 C02'),
    'C03': dict(
        text='Theorems (Props/C03.lean) over the Lean interpreter of the selection program regenerated from RFM.fit / '
             'update_best_params / _should_early_stop on every run: for every iteration budget and every real score history the '
             'returned weights, M, sqrtM and bandwidth carry the tag of one evaluated iterate that is optimal in the declared '
             'direction; evaluated iterates are exactly the prefix up to the first early-stop hit. Tied to the code by the '
             'translator and by an exhaustive scripted-score correspondence against the real RFM.fit.',
        note=TB + 'Modelled, not verified: the numerical content of each iterate (solve, AGOP) - only which iterate each piece of '
             'state comes from; time_limit_s; NaN scores.',
        technique='Lean 4 proof by induction over the fit loop (invariant), model regenerated from source + differential check',
        ref='DESIGN.md §6 C03'),
}

CHECKS.update({
    'C06': dict(
        text='Theorems (Props/C06.lean) over the size skeleton of _build_tree built from the regenerated Gen.Split (integer code of '
             '_get_balanced_split, its slices and masks, the leaf test): for every n, max_leaf_size and overlap oracle that leaves two '
             'unshared samples per split the construction terminates within n+1 levels with no assertion failing and every leaf <= '
             'max_leaf_size; children are ceil/floor halves plus the band; depth <= ceil(log2(n/L)) at zero overlap; forced split counts '
             'are honoured; the float hypothesis follows from (1-2f)L >= 4. Sizes are data independent by construction. Tied to the code by '
             'the translator and by an exhaustive size grid of real _build_tree runs (stubbed leaves) plus real fits for every split method '
             'on degenerate data under a wall-clock guard.',
        note=TB + 'Modelled, not verified: torch.sort/median/quantile (rank split needs only that sort returns a permutation), the float '
             'expression int(round(2*f*n)) (oracle; |r-2fn|<1 checked for every n up to 1e5/2e6), direction finding (svd, solve, lobpcg) - '
             'covered only by the real-fit family. Forced splits of a single-sample node are infeasible (assertion) and excluded.',
        technique='Lean 4 proof (induction on fuel/depth, omega arithmetic over regenerated integer code) + exhaustive differential size grid',
        ref='DESIGN.md §6 C06'),
    'C09': dict(
        text='Proved in Lean for every tree shape and depth, row, keep fraction, cap and tie-breaking of the sort: the cache built by the '
             'stack traversal pairs each leaf id with its model and its root-to-leaf gates; soft-routing weights are the documented soft-max '
             'of summed log-sigmoid gate terms; truncation keeps a non-empty top-m set (m <= min(cap, leaves), minimal for the keep fraction, '
             'ties open) and renormalises to a simplex, so each output lies in the hull of the active leaves; a dominant leaf gives exactly '
             'its prediction, and as T->0+ the output eventually equals the hard-routed prediction for keep < 1/(1+(N-1)e^-50). Decision '
             'expressions are regenerated from the current source (Gen.Soft) and the model is run against the real code (recording leaf '
             'stubs, fitted models, float32/float64) with an independent property oracle.',
        note=TB + 'Real arithmetic; float rounding absorbed by a computed allowance. torch.sort is an oracle (any sorting permutation). Clamps '
             'of normalisers to finfo.tiny are not modelled (normaliser >= 1). T <= 0, NaN rows and empty batches are outside the quantifier. '
             'A harmless change of push order breaks cache_paths (left-to-right claim) with no failing input.',
        technique='Lean 4 + Mathlib: functional induction on the stack machine, list algebra for the cumulative cut-off, Filter/Tendsto '
                  'argument for T->0+; ast translator (Gen.Soft); float64 Lean driver vs torch; exhaustive shapes of depth <= 3',
        ref='DESIGN.md §6 C09'),
    'C15': dict(
        text='Proved in Lean for all sizes, group counts, levels and column orders: on one-hot rows with identity code vectors the categorical '
             'fast path (per-group l_p^p tables indexed by arg-max category plus the numerical distance, then the kernel\'s outer function) '
             'equals the dense L2/product/Lpq kernel on the expanded rows for every transform without cross-block entries (absent, diagonal, '
             'block-diagonal); the categorical AGOP equals the dense AGOP masked to the numerical and per-group blocks, which do not overlap for '
             'disjoint index groups. Tied to the code by a float64 correspondence of the real fast path, the real dense path and the compiled '
             'model, exhaustive over all one-hot rows of small layouts.',
        note=TB + 'Exact real arithmetic; float64 rounding absorbed by a computed per-entry allowance. No translator tie (correspondence only). '
             'Function gradients enter the AGOP model as a given matrix (gradient correctness is C04). Adaptive-bandwidth hook, batching and '
             'center_grads are not modelled; GPU/Kermac kernels out of reach.',
        technique='Lean 4 + Mathlib proof over a scalar-generic executable model (list-sum partition algebra, one-hot arg-max, block-matrix '
                  'restriction) + differential check real fast vs real dense vs Lean driver, exhaustive small family, negative control',
        ref='DESIGN.md §6 C15'),
    'C16': dict(
        text='Lean 4 theorems prove, for every array size, class count and value, that predictions identical to the targets attain the optimum '
             'of each of the eight metrics (0 for mse/rmse/mae/brier/logloss, 1 for accuracy/f1/auc, rmse monotone in mse), and that every '
             'entry of the should_maximize table regenerated from the current source points to that optimum (a flipped flag breaks '
             'direction_table). Metric values are tied to the code by a correspondence comparing the real Metric.compute (float64/float32) with '
             'exact rational evaluation of the model and with an independent numpy definition, including an exhaustive binary family.',
        note=TB + 'Theorems are about the model in exact arithmetic. Floating-point rounding, sklearn roc_auc_score/f1_score/log_loss (incl. '
             'clipping) and torch reductions are modelled by their textbook definitions, compared per case under a computed allowance. Brier '
             'follows the code\'s samples x classes convention.',
        technique='Lean 4 proof over a source-regenerated flag table + exact-rational model/implementation correspondence with exhaustive small family',
        ref='DESIGN.md §6 C16'),
})

NOT_YET = {}


def main():
    props = [json.loads(l) for l in open(os.path.join(HERE, 'properties.jsonl'))]
    checks = []
    na = []
    for p in props:
        pid = p['id']
        if pid in CHECKS:
            c = CHECKS[pid]
            checks.append({
                'property_id': pid,
                'quick_cmd': f'./check {pid} --tier quick',
                'thorough_cmd': f'./check {pid} --tier thorough',
                'evidence_file': f'evidence/{pid}.json',
                'replay_cmd_template': f'./check {pid} --replay {{path}}',
                'engine': 'lean4-proof+correspondence',
                'level_claimed': {'category': 'proof', 'text': c['text'], 'design_ref': c['ref']},
                'level_note': c['note'],
                'technique': c['technique'],
            })
        else:
            na.append({'property_id': pid, 'reason': NOT_YET.get(pid, 'check not built yet in this round (planned: see DESIGN.md §6); no claim made')})
    man = {
        'version': 1,
        'setup_cmd': './check --setup',
        'hooks': {
            'guard': 'XRFM_VERIF',
            'enable': 'no source hooks are needed: recorders wrap methods from outside the repository (harness/rfmrec.py, harness/xrec.py)',
            'baseline_off_cmd': 'cd /repo && /venv/bin/python -m pytest -ra -q -p no:cacheprovider --timeout=900 --continue-on-collection-errors',
            'source_commits': [],
            'add_only': True,
        },
        'engines': [{
            'name': 'lean4-proof+correspondence',
            'path': 'lean/ (Lean 4 project Xrfmv), extract/py2lean.py (translator), harness/ (correspondence), check (entry point)',
            'serves_properties': sorted(CHECKS),
            'kind_free_text': 'machine-checked proofs in Lean 4 about executable models; models regenerated from the Python source '
                              'and run against the implementation on the same inputs',
        }],
        'checks': checks,
        'not_applicable': na,
        'notes': 'Exit 2 = internal error or time-out (no verdict). VERIF_SEED seeds every generator; VERIF_TIER overrides --tier.',
    }
    with open(os.path.join(HERE, 'MANIFEST.json'), 'w') as f:
        json.dump(man, f, indent=1)
    print(f'{len(checks)} checks, {len(na)} not claimed')


if __name__ == '__main__':
    main()
