/-
C11 — Saving and loading state preserves predictions exactly.

Model: `Xrfmv.State` – `get_state_dict` / `load_state_dict` as value plumbing over the regenerated wiring
`Gen.State` (which attribute goes under which key, which key comes back into which attribute, what is conditional
on classification, how centers are re-derived).  Values are abstract: the theorem says every value the prediction
code reads arrives unchanged, for every tree shape, depth and number of trees.
-/
import Xrfmv.Model.State
import Mathlib.Tactic.Cases

namespace Xrfmv.Props.C11
open Xrfmv.State Xrfmv.Gen.State

variable {V : Type}

theorem loadM_exportM (s fr : MState V) (a : MField) (ha : a ∈ predM s.isClass) :
    (loadM fr s.isClass (exportM s)).m a = s.m a := by
  obtain ⟨isClass, m⟩ := s
  cases isClass <;> cases a <;> first | rfl | (exfalso; simp [predM] at ha)

theorem loadTree_exportTree (fl : LField → V) (fc : V) (nd : NField → V) (gather : V → V) (t : Tree V)
    (hc : CentersOk gather t) :
    viewTree (loadTree fl fc nd gather (exportTree t)) = viewTree t := by
  induction t with
  | leaf f c =>
    simp only [CentersOk] at hc
    simp only [exportTree, loadTree, viewTree]
    congr 1
    · funext a
      cases a <;> rfl
    · rw [hc]; rfl
  | node f l r ihl ihr =>
    simp only [CentersOk] at hc
    simp only [exportTree, loadTree, viewTree]
    rw [ihl hc.1, ihr hc.2]
    congr 1
    funext a
    cases a <;> rfl

/-- **C11 (round trip)** A fresh model that loads the exported state together with the training inputs holds, in every
attribute predictions read (model level, every split node, every leaf including the re-derived centers), exactly the
values of the source model — for regression and classification, any number of trees, any tree shape, tuned or fixed
temperature — provided the source satisfies C07's invariant `centers = X_train[train_indices]`. -/
theorem roundtrip (s : Model V) (fr : Fresh V) (gather : V → V) (hc : ∀ t ∈ s.trees, CentersOk gather t) :
    predictView (load fr s.ms.isClass gather (exportState s)) = predictView s := by
  simp only [predictView, load, exportState, loadM, List.map_map]
  congr 1
  · funext a
    by_cases ha : a ∈ predM s.ms.isClass
    · simp only [ha, if_true]
      exact congrArg some (loadM_exportM s.ms fr.ms a ha)
    · simp [ha]
  · apply List.map_congr_left
    intro t ht
    exact loadTree_exportTree fr.leaf fr.centers fr.nodeDefault gather t (hc t ht)

/-- The loaded model again satisfies the invariant, so the round trip can be iterated (load of a load). -/
theorem loaded_centers_ok (fl : LField → V) (fc : V) (nd : NField → V) (gather : V → V) (p : PTree V) :
    CentersOk gather (loadTree fl fc nd gather p) := by
  induction p with
  | leaf d => simp [loadTree, CentersOk, centersFromTrainIndices]
  | node d l r ihl ihr => exact ⟨ihl, ihr⟩

/-- **C11 (repeated cycles)** Export and load twice: still the source's prediction view. -/
theorem roundtrip_iterated (s : Model V) (fr fr' : Fresh V) (gather : V → V) (hc : ∀ t ∈ s.trees, CentersOk gather t) :
    predictView (load fr' s.ms.isClass gather (exportState (load fr s.ms.isClass gather (exportState s)))) = predictView s := by
  have h1 := roundtrip s fr gather hc
  have hc' : ∀ t ∈ (load fr s.ms.isClass gather (exportState s)).trees, CentersOk gather t := by
    intro t ht
    simp only [load, exportState, List.map_map, List.mem_map] at ht
    obtain ⟨t0, _, rfl⟩ := ht
    exact loaded_centers_ok _ _ _ _ _
  have h2 := roundtrip (load fr s.ms.isClass gather (exportState s)) fr' gather hc'
  have hcls : (load fr s.ms.isClass gather (exportState s)).ms.isClass = s.ms.isClass := rfl
  rw [hcls] at h2
  exact h2.trans h1

/-- **C11 (nothing learned is left behind)** Every attribute of the estimator that `fit` assigns and that the prediction code
(`predict`, `predict_proba`, `get_grads` and everything they call on `self`) reads is assigned again by `load_state_dict` — over the
regenerated inventories `Gen.State.learnedStateReadAtPrediction` / `attributesAssignedByLoad` (attribute reads and writes of the
current source; a cache the prediction code builds for itself is not learned state).  A learned attribute that a load does not set
would be read by the loaded model at the constructor's default. -/
theorem learned_state_read_at_prediction_is_restored :
    learnedStateReadAtPrediction.all (fun a => attributesAssignedByLoad.contains a) = true := by decide

-- non-vacuity: the trees and the label converter are such attributes
example : learnedStateReadAtPrediction.contains "trees" = true ∧ 2 ≤ learnedStateReadAtPrediction.length := by decide

/-- **C11 (export is pure)** `get_state_dict()` leaves the source model as it was. -/
theorem export_pure (scrub : V → V) (s : Model V) : sourceAfterExport scrub s = s := by
  simp [sourceAfterExport, exportLeavesSourceUntouched]

/-- Non-vacuity: a two-leaf classification model over `V = Nat` whose leaves satisfy the invariant for `gather = id`. -/
example : ∃ s : Model Nat, s.ms.isClass = true ∧ s.trees.length = 1 ∧ ∀ t ∈ s.trees, CentersOk id t :=
  ⟨{ ms := { isClass := true, m := fun _ => 7 },
     trees := [.node (fun _ => 1) (.leaf (fun _ => 3) 3) (.leaf (fun _ => 4) 4)] },
   rfl, rfl, by intro t ht; simp at ht; subst ht; simp [CentersOk]⟩

end Xrfmv.Props.C11
