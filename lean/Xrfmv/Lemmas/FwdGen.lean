/-
The regenerated `forward_func` closures (`Gen.FwdOps`) evaluate, at `ℝ` and away from their coincidence masks, the closed-form
kernels of `Model/Grad.lean`; on a masked pair (product, Lpq) the summand is the constant 1.
-/
import Xrfmv.Model.FwdGen
import Xrfmv.Lemmas.GradScale

namespace Xrfmv.FwdGen
open Xrfmv Xrfmv.Grad Xrfmv.FwdProg

theorem inv_rpow_eq {L : ℝ} (hL : 0 ≤ L) (q : ℝ) : (1 / L) ^ q = 1 / L ^ q := by
  rw [one_div, Real.inv_rpow hL, one_div]

/-- product kernel, value of the summand from the base distance `D` -/
theorem product_pair (P : Grad.Params ℝ) (hL : 0 ≤ P.L) (D : ℝ) :
    pairValue (Gen.FwdOps.product (toOps P 0)) D
      = if D < P.eps then 1 else Real.exp (-(D ^ P.q) / P.L ^ P.q) := by
  simp only [pairValue, Gen.FwdOps.product, toOps, runLets, List.foldl, TE.eval]
  by_cases h : D < P.eps
  · simp [h]
  · simp [h]
    rw [Real.inv_rpow hL]
    ring

/-- Lpq kernel -/
theorem lpq_pair (P : Grad.Params ℝ) (hL : 0 ≤ P.L) (D : ℝ) :
    pairValue (Gen.FwdOps.lpq (toOps P 0)) D
      = if D < P.eps then 1 else Real.exp (-(D ^ P.q) / P.L ^ P.q) := by
  simp only [pairValue, Gen.FwdOps.lpq, toOps, runLets, List.foldl, TE.eval]
  by_cases h : D < P.eps
  · simp [h]
  · have hmax : max D P.eps = D := max_eq_left (not_lt.1 h)
    simp [h, hmax]
    rw [Real.inv_rpow hL]
    ring

theorem pNorm_rpow_self {q : ℝ} (hq : 0 < q) (Δ : List ℝ) : (pNorm q Δ) ^ q = pSum q Δ := by
  simp only [pNorm, rpow_real]
  rw [← Real.rpow_mul (pSum_nonneg q Δ), one_div, inv_mul_cancel₀ hq.ne', Real.rpow_one]

/-- **product kernel:** away from the mask the regenerated summand is the closed-form kernel. -/
theorem kProd_eq (P : Grad.Params ℝ) (hL : 0 ≤ P.L) (hq : 0 < P.q) (u v : List ℝ)
    (hgp : P.eps ≤ pNorm P.q (vsub v u)) :
    FwdGen.kProd P u v = Grad.kProd P u v := by
  unfold FwdGen.kProd Grad.kProd
  rw [product_pair P hL, if_neg (not_lt.2 hgp), pNorm_rpow_self hq]
  simp

/-- **Lpq kernel**, likewise. -/
theorem kLpq_eq (P : Grad.Params ℝ) (hL : 0 ≤ P.L) (u v : List ℝ) (hgp : P.eps ≤ pNorm P.p (vsub v u)) :
    FwdGen.kLpq P u v = Grad.kLpq P u v := by
  unfold FwdGen.kLpq Grad.kLpq
  rw [lpq_pair P hL, if_neg (not_lt.2 hgp)]
  simp

/-- a masked pair contributes the constant 1 to the sum that is differentiated (zero gradient) -/
theorem masked_pair_constant (P : Grad.Params ℝ) (hL : 0 ≤ P.L) (u v : List ℝ) :
    (pNorm P.q (vsub v u) < P.eps → FwdGen.kProd P u v = 1) ∧
    (pNorm P.p (vsub v u) < P.eps → FwdGen.kLpq P u v = 1) := by
  constructor
  · intro h; unfold FwdGen.kProd; rw [product_pair P hL, if_pos h]
  · intro h; unfold FwdGen.kLpq; rw [lpq_pair P hL, if_pos h]

/-- sum-power kernel: one coordinate of the regenerated closure -/
theorem sumPower_coord (P : Grad.Params ℝ) (dim t : ℝ) (ht : P.eps ≤ |t|) :
    runLets (Gen.FwdOps.sumPower (toOps P dim)).coordLets (fun n => if n = "Δ" then t else 0) "diffs"
      = profile P.L P.q t := by
  have h : ¬ (|t| < P.eps) := not_lt.2 ht
  have hmax : max |t| P.eps = |t| := max_eq_left ht
  simp [Gen.FwdOps.sumPower, toOps, runLets, List.foldl, TE.eval, h, hmax, profile]
  ring_nf

/-- **sum-power kernel:** with every coordinate difference at least `eps` the regenerated closure evaluates the closed form. -/
theorem kSumPower_eq (P : Grad.Params ℝ) (u v : List ℝ) (hgp : ∀ t ∈ vsub v u, P.eps ≤ |t|) :
    FwdGen.kSumPower P u v = Grad.kSumPower P u v := by
  unfold FwdGen.kSumPower Grad.kSumPower pairValueCoords
  have hper : (vsub v u).map (fun b => runLets (Gen.FwdOps.sumPower (toOps P (lenS (vsub v u)))).coordLets
        (fun n => if n = (Gen.FwdOps.sumPower (toOps P (lenS (vsub v u)))).base then b else 0)
        ((Gen.FwdOps.sumPower (toOps P (lenS (vsub v u)))).reduced.getD (Gen.FwdOps.sumPower (toOps P (lenS (vsub v u)))).base))
      = (vsub v u).map (profile P.L P.q) := by
    apply List.map_congr_left
    intro t ht
    exact sumPower_coord P _ t (hgp t ht)
  rw [hper]
  have hs : Kernel.sumL ((vsub v u).map (profile P.L P.q)) = vsum ((vsub v u).map (profile P.L P.q)) := rfl
  simp [Gen.FwdOps.sumPower, toOps, runLets, List.foldl, TE.eval, hs, sBracket]

end Xrfmv.FwdGen
