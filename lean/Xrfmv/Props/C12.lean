/-
C12 — Class probabilities are valid distributions and consistent with labels.

Statements are about the model `Xrfmv.Codec` of `xRFM.predict_proba` / `xRFM.predict` at ONE query row
(xrfm/xrfm.py) on top of the label codec (class_conversion.py, C13), in exact real arithmetic:

  * a leaf turns its raw regression output `raw` into `P raw`, `P` = decode, clamp to `[ε, 1-ε]`,
    renormalise (`ε = 1e-3` in the code; here any `0 < ε < 1`);
  * a hard-routed tree contributes `P raw` of the leaf the row falls into, a soft-routed tree the mixture
    `Σ_l w_l · P raw_l` over its leaves, `w` on the simplex (that the routing weights are on the simplex
    is C09; here a hypothesis `TreeAt.Valid`);
  * `predict_proba` is the mean over `T ≥ 1` trees; `predict` decodes the mean of the raw outputs.

Any number of classes `K = n + 1`, of trees, of leaves; any real leaf outputs (however large).
`IsProb p` : all entries `≥ 0` and `Σ p = 1`.  Floating-point rounding is outside these statements.
-/
import Xrfmv.Lemmas.Codec
import Xrfmv.Props.C09
import Mathlib.Topology.Algebra.Order.Field

namespace Xrfmv.Props.C12
open Xrfmv.Codec Finset BigOperators

variable {n : ℕ}

/-- The leaf decoders of the code: prevalence (with whatever matrix is stored as `_invA`), zero_one with
one column (binary), zero_one with `K` columns. -/
inductive IsLeafDecoder (ε : ℝ) : {m K : ℕ} → (Vec ℝ m → Vec ℝ K) → Prop
  | prevalence {n : ℕ} (invA : Mat ℝ (n + 1) (n + 1)) : IsLeafDecoder ε (probasPrevInv ε invA)
  | binary : IsLeafDecoder ε (probasBinary ε)
  | multi {n : ℕ} : IsLeafDecoder ε (probasMulti (K := n + 1) ε)

/-- **C12 clamp-normalise**: clamping every entry to `[ε, 1-ε]` and dividing by the sum gives a
probability row, for every real input row (`K ≥ 1`, `0 < ε < 1`). -/
theorem clamp_norm_simplex {K : ℕ} (hK : 1 ≤ K) (ε : ℝ) (h0 : 0 < ε) (h1 : ε < 1) (p : Vec ℝ K) :
    IsProb (clampNorm ε p) :=
  clampNorm_isProb hK h0 h1 p

/-- Every leaf decoder returns a probability row on every real input. -/
theorem leaf_proba_valid (ε : ℝ) (h0 : 0 < ε) (h1 : ε < 1) {m K : ℕ} (P : Vec ℝ m → Vec ℝ K)
    (hP : IsLeafDecoder ε P) (v : Vec ℝ m) : IsProb (P v) := by
  cases hP with
  | prevalence invA => exact clampNorm_isProb (Nat.succ_pos _) h0 h1 _
  | binary => exact clampNorm_isProb (by norm_num) h0 h1 _
  | multi => exact clampNorm_isProb (Nat.succ_pos _) h0 h1 _

/-- **C12 ensembles**: the mean over `T ≥ 1` trees of probability rows is a probability row. -/
theorem mean_simplex {T K : ℕ} (hT : 1 ≤ T) (rows : Fin T → Vec ℝ K) (hr : ∀ t, IsProb (rows t)) :
    IsProb (meanRows rows) :=
  meanRows_isProb hT rows hr

/-- **C12 soft routing**: a convex combination `Σ w_l p_l` (`w ≥ 0`, `Σ w = 1`) of probability rows is
a probability row. -/
theorem mixture_simplex {L K : ℕ} (w : Vec ℝ L) (hw0 : ∀ l, 0 ≤ w l) (hw1 : ∑ l, w l = 1)
    (rows : Fin L → Vec ℝ K) (hr : ∀ l, IsProb (rows l)) : IsProb (mixture w rows) :=
  mixture_isProb w hw0 hw1 rows hr

/-- **C12 validity of `predict_proba`**: for every leaf decoder, any number `T ≥ 1` of trees, each hard-
or soft-routed, and any real leaf outputs, the returned row has non-negative entries summing to one. -/
theorem predict_proba_valid (ε : ℝ) (h0 : 0 < ε) (h1 : ε < 1) {m K T : ℕ} (P : Vec ℝ m → Vec ℝ K)
    (hP : IsLeafDecoder ε P) (hT : 1 ≤ T) (trees : Fin T → TreeAt ℝ m) (hv : ∀ t, (trees t).Valid) :
    IsProb (predictProba P trees) :=
  meanRows_isProb hT _ (fun t => TreeAt.proba_isProb P (leaf_proba_valid ε h0 h1 P hP) (trees t) (hv t))

/-- Entries of `predict_proba` are moreover `≤ 1`. -/
theorem predict_proba_le_one (ε : ℝ) (h0 : 0 < ε) (h1 : ε < 1) {m K T : ℕ} (P : Vec ℝ m → Vec ℝ K)
    (hP : IsLeafDecoder ε P) (hT : 1 ≤ T) (trees : Fin T → TreeAt ℝ m) (hv : ∀ t, (trees t).Valid) (k : Fin K) :
    predictProba P trees k ≤ 1 := by
  have h := predict_proba_valid ε h0 h1 P hP hT trees hv
  rw [← h.2]
  exact Finset.single_le_sum (f := predictProba P trees) (fun i _ => h.1 i) (Finset.mem_univ k)

/-- **C12 labels in range**: `predict` returns a class id in `[0, K)`, `K = n + 1`. -/
theorem labels_in_range {m T : ℕ} (P : Vec ℝ m → Vec ℝ (n + 1)) (trees : Fin T → TreeAt ℝ m) :
    (predictLabel P trees).val < n + 1 :=
  (predictLabel P trees).isLt

/-- **C12 arg-max consistency**: with a single hard-routed tree `predict` is the arg-max (first maximal
index) of the `predict_proba` row – both decode the same leaf output. -/
theorem argmax_consistent {m : ℕ} (P : Vec ℝ m → Vec ℝ (n + 1)) (raw : Vec ℝ m) :
    predictLabel P (fun _ : Fin 1 => TreeAt.hard raw) = argmax n (predictProba P (fun _ : Fin 1 => TreeAt.hard raw)) := by
  simp only [predictLabel, predictProba, predictRaw, TreeAt.raw, TreeAt.proba, meanRows_one]

/-- The arg-max is a maximal entry of the probability row (and the first such). -/
theorem predict_is_most_probable {m : ℕ} (P : Vec ℝ m → Vec ℝ (n + 1)) (raw : Vec ℝ m) (k : Fin (n + 1)) :
    let trees := fun _ : Fin 1 => TreeAt.hard raw
    predictProba P trees k ≤ predictProba P trees (predictLabel P trees) ∧
    (k < predictLabel P trees → predictProba P trees k < predictProba P trees (predictLabel P trees)) := by
  intro trees
  rw [argmax_consistent P raw]
  exact ⟨argmax_ge n _ k, argmax_first n _ k⟩

/-- All leaves of a tree see kernel value 0 against every centre: their raw output `K(x, centres) @ α`
is the zero vector. -/
def _root_.Xrfmv.Codec.TreeAt.Far {m : ℕ} : TreeAt ℝ m → Prop
  | .hard raw => ∃ (N : ℕ) (kv : Vec ℝ N) (W : Mat ℝ N m), raw = leafOut kv W ∧ ∀ c, kv c = 0
  | .soft L _ raws => ∀ l : Fin L, ∃ (N : ℕ) (kv : Vec ℝ N) (W : Mat ℝ N m), raws l = leafOut kv W ∧ ∀ c, kv c = 0

/-- **C12 far rows, prevalence mode**: when every kernel value is 0 (the row is so far from all centres
that the kernel underflows) every leaf outputs the zero vector, which decodes to the prior (C13), so
`predict_proba` returns the clamped-renormalised training frequencies – for any number of trees, hard or
soft routing, and any prior including zero entries – and that row is within `(K + 1) ε` of the
frequencies themselves. -/
theorem far_is_prior (prior : Vec ℝ (n + 1)) (hprior : IsProb prior) (Q : Mat ℝ (n + 1) n) (hQ : QContract Q)
    (invA : Mat ℝ (n + 1) (n + 1))
    (hinv : Matrix.of (augA prior Q) * Matrix.of invA = 1 ∨ Matrix.of invA * Matrix.of (augA prior Q) = 1)
    (ε : ℝ) (h0 : 0 < ε) (h2 : ε ≤ 1 / 2) {T : ℕ} (hT : 1 ≤ T) (trees : Fin T → TreeAt ℝ n)
    (hv : ∀ t, (trees t).Valid) (hfar : ∀ t, (trees t).Far) :
    predictProba (probasPrevInv ε invA) trees = clampNorm ε prior ∧
    ∀ k, |predictProba (probasPrevInv ε invA) trees k - prior k| ≤ ((n + 1 : ℕ) + 1 : ℝ) * ε := by
  have hdec : ∀ (N : ℕ) (kv : Vec ℝ N) (W : Mat ℝ N n), (∀ c, kv c = 0) →
      probasPrevInv ε invA (leafOut kv W) = clampNorm ε prior := by
    intro N kv W hz
    rw [leafOut_zero kv W hz]
    simp only [probasPrevInv]
    rw [inv_unique hQ.toQC prior hprior.2 invA hinv, decodeInv_explicitInv, decodeExplicit_zero]
  have htree : ∀ t, (trees t).proba (probasPrevInv ε invA) = clampNorm ε prior := by
    intro t
    have hvt := hv t
    have hft := hfar t
    cases h : trees t with
    | hard raw =>
      rw [h] at hft
      obtain ⟨N, kv, W, hraw, hz⟩ := hft
      simp only [TreeAt.proba]
      rw [hraw]
      exact hdec N kv W hz
    | soft L w raws =>
      rw [h] at hft hvt
      simp only [TreeAt.proba]
      have : (fun l => probasPrevInv ε invA (raws l)) = fun _ => clampNorm ε prior := by
        funext l
        obtain ⟨N, kv, W, hraw, hz⟩ := hft l
        rw [hraw]
        exact hdec N kv W hz
      rw [this]
      exact mixture_const w hvt.2 _
  have hmain : predictProba (probasPrevInv ε invA) trees = clampNorm ε prior := by
    simp only [predictProba, htree]
    exact meanRows_const hT _
  refine ⟨hmain, fun k => ?_⟩
  rw [hmain]
  have := clampNorm_near (Nat.succ_pos n) h0 h2 prior hprior k
  simpa using this

/-! ### Non-vacuity -/

/-- A two-tree ensemble (one hard, one soft-routed tree with weights `(1/4, 3/4)`) with huge leaf outputs
meets the hypotheses of `predict_proba_valid` for the binary decoder. -/
example : ∃ (trees : Fin 2 → TreeAt ℝ 1), (∀ t, (trees t).Valid) ∧
    IsProb (predictProba (probasBinary (1 / 1000)) trees) := by
  let trees : Fin 2 → TreeAt ℝ 1 := fun t =>
    if t = 0 then TreeAt.hard (fun _ => 1000000)
    else TreeAt.soft 2 (fun l => if l = 0 then 1 / 4 else 3 / 4) (fun l _ => if l = 0 then -7 else 2)
  have hv : ∀ t, (trees t).Valid := by
    intro t
    fin_cases t
    · simp [trees, TreeAt.Valid]
    · simp only [trees, TreeAt.Valid]
      refine ⟨fun l => ?_, ?_⟩
      · fin_cases l <;> norm_num
      · rw [Fin.sum_univ_two]; norm_num
  exact ⟨trees, hv, predict_proba_valid _ (by norm_num) (by norm_num) _ IsLeafDecoder.binary (by norm_num) trees hv⟩

/-! ### soft-routed trees: the simplex hypothesis is C09's theorem -/

theorem sum_fin_getD (l : List ℝ) : ∑ i : Fin l.length, l.getD i 0 = l.sum := by
  have h : List.ofFn (fun i : Fin l.length => l.getD i 0) = l := by
    apply List.ext_getElem
    · simp
    · intro i h1 h2
      simp [List.getD_eq_getElem?_getD, List.getElem?_eq_getElem (by simpa using h1 : i < l.length)]
  conv_rhs => rw [← h]
  rw [List.sum_ofFn]

/-- The per-row state of a soft-routed tree as `_predict_tree_soft` computes it: leaf log-probabilities `lps`, the
sorting permutation `perm` of the soft-max weights (oracle with the sort contract), truncation by `keep` / `cap`, and
the leaves' raw outputs. -/
noncomputable def softTreeOf {m : ℕ} (lps : List ℝ) (keep : ℝ) (cap : ℕ) (perm : List ℕ)
    (raws : Fin lps.length → Vec ℝ m) : TreeAt ℝ m :=
  .soft lps.length
    (fun i => (Xrfmv.Soft.finalWeights keep cap (Xrfmv.Soft.leafWeights lps) perm).2.getD i 0) raws

/-- **C12 (soft routing, unconditional)**: the weights `_predict_tree_soft` mixes the leaf rows with lie on the simplex
(C09 `weights_simplex`), so a soft-routed tree is `Valid` for every temperature, keep fraction, cap and tie-breaking of
the sort — the hypothesis `hv` of `predict_proba_valid` is discharged for the trees the implementation builds. -/
theorem soft_tree_valid {m : ℕ} (lps : List ℝ) (hne : lps ≠ []) (keep : ℝ) (cap : ℕ) (perm : List ℕ)
    (hs : Xrfmv.Soft.SortContract (Xrfmv.Soft.leafWeights lps) perm) (raws : Fin lps.length → Vec ℝ m) :
    (softTreeOf lps keep cap perm raws).Valid := by
  obtain ⟨_, hlen, hnn, hsum, _⟩ := Xrfmv.Props.C09.weights_simplex lps hne keep cap perm hs
  set fw := (Xrfmv.Soft.finalWeights keep cap (Xrfmv.Soft.leafWeights lps) perm).2 with hfw
  refine ⟨fun l => ?_, ?_⟩
  · have hl : (l : ℕ) < fw.length := by rw [hlen]; exact l.isLt
    show 0 ≤ fw.getD l 0
    rw [List.getD_eq_getElem?_getD, List.getElem?_eq_getElem hl]
    exact hnn _ (List.getElem_mem hl)
  · show ∑ l : Fin lps.length, fw.getD l 0 = 1
    rw [← hsum, ← sum_fin_getD fw]
    exact (Fin.sum_congr' (fun i => fw.getD i 0) hlen.symm).symm ▸ rfl

/-- **C12 validity of `predict_proba`, no hypothesis on the trees**: every tree is either hard-routed or the soft-routed
tree `_predict_tree_soft` builds (any temperature, keep fraction, cap, sort tie-breaking). -/
theorem predict_proba_valid_built (ε : ℝ) (h0 : 0 < ε) (h1 : ε < 1) {m K T : ℕ} (P : Vec ℝ m → Vec ℝ K)
    (hP : IsLeafDecoder ε P) (hT : 1 ≤ T) (trees : Fin T → TreeAt ℝ m)
    (hb : ∀ t, (∃ raw, trees t = .hard raw) ∨
      ∃ (lps : List ℝ) (_ : lps ≠ []) (keep : ℝ) (cap : ℕ) (perm : List ℕ)
        (_ : Xrfmv.Soft.SortContract (Xrfmv.Soft.leafWeights lps) perm) (raws : Fin lps.length → Vec ℝ m),
        trees t = softTreeOf lps keep cap perm raws) :
    IsProb (predictProba P trees) := by
  refine predict_proba_valid ε h0 h1 P hP hT trees fun t => ?_
  rcases hb t with ⟨raw, h⟩ | ⟨lps, hne, keep, cap, perm, hs, raws, h⟩
  · rw [h]; trivial
  · rw [h]; exact soft_tree_valid lps hne keep cap perm hs raws

section limit
open Filter Topology

/-- clamp–renormalise is continuous (the divisor is at least `K·min(ε, 1−ε) > 0`). -/
theorem clampNorm_continuous {K : ℕ} (hK : 0 < K) {ε : ℝ} (h0 : 0 < ε) (h1 : ε < 1) :
    Continuous fun p : Vec ℝ K => clampNorm ε p := by
  have hc : ∀ i : Fin K, Continuous fun p : Vec ℝ K => clampVec ε p i := fun i => by
    unfold clampVec clamp
    exact ((continuous_apply i).max continuous_const).min continuous_const
  refine continuous_pi fun i => ?_
  simp only [clampNorm, vsum_eq_sum]
  refine (hc i).div (continuous_finsetSum _ fun j _ => hc j) fun p => ?_
  exact ne_of_gt (sum_clampVec_pos hK h0 h1 p)

/-- the prevalence-mode leaf decoder is continuous in the raw leaf output -/
theorem probasPrevInv_continuous {ε : ℝ} (h0 : 0 < ε) (h1 : ε < 1) (invA : Mat ℝ (n + 1) (n + 1)) :
    Continuous fun v : Vec ℝ n => probasPrevInv ε invA v := by
  have hd : Continuous fun v : Vec ℝ n => decodeInv invA v := by
    refine continuous_pi fun i => ?_
    simp only [decodeInv, mulVec, vsum_eq_sum]
    refine continuous_finsetSum _ fun j _ => continuous_const.mul ?_
    unfold aug
    split
    · exact continuous_apply _
    · exact continuous_const
  exact (clampNorm_continuous (Nat.succ_pos n) h0 h1).comp hd

/-- the raw output of a leaf is continuous in its kernel values -/
theorem leafOut_continuous {N m : ℕ} (W : Mat ℝ N m) : Continuous fun kv : Vec ℝ N => leafOut kv W := by
  refine continuous_pi fun j => ?_
  simp only [leafOut, vsum_eq_sum]
  exact continuous_finsetSum _ fun c _ => (continuous_apply c).mul continuous_const

/-- **C12 far rows, the limit at `ℝ`** (the exact-underflow statement is `far_is_prior`): as the kernel
values of a leaf tend to 0 — the query row moves away from all its centres, `Props.C05.lap_tendsto_zero` —
its class probabilities in prevalence mode tend to the clamped-renormalised training frequencies. -/
theorem far_limit_prior (prior : Vec ℝ (n + 1)) (hprior : IsProb prior) (Q : Mat ℝ (n + 1) n) (hQ : QContract Q)
    (invA : Mat ℝ (n + 1) (n + 1))
    (hinv : Matrix.of (augA prior Q) * Matrix.of invA = 1 ∨ Matrix.of invA * Matrix.of (augA prior Q) = 1)
    {ε : ℝ} (h0 : 0 < ε) (h1 : ε < 1) {N : ℕ} (W : Mat ℝ N n) :
    Tendsto (fun kv : Vec ℝ N => probasPrevInv ε invA (leafOut kv W)) (𝓝 0) (𝓝 (clampNorm ε prior)) := by
  have hc : Continuous fun kv : Vec ℝ N => probasPrevInv ε invA (leafOut kv W) :=
    (probasPrevInv_continuous h0 h1 invA).comp (leafOut_continuous W)
  have hz : probasPrevInv ε invA (leafOut (0 : Vec ℝ N) W) = clampNorm ε prior := by
    rw [leafOut_zero (0 : Vec ℝ N) W fun _ => rfl]
    simp only [probasPrevInv]
    rw [inv_unique hQ.toQC prior hprior.2 invA hinv, decodeInv_explicitInv, decodeExplicit_zero]
  simpa only [hz] using hc.tendsto 0

end limit

end Xrfmv.Props.C12
