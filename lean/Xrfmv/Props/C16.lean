/-
C16 — Tuning metrics are correct and their optimisation direction is truthful.

Statements are about `Xrfmv.Metrics` (model of `xrfm/rfm_src/metrics.py`: MSE, RMSE, MAE, Accuracy, Brier,
Logloss, F1, AUC) and about the direction table `Xrfmv.Gen.Metrics.flags`, *regenerated from the source* on
every run.  "Correct value" is the correspondence's business (model = textbook definition, compared with the
real `Metric.compute`); here: for every metric, predictions identical to the targets attain the optimum of the
metric's range, and the optimum lies on the side the `should_maximize` flag declares.

All theorems hold for every number of samples, outputs and classes and every value (induction over the
lists).  Value metrics are proved over an arbitrary linearly ordered field `α` (so at `ℝ` and at `ℚ` = core
`Rat`, the type the driver evaluates at); `rmse`, `logloss` at `ℝ` (exact real arithmetic – rounding is
outside every theorem).  Regression arrays are `samples × outputs` matrices, probabilities
`samples × classes`, `perfect K y` = the one-hot rows of the labels, `ValidLabels K y` = labels in `0..K-1`
with every class present.
-/
import Xrfmv.Lemmas.Metrics
import Xrfmv.Model.MetricOps

namespace Xrfmv.Props.C16
open Xrfmv Xrfmv.Metrics

section Field
variable {α : Type} [Field α] [LinearOrder α] [IsStrictOrderedRing α]

/-- **C16 (mse, a loss)** Predictions identical to the targets have error `0`, and no predictions have a
smaller one. -/
theorem mse_perfect_is_optimal (Y P : List (List α)) : mse Y Y = 0 ∧ 0 ≤ mse Y P :=
  ⟨mse_self Y, mse_nonneg Y P⟩

/-- **C16 (accuracy, a score)** Accuracy never exceeds `1`; it equals `1` whenever the arg-max labels (first
maximal index) are the targets – in particular for the one-hot rows of the targets. -/
theorem accuracy_perfect_is_optimal {K : ℕ} (y : List ℕ) (P Q : List (List α)) (hK : 2 ≤ K)
    (hy : ValidLabels K y) (hQ : predLabels Q = y) :
    0 ≤ accuracy y P ∧ accuracy y P ≤ 1 ∧ accuracy y Q = 1 ∧ accuracy y (perfect K y : List (List α)) = 1 :=
  ⟨accuracyL_nonneg _ _, accuracy_le_one' y P,
   by unfold accuracy; rw [hQ]; exact accuracyL_self (hy.ne_nil hK), accuracy_perfect' hK hy⟩

/-- **C16 (brier, a loss)** The Brier loss as the code computes it (mean over samples × classes of the squared
difference to the one-hot matrix) is `≥ 0`, and `0` at the one-hot rows of the targets. -/
theorem brier_perfect_is_optimal {K : ℕ} (y : List ℕ) (P : List (List α)) (hK : 2 ≤ K) (hy : ValidLabels K y) :
    brier y (perfect K y : List (List α)) = 0 ∧ 0 ≤ brier y P :=
  ⟨brier_perfect (hy.ne_nil hK), brier_nonneg y P⟩

/-- **C16 (f1, a score)** F1 (binary with positive class 1 for two classes, macro otherwise; zero division
counted as 0) never exceeds `1`; it equals `1` whenever the arg-max labels are the targets and every class is
present – in particular for the one-hot rows. -/
theorem f1_perfect_is_optimal {K : ℕ} (y : List ℕ) (P Q : List (List α)) (hK : 2 ≤ K) (hy : ValidLabels K y)
    (hQ : predLabels Q = y) (hQK : numClasses Q = K) :
    f1 y P ≤ 1 ∧ f1 y Q = 1 ∧ f1 y (perfect K y : List (List α)) = 1 :=
  ⟨f1_le_one' y P, by unfold f1; rw [hQ, hQK]; exact f1L_self (by omega) hy.2, f1_perfect' hK hy⟩

/-- **C16 (auc, a score)** AUC (pair counting, ties ½; class 1 against class 0 for two classes, unweighted
one-vs-rest mean otherwise) never exceeds `1`; it equals `1` whenever, for every class that enters the mean,
every positive is scored strictly above every negative – in particular for the one-hot rows. -/
theorem auc_perfect_is_optimal {K : ℕ} (y : List ℕ) (P Q : List (List α)) (hK : 2 ≤ K) (hy : ValidLabels K y)
    (hQK : numClasses Q = K)
    (hQ : ∀ c < K, (K = 2 → c = 1) → Separated c y (column c Q)) :
    auc y P ≤ 1 ∧ auc y Q = 1 ∧ auc y (perfect K y : List (List α)) = 1 :=
  ⟨auc_le_one' y P,
   auc_sep' (by omega) (by rw [hQK]; exact hQ),
   auc_perfect' hK hy⟩

end Field

/-- **C16 (mae, a loss)**, at `ℝ`. -/
theorem mae_perfect_is_optimal (Y P : List (List ℝ)) : mae Y Y = 0 ∧ 0 ≤ mae Y P :=
  ⟨mae_self abs_real Y, mae_nonneg abs_real Y P⟩

/-- **C16 (mae, a loss)**, at `ℚ` (the type the driver evaluates at). -/
theorem mae_perfect_is_optimal_rat (Y P : List (List ℚ)) : mae Y Y = 0 ∧ 0 ≤ mae Y P :=
  ⟨mae_self abs_rat Y, mae_nonneg abs_rat Y P⟩

/-- **C16 (rmse, a loss)** `rmse` is the square root of `mse`, hence `0` at the targets, `≥ 0` everywhere,
and it orders predictions exactly as `mse` does (monotone). -/
theorem rmse_perfect_is_optimal (Y P Q : List (List ℝ)) :
    rmse Y P = Real.sqrt (mse Y P) ∧ rmse Y Y = 0 ∧ 0 ≤ rmse Y P ∧
      (rmse Y P ≤ rmse Y Q ↔ mse Y P ≤ mse Y Q) :=
  ⟨rfl, rmse_self Y, rmse_nonneg Y P, rmse_le_iff Y P Q⟩

/-! ### the metric chains as they are written (regenerated `Gen.MetricOps`) -/

theorem sqDiffs_eq_zipWith (y p : List ℝ) :
    sqDiffs y p = List.zipWith (fun a b => (a - b) * (a - b)) y p := by
  induction y generalizing p with
  | nil => cases p <;> rfl
  | cons a y ih => cases p with
    | nil => rfl
    | cons b p => simp [sqDiffs, ih]

theorem absDiffs_eq_zipWith (y p : List ℝ) :
    absDiffs y p = List.zipWith (fun a b => HasAbs.abs (a - b)) y p := by
  induction y generalizing p with
  | nil => cases p <;> rfl
  | cons a y ih => cases p with
    | nil => rfl
    | cons b p => simp [absDiffs, ih]

/-- **C16 over the regenerated source (mean-type metrics).**  The `_compute` chains of MSE, RMSE, MAE and Brier as they are written
now (translated into `Gen.MetricOps` on every run: which arrays are subtracted, `.square()` or `.abs()`, `.mean()` over all
entries, a final `.sqrt()` for RMSE only) evaluate exactly the metrics of `Model/Metrics.lean` — the ones for which the theorems
above prove that perfect predictions are optimal in the declared direction. -/
theorem gen_mean_metrics_eq_model (Y P : List (List ℝ)) (y : List ℕ) :
    MetricOps.evalMean Gen.MetricOps.mse Y.flatten P.flatten = mse Y P ∧
    MetricOps.evalMean Gen.MetricOps.rmse Y.flatten P.flatten = rmse Y P ∧
    MetricOps.evalMean Gen.MetricOps.mae Y.flatten P.flatten = mae Y P ∧
    MetricOps.evalMean Gen.MetricOps.brier (perfect (numClasses P) y : List (List ℝ)).flatten P.flatten = brier y P := by
  refine ⟨?_, ?_, ?_, ?_⟩ <;>
    simp [MetricOps.evalMean, MetricOps.Entry.apply, MetricOps.Post.apply, Gen.MetricOps.mse, Gen.MetricOps.rmse,
      Gen.MetricOps.mae, Gen.MetricOps.brier, mse, rmse, mae, brier, mseFlat, maeFlat, sqDiffs_eq_zipWith, absDiffs_eq_zipWith]

/-- … each of them takes its mean over all entries, subtracts the predictions from the targets (for Brier: from the one-hot rows of
the labels, with as many classes as the probability array has columns). -/
theorem gen_mean_metrics_shape :
    [Gen.MetricOps.mse, Gen.MetricOps.rmse, Gen.MetricOps.mae, Gen.MetricOps.brier].all (·.meanOverAllEntries) = true ∧
    Gen.MetricOps.mse.subtrahend = "y_pred" ∧ Gen.MetricOps.mse.minuend = "y_true_reg" ∧
    Gen.MetricOps.brier.subtrahend = "y_pred_proba" := by decide

/-- **C16 (logloss, a loss)** The log-loss is `0` at the one-hot rows of the targets and `≥ 0` for every
probability matrix with entries in `(0, 1]`. -/
theorem logloss_perfect_is_optimal {K : ℕ} (y : List ℕ) (P : List (List ℝ)) (hy : ValidLabels K y)
    (hP : ProbEntries P) :
    logloss y (perfect K y : List (List ℝ)) = 0 ∧ 0 ≤ logloss y P :=
  ⟨logloss_perfect hy.1, logloss_nonneg y P hP⟩

/-- **C16 (direction is truthful)** For EVERY entry `(name, should_maximize)` of the table regenerated from
the current source, predictions identical to the targets score at least as well as any other predictions in
the declared direction (`PerfectOptimal`, `Lemmas/Metrics.lean`: `metric(perfect) ≤ metric(P)` for a flag
`false`, `≥` for `true`).  A flipped flag in the source changes `Gen.Metrics.flags` and this proof fails. -/
theorem direction_table : ∀ e ∈ Xrfmv.Gen.Metrics.flags, PerfectOptimal e.1 e.2 := by
  intro e he
  simp only [Xrfmv.Gen.Metrics.flags, List.mem_cons, List.not_mem_nil, or_false] at he
  rcases he with rfl | rfl | rfl | rfl | rfl | rfl | rfl | rfl
  all_goals first
    | exact perfectOptimal_mse | exact perfectOptimal_rmse | exact perfectOptimal_mae
    | exact perfectOptimal_accuracy | exact perfectOptimal_brier | exact perfectOptimal_logloss
    | exact perfectOptimal_f1 | exact perfectOptimal_auc

/-- **C16 (direction, every metric covered)** Each of the eight built-in metric names has a flag in the
regenerated table, and that flag is truthful: losses `false`, scores `true`. -/
theorem direction_covers_builtin :
    ∀ n ∈ builtin, ∃ b, shouldMaximize n = some b ∧ PerfectOptimal n b ∧
      b = (n = "accuracy" ∨ n = "f1" ∨ n = "auc" : Bool) := by
  intro n hn
  simp only [builtin, List.mem_cons, List.not_mem_nil, or_false] at hn
  rcases hn with rfl | rfl | rfl | rfl | rfl | rfl | rfl | rfl
  · exact ⟨false, by decide, perfectOptimal_mse, by decide⟩
  · exact ⟨false, by decide, perfectOptimal_rmse, by decide⟩
  · exact ⟨false, by decide, perfectOptimal_mae, by decide⟩
  · exact ⟨true, by decide, perfectOptimal_accuracy, by decide⟩
  · exact ⟨false, by decide, perfectOptimal_brier, by decide⟩
  · exact ⟨false, by decide, perfectOptimal_logloss, by decide⟩
  · exact ⟨true, by decide, perfectOptimal_f1, by decide⟩
  · exact ⟨true, by decide, perfectOptimal_auc, by decide⟩

/-- **C16 (the flag matters)** The opposite direction is not truthful: a loss declared `should_maximize`
(or a score declared a loss) does not satisfy `PerfectOptimal`, so `direction_table` cannot survive a flip. -/
theorem flipped_direction_is_false : ¬ PerfectOptimal "mse" true ∧ ¬ PerfectOptimal "accuracy" false :=
  ⟨not_perfectOptimal_mse_true, not_perfectOptimal_accuracy_false⟩

/-! Non-vacuity: the hypotheses are met by concrete, non-trivial instances. -/

example : ValidLabels 3 [0, 2, 1, 2] := by
  constructor
  · intro c hc; simp at hc; omega
  · intro c hc
    have : c = 0 ∨ c = 1 ∨ c = 2 := by omega
    rcases this with rfl | rfl | rfl <;> simp

example : ProbEntries [[(1 : ℝ) / 4, 3 / 4], [1, 1 / 1000000]] := by
  intro r hr p hp
  simp only [List.mem_cons, List.not_mem_nil, or_false] at hr
  rcases hr with rfl | rfl <;> simp only [List.mem_cons, List.not_mem_nil, or_false] at hp <;>
    rcases hp with rfl | rfl <;> norm_num

/-- A non-one-hot probability matrix whose arg-max labels are the targets and which separates class 1. -/
example : predLabels [[(3 : ℚ) / 5, 2 / 5], [1 / 5, 4 / 5]] = [0, 1] ∧
    numClasses [[(3 : ℚ) / 5, 2 / 5], [1 / 5, 4 / 5]] = 2 ∧
    Separated 1 [0, 1] (column 1 [[(3 : ℚ) / 5, 2 / 5], [1 / 5, 4 / 5]]) := by
  refine ⟨by norm_num [predLabels, argmax, argmaxV], rfl, by simp [sel, column], by simp [sel, column], ?_⟩
  intro a ha b hb
  have ea : a = 4 / 5 := by simpa [sel, column] using ha
  have eb : b = 2 / 5 := by simpa [sel, column] using hb
  rw [ea, eb]; norm_num

/-- and a strictly worse competitor exists, so the optimality statements are not about a constant. -/
example : mse [[(1 : ℚ), 2]] [[1, 4]] = 2 ∧ accuracy [0, 1] [[(1 : ℚ), 0], [1, 0]] = 1 / 2 := by
  constructor
  · norm_num [mse, mseFlat, sqDiffs, sumL]
  · norm_num [accuracy, accuracyL, predLabels, argmax, argmaxV, agree]

end Xrfmv.Props.C16
