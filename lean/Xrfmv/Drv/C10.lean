/- Driver ops for C10 (none yet). -/
import Xrfmv.Drv.Common

namespace Xrfmv.Drv.C10

def ops : List (String × Handler) := []

end Xrfmv.Drv.C10
