-- This module serves as the root of the `Xrfmv` library.
-- Import modules here that should be built as part of the library.
import Xrfmv.Basic
