/-
Helper lemmas about the categorical fast path model `Xrfmv.Categorical` at `ℝ`.
Property theorems are in `Props/C15.lean`.
-/
import Xrfmv.Model.Categorical
import Xrfmv.Lemmas.RealInst

namespace Xrfmv.Categorical

/-! ### The operation classes at `ℝ` -/

@[simp] theorem rpow_real (x y : ℝ) : HasRpow.rpow x y = x ^ y := rfl
@[simp] theorem abs_real (x : ℝ) : HasAbs.abs x = |x| := rfl
@[simp] theorem sqrt_real (x : ℝ) : HasSqrt.sqrt x = Real.sqrt x := rfl
@[simp] theorem exp_real (x : ℝ) : HasExp.exp x = Real.exp x := rfl

/-! ### Sums -/

theorem sumL_eq_sum (l : List ℝ) : sumL l = l.sum := by
  induction l with
  | nil => rfl
  | cons a l ih => simp [sumL, ih]

theorem sumL_append (l l' : List ℝ) : sumL (l ++ l') = sumL l + sumL l' := by
  simp [sumL_eq_sum]

theorem sumOver_nil (f : ℕ → ℝ) : sumOver [] f = 0 := rfl

theorem sumOver_cons (a : ℕ) (l : List ℕ) (f : ℕ → ℝ) : sumOver (a :: l) f = f a + sumOver l f := rfl

theorem sumOver_append (l l' : List ℕ) (f : ℕ → ℝ) : sumOver (l ++ l') f = sumOver l f + sumOver l' f := by
  simp [sumOver, sumL_append]

theorem sumOver_flatten (L : List (List ℕ)) (f : ℕ → ℝ) :
    sumOver L.flatten f = sumL (L.map fun B => sumOver B f) := by
  induction L with
  | nil => rfl
  | cons B L ih => simp [sumOver_append, ih, sumL]

theorem sumOver_perm {l l' : List ℕ} (h : l.Perm l') (f : ℕ → ℝ) : sumOver l f = sumOver l' f := by
  simp only [sumOver, sumL_eq_sum]
  exact (h.map f).sum_eq

theorem sumOver_congr {l : List ℕ} {f g : ℕ → ℝ} (h : ∀ i ∈ l, f i = g i) : sumOver l f = sumOver l g := by
  unfold sumOver
  rw [List.map_congr_left h]

theorem sumRange_congr {k : ℕ} {f g : ℕ → ℝ} (h : ∀ i < k, f i = g i) : sumRange k f = sumRange k g :=
  sumOver_congr fun i hi => h i (List.mem_range.mp hi)

theorem sumOver_nonneg {l : List ℕ} {f : ℕ → ℝ} (h : ∀ i ∈ l, 0 ≤ f i) : 0 ≤ sumOver l f := by
  induction l with
  | nil => simp [sumOver_nil]
  | cons a l ih =>
    rw [sumOver_cons]
    exact add_nonneg (h a (by simp)) (ih fun i hi => h i (by simp [hi]))

theorem getD_lt {B : List ℕ} {c : ℕ} (h : c < B.length) : B.getD c 0 = B[c] := by
  simp [List.getD_eq_getElem?_getD, h]

/-- A sum over a list reindexed by positions. -/
theorem sumOver_eq_sumRange (B : List ℕ) (f : ℕ → ℝ) :
    sumOver B f = sumRange B.length fun c => f (B.getD c 0) := by
  have : B.map f = (List.range B.length).map fun c => f (B.getD c 0) := by
    apply List.ext_getElem
    · simp
    · intro i h1 h2
      simp only [List.length_map] at h1
      simp [List.getD_eq_getElem?_getD, h1]
  simp only [sumOver, sumRange, this]

/-- Terms outside a predicate vanish: only the filtered list counts. -/
theorem sumOver_filter {l : List ℕ} {f : ℕ → ℝ} (P : ℕ → Bool) (h : ∀ i ∈ l, P i = false → f i = 0) :
    sumOver l f = sumOver (l.filter P) f := by
  induction l with
  | nil => rfl
  | cons a l ih =>
    have ih' := ih fun i hi => h i (by simp [hi])
    cases hP : P a
    · simp [hP, sumOver_cons, h a (by simp) hP, ih']
    · simp [hP, sumOver_cons, ih']

/-- A sum over `0..d-1` of a function supported on a duplicate-free block `B ⊆ 0..d-1`. -/
theorem sumRange_eq_sumOver_block {d : ℕ} {B : List ℕ} {f : ℕ → ℝ} (hnd : B.Nodup) (hsub : ∀ i ∈ B, i < d)
    (hzero : ∀ i < d, i ∉ B → f i = 0) : sumRange d f = sumOver B f := by
  unfold sumRange
  rw [sumOver_filter (fun i => B.contains i)]
  · apply sumOver_perm
    rw [List.perm_ext_iff_of_nodup (List.nodup_range.filter _) hnd]
    intro a
    simp only [List.mem_filter, List.mem_range, List.contains_iff_mem]
    exact ⟨fun h => h.2, fun h => ⟨hsub a h, h⟩⟩
  · intro i hi hP
    exact hzero i (List.mem_range.mp hi) (by simpa using hP)

/-! ### Layout facts -/

theorem mem_blocks_of_mem_groups {lay : Layout} {g : List ℕ} (h : g ∈ lay.groups) : g ∈ lay.blocks := by
  simp [Layout.blocks, h]

theorem num_mem_blocks (lay : Layout) : lay.num ∈ lay.blocks := by simp [Layout.blocks]

theorem cover_eq (lay : Layout) : lay.cover = lay.num ++ lay.groups.flatten := by
  simp [Layout.cover, Layout.blocks]

theorem sameBlock_iff (lay : Layout) (i j : ℕ) :
    sameBlock lay i j = true ↔ ∃ B ∈ lay.blocks, i ∈ B ∧ j ∈ B := by
  simp [sameBlock, List.any_eq_true]

theorem block_nodup {lay : Layout} (h : lay.cover.Nodup) {B : List ℕ} (hB : B ∈ lay.blocks) : B.Nodup :=
  (List.nodup_flatten.mp h).1 B hB

/-- Disjoint index groups: an index lies in at most one block. -/
theorem block_unique {lay : Layout} (h : lay.cover.Nodup) {B B' : List ℕ} (hB : B ∈ lay.blocks)
    (hB' : B' ∈ lay.blocks) {i : ℕ} (hi : i ∈ B) (hi' : i ∈ B') : B = B' := by
  by_contra hne
  have : Std.Symm (List.Disjoint (α := ℕ)) := ⟨fun _ _ h => h.symm⟩
  have hd : List.Disjoint B B' := (List.nodup_flatten.mp h).2.forall hB hB' hne
  exact hd hi hi'

theorem mem_cover_of_mem_block {lay : Layout} {B : List ℕ} (hB : B ∈ lay.blocks) {i : ℕ} (hi : i ∈ B) :
    i ∈ lay.cover := List.mem_flatten.mpr ⟨B, hB, hi⟩

/-- `Σ_{i<d} f i` splits over the blocks of any partition of `0..d-1`. -/
theorem sum_block_additive (lay : Layout) (d : ℕ) (h : lay.cover.Perm (List.range d)) (f : ℕ → ℝ) :
    sumRange d f = sumOver lay.num f + sumL (lay.groups.map fun g => sumOver g f) := by
  unfold sumRange
  rw [← sumOver_perm h f, cover_eq, sumOver_append, sumOver_flatten]

/-! ### arg-max of a one-hot row -/

theorem argmax_le (row : ℕ → ℝ) (k : ℕ) : argmax row k ≤ k := by
  induction k with
  | zero => simp [argmax]
  | succ k ih =>
    simp only [argmax]
    split <;> omega

theorem argmax_congr {row row' : ℕ → ℝ} {k : ℕ} (h : ∀ i < k, row i = row' i) : argmax row k = argmax row' k := by
  induction k with
  | zero => rfl
  | succ k ih =>
    have ih' := ih fun i hi => h i (by omega)
    simp only [argmax]
    rw [← ih', h k (by omega), h (argmax row k) (by have := argmax_le row k; omega)]

theorem argmax_onehot_aux (a k : ℕ) : argmax (onehot (α := ℝ) a) k = if a < k then a else 0 := by
  induction k with
  | zero => simp [argmax]
  | succ k ih =>
    simp only [argmax, ih]
    by_cases h1 : a < k
    · have : k ≠ a := by omega
      simp [h1, onehot, this, show a < k + 1 by omega]
    · by_cases h2 : a = k
      · subst h2
        by_cases h0 : a = 0
        · subst h0; simp [onehot]
        · simp [onehot, Ne.symm h0]
      · have : ¬ a < k + 1 := by omega
        have hk : k ≠ a := fun h => h2 h.symm
        have h0 : (0 : ℕ) ≠ a := by omega
        simp [h1, this, onehot, hk, h0]

/-- `argmax(e_a) = a`. -/
theorem argmax_onehot {a k : ℕ} (h : a < k) : argmax (onehot (α := ℝ) a) k = a := by
  rw [argmax_onehot_aux, if_pos h]

/-! ### Transform restricted to a block -/

theorem applyT_congr (T : Transform ℝ) {k : ℕ} {row row' : ℕ → ℝ} (h : ∀ i < k, row i = row' i) :
    ∀ j < k, applyT T k row j = applyT T k row' j := by
  intro j hj
  cases T with
  | none => exact h j hj
  | diag v => simp [applyT, h j hj]
  | full m =>
    simp only [applyT]
    exact sumRange_congr fun i hi => by rw [h i hi]

/-- With no cross-block entries, the transformed row restricted to block `B` is the sub-transform of
the restricted row: `(x·T)|_B = x_B · T_B`. -/
theorem applyT_block {lay : Layout} {d : ℕ} (hcover : lay.cover.Perm (List.range d)) {T : Transform ℝ}
    (hT : NoMix lay d T) {B : List ℕ} (hB : B ∈ lay.blocks) (x : ℕ → ℝ) {c : ℕ} (hc : c < B.length) :
    applyT T d x (B.getD c 0) = applyT (subT T B) B.length (restrict x B) c := by
  cases T with
  | none => rfl
  | diag v => rfl
  | full m =>
    have hnd : lay.cover.Nodup := hcover.nodup_iff.mpr List.nodup_range
    have hlt : ∀ i ∈ B, i < d := fun i hi =>
      List.mem_range.mp (hcover.mem_iff.mp (mem_cover_of_mem_block hB hi))
    have hj : B.getD c 0 ∈ B := by
      rw [getD_lt hc]; exact List.getElem_mem hc
    simp only [applyT, subT, restrict]
    rw [sumRange_eq_sumOver_block (block_nodup hnd hB) hlt, sumOver_eq_sumRange]
    intro i hi hiB
    have : sameBlock lay i (B.getD c 0) = false := by
      rw [Bool.eq_false_iff]
      intro hs
      obtain ⟨B', hB', hiB', hjB'⟩ := (sameBlock_iff lay i _).mp hs
      have := block_unique hnd hB hB' hj hjB'
      exact hiB (this ▸ hiB')
    rw [hT i (B.getD c 0) hi (hlt _ hj) this, mul_zero]

/-- The dense computation's term of block `B` is the sub-transform's distance of the restricted rows. -/
theorem dense_block_term {lay : Layout} {d : ℕ} (hcover : lay.cover.Perm (List.range d)) {T : Transform ℝ}
    (hT : NoMix lay d T) {B : List ℕ} (hB : B ∈ lay.blocks) (p : ℝ) (x z : ℕ → ℝ) :
    lpPowOver p B (applyT T d x) (applyT T d z) =
      lpPowRange p B.length (applyT (subT T B) B.length (restrict x B))
        (applyT (subT T B) B.length (restrict z B)) := by
  unfold lpPowOver lpPowRange
  rw [sumOver_eq_sumRange]
  apply sumRange_congr
  intro c hc
  simp only [lpTerm, applyT_block hcover hT hB x hc, applyT_block hcover hT hB z hc]

/-- A row is one-hot on every categorical group of the layout. -/
def OneHotRows (lay : Layout) (x : ℕ → ℝ) : Prop :=
  ∀ g ∈ lay.groups, ∃ a < g.length, ∀ c < g.length, restrict x g c = onehot a c

theorem lpPowRange_congr {p : ℝ} {k : ℕ} {u u' v v' : ℕ → ℝ} (hu : ∀ i < k, u i = u' i)
    (hv : ∀ i < k, v i = v' i) : lpPowRange p k u v = lpPowRange p k u' v' := by
  unfold lpPowRange
  exact sumRange_congr fun i hi => by simp only [lpTerm, hu i hi, hv i hi]

theorem lpPowOver_nonneg (p : ℝ) (idx : List ℕ) (u v : ℕ → ℝ) : 0 ≤ lpPowOver p idx u v :=
  sumOver_nonneg fun _ _ => Real.rpow_nonneg (abs_nonneg _) p

theorem denseAcc_nonneg (p : ℝ) (d : ℕ) (T : Transform ℝ) (x z : ℕ → ℝ) : 0 ≤ denseAcc p d T x z :=
  lpPowOver_nonneg p (List.range d) _ _

/-! ### Fast path = dense path on the accumulated distance -/

/-- `‖u − v‖_p^p` over all `d` coordinates splits over the blocks of a partition of the columns. -/
theorem lpPowRange_block_additive (p : ℝ) (lay : Layout) (d : ℕ) (h : lay.cover.Perm (List.range d))
    (u v : ℕ → ℝ) :
    lpPowRange p d u v = lpPowOver p lay.num u v + sumL (lay.groups.map fun g => lpPowOver p g u v) :=
  sum_block_additive lay d h _

/-- One-hot rows: the dense block term is the table entry. -/
theorem onehot_block_term {lay : Layout} {d : ℕ} (hcover : lay.cover.Perm (List.range d)) {T : Transform ℝ}
    (hT : NoMix lay d T) {g : List ℕ} (hg : g ∈ lay.groups) (p : ℝ) (x z : ℕ → ℝ) {a b : ℕ}
    (hxa : ∀ c < g.length, restrict x g c = onehot a c) (hzb : ∀ c < g.length, restrict z g c = onehot b c) :
    lpPowOver p g (applyT T d x) (applyT T d z) = table p T g a b := by
  rw [dense_block_term hcover hT (mem_blocks_of_mem_groups hg)]
  unfold table
  exact lpPowRange_congr (applyT_congr _ hxa) (applyT_congr _ hzb)

/-- One-hot rows: the fast path looks the same table entry up. -/
theorem catTerm_onehot (p : ℝ) (T : Transform ℝ) (x z : ℕ → ℝ) (g : List ℕ) {a b : ℕ}
    (ha : a < g.length) (hb : b < g.length)
    (hxa : ∀ c < g.length, restrict x g c = onehot a c) (hzb : ∀ c < g.length, restrict z g c = onehot b c) :
    catTerm p T x z g = table p T g a b := by
  unfold catTerm
  rw [argmax_congr hxa, argmax_congr hzb, argmax_onehot ha, argmax_onehot hb]

theorem fastAcc_eq_denseAcc (p : ℝ) {lay : Layout} {d : ℕ} (hcover : lay.cover.Perm (List.range d))
    {T : Transform ℝ} (hT : NoMix lay d T) {x z : ℕ → ℝ} (hx : OneHotRows lay x) (hz : OneHotRows lay z) :
    fastAcc p lay T x z = denseAcc p d T x z := by
  unfold denseAcc fastAcc
  rw [lpPowRange_block_additive p lay d hcover]
  congr 1
  · exact (dense_block_term hcover hT (num_mem_blocks lay) p x z).symm
  · congr 1
    apply List.map_congr_left
    intro g hg
    obtain ⟨a, ha, hxa⟩ := hx g hg
    obtain ⟨b, hb, hzb⟩ := hz g hg
    rw [catTerm_onehot p T x z g ha hb hxa hzb, onehot_block_term hcover hT hg p x z hxa hzb]

/-- The fast and dense outer functions agree on non-negative accumulated distances (`(s^(1/q))^q = s`). -/
theorem outerFast_eq_outerDense (kind : Kind) (p q s : ℝ) (hq : 0 < q) (hs : 0 ≤ s) :
    outerFast kind p q s = outerDense kind p q s := by
  cases kind
  · rfl
  · simp only [outerFast, outerDense, rpow_real, one_div]
    rw [Real.rpow_inv_rpow hs hq.ne']
  · rfl

theorem fastKernel_eq_denseKernel (kind : Kind) (p q L : ℝ) (hq : 0 < q) {lay : Layout} {d : ℕ}
    (hcover : lay.cover.Perm (List.range d)) {T : Transform ℝ} (hT : NoMix lay d T) {x z : ℕ → ℝ}
    (hx : OneHotRows lay x) (hz : OneHotRows lay z) :
    fastKernel kind p q L lay T x z = denseKernel kind p q L d T x z := by
  unfold fastKernel denseKernel
  rw [fastAcc_eq_denseAcc _ hcover hT hx hz, outerFast_eq_outerDense kind p q _ hq (denseAcc_nonneg _ _ _ _ _)]

/-! ### AGOP -/

theorem getD_idxOf {g : List ℕ} {i : ℕ} (h : i ∈ g) : g.getD (g.idxOf i) 0 = i := by
  have hlt : g.idxOf i < g.length := List.idxOf_lt_length_of_mem h
  rw [getD_lt hlt]
  exact List.getElem_idxOf hlt

theorem subGram_idxOf (n : ℕ) (G : ℕ → ℕ → ℝ) {g : List ℕ} {i j : ℕ} (hi : i ∈ g) (hj : j ∈ g) :
    subGram n G g (g.idxOf i) (g.idxOf j) = gram n G i j := by
  simp only [subGram, gram, getD_idxOf hi, getD_idxOf hj]

theorem assignBlock_subGram (n : ℕ) (G : ℕ → ℕ → ℝ) (A : ℕ → ℕ → ℝ) (g : List ℕ) (i j : ℕ) :
    assignBlock A g (subGram n G g) i j =
      if g.contains i && g.contains j then gram n G i j else A i j := by
  unfold assignBlock
  by_cases h : (g.contains i && g.contains j) = true
  · have h' := h
    simp only [Bool.and_eq_true, List.contains_iff_mem] at h'
    rw [if_pos h, if_pos h, subGram_idxOf n G h'.1 h'.2]
  · rw [if_neg h, if_neg h]

theorem foldl_assign_spec (n : ℕ) (G : ℕ → ℕ → ℝ) (gs : List (List ℕ)) :
    ∀ (A : ℕ → ℕ → ℝ) (i j : ℕ),
      (gs.foldl (fun A g => assignBlock A g (subGram n G g)) A) i j =
        if gs.any (fun g => g.contains i && g.contains j) then gram n G i j else A i j := by
  induction gs with
  | nil => intro A i j; simp
  | cons g gs ih =>
    intro A i j
    rw [List.foldl_cons, ih, assignBlock_subGram, List.any_cons]
    cases h1 : gs.any (fun g => g.contains i && g.contains j) <;>
      cases h2 : (g.contains i && g.contains j) <;> simp

theorem agopCat_eq_blockMask (n : ℕ) (G : ℕ → ℕ → ℝ) (lay : Layout) (i j : ℕ) :
    agopCat n G lay i j = blockMask lay (gram n G) i j := by
  unfold agopCat blockMask sameBlock Layout.blocks
  simp only [foldl_assign_spec, List.any_cons]
  by_cases hn : lay.num.length > 0
  · rw [if_pos hn, assignBlock_subGram]
    rcases Bool.eq_false_or_eq_true (lay.groups.any fun g => g.contains i && g.contains j) with h1 | h1 <;>
      rcases Bool.eq_false_or_eq_true (lay.num.contains i && lay.num.contains j) with h2 | h2 <;>
      simp only [h1, h2] <;> simp
  · have : lay.num = [] := List.eq_nil_of_length_eq_zero (by omega)
    rw [if_neg hn, this]
    rcases Bool.eq_false_or_eq_true (lay.groups.any fun g => g.contains i && g.contains j) with h1 | h1 <;>
      simp only [h1] <;> simp

/-- With disjoint index groups the blocks do not overlap: sharing a block is transitive. -/
theorem sameBlock_trans {lay : Layout} (h : lay.cover.Nodup) {i j k : ℕ}
    (hij : sameBlock lay i j = true) (hjk : sameBlock lay j k = true) : sameBlock lay i k = true := by
  obtain ⟨B, hB, hiB, hjB⟩ := (sameBlock_iff lay i j).mp hij
  obtain ⟨B', hB', hjB', hkB'⟩ := (sameBlock_iff lay j k).mp hjk
  have := block_unique h hB hB' hjB hjB'
  exact (sameBlock_iff lay i k).mpr ⟨B, hB, hiB, this ▸ hkB'⟩

end Xrfmv.Categorical
