import Xrfmv.Props.C08
#print axioms Xrfmv.Props.C08.node_routing_agrees
#print axioms Xrfmv.Props.C08.train_route_agree
#print axioms Xrfmv.Props.C08.val_rule_eq_predict_rule
#print axioms Xrfmv.Props.C08.train_route_agree_unconditional
