/-
Line-protocol driver: one JSON object per input line, one JSON object per output line.
Floats travel as IEEE-754 bit patterns (decimal `Nat`), never as decimal fractions.
Imports only the Mathlib-free models and the regenerated `Gen` modules.
-/
import Lean.Data.Json
import Xrfmv.Model.FitLoop

open Lean Xrfmv

namespace Drv

def getF (j : Json) (k : String) : Except String Float := do
  let n ← j.getObjValAs? Nat k
  pure (Float.ofBits (UInt64.ofNat n))

def getFs (j : Json) (k : String) : Except String (Array Float) := do
  let a ← j.getObjValAs? (Array Nat) k
  pure (a.map fun n => Float.ofBits (UInt64.ofNat n))

def optNat : Option Nat → Json
  | some n => toJson n
  | none => Json.null

def opFitLoop (j : Json) : Except String Json := do
  let cfg : FitLoop.Cfg Float := {
    maximize := ← j.getObjValAs? Bool "maximize"
    returnBest := ← j.getObjValAs? Bool "returnBest"
    earlyStop := ← j.getObjValAs? Bool "earlyStop"
    adaptive := ← j.getObjValAs? Bool "adaptive"
    mult := ← getF j "mult"
    iters := ← j.getObjValAs? Nat "iters" }
  let sc ← getFs j "scores"
  if sc.size < cfg.iters + 1 then throw "bad-op: history shorter than iters+1"
  if sc.any (fun x => x.isNaN) then throw "bad-op: NaN score"
  let r := FitLoop.fit cfg (fun i => sc.getD i 0.0)
  pure <| Json.mkObj [("w", optNat r.fin.w), ("m", toJson r.fin.m), ("sq", toJson r.fin.sq),
    ("bw", toJson r.fin.bw), ("bestIter", optNat r.bestIter), ("evals", toJson r.evals),
    ("stopped", toJson r.stopped)]

def dispatch (j : Json) : Except String Json := do
  let op ← j.getObjValAs? String "op"
  match op with
  | "fitloop" => opFitLoop j
  | "ping" => pure (Json.mkObj [("pong", toJson true)])
  | _ => throw s!"bad-op: unknown op {op}"

end Drv

partial def loop (h : IO.FS.Stream) (out : IO.FS.Stream) : IO Unit := do
  let line ← h.getLine
  if line.isEmpty then return ()
  let res := match Json.parse line with
    | .ok j => Drv.dispatch j
    | .error e => .error s!"bad-json: {e}"
  match res with
  | .ok r => out.putStrLn (Json.compress r)
  | .error e => out.putStrLn (Json.compress (Json.mkObj [("error", toJson e)]))
  out.flush
  loop h out

def main : IO Unit := do loop (← IO.getStdin) (← IO.getStdout)
