/-
Helper lemmas about `Xrfmv.Median` at `ℝ`: sorting commutes with strictly monotone maps, the scale
laws of the median, of the pairwise distances and of the adapted bandwidth, and the induction over
the adaptive fit loop.  Property theorems are in `Props/C19.lean`.
-/
import Xrfmv.Model.Median
import Xrfmv.Lemmas.Kernel
import Mathlib.Order.Monotone.Basic

namespace Xrfmv.Median
open Xrfmv Xrfmv.Kernel

/-! ### median -/

theorem sort_map_strictMono {f : ℝ → ℝ} (hf : StrictMono f) (l : List ℝ) :
    sort (l.map f) = (sort l).map f := by
  unfold sort
  symm
  apply List.map_mergeSort
  intro a _ b _
  simp only [hf.le_iff_le]

theorem lowerMedian_map_strictMono {f : ℝ → ℝ} (hf : StrictMono f) (l : List ℝ) :
    lowerMedian (l.map f) = (lowerMedian l).map f := by
  simp only [lowerMedian, sort_map_strictMono hf, List.length_map, List.getElem?_map]

theorem upperMedian_map_strictMono {f : ℝ → ℝ} (hf : StrictMono f) (l : List ℝ) :
    upperMedian (l.map f) = (upperMedian l).map f := by
  simp only [upperMedian, sort_map_strictMono hf, List.length_map, List.getElem?_map]

theorem strictMono_mul_left {c : ℝ} (hc : 0 < c) : StrictMono fun t : ℝ => c * t :=
  fun _ _ h => mul_lt_mul_of_pos_left h hc

theorem lowerMedian_mem {l : List ℝ} {m : ℝ} (h : lowerMedian l = some m) : m ∈ l := by
  unfold lowerMedian sort at h
  exact List.mem_mergeSort.mp (List.mem_of_getElem? h)

theorem lowerMedian_isSome {l : List ℝ} (h : l ≠ []) : (lowerMedian l).isSome = true := by
  unfold lowerMedian sort
  have hl : 0 < l.length := List.length_pos_iff.mpr h
  have hlt : (l.length - 1) / 2 < (l.mergeSort fun a b => decide (a ≤ b)).length := by
    rw [List.length_mergeSort]; omega
  rw [List.getElem?_eq_getElem hlt]
  rfl

/-! ### pairwise distances -/

theorem pairDists_map {β : Type} (d d' : β → β → ℝ) (f : β → β) (c : ℝ)
    (h : ∀ x z, d' (f x) (f z) = c * d x z) (pts : List β) :
    pairDists d' (pts.map f) = (pairDists d pts).map (c * ·) := by
  simp only [pairDists, List.zipIdx_map, List.flatMap_map, List.filterMap_map, List.map_flatMap,
    List.map_filterMap]
  apply List.flatMap_congr
  intro xi _
  apply List.filterMap_congr
  intro zj _
  simp only [Function.comp, Prod.map, id]
  split <;> simp [h]

theorem mem_pairDists {β : Type} {d : β → β → ℝ} {pts : List β} {t : ℝ} (h : t ∈ pairDists d pts) :
    ∃ x z, t = d x z := by
  simp only [pairDists, List.mem_flatMap, List.mem_filterMap] at h
  obtain ⟨xi, _, zj, _, hz⟩ := h
  split at hz
  · cases hz
  · exact ⟨xi.1, zj.1, by simpa using hz.symm⟩

/-! ### distances of the Laplace family -/

/-- What the scale laws need of the parameters (the bandwidth is not involved): `q > 0` for the
product kernel, `p > 0` for Lpq; the sum-power kernel is excluded (it has no adaptive mode). -/
def ParamOK : Spec ℝ → Prop
  | .laplace _ _ | .light _ _ => True
  | .product q _ => 0 < q
  | .lpq p _ _ => 0 < p
  | .sumPower .. => False

theorem paramOK_withL {K : Spec ℝ} (L : ℝ) (h : ParamOK K) : ParamOK (K.withL L) := by
  cases K <;> exact h

@[simp] theorem withL_L (K : Spec ℝ) (L : ℝ) : (K.withL L).L = L := by cases K <;> rfl
@[simp] theorem withL_q (K : Spec ℝ) (L : ℝ) : (K.withL L).q = K.q := by cases K <;> rfl
@[simp] theorem withL_withL (K : Spec ℝ) (L L' : ℝ) : (K.withL L).withL L' = K.withL L' := by cases K <;> rfl
@[simp] theorem dist_withL (K : Spec ℝ) (L : ℝ) (T : Transform ℝ) (x z : List ℝ) :
    Kernel.dist (K.withL L) T x z = Kernel.dist K T x z := by cases K <;> rfl

theorem dist_nonneg (K : Spec ℝ) (T : Transform ℝ) (x z : List ℝ) : 0 ≤ Kernel.dist K T x z := by
  cases K <;> simp only [Kernel.dist, sqrt_real] <;>
    first | exact pdist_nonneg _ _ _ | exact Real.sqrt_nonneg _ | exact le_refl _

/-- scaling a point: `c·x` -/
abbrev smul (c : ℝ) (x : List ℝ) : List ℝ := x.map (c * ·)

theorem dist_smul {c : ℝ} (hc : 0 < c) (K : Spec ℝ) (hK : ParamOK K) (T : Transform ℝ) (x z : List ℝ) :
    Kernel.dist K T (smul c x) (smul c z) = c * Kernel.dist K T x z := by
  cases K with
  | laplace q L => simp only [Kernel.dist, smul, applyT_smul, pdist_smul hc (show (0:ℝ) < 2 by norm_num)]
  | light q L =>
    simp only [Kernel.dist, smul, lightSq_smul, sqrt_real]
    rw [show max (c ^ 2 * lightSq T x z) 0 = c ^ 2 * max (lightSq T x z) 0 by
      rw [mul_max_of_nonneg _ _ (sq_nonneg c), mul_zero]]
    rw [Real.sqrt_mul (sq_nonneg c), Real.sqrt_sq hc.le]
  | product q L => simp only [Kernel.dist, smul, applyT_smul, pdist_smul hc hK]
  | lpq p q L => simp only [Kernel.dist, smul, applyT_smul, pdist_smul hc hK]
  | sumPower q L c' P => exact absurd hK (by simp [ParamOK])

/-- Every Laplace-family kernel is the Laplace profile of its own distance. -/
theorem entry_eq_lap_dist (K : Spec ℝ) (hK : ParamOK K) (T : Transform ℝ) (x z : List ℝ) :
    entry K T x z = lap K.q K.L (Kernel.dist K T x z) := by
  cases K with
  | laplace q L => rfl
  | light q L => exact lightEntry_eq_lap q L T x z
  | product q L => exact productCore_eq_lpq hK L _ _
  | lpq p q L => rfl
  | sumPower q L c' P => exact absurd hK (by simp [ParamOK])

theorem entry_scale {c : ℝ} (hc : 0 < c) (K : Spec ℝ) (hK : ParamOK K) (hL : 0 ≤ K.L) (T : Transform ℝ)
    (x z : List ℝ) :
    entry (K.withL (c * K.L)) T (smul c x) (smul c z) = entry K T x z := by
  rw [entry_eq_lap_dist _ (paramOK_withL _ hK), entry_eq_lap_dist K hK, withL_L, withL_q, dist_withL,
    dist_smul hc K hK, lap_scale hc _ hL (dist_nonneg K T x z)]

theorem matrix_scale {c : ℝ} (hc : 0 < c) (K : Spec ℝ) (hK : ParamOK K) (hL : 0 ≤ K.L) (T : Transform ℝ)
    (xs zs : List (List ℝ)) :
    matrix (K.withL (c * K.L)) T (xs.map (smul c)) (zs.map (smul c)) = matrix K T xs zs := by
  simp only [matrix, List.map_map, Function.comp_def, entry_scale hc K hK hL]

/-! ### the adaptive fit loop -/

/-- the iterate one obtains on inputs scaled by `c` -/
def scaleIt (c : ℝ) (it : Iterate ℝ) : Iterate ℝ :=
  { K := it.K.withL (c * it.K.L), T := it.T, alpha := it.alpha, med := c * it.med }

/-- Contract of the AGOP step (C04/C14, not proved here): gradients scale by `1/c`, the AGOP by `1/c²`,
and the normalised AGOP and its root are unchanged (the `1e-30` in the normalisation idealised to 0). -/
def AgopScaleCovariant (O : Oracles ℝ) : Prop :=
  ∀ (c : ℝ), 0 < c → ∀ (K : Spec ℝ) (T : Transform ℝ) (X A : List (List ℝ)),
    O.upd (K.withL (c * K.L)) T (X.map (smul c)) A = O.upd K T X A

/-- The `< eps → 1` guard of `_adapt_bandwidth` does not fire at either scale, up to iterate `i`. -/
def GuardOff (eps c : ℝ) (O : Oracles ℝ) (K0 : Spec ℝ) (X Y : List (List ℝ)) (i : ℕ) : Prop :=
  ∀ j ≤ i, ∀ it, iterate O eps K0 X Y j = some it → eps ≤ it.med ∧ eps ≤ c * it.med

theorem solveStep_scale {c eps : ℝ} (hc : 0 < c) (heps : 0 ≤ eps) (O : Oracles ℝ) (K0 : Spec ℝ)
    (hK : ParamOK K0) (hL : 0 ≤ K0.L) (X Y : List (List ℝ)) (T : Transform ℝ)
    (hg : ∀ it, solveStep O eps K0 X Y T = some it → eps ≤ it.med ∧ eps ≤ c * it.med) :
    solveStep O eps K0 (X.map (smul c)) Y T = (solveStep O eps K0 X Y T).map (scaleIt c) := by
  unfold solveStep at hg ⊢
  rw [pairDists_map (Kernel.dist K0 T) (Kernel.dist K0 T) (smul c) c (fun x z => dist_smul hc K0 hK T x z),
    lowerMedian_map_strictMono (strictMono_mul_left hc)]
  cases hm : lowerMedian (pairDists (Kernel.dist K0 T) X) with
  | none => rfl
  | some m =>
    rw [hm] at hg
    obtain ⟨h1, h2⟩ := hg _ rfl
    simp only [Option.map_some] at h1 h2 ⊢
    have e1 : ¬ m < eps := not_lt.mpr h1
    have e2 : ¬ c * m < eps := not_lt.mpr h2
    simp only [Xrfmv.Gen.Bandwidth.adapted, Xrfmv.Gen.Bandwidth.guardMult, e1, e2, if_false, scaleIt, withL_L, withL_withL]
    have hL' : 0 ≤ (K0.withL (K0.L * m)).L := by
      rw [withL_L]; exact mul_nonneg hL (le_trans heps h1)
    have hmat := matrix_scale hc (K0.withL (K0.L * m)) (paramOK_withL _ hK) hL' T X X
    rw [withL_L, withL_withL] at hmat
    rw [show K0.L * (c * m) = c * (K0.L * m) by ring, hmat]

/-- Scale covariance of the whole adaptive fit from covariance of the AGOP step **at the iterates the fit visits**. -/
theorem iterate_scale_on {c eps : ℝ} (hc : 0 < c) (heps : 0 ≤ eps) (O : Oracles ℝ)
    (K0 : Spec ℝ) (hK : ParamOK K0) (hL : 0 ≤ K0.L)
    (X Y : List (List ℝ)) (i : ℕ) (hg : GuardOff eps c O K0 X Y i)
    (hO : ∀ j < i, ∀ it, iterate O eps K0 X Y j = some it →
      O.upd (it.K.withL (c * it.K.L)) it.T (X.map (smul c)) it.alpha = O.upd it.K it.T X it.alpha) :
    iterate O eps K0 (X.map (smul c)) Y i = (iterate O eps K0 X Y i).map (scaleIt c) := by
  induction i with
  | zero =>
    exact solveStep_scale hc heps O K0 hK hL X Y .none fun it h => hg 0 le_rfl it h
  | succ i ih =>
    have ih' := ih (fun j hj it h => hg j (Nat.le_succ_of_le hj) it h)
      (fun j hj it h => hO j (Nat.lt_succ_of_lt hj) it h)
    simp only [iterate, ih']
    cases hi : iterate O eps K0 X Y i with
    | none => rfl
    | some it =>
      simp only [Option.map_some, Option.bind_some, scaleIt]
      rw [hO i (Nat.lt_succ_self i) it hi]
      apply solveStep_scale hc heps O K0 hK hL X Y
      intro it' h'
      exact hg (i + 1) le_rfl it' (by simp only [iterate, hi, Option.bind_some]; exact h')

theorem iterate_scale {c eps : ℝ} (hc : 0 < c) (heps : 0 ≤ eps) (O : Oracles ℝ)
    (hO : AgopScaleCovariant O) (K0 : Spec ℝ) (hK : ParamOK K0) (hL : 0 ≤ K0.L)
    (X Y : List (List ℝ)) (i : ℕ) (hg : GuardOff eps c O K0 X Y i) :
    iterate O eps K0 (X.map (smul c)) Y i = (iterate O eps K0 X Y i).map (scaleIt c) :=
  iterate_scale_on hc heps O K0 hK hL X Y i hg fun _ _ it _ => hO c hc it.K it.T X it.alpha

/-- a stored iterate has a non-negative bandwidth when the guard is off -/
theorem iterate_L_nonneg {eps : ℝ} (heps : 0 ≤ eps) (O : Oracles ℝ) (K0 : Spec ℝ) (hL : 0 ≤ K0.L)
    (X Y : List (List ℝ)) (i : ℕ) (it : Iterate ℝ) (h : iterate O eps K0 X Y i = some it)
    (hm : eps ≤ it.med) : 0 ≤ it.K.L ∧ ∃ L, it.K = K0.withL L := by
  have key : ∀ T, solveStep O eps K0 X Y T = some it → 0 ≤ it.K.L ∧ ∃ L, it.K = K0.withL L := by
    intro T hs
    unfold solveStep at hs
    cases hmed : lowerMedian (pairDists (Kernel.dist K0 T) X) with
    | none => simp [hmed] at hs
    | some m =>
      simp only [hmed, Option.map_some, Option.some.injEq] at hs
      subst hs
      simp only at hm
      simp only [Xrfmv.Gen.Bandwidth.adapted, Xrfmv.Gen.Bandwidth.guardMult, withL_L, not_lt.mpr hm, if_false]
      exact ⟨mul_nonneg hL (le_trans heps hm), _, rfl⟩
  cases i with
  | zero => exact key _ h
  | succ i =>
    simp only [iterate] at h
    cases hi : iterate O eps K0 X Y i with
    | none => simp [hi] at h
    | some it0 => rw [hi, Option.bind_some] at h; exact key _ h

/-- the recorded median is a distance, hence non-negative -/
theorem iterate_med_nonneg (eps : ℝ) (O : Oracles ℝ) (K0 : Spec ℝ) (X Y : List (List ℝ)) (i : ℕ)
    (it : Iterate ℝ) (h : iterate O eps K0 X Y i = some it) : 0 ≤ it.med := by
  have key : ∀ T, solveStep O eps K0 X Y T = some it → 0 ≤ it.med := by
    intro T hs
    unfold solveStep at hs
    cases hmed : lowerMedian (pairDists (Kernel.dist K0 T) X) with
    | none => simp [hmed] at hs
    | some m =>
      simp only [hmed, Option.map_some, Option.some.injEq] at hs
      subst hs
      obtain ⟨x, z, hxz⟩ := mem_pairDists (lowerMedian_mem hmed)
      simp only [hxz]
      exact dist_nonneg K0 T x z
  cases i with
  | zero => exact key _ h
  | succ i =>
    simp only [iterate] at h
    cases hi : iterate O eps K0 X Y i with
    | none => simp [hi] at h
    | some it0 => rw [hi, Option.bind_some] at h; exact key _ h

/-- With `eps = 0` the guard never fires: the hypothesis `GuardOff` is satisfiable for every data set. -/
theorem guardOff_zero {c : ℝ} (hc : 0 < c) (O : Oracles ℝ) (K0 : Spec ℝ) (X Y : List (List ℝ)) (i : ℕ) :
    GuardOff 0 c O K0 X Y i := by
  intro j _ it h
  have := iterate_med_nonneg 0 O K0 X Y j it h
  exact ⟨this, mul_nonneg hc.le this⟩

theorem predict_scale {c : ℝ} (hc : 0 < c) (it : Iterate ℝ) (hK : ParamOK it.K) (hL : 0 ≤ it.K.L)
    (X Xtest : List (List ℝ)) :
    predict (scaleIt c it) (X.map (smul c)) (Xtest.map (smul c)) = predict it X Xtest := by
  simp only [predict, scaleIt, matrix_scale hc it.K hK hL]

end Xrfmv.Median
