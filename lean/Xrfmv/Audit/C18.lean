import Xrfmv.Props.C18
#print axioms Xrfmv.Props.C18.bracket_restores
#print axioms Xrfmv.Props.C18.bracket_restores_threads_and_env
#print axioms Xrfmv.Props.C18.inplace_sites_fresh_or_known
#print axioms Xrfmv.Props.C18.lstsq_kernel_matrix_is_fresh
#print axioms Xrfmv.Props.C18.matrix_power_arguments_known
