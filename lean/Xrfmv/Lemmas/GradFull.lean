/-
From partial derivatives to the Fréchet derivative (C04, full strength without a transform): the predictor
`w ↦ Σ_i c_i k(u_i, w)` on `ℝⁿ` is differentiable at every point in general position, and the row returned by the
gradient code is its gradient as a linear functional.

Route: (A) a function on `Fin n → ℝ` that is differentiable at `z` and whose partial derivatives at `z` are `g e` has
Fréchet derivative `Σ_e g e • proj e`; (B) differentiability of every kernel term, compositionally; (C) the partial
derivatives are the per-coordinate theorems of `Lemmas/Grad.lean`.
-/
import Xrfmv.Lemmas.Grad
import Mathlib.Analysis.Calculus.FDeriv.Basic
import Mathlib.Analysis.Calculus.FDeriv.Comp
import Mathlib.Analysis.Calculus.FDeriv.Add
import Mathlib.Analysis.Calculus.FDeriv.Mul
import Mathlib.Analysis.Calculus.FDeriv.Pi
import Mathlib.Analysis.Calculus.Deriv.Basic
import Mathlib.Analysis.Calculus.Deriv.Pi
import Mathlib.Analysis.SpecialFunctions.Sqrt
import Mathlib.Analysis.SpecialFunctions.Pow.Deriv

namespace Xrfmv.Grad

open scoped BigOperators

/-! ### (A) partial derivatives determine the Fréchet derivative of a differentiable function -/

theorem hasFDerivAt_of_partials {n : ℕ} (F : (Fin n → ℝ) → ℝ) (z : Fin n → ℝ) (g : Fin n → ℝ)
    (hd : DifferentiableAt ℝ F z)
    (hp : ∀ e : Fin n, HasDerivAt (fun s => F (Function.update z e s)) (g e) (z e)) :
    HasFDerivAt F (∑ e : Fin n, g e • (ContinuousLinearMap.proj e : (Fin n → ℝ) →L[ℝ] ℝ)) z := by
  have hD := hd.hasFDerivAt
  have hval : ∀ e : Fin n, fderiv ℝ F z (Pi.single e 1) = g e := by
    intro e
    have hupd : HasDerivAt (fun s : ℝ => Function.update z e s) (Pi.single e (1 : ℝ)) (z e) := by
      have := (hasDerivAt_update z e (z e))
      simpa using this
    have hcomp : HasDerivAt (fun s => F (Function.update z e s)) (fderiv ℝ F z (Pi.single e 1)) (z e) := by
      have hD' : HasFDerivAt F (fderiv ℝ F z) (Function.update z e (z e)) := by
        rw [Function.update_eq_self]; exact hD
      exact hD'.comp_hasDerivAt (z e) hupd
    exact hcomp.unique (hp e)
  have heq : fderiv ℝ F z = ∑ e : Fin n, g e • (ContinuousLinearMap.proj e : (Fin n → ℝ) →L[ℝ] ℝ) := by
    ext v
    have hv : v = ∑ e : Fin n, v e • (Pi.single e (1 : ℝ) : Fin n → ℝ) := by
      ext i
      simp [Finset.sum_apply, Pi.single_apply]
    conv_lhs => rw [hv]
    rw [map_sum]
    simp only [ContinuousLinearMap.map_smul, hval, ContinuousLinearMap.sum_apply, ContinuousLinearMap.smul_apply,
      ContinuousLinearMap.proj_apply, smul_eq_mul]
    apply Finset.sum_congr rfl
    intro e _
    ring
  rw [← heq]
  exact hD

/-! ### lists of coordinates ↔ functions on `Fin n` -/

theorem vsum_eq_sum (l : List ℝ) : vsum l = l.sum := by
  induction l with
  | nil => rfl
  | cons a l ih => simp [ih]

theorem zipWith_ofFn {n : ℕ} (f : ℝ → ℝ → ℝ) (w x : Fin n → ℝ) :
    List.zipWith f (List.ofFn w) (List.ofFn x) = List.ofFn fun e => f (w e) (x e) := by
  induction n with
  | zero => simp
  | succ n ih => simp only [List.ofFn_succ, List.zipWith_cons_cons, ih]

theorem vsub_ofFn {n : ℕ} (w x : Fin n → ℝ) :
    vsub (List.ofFn w) (List.ofFn x) = List.ofFn fun e => w e - x e := zipWith_ofFn _ w x

theorem vsum_map_ofFn {n : ℕ} (f : ℝ → ℝ) (g : Fin n → ℝ) : vsum ((List.ofFn g).map f) = ∑ e, f (g e) := by
  rw [vsum_eq_sum, List.map_ofFn, List.sum_ofFn]
  rfl

theorem lenS_ofFn {n : ℕ} (g : Fin n → ℝ) : (lenS (List.ofFn g) : ℝ) = n := by
  induction n with
  | zero => simp [lenS]
  | succ n ih =>
    rw [List.ofFn_succ]
    simp only [lenS, List.foldr_cons] at ih ⊢
    rw [ih (fun i => g i.succ)]
    push_cast; ring

/-! ### (B) every kernel term is differentiable at a point in general position -/

section diff
variable {n : ℕ}

theorem kL2_ofFn (P : Params ℝ) (x w : Fin n → ℝ) :
    kL2 P (List.ofFn x) (List.ofFn w) =
      Real.exp (-(Real.sqrt (∑ e, (w e - x e) * (w e - x e))) ^ P.q / P.L ^ P.q) := by
  simp only [kL2, radial, sqDist, vsub_ofFn, vsum_map_ofFn, rpow_real, exp_real, sqrt_real]

theorem kProd_ofFn (P : Params ℝ) (x w : Fin n → ℝ) :
    kProd P (List.ofFn x) (List.ofFn w) = Real.exp (-(∑ e, |w e - x e| ^ P.q) / P.L ^ P.q) := by
  simp only [kProd, pSum, vsub_ofFn, vsum_map_ofFn, rpow_real, exp_real, abs_real]

theorem kLpq_ofFn (P : Params ℝ) (x w : Fin n → ℝ) :
    kLpq P (List.ofFn x) (List.ofFn w) =
      Real.exp (-((∑ e, |w e - x e| ^ P.p) ^ (1 / P.p)) ^ P.q / P.L ^ P.q) := by
  simp only [kLpq, pNorm, pSum, vsub_ofFn, vsum_map_ofFn, rpow_real, exp_real, abs_real]

theorem kSumPower_ofFn (P : Params ℝ) (x w : Fin n → ℝ) :
    kSumPower P (List.ofFn x) (List.ofFn w) =
      ((1 - P.cmix) * ((∑ e, Real.exp (-|w e - x e| ^ P.q / P.L ^ P.q)) / n) + P.cmix) ^ P.power := by
  simp only [kSumPower, sBracket, profile, vsub_ofFn, vsum_map_ofFn, lenS_ofFn, rpow_real, exp_real, abs_real]

theorem kL2_differentiableAt (P : Params ℝ) (x z : Fin n → ℝ) (h : 0 < ∑ e, (z e - x e) * (z e - x e)) :
    DifferentiableAt ℝ (fun w : Fin n → ℝ => kL2 P (List.ofFn x) (List.ofFn w)) z := by
  simp only [kL2_ofFn, div_eq_mul_inv]
  have hS : DifferentiableAt ℝ (fun w : Fin n → ℝ => ∑ e, (w e - x e) * (w e - x e)) z := by fun_prop
  have h1 := hS.sqrt h.ne'
  have h2 := h1.rpow_const (p := P.q) (Or.inl (Real.sqrt_pos.2 h).ne')
  exact (h2.fun_neg.mul_const _).exp

theorem absPow_sum_differentiableAt (a : ℝ) (x z : Fin n → ℝ) (h : ∀ e, z e ≠ x e) :
    DifferentiableAt ℝ (fun w : Fin n → ℝ => ∑ e, |w e - x e| ^ a) z := by
  apply DifferentiableAt.fun_sum
  intro e _
  have h0 : DifferentiableAt ℝ (fun w : Fin n → ℝ => w e - x e) z := by fun_prop
  have hne : z e - x e ≠ 0 := sub_ne_zero.2 (h e)
  exact (h0.abs hne).rpow_const (Or.inl (abs_ne_zero.2 hne))

theorem kProd_differentiableAt (P : Params ℝ) (x z : Fin n → ℝ) (h : ∀ e, z e ≠ x e) :
    DifferentiableAt ℝ (fun w : Fin n → ℝ => kProd P (List.ofFn x) (List.ofFn w)) z := by
  simp only [kProd_ofFn, div_eq_mul_inv]
  exact ((absPow_sum_differentiableAt P.q x z h).fun_neg.mul_const _).exp

theorem absPow_sum_pos [NeZero n] (a : ℝ) (x z : Fin n → ℝ) (h : ∀ e, z e ≠ x e) : 0 < ∑ e, |z e - x e| ^ a := by
  apply Finset.sum_pos
  · intro e _
    exact Real.rpow_pos_of_pos (abs_pos.2 (sub_ne_zero.2 (h e))) a
  · exact Finset.univ_nonempty

theorem kLpq_differentiableAt [NeZero n] (P : Params ℝ) (x z : Fin n → ℝ) (h : ∀ e, z e ≠ x e) :
    DifferentiableAt ℝ (fun w : Fin n → ℝ => kLpq P (List.ofFn x) (List.ofFn w)) z := by
  simp only [kLpq_ofFn, div_eq_mul_inv]
  have hS := absPow_sum_differentiableAt P.p x z h
  have hpos := absPow_sum_pos P.p x z h
  have h1 := hS.rpow_const (p := 1 / P.p) (Or.inl hpos.ne')
  have h2 := h1.rpow_const (p := P.q) (Or.inl (Real.rpow_pos_of_pos hpos _).ne')
  exact (h2.fun_neg.mul_const _).exp

theorem kSumPower_differentiableAt [NeZero n] (P : Params ℝ) (hc0 : 0 ≤ P.cmix) (hc1 : P.cmix < 1) (x z : Fin n → ℝ)
    (h : ∀ e, z e ≠ x e) :
    DifferentiableAt ℝ (fun w : Fin n → ℝ => kSumPower P (List.ofFn x) (List.ofFn w)) z := by
  simp only [kSumPower_ofFn, div_eq_mul_inv]
  have hterm : ∀ e : Fin n, DifferentiableAt ℝ (fun w : Fin n → ℝ => Real.exp (-|w e - x e| ^ P.q * (P.L ^ P.q)⁻¹)) z := by
    intro e
    have h0 : DifferentiableAt ℝ (fun w : Fin n → ℝ => w e - x e) z := by fun_prop
    have hne : z e - x e ≠ 0 := sub_ne_zero.2 (h e)
    exact (((h0.abs hne).rpow_const (Or.inl (abs_ne_zero.2 hne))).fun_neg.mul_const _).exp
  have hsum : DifferentiableAt ℝ (fun w : Fin n → ℝ => ∑ e, Real.exp (-|w e - x e| ^ P.q * (P.L ^ P.q)⁻¹)) z :=
    DifferentiableAt.fun_sum fun e _ => hterm e
  have hbr : DifferentiableAt ℝ
      (fun w : Fin n → ℝ => (1 - P.cmix) * ((∑ e, Real.exp (-|w e - x e| ^ P.q * (P.L ^ P.q)⁻¹)) * (n : ℝ)⁻¹) + P.cmix) z :=
    ((hsum.mul_const _).const_mul (1 - P.cmix)).add_const P.cmix
  have hpos : 0 < (1 - P.cmix) * ((∑ e, Real.exp (-|z e - x e| ^ P.q * (P.L ^ P.q)⁻¹)) * (n : ℝ)⁻¹) + P.cmix := by
    have hs : 0 < ∑ e : Fin n, Real.exp (-|z e - x e| ^ P.q * (P.L ^ P.q)⁻¹) :=
      Finset.sum_pos (fun e _ => Real.exp_pos _) Finset.univ_nonempty
    have hn : (0 : ℝ) < (n : ℝ)⁻¹ := inv_pos.2 (Nat.cast_pos.2 (NeZero.pos n))
    have : 0 < (1 - P.cmix) * ((∑ e, Real.exp (-|z e - x e| ^ P.q * (P.L ^ P.q)⁻¹)) * (n : ℝ)⁻¹) :=
      mul_pos (by linarith) (mul_pos hs hn)
    linarith
  exact hbr.rpow_const (Or.inl hpos.ne')

end diff

/-! ### (C) the whole predictor: differentiable, partial derivatives from the per-coordinate theorems -/

theorem fval_differentiableAt {n : ℕ} (kf : List ℝ → List ℝ → ℝ) (z : Fin n → ℝ) :
    ∀ (us : List (List ℝ)) (c : List ℝ),
      (∀ u ∈ us, DifferentiableAt ℝ (fun w : Fin n → ℝ => kf u (List.ofFn w)) z) →
      DifferentiableAt ℝ (fun w : Fin n → ℝ => fval kf c us (List.ofFn w)) z
  | [], c, _ => by
    simp only [fval, List.zipWith_nil_right, vsum_nil]
    exact differentiableAt_const _
  | u :: us, [], _ => by
    simp only [fval, List.zipWith_nil_left, vsum_nil]
    exact differentiableAt_const _
  | u :: us, ci :: c, h => by
    have ih := fval_differentiableAt kf z us c fun u' hu' => h u' (List.mem_cons_of_mem _ hu')
    have h1 : DifferentiableAt ℝ (fun w : Fin n → ℝ => ci * kf u (List.ofFn w)) z :=
      (h u List.mem_cons_self).const_mul ci
    simp only [fval, List.zipWith_cons_cons, vsum_cons] at ih ⊢
    exact h1.add ih

theorem ofFn_update {n : ℕ} (z : Fin n → ℝ) (e : Fin n) (s : ℝ) :
    List.ofFn (Function.update z e s) = (List.ofFn z).take e ++ s :: (List.ofFn z).drop (e + 1) := by
  apply List.ext_getElem
  · simp only [List.length_ofFn, List.length_append, List.length_take, List.length_cons, List.length_drop]
    have := e.isLt
    omega
  · intro i h1 h2
    simp only [List.length_ofFn] at h1
    simp only [List.getElem_ofFn]
    rcases lt_trichotomy i (e : ℕ) with hlt | heq | hgt
    · rw [List.getElem_append_left (by simp only [List.length_take, List.length_ofFn]; omega)]
      simp only [List.getElem_take, List.getElem_ofFn]
      rw [Function.update_of_ne]
      intro hc; rw [← hc] at hlt; simp at hlt
    · have hie : (⟨i, h1⟩ : Fin n) = e := Fin.ext heq
      rw [hie, Function.update_self]
      rw [List.getElem_append_right (by simp only [List.length_take, List.length_ofFn]; omega)]
      simp only [List.length_take, List.length_ofFn]
      have : i - min (e : ℕ) n = 0 := by have := e.isLt; omega
      simp only [this, List.getElem_cons_zero]
    · rw [List.getElem_append_right (by simp only [List.length_take, List.length_ofFn]; omega)]
      simp only [List.length_take, List.length_ofFn]
      have he := e.isLt
      have hk : i - min (e : ℕ) n = (i - e - 1) + 1 := by omega
      simp only [hk, List.getElem_cons_succ, List.getElem_drop, List.getElem_ofFn]
      rw [Function.update_of_ne]
      · congr 1
        apply Fin.ext
        simp only
        omega
      · intro hc
        have : i = (e : ℕ) := by rw [← hc]
        omega

theorem ofFn_split {n : ℕ} (x : Fin n → ℝ) (e : Fin n) :
    List.ofFn x = (List.ofFn x).take e ++ x e :: (List.ofFn x).drop (e + 1) := by
  have := ofFn_update x e (x e)
  rwa [Function.update_eq_self] at this

/-- The evaluation point is in general position w.r.t. the center `x`, in the sense of the per-coordinate theorems, for
every coordinate. -/
def GeneralPos {n : ℕ} (k : Kind) (P : Params ℝ) (x z : Fin n → ℝ) : Prop :=
  ∀ e : Fin n, CoordOK k P (List.ofFn x) (List.ofFn z) (z e - x e)

theorem kval_differentiableAt {n : ℕ} [NeZero n] (k : Kind) (P : Params ℝ) (heps : 0 < P.eps) (hc0 : 0 ≤ P.cmix)
    (hc1 : P.cmix < 1) (x z : Fin n → ℝ) (h : GeneralPos k P x z) :
    DifferentiableAt ℝ (fun w : Fin n → ℝ => kval k P (List.ofFn x) (List.ofFn w)) z := by
  have e0 : Fin n := ⟨0, NeZero.pos n⟩
  have hl2 : ¬ (Real.sqrt (sqDist (List.ofFn x) (List.ofFn z)) < P.eps) →
      0 < ∑ e, (z e - x e) * (z e - x e) := by
    intro hm
    have h1 : 0 < Real.sqrt (sqDist (List.ofFn x) (List.ofFn z)) := lt_of_lt_of_le heps (not_lt.mp hm)
    have h2 := Real.sqrt_pos.1 h1
    simpa only [sqDist, vsub_ofFn, vsum_map_ofFn] using h2
  cases k with
  | l2 => exact kL2_differentiableAt P x z (hl2 (h e0))
  | light => exact kL2_differentiableAt P x z (hl2 (h e0))
  | prod => exact kProd_differentiableAt P x z fun e => sub_ne_zero.1 (h e).1
  | lpq => exact kLpq_differentiableAt P x z fun e => sub_ne_zero.1 (h e).1
  | sumPower =>
    refine kSumPower_differentiableAt P hc0 hc1 x z fun e => sub_ne_zero.1 ?_
    intro h0
    have := h e
    simp only [CoordOK, h0, abs_zero] at this
    exact this heps

/-- **The Fréchet derivative of the predictor (no transform).**  At a point in general position w.r.t. every center the
predictor `w ↦ Σ_i c_i k(x_i, w)` on `ℝⁿ` is differentiable and its derivative is the linear functional whose
coefficients are the row the gradient code returns. -/
theorem predictor_hasFDerivAt {n : ℕ} [NeZero n] (k : Kind) (P : Params ℝ) (heps : 0 < P.eps) (hp : 0 < P.p)
    (hc0 : 0 ≤ P.cmix) (hc1 : P.cmix < 1) (xs : List (Fin n → ℝ)) (c : List ℝ) (z : Fin n → ℝ)
    (hgp : ∀ x ∈ xs, GeneralPos k P x z) :
    HasFDerivAt (fun w : Fin n → ℝ => fval (kval k P) c (xs.map List.ofFn) (List.ofFn w))
      (∑ e : Fin n, (rowGrad (pairGrad k P) c (xs.map List.ofFn) (List.ofFn z)).getD e 0 •
        (ContinuousLinearMap.proj e : (Fin n → ℝ) →L[ℝ] ℝ)) z := by
  apply hasFDerivAt_of_partials
  · apply fval_differentiableAt
    intro u hu
    obtain ⟨x, hx, rfl⟩ := List.mem_map.1 hu
    exact kval_differentiableAt k P heps hc0 hc1 x z (hgp x hx)
  · intro e
    have hlen : ((List.ofFn z).take e).length = (e : ℕ) := by
      simp only [List.length_take, List.length_ofFn]; have := e.isLt; omega
    have hmain := predictor_coord k P heps hp hc0 hc1 ((List.ofFn z).take e) ((List.ofFn z).drop (e + 1)) (z e) c
      (xs.map List.ofFn) (by
        intro u hu
        obtain ⟨x, hx, rfl⟩ := List.mem_map.1 hu
        refine ⟨(List.ofFn x).take e, x e, (List.ofFn x).drop (e + 1), ofFn_split x e, ?_, ?_, ?_⟩
        · simp only [List.length_take, List.length_ofFn]
        · simp only [List.length_drop, List.length_ofFn]
        · rw [← ofFn_split z e]; exact hgp x hx e)
    rw [← ofFn_split z e, hlen] at hmain
    refine hmain.congr_of_eventuallyEq ?_
    filter_upwards with s
    rw [ofFn_update]

/-! ### general position stated coordinate-wise implies the mask conditions -/

theorem abs_le_pNorm {n : ℕ} {p : ℝ} (hp : 0 < p) (x z : Fin n → ℝ) (e : Fin n) :
    |z e - x e| ≤ pNorm p (vsub (List.ofFn z) (List.ofFn x)) := by
  simp only [pNorm, pSum, vsub_ofFn, vsum_map_ofFn, rpow_real, abs_real]
  have h1 : |z e - x e| ^ p ≤ ∑ j, |z j - x j| ^ p :=
    Finset.single_le_sum (f := fun j => |z j - x j| ^ p) (fun j _ => Real.rpow_nonneg (abs_nonneg _) p) (Finset.mem_univ e)
  have h2 := Real.rpow_le_rpow (Real.rpow_nonneg (abs_nonneg (z e - x e)) p) h1 (by positivity : (0 : ℝ) ≤ 1 / p)
  rwa [← Real.rpow_mul (abs_nonneg _), mul_one_div_cancel hp.ne', Real.rpow_one] at h2

/-- Every coordinate at least `eps` away from the center's (what the property's "general position" means for the
coordinate-wise kernels) puts the point in general position in the sense of the per-coordinate theorems. -/
theorem generalPos_of_coords {n : ℕ} (k : Kind) (hk : k ≠ .l2 ∧ k ≠ .light) (P : Params ℝ) (heps : 0 < P.eps)
    (hq : 0 < P.q) (hp : 0 < P.p) (x z : Fin n → ℝ) (h : ∀ e, P.eps ≤ |z e - x e|) : GeneralPos k P x z := by
  intro e
  have hne : z e - x e ≠ 0 := by
    intro h0; have := h e; rw [h0, abs_zero] at this; linarith
  cases k with
  | l2 => exact absurd rfl hk.1
  | light => exact absurd rfl hk.2
  | prod => exact ⟨hne, not_lt.mpr (le_trans (h e) (abs_le_pNorm hq x z e))⟩
  | lpq => exact ⟨hne, not_lt.mpr (le_trans (h e) (abs_le_pNorm hp x z e))⟩
  | sumPower => exact not_lt.mpr (h e)

theorem generalPos_of_dist {n : ℕ} (P : Params ℝ) (x z : Fin n → ℝ)
    (h : P.eps ≤ Real.sqrt (sqDist (List.ofFn x) (List.ofFn z))) : GeneralPos .l2 P x z :=
  fun _ => not_lt.mpr h

/-! ### transforms on `List.ofFn` -/

theorem applyT_diag_ofFn {n : ℕ} (τ w : Fin n → ℝ) :
    applyT (.diag (List.ofFn τ)) (List.ofFn w) = List.ofFn fun e => w e * τ e := by
  simp only [applyT]; exact zipWith_ofFn _ w τ

theorem getD_ofFn {n : ℕ} (f : Fin n → ℝ) (e : Fin n) : (List.ofFn f).getD e 0 = f e := by
  simp [List.getD_eq_getElem?_getD]

theorem applyT_full_ofFn {n : ℕ} (T : Matrix (Fin n) (Fin n) ℝ) (x : Fin n → ℝ) :
    applyT (.full (List.ofFn fun i => List.ofFn (T i))) (List.ofFn x) = List.ofFn (Matrix.vecMul x T) := by
  apply List.ext_getElem?
  intro i
  by_cases hi : i < n
  · have h := applyT_full_entry T x ⟨i, hi⟩
    simp only at h
    rw [h, List.getElem?_ofFn]
    simp [hi]
  · have hl : (applyT (.full (List.ofFn fun i => List.ofFn (T i))) (List.ofFn x)).length = n := by
      simp [applyT]
    rw [List.getElem?_eq_none (by omega), List.getElem?_eq_none (by simp; omega)]

theorem list_eq_ofFn_getD {n : ℕ} (l : List ℝ) (h : l.length = n) : l = List.ofFn fun e : Fin n => l.getD e 0 := by
  apply List.ext_getElem
  · simp [h]
  · intro i h1 h2
    simp [List.getD_eq_getElem?_getD, List.getElem?_eq_getElem h1]


/-! ### the memory-light kernel: works with `M` itself on raw points -/

section light
variable {n : ℕ}

/-- `Δ M Δᵀ` with `Δ = w − x`. -/
def quad (M : Matrix (Fin n) (Fin n) ℝ) (x w : Fin n → ℝ) : ℝ :=
  ∑ e, (w e - x e) * Matrix.vecMul (fun i => w i - x i) M e

/-- The list model's transform acts as the matrix `M` (true for `none` with `M = 1`, a vector with `M = diagonal`, and a
matrix given by rows). -/
def ActsAs (T : Transform ℝ) (M : Matrix (Fin n) (Fin n) ℝ) : Prop :=
  ∀ v : Fin n → ℝ, applyT T (List.ofFn v) = List.ofFn (Matrix.vecMul v M)

theorem actsAs_none : ActsAs (n := n) .none 1 := by
  intro v; simp [applyT]

theorem actsAs_diag (τ : Fin n → ℝ) : ActsAs (.diag (List.ofFn τ)) (Matrix.diagonal τ) := by
  intro v
  rw [applyT_diag_ofFn]
  congr 1
  funext e
  simp [Matrix.vecMul_diagonal]

theorem actsAs_full (M : Matrix (Fin n) (Fin n) ℝ) : ActsAs (.full (List.ofFn fun i => List.ofFn (M i))) M :=
  fun v => applyT_full_ofFn M v

theorem dot_ofFn (a b : Fin n → ℝ) : dot (List.ofFn a) (List.ofFn b) = ∑ e, a e * b e := by
  unfold dot
  rw [zipWith_ofFn, vsum_eq_sum, List.sum_ofFn]

theorem lightSq_ofFn {T : Transform ℝ} {M : Matrix (Fin n) (Fin n) ℝ} (hT : ActsAs T M) (x w : Fin n → ℝ) :
    lightSq T (List.ofFn x) (List.ofFn w) = if quad M x w < 0 then 0 else quad M x w := by
  simp only [lightSq, vsub_ofFn]
  rw [hT (fun e => w e - x e), dot_ofFn]
  rfl

theorem quad_differentiableAt (M : Matrix (Fin n) (Fin n) ℝ) (x z : Fin n → ℝ) :
    DifferentiableAt ℝ (quad M x) z := by
  unfold quad Matrix.vecMul dotProduct
  fun_prop

theorem quad_partial (M : Matrix (Fin n) (Fin n) ℝ) (hM : M.IsSymm) (x z : Fin n → ℝ) (d : Fin n) :
    HasDerivAt (fun s => quad M x (Function.update z d s)) (2 * Matrix.vecMul (fun i => z i - x i) M d) (z d) := by
  have hu : ∀ e : Fin n, HasDerivAt (fun s => Function.update z d s e - x e) ((Pi.single d (1 : ℝ) : Fin n → ℝ) e) (z d) := by
    intro e
    have := (hasDerivAt_pi.1 (hasDerivAt_update z d (z d))) e
    exact this.sub_const (x e)
  have hv : ∀ e : Fin n, HasDerivAt (fun s => Matrix.vecMul (fun i => Function.update z d s i - x i) M e)
      (∑ i, (Pi.single d (1 : ℝ) : Fin n → ℝ) i * M i e) (z d) := by
    intro e
    simp only [Matrix.vecMul, dotProduct]
    exact HasDerivAt.fun_sum fun i _ => (hu i).mul_const (M i e)
  have hq : HasDerivAt (fun s => quad M x (Function.update z d s))
      (∑ e, ((Pi.single d (1 : ℝ) : Fin n → ℝ) e * Matrix.vecMul (fun i => Function.update z d (z d) i - x i) M e +
        (Function.update z d (z d) e - x e) * ∑ i, (Pi.single d (1 : ℝ) : Fin n → ℝ) i * M i e)) (z d) := by
    unfold quad
    exact HasDerivAt.fun_sum fun e _ => (hu e).mul (hv e)
  refine hq.congr_deriv ?_
  simp only [Function.update_eq_self, Pi.single_apply, ite_mul, one_mul, zero_mul, Finset.sum_ite_eq', Finset.mem_univ,
    if_true, Finset.sum_add_distrib]
  have hsym : ∑ e, (z e - x e) * M d e = Matrix.vecMul (fun i => z i - x i) M d := by
    simp only [Matrix.vecMul, dotProduct]
    exact Finset.sum_congr rfl fun e _ => by rw [← hM.apply d e]
  rw [hsym]; ring

end light

section light2
variable {n : ℕ}
open Filter Topology

theorem kLight_ofFn (P : Params ℝ) {T : Transform ℝ} {M : Matrix (Fin n) (Fin n) ℝ} (hT : ActsAs T M) (x w : Fin n → ℝ) :
    kLight P T (List.ofFn x) (List.ofFn w) = radial P.L P.q (if quad M x w < 0 then 0 else quad M x w) := by
  simp only [kLight, lightSq_ofFn hT]

/-- General position for the light kernel: the mask quantity `√(Δ M Δᵀ)` is at least `eps > 0`; then the clamp is
inactive and the quadratic form is positive. -/
theorem quad_pos_of_mask (P : Params ℝ) (heps : 0 < P.eps) {T : Transform ℝ} {M : Matrix (Fin n) (Fin n) ℝ}
    (hT : ActsAs T M) (x z : Fin n → ℝ) (h : P.eps ≤ Real.sqrt (lightSq T (List.ofFn x) (List.ofFn z))) :
    0 < quad M x z ∧ lightSq T (List.ofFn x) (List.ofFn z) = quad M x z := by
  have hpos : 0 < lightSq T (List.ofFn x) (List.ofFn z) := Real.sqrt_pos.1 (lt_of_lt_of_le heps h)
  rw [lightSq_ofFn hT] at hpos ⊢
  by_cases hq : quad M x z < 0
  · rw [if_pos hq] at hpos; exact absurd hpos (lt_irrefl 0)
  · rw [if_neg hq] at hpos ⊢; exact ⟨hpos, rfl⟩

theorem kLight_eventually (P : Params ℝ) {T : Transform ℝ} {M : Matrix (Fin n) (Fin n) ℝ} (hT : ActsAs T M)
    (x z : Fin n → ℝ) (hpos : 0 < quad M x z) :
    (fun w : Fin n → ℝ => kLight P T (List.ofFn x) (List.ofFn w)) =ᶠ[𝓝 z] fun w => radial P.L P.q (quad M x w) := by
  filter_upwards [(quad_differentiableAt M x z).continuousAt.eventually (lt_mem_nhds hpos)] with w hw
  rw [kLight_ofFn P hT, if_neg (not_lt.mpr hw.le)]

theorem kLight_differentiableAt (P : Params ℝ) {T : Transform ℝ} {M : Matrix (Fin n) (Fin n) ℝ} (hT : ActsAs T M)
    (x z : Fin n → ℝ) (hpos : 0 < quad M x z) :
    DifferentiableAt ℝ (fun w : Fin n → ℝ => kLight P T (List.ofFn x) (List.ofFn w)) z := by
  have h1 : DifferentiableAt ℝ (fun w : Fin n → ℝ => radial P.L P.q (quad M x w)) z :=
    (radial_hasDerivAt P.L P.q (quad M x z) hpos).differentiableAt.comp z (quad_differentiableAt M x z)
  exact h1.congr_of_eventuallyEq (kLight_eventually P hT x z hpos)

theorem kLight_partial (P : Params ℝ) {T : Transform ℝ} {M : Matrix (Fin n) (Fin n) ℝ} (hT : ActsAs T M) (hM : M.IsSymm)
    (x z : Fin n → ℝ) (hpos : 0 < quad M x z) (d : Fin n) :
    HasDerivAt (fun s => kLight P T (List.ofFn x) (List.ofFn (Function.update z d s)))
      (l2Factor P (Real.sqrt (quad M x z)) * Matrix.vecMul (fun i => z i - x i) M d) (z d) := by
  have hq := quad_partial M hM x z d
  have hz : quad M x (Function.update z d (z d)) = quad M x z := by rw [Function.update_eq_self]
  have hr := radial_hasDerivAt P.L P.q (quad M x (Function.update z d (z d))) (by rw [hz]; exact hpos)
  have hcomp := hr.comp (z d) hq
  have hder : radial P.L P.q (quad M x (Function.update z d (z d))) * -(P.q / P.L ^ P.q) *
        Real.sqrt (quad M x (Function.update z d (z d))) ^ (P.q - 2) / 2 * (2 * Matrix.vecMul (fun i => z i - x i) M d) =
      l2Factor P (Real.sqrt (quad M x z)) * Matrix.vecMul (fun i => z i - x i) M d := by
    rw [hz]
    simp only [l2Factor, radial, rpow_real, exp_real, sqrt_real]
    ring
  have hcomp' := hcomp.congr_deriv hder
  refine hcomp'.congr_of_eventuallyEq ?_
  have hev : ∀ᶠ s in 𝓝 (z d), 0 < quad M x (Function.update z d s) := by
    have hc := hq.continuousAt
    exact hc.eventually (lt_mem_nhds (by show 0 < quad M x (Function.update z d (z d)); rw [hz]; exact hpos))
  filter_upwards [hev] with s hs
  simp only [Function.comp]
  rw [kLight_ofFn P hT, if_neg (not_lt.mpr hs.le)]

theorem gradLight_ofFn (P : Params ℝ) {T : Transform ℝ} {M : Matrix (Fin n) (Fin n) ℝ} (hT : ActsAs T M)
    (x z : Fin n → ℝ) (hm : P.eps ≤ Real.sqrt (lightSq T (List.ofFn x) (List.ofFn z))) :
    gradLight P T (List.ofFn x) (List.ofFn z) =
      List.ofFn fun d => l2Factor P (Real.sqrt (lightSq T (List.ofFn x) (List.ofFn z))) *
        Matrix.vecMul (fun i => z i - x i) M d := by
  simp only [gradLight, sqrt_real, if_neg (not_lt.mpr hm), vsub_ofFn]
  rw [hT (fun e => z e - x e), List.map_ofFn]
  rfl

/-- **The Fréchet derivative of the memory-light predictor** (`M` = none, a vector or a symmetric matrix): at a point
whose mask quantity `√(Δ M Δᵀ)` is at least `eps` for every center, `w ↦ Σ_i c_i k_M(x_i, w)` is differentiable and its
derivative is the linear functional whose coefficients are the row the gradient code returns. -/
theorem light_hasFDerivAt (P : Params ℝ) (heps : 0 < P.eps) {T : Transform ℝ} {M : Matrix (Fin n) (Fin n) ℝ}
    (hT : ActsAs T M) (hM : M.IsSymm) (xs : List (Fin n → ℝ)) (c : List ℝ) (z : Fin n → ℝ)
    (hgp : ∀ x ∈ xs, P.eps ≤ Real.sqrt (lightSq T (List.ofFn x) (List.ofFn z))) :
    HasFDerivAt (fun w : Fin n → ℝ => fval (kLight P T) c (xs.map List.ofFn) (List.ofFn w))
      (∑ e : Fin n, (rowGrad (gradLight P T) c (xs.map List.ofFn) (List.ofFn z)).getD e 0 •
        (ContinuousLinearMap.proj e : (Fin n → ℝ) →L[ℝ] ℝ)) z := by
  apply hasFDerivAt_of_partials
  · apply fval_differentiableAt
    intro u hu
    obtain ⟨x, hx, rfl⟩ := List.mem_map.1 hu
    exact kLight_differentiableAt P hT x z (quad_pos_of_mask P heps hT x z (hgp x hx)).1
  · intro d
    have hlen : ∀ u ∈ xs.map List.ofFn, (gradLight P T u (List.ofFn z)).length = (List.ofFn z).length := by
      intro u hu
      obtain ⟨x, hx, rfl⟩ := List.mem_map.1 hu
      rw [gradLight_ofFn P hT x z (hgp x hx)]; simp
    rw [rowGrad_getD _ _ _ _ _ hlen]
    refine fval_hasDerivAt (kLight P T) (fun s => List.ofFn (Function.update z d s))
      (fun u => (gradLight P T u (List.ofFn z)).getD d 0) (z d) c (xs.map List.ofFn) ?_
    intro u hu
    obtain ⟨x, hx, rfl⟩ := List.mem_map.1 hu
    obtain ⟨hpos, hls⟩ := quad_pos_of_mask P heps hT x z (hgp x hx)
    have hp := kLight_partial P hT hM x z hpos d
    rw [gradLight_ofFn P hT x z (hgp x hx), getD_ofFn, hls]
    exact hp

end light2

end Xrfmv.Grad
