import Xrfmv.Props.C16
#print axioms Xrfmv.Props.C16.mse_perfect_is_optimal
#print axioms Xrfmv.Props.C16.rmse_perfect_is_optimal
#print axioms Xrfmv.Props.C16.mae_perfect_is_optimal
#print axioms Xrfmv.Props.C16.mae_perfect_is_optimal_rat
#print axioms Xrfmv.Props.C16.accuracy_perfect_is_optimal
#print axioms Xrfmv.Props.C16.brier_perfect_is_optimal
#print axioms Xrfmv.Props.C16.logloss_perfect_is_optimal
#print axioms Xrfmv.Props.C16.f1_perfect_is_optimal
#print axioms Xrfmv.Props.C16.auc_perfect_is_optimal
#print axioms Xrfmv.Props.C16.direction_table
#print axioms Xrfmv.Props.C16.direction_covers_builtin
#print axioms Xrfmv.Props.C16.flipped_direction_is_false
#print axioms Xrfmv.Props.C16.gen_mean_metrics_eq_model
#print axioms Xrfmv.Props.C16.gen_mean_metrics_shape
