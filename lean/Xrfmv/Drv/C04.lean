/- Driver ops for C04: closed-form function gradients (`Model/Grad.lean`) on `Float`. -/
import Xrfmv.Drv.Common
import Xrfmv.Model.Grad
import Xrfmv.Model.GradGen
import Xrfmv.Model.FwdGen

open Lean Xrfmv.Drv

namespace Xrfmv.Drv.C04
open Xrfmv.Grad

def parseKind : String → Except String Kind
  | "l2" => pure .l2
  | "light" => pure .light
  | "prod" => pure .prod
  | "lpq" => pure .lpq
  | "sumpower" => pure .sumPower
  | s => throw s!"bad-op: unknown kernel kind {s}"

def finite (x : Float) : Bool := x.isFinite

def allFinite (m : Array (Array Float)) : Bool := m.all fun r => r.all finite

/-- Kernel kind + parameters; rejects what the constructors of `kernels.py` reject (their `assert`s). -/
def getKernel (j : Json) : Except String (Kind × Params Float) := do
  let kind ← parseKind (← j.getObjValAs? String "kind")
  let L ← getF j "L"
  let q ← getF j "q"
  let eps ← getF j "eps"
  let p ← match kind with
    | .lpq => getF j "p"
    | _ => pure q
  let (cmix, power) ← match kind with
    | .sumPower => do pure ((← getF j "cmix"), (← getF j "power"))
    | _ => pure (0.0, 1.0)
  if !(finite L && finite q && finite p && finite eps && finite cmix && finite power) then
    throw "bad-op: non-finite kernel parameter"
  if !(L > 0) then throw "bad-op: bandwidth > 0 required"
  if !(q > 0) then throw "bad-op: exponent > 0 required"
  if !(eps > 0) then throw "bad-op: eps > 0 required"
  if kind == .lpq then
    if !(0 < p && p <= 2) then throw "bad-op: 0 < p <= 2 required"
    if !(q <= p) then throw "bad-op: 0 < q <= p required"
  if kind == .sumPower then
    if !(0 <= cmix && cmix < 1) then throw "bad-op: 0 <= const_mix < 1 required"
  pure (kind, { L := L, q := q, p := p, eps := eps, cmix := cmix, power := power })

/-- `mat`: `{"mat": "none"}`, `{"mat": "diag", "matD": [...]}`, `{"mat": "full", "matF": [[...]]}`. -/
def getTransform (j : Json) (d : Nat) : Except String (Transform Float) := do
  match (← j.getObjValAs? String "mat") with
  | "none" => pure .none
  | "diag" =>
    let t ← getFs j "matD"
    if t.size != d then throw "bad-op: diagonal transform of wrong length"
    if !(t.all finite) then throw "bad-op: non-finite transform"
    pure (.diag t.toList)
  | "full" =>
    let T ← getFss j "matF"
    if T.size != d || T.any (fun r => r.size != d) then throw "bad-op: transform must be d x d"
    if !(allFinite T) then throw "bad-op: non-finite transform"
    pure (.full (T.toList.map Array.toList))
  | s => throw s!"bad-op: unknown transform {s}"

structure Block where
  kind : Kind
  prm : Params Float
  T : Transform Float
  x : List (List Float)
  z : List (List Float)
  coefs : List (List Float)

def getBlock (j : Json) : Except String Block := do
  let (kind, prm) ← getKernel j
  let x ← getFss j "x"
  let z ← getFss j "z"
  let c ← getFss j "coefs"
  if x.size == 0 then throw "bad-op: no centers"
  let d := x[0]!.size
  if d == 0 then throw "bad-op: zero-dimensional points"
  if x.any (fun r => r.size != d) || z.any (fun r => r.size != d) then throw "bad-op: ragged points"
  if c.any (fun r => r.size != x.size) then throw "bad-op: coefs must be (f, n_x)"
  if !(allFinite x && allFinite z && allFinite c) then throw "bad-op: non-finite input"
  let T ← getTransform j d
  pure { kind := kind, prm := prm, T := T, x := x.toList.map Array.toList, z := z.toList.map Array.toList,
         coefs := c.toList.map Array.toList }

def tensorJson (g : List (List (List Float))) : Json :=
  toJson (g.map fun m => m.map fun r => r.map floatToBits)

/-- `get_function_grads(x, z, coefs, mat)` from the closed forms: `(f, n_z, d)`. -/
def opFgrad : Handler := fun j => do
  let b ← getBlock j
  let base := [("grads", tensorJson (fgrad b.kind b.prm b.T b.x b.z b.coefs))]
  -- the two closed-form kernels also through the weight programs regenerated from their gradient routines
  let gen := match b.kind with
    | .l2 => [("grads_gen", tensorJson (GradGen.fgrad false b.prm b.T b.x b.z b.coefs))]
    | .light => [("grads_gen", tensorJson (GradGen.fgrad true b.prm b.T b.x b.z b.coefs))]
    | _ => []
  -- the three autograd kernels: values of the predictor through the regenerated `forward_func` closures, beside the model's
  let us := b.x.map (applyT b.T)
  let valsOf (kf : List Float → List Float → Float) : Json :=
    toJson (b.coefs.map fun c => b.z.map fun z => floatToBits (fval kf c us (applyT b.T z)))
  let fwd := match b.kind with
    | .prod => [("fval_gen", valsOf (FwdGen.kProd b.prm)), ("fval_model", valsOf (kval .prod b.prm))]
    | .lpq => [("fval_gen", valsOf (FwdGen.kLpq b.prm)), ("fval_model", valsOf (kval .lpq b.prm))]
    | .sumPower => [("fval_gen", valsOf (FwdGen.kSumPower b.prm)), ("fval_model", valsOf (kval .sumPower b.prm))]
    | _ => []
  pure <| Json.mkObj (base ++ gen ++ fwd)

/-- Values `f_l(z_j)` of the (unmasked) closed-form predictor: `(f, n_z)`. -/
def opFval : Handler := fun j => do
  let b ← getBlock j
  let v := b.coefs.map fun c => b.z.map fun z => predictRow b.kind b.prm b.T b.x c z
  pure <| Json.mkObj [("values", toJson (v.map fun r => r.map floatToBits))]

def ops : List (String × Handler) := [("fgrad", opFgrad), ("fval", opFval)]

end Xrfmv.Drv.C04
