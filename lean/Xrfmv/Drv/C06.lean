/- Driver ops for C06: the size skeleton of `_build_tree`. -/
import Xrfmv.Drv.Common
import Xrfmv.Model.BuildSizes

open Lean Xrfmv.Drv

namespace Xrfmv.Drv.C06
open Xrfmv.BuildSizes

partial def treeJson : STree → Json
  | .leaf n => Json.mkObj [("leaf", toJson n)]
  | .node n l r => Json.mkObj [("node", toJson n), ("l", treeJson l), ("r", treeJson r)]
  | .assertFail n => Json.mkObj [("fail", toJson n)]
  | .outOfFuel n => Json.mkObj [("fuel", toJson n)]

/-- `{"op":"buildsizes","L":..,"ns":null|k,"n":..,"ov":[r_0,…,r_n]}` (`ov[m] = int(round(2*f*m))` as Python computed it). -/
def opBuildSizes : Handler := fun j => do
  let L ← j.getObjValAs? Nat "L"
  let n ← j.getObjValAs? Nat "n"
  let ov ← j.getObjValAs? (Array Int) "ov"
  if ov.size < n + 1 then throw "bad-op: overlap table shorter than n+1"
  let ns : Option Nat := match j.getObjValAs? Nat "ns" with
    | .ok k => some k
    | .error _ => none
  let cfg : Cfg := { maxLeaf := L, nsplits := ns, ov := fun m => ov.getD m 0 }
  let (t, c) := build cfg (n + 1 + (ns.getD 0)) n 0
  pure <| Json.mkObj [("tree", treeJson t), ("count", toJson c), ("ok", toJson t.ok),
    ("depth", toJson t.depth), ("splits", toJson t.splits), ("leaves", toJson t.leaves)]

/-- `{"op":"splitsizes","n":..,"r":..}` → the two child sizes and the counts. -/
def opSplitSizes : Handler := fun j => do
  let n ← j.getObjValAs? Int "n"
  let r ← j.getObjValAs? Int "r"
  let c := Gen.Split.counts n r
  pure <| Json.mkObj [("left", toJson (leftSize n r)), ("right", toJson (rightSize n r)),
    ("overlap", toJson c.overlapCount), ("leftUnique", toJson c.leftUnique), ("rightUnique", toJson c.rightUnique)]

def ops : List (String × Handler) := [("buildsizes", opBuildSizes), ("splitsizes", opSplitSizes)]

end Xrfmv.Drv.C06
