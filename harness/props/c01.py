"""
C01 — hard-routed prediction equals the documented per-leaf kernel formula; batch independence.

Proof: lean/Xrfmv/Props/C01.lean (stack traversal = recursion, restore = inverse permutation, prediction = map of the leaf
formula over rows, permutation / concatenation / batch-size independence) over the regenerated Gen.Route.
Correspondence: fitted models over a covering set of configurations; the exported state (param trees + training matrix) is
evaluated by an independent float64 reference (routing by the stored directions/thresholds, kernel expansion of the leaf
reached, mean over trees, decoding) and compared with predict / predict_proba under the computed rounding allowance; the
discrete part (which rows reach which leaf, in which group order, restored order) is compared exactly with the Lean stack
machine; the Lean kernel-expansion model is evaluated on sampled leaves.  Rows within rounding distance of a threshold are
excluded and counted, except in the exact-tie family (integer features, axis-aligned fixed direction) where rows lying
exactly on a threshold are kept and must go left.
"""
import numpy as np

from harness import core

MOD = 'harness.props.c01'
KERNELS = [('l2', {}), ('l2_high_dim', {}), ('l1', {}), ('lpq', {'norm_p': 1.5}), ('sum_power_laplace', {})]
KIND = {'l2': 'l2', 'laplace': 'l2', 'l2_high_dim': 'l2_light', 'l2_light': 'l2_light', 'l1': 'l1', 'product_laplace': 'l1',
        'lpq': 'lpq', 'sum_power_laplace': 'sum_power'}
LEAN_KIND = {'l2': 'laplace', 'l2_light': 'light', 'l1': 'product', 'lpq': 'lpq', 'sum_power': 'sum_power'}
EPS32 = 2.0 ** -24


def make(p):
    import torch
    g = torch.Generator().manual_seed(p['dseed'])
    n, d = p['n'], p['d']
    if p['exact']:
        X = torch.randint(-4, 5, (n, d), generator=g).float()
        X = torch.cat([X, torch.arange(n).float()[:, None] * 0.001], dim=1)   # distinct rows; the extra column is ignored by the split
        Xv = torch.cat([torch.randint(-4, 5, (max(20, n // 2), d), generator=g).float(),
                        torch.zeros(max(20, n // 2), 1)], dim=1)
        Q = torch.cat([torch.randint(-5, 6, (60, d), generator=g).float(), torch.zeros(60, 1)], dim=1)
    else:
        X = torch.randn(n, d, generator=g)
        Xv = torch.randn(max(20, n // 2), d, generator=g)
        Q = torch.cat([torch.randn(40, d, generator=g), X[:10], X[n // 2: n // 2 + 4] * 1e3,
                       torch.randn(3, d, generator=g) * 1e6])
        if p.get('big'):
            # a batch large enough to cross the internal chunk sizes (20,000 rows in the product kernel, 50,000 in RFM.predict):
            # the first 64 rows are the ones judged, the rest is filler drawn from the same distribution
            Q = torch.cat([Q[:64], torch.randn(p['big'] - 64, d, generator=g)])
    cat_info = None
    if p.get('cat'):
        # mixed data: numerical columns followed by one-hot groups; the leaves use the categorical fast path of their kernel
        # (identity code vectors), whose value is the dense kernel on the one-hot rows with the stored (block-diagonal) matrix
        groups = p['cat']

        def onehots(m):
            cols = []
            for L_ in groups:
                idx = torch.randint(0, L_, (m,), generator=g)
                cols.append(torch.nn.functional.one_hot(idx, L_).float())
            return torch.cat(cols, dim=1)
        X = torch.cat([X, onehots(n)], dim=1)
        Xv = torch.cat([Xv, onehots(Xv.shape[0])], dim=1)
        nq = max(p.get('big', 50), 50) - 10      # a large batch crosses the row blocks of the categorical path too
        Qn = torch.cat([torch.randn(nq, d, generator=g), X[:10, :d]])
        Q = torch.cat([Qn, torch.cat([onehots(nq), X[:10, d:]])], dim=1)
        off, cidx = d, []
        for L_ in groups:
            cidx.append(torch.arange(off, off + L_))
            off += L_
        cat_info = {'numerical_indices': torch.arange(d), 'categorical_indices': cidx,
                    'categorical_vectors': [torch.eye(L_) for L_ in groups]}
    dd = X.shape[1]
    if p['task'] == 'reg':
        f = lambda Z: torch.cat([torch.sin(Z[:, :1]), 0.3 * Z[:, 1:2] ** 2, Z[:, :1] * Z[:, 1:2]][: p['outputs']], dim=1)
        y, yv = f(X) + 0.05 * torch.randn(n, p['outputs'], generator=g), f(Xv)
    else:
        K = p['classes']
        f = lambda Z: (Z[:, 0] * 0.9 + Z[:, 1] * 0.5).floor().long().remainder(K)
        y, yv = f(X), f(Xv)
        y[:K] = torch.arange(K)
        yv[:K] = torch.arange(K)
    if p.get('offsets'):
        # features in raw units (a year, a weight in grams): large offsets make the split thresholds large compared with the spread of
        # the projections, so anything relative to a threshold's magnitude is far from "within rounding distance"
        off = torch.zeros(dd)
        off[:2] = torch.tensor([2000.0, 750.0])[: min(2, dd)]
        X, Xv, Q = X + off, Xv + off, Q + off
    kname, kw = p['kernel']
    model = {'kernel': kname, 'bandwidth': p['bandwidth'], 'exponent': p['q'], 'diag': p['diag'],
             'bandwidth_mode': 'adaptive' if (p['adaptive'] and kname != 'sum_power_laplace') else 'constant'}
    model.update(kw)
    fit = {'reg': 1e-2, 'iters': p['iters'], 'verbose': False, 'early_stop_rfm': False}
    if p.get('solver'):
        fit['solver'] = p['solver']
    ctor = dict(rfm_params={'model': model, 'fit': fit},
                max_leaf_size=p['L'], device='cpu', verbose=False, random_state=p['dseed'], split_method=p['method'],
                n_trees=p['trees'], overlap_fraction=p['f'], classification_mode=p['mode'], use_temperature_tuning=False,
                split_temperature=None, tuning_metric=None)
    if cat_info is not None:
        model['fast_categorical'] = True
        ctor['categorical_info'] = cat_info
    if p['exact']:
        v = torch.zeros(dd)
        v[p['dseed'] % d] = 1.0
        ctor['split_method'] = 'fixed_vector'
        ctor['fixed_vector'] = v
    return X, y, Xv, yv, Q, ctor


def t2n(t):
    return None if t is None else t.detach().cpu().double().numpy()


def leaf_ids(ptree):
    """assign ids to leaves (left to right) and nodes (preorder) of a param tree"""
    leaves, nodes = [], []

    def walk(t):
        if t['type'] == 'leaf':
            leaves.append(t)
            return {'leaf': len(leaves) - 1}
        nid = len(nodes)
        nodes.append(t)
        return {'node': nid, 'l': walk(t['left']), 'r': walk(t['right'])}
    return walk(ptree), leaves, nodes


def ref_route(tj, nodes, Q64, exact):
    """float64 routing by the stored directions / thresholds; returns leaf id per row, decisions per node, near-threshold rows"""
    n = Q64.shape[0]
    dec = {}
    near = np.zeros(n, dtype=bool)
    for nid, nd in enumerate(nodes):
        v = t2n(nd['split_direction'])
        b = float(nd['split_point'])
        pr = Q64 @ v
        dec[nid] = pr <= b
        if not exact:
            tol = 1e-5 * (np.linalg.norm(Q64, axis=1) * np.linalg.norm(v) + abs(b))
            near |= np.abs(pr - b) <= tol
    leaf = np.zeros(n, dtype=int)
    path_near = np.zeros(n, dtype=bool)
    for i in range(n):
        t = tj
        while 'node' in t:
            nid = t['node']
            t = t['l'] if dec[nid][i] else t['r']
        leaf[i] = t['leaf']
    return leaf, dec, near


def ref_leaf(kind, model_cfg, leafp, Xtr64, rows64, eps):
    from harness import refkernels
    centers = Xtr64[np.asarray(leafp['train_indices'].tolist(), dtype=int)]
    w = t2n(leafp['weights'])
    mat = t2n(leafp['M']) if kind == 'l2_light' else t2n(leafp['sqrtM'])
    L = float(leafp['bandwidth'])
    q = float(model_cfg['exponent'])
    kw = {}
    if kind == 'lpq':
        kw['p'] = float(model_cfg['norm_p'])
    if kind == 'sum_power':
        kw['const_mix'] = float(model_cfg.get('const_mix', 0.0))
        kw['power'] = model_cfg.get('power', 2)
    K = refkernels.kernel_matrix(kind, rows64, centers, L, q, mat, **kw)
    E = refkernels.kernel_allowance(kind, rows64, centers, L, q, mat, eps=eps, **kw)
    out = K @ w
    allow = E @ np.abs(w) + 16 * (centers.shape[0] + 8) * eps * (K @ np.abs(w)) + 1e-7 * np.abs(out) + 1e-9
    return out, allow, (K, centers, w, mat, L, q, kw)


def decode(conv, num, eps=1e-3, logit=False):
    """independent numpy decoding of raw leaf outputs to probabilities (C13 proves the codec); `logit`: the leaves were
    fitted by the logistic solver, their raw output is a logit (sigmoid first, clamp 1e-10)"""
    num = np.asarray(num, dtype=np.float64)
    if logit:
        num = 1.0 / (1.0 + np.exp(-num))
        eps = 1e-10
    if conv.mode == 'zero_one':
        if num.shape[1] == 1:
            num = np.concatenate([1 - num, num], axis=1)
        pr = np.clip(num, eps, 1 - eps)
    else:
        invA = conv._invA.double().numpy()
        B = np.concatenate([num, np.ones((num.shape[0], 1))], axis=1)
        pr = np.clip(B @ invA.T, eps, 1 - eps)
    return pr / pr.sum(1, keepdims=True)


def execute(chunk):
    import torch
    from xrfm import xRFM
    drv = core.Driver('C01')
    out = []
    try:
        for p in chunk['cases']:
            p = dict(p, kernel=tuple(p['kernel']))
            res = {'family': p['family'], 'params': dict(p, kernel=list(p['kernel'])), 'disagreements': [], 'failures': []}
            stats = {'rows': 0, 'near_excluded': 0, 'on_threshold': 0}
            try:
                X, y, Xv, yv, Q, ctor = make(p)
                m = xRFM(**ctor)
                m.fit(X, y, Xv, yv)
                is_class = m.n_classes_ > 0
                if p['dseed'] % 2 == 1:
                    # object history: other public calls on other rows before everything that is judged below
                    from harness.props import _xcommon as xc_
                    stats['history_calls'] = len(xc_.perturb_history(m, p['dseed'], X.shape[1]))
                sd = m.get_state_dict()
                cfg = sd['rfm_params']['model']
                kind = KIND[cfg['kernel']]
                X64, Q64 = X.double().numpy(), Q.double().numpy()
                keep_all = np.ones(Q.shape[0], dtype=bool)
                per_tree = []
                for ti, ptree in enumerate(sd['param_trees']):
                    tj, leaves, nodes = leaf_ids(ptree)
                    leaf, dec, near = ref_route(tj, nodes, Q64, p['exact'])
                    keep_all &= ~near
                    per_tree.append((tj, leaves, nodes, leaf, dec))
                    if p['exact']:
                        for nid, nd in enumerate(nodes):
                            stats['on_threshold'] += int(np.sum(Q64 @ t2n(nd['split_direction']) == float(nd['split_point'])))
                big_full = None
                if p.get('big'):
                    big_full = Q                      # whole batch, predicted in one call below
                    if p.get('judge_last'):           # judged rows: 64 positions spread over the whole batch
                        sel = np.zeros_like(keep_all)
                        sel[np.unique(np.linspace(0, len(keep_all) - 1, 64).astype(int))] = True
                    else:                             # judged rows: the first 64
                        sel = np.zeros_like(keep_all)
                        sel[:64] = True
                    stats['near_excluded'] = int((sel & ~keep_all).sum())
                    keep_all &= sel                   # (minus near-threshold ones)
                else:
                    stats['near_excluded'] = int((~keep_all).sum())
                stats['rows'] = int(keep_all.sum())
                Qk = Q[torch.as_tensor(keep_all)]
                Qk64 = Q64[keep_all]
                nk = Qk.shape[0]
                raws, allows = [], []
                for ti, (tj, leaves, nodes, leaf, dec) in enumerate(per_tree):
                    leafk = leaf[keep_all]
                    nout = leaves[0]['weights'].shape[1]
                    raw = np.zeros((nk, nout))
                    alw = np.zeros((nk, nout))
                    for lid in np.unique(leafk):
                        sel = np.nonzero(leafk == lid)[0]
                        o, a, _ = ref_leaf(kind, cfg, leaves[lid], X64, Qk64[sel], EPS32)
                        raw[sel], alw[sel] = o, a
                    raws.append(raw)
                    allows.append(alw)
                    # ---- implementation, this tree: raw outputs and groups ----------------------------
                    impl_raw = m._predict_tree(Qk, m.trees[ti]).detach().double().numpy().reshape(nk, -1)
                    bad = np.abs(impl_raw - raw) > alw
                    if bad.any():
                        i, c = np.argwhere(bad)[0]
                        res['failures'].append({'signature': 'C01:leaf-formula',
                                                'detail': f'tree {ti} row {int(i)}: predict gives {impl_raw[i, c]:.6g}, kernel expansion of the leaf '
                                                          f'reached (leaf {int(leafk[i])}) gives {raw[i, c]:.6g}, allowance {alw[i, c]:.2e}'})
                    # discrete part vs the Lean stack machine
                    groups, gidx, lnodes = m._get_leaf_groups_and_models_on_samples(Qk, m.trees[ti])
                    impl_leaf_id = {}

                    def number(t, acc=[0]):
                        if t['type'] == 'leaf':
                            impl_leaf_id[id(t)] = len(impl_leaf_id)
                        else:
                            number(t['left']); number(t['right'])
                    number(m.trees[ti])
                    impl_groups = [[impl_leaf_id[id(ln)], gi.tolist()] for gi, ln in zip(gidx, lnodes)]
                    ans = drv.ask({'op': 'groups', 'tree': tj, 'n': nk,
                                   'left': {str(nid): [bool(b) for b in d[keep_all]] for nid, d in dec.items()}})
                    if 'error' in ans:
                        res['disagreements'].append({'detail': f'model: {ans["error"]}'})
                    else:
                        if [[a, b] for a, b in ans['groups']] != impl_groups:
                            res['disagreements'].append({'detail': f'tree {ti}: leaf groups differ from the stack-machine model: impl {str(impl_groups)[:200]} model {str(ans["groups"])[:200]}'})
                        if ans['restored'] != ans['routed'] or ans['routed'] != leafk.tolist():
                            res['disagreements'].append({'detail': f'tree {ti}: restored order / routing differ in the model'})
                    # rows reaching a leaf must be exactly the rows the stored thresholds send there
                    for lid, idxs in impl_groups:
                        if any(int(leafk[i]) != lid for i in idxs):
                            res['failures'].append({'signature': 'C01:routing',
                                                    'detail': f'tree {ti}: rows {[i for i in idxs if int(leafk[i]) != lid][:5]} were sent to leaf {lid}, '
                                                              f'the stored projection <= threshold rule sends them to {[int(leafk[i]) for i in idxs if int(leafk[i]) != lid][:5]}'})
                            break
                    # Lean kernel expansion on one leaf, a few rows
                    if ti == 0 and nk:
                        lid = int(leafk[0])
                        sel = np.nonzero(leafk == lid)[0][:4]
                        o, a, (K, centers, w, mat, L, q, kw) = ref_leaf(kind, cfg, leaves[lid], X64, Qk64[sel], EPS32)
                        qd = {'op': 'expansion', 'kind': LEAN_KIND[kind], 'L': core.f2b(L), 'q': core.f2b(q),
                              'x': core.fl(Qk64[sel]), 'z': core.fl(centers), 'alpha': core.fl(w)}
                        if kind == 'lpq':
                            qd['p'] = core.f2b(kw['p'])
                        if kind == 'sum_power':
                            qd['c'] = core.f2b(kw['const_mix'])
                            qd['P'] = core.f2b(float(kw['power']))
                        if mat is not None:
                            qd['transform'] = {'kind': 'diag', 'v': core.fl(mat)} if mat.ndim == 1 else \
                                {'kind': 'full', 'cols': core.fl(mat.T)}
                        la = drv.ask(qd)
                        if 'error' in la:
                            res['disagreements'].append({'detail': f'model expansion: {la["error"]}'})
                        else:
                            lo = np.array(core.unfl(la['out']))
                            if np.abs(lo - o).max() > 1e-9 * (1 + np.abs(o).max() + np.abs(w).sum()):
                                res['disagreements'].append({'detail': f'Lean kernel expansion differs from the reference by {np.abs(lo - o).max():.3e}'})
                            if (np.abs(lo - impl_raw[sel]) > a).any():
                                res['disagreements'].append({'detail': 'Lean kernel expansion differs from predict beyond the allowance'})
                # ---- ensemble: mean over trees, decoding -----------------------------------------------
                mean_raw = np.mean(raws, axis=0)
                mean_allow = np.mean(allows, axis=0)
                P = m.predict(Qk)
                if not is_class:
                    if P.shape != mean_raw.shape or (np.abs(P.astype(np.float64) - mean_raw) > mean_allow + 1e-6 * np.abs(mean_raw)).any():
                        res['failures'].append({'signature': 'C01:ensemble-mean', 'detail': 'predict differs from the mean over trees of the leaf formulas'})
                else:
                    conv = m.class_converter_
                    logit = p.get('solver') == 'log_reg'
                    proba_ref = np.mean([decode(conv, r, logit=logit) for r in raws], axis=0)
                    PP = m.predict_proba(Qk).astype(np.float64)
                    # the decoder is 1-Lipschitz-ish per entry up to the inverse matrix norm; scale the allowance conservatively
                    scale = 4.0 if conv.mode == 'zero_one' else 4.0 * float(np.abs(conv._invA.numpy()).sum(1).max())
                    pa = scale * mean_allow.max(axis=1, keepdims=True) + 1e-5
                    if PP.shape != proba_ref.shape or (np.abs(PP - proba_ref) > pa).any():
                        res['failures'].append({'signature': 'C01:probabilities', 'detail': f'predict_proba differs from the decoded leaf formulas by {np.abs(PP - proba_ref).max():.3e}'})
                    lab_ref_p = decode(conv, mean_raw, logit=logit)
                    srt = np.sort(lab_ref_p, axis=1)
                    clear = (srt[:, -1] - srt[:, -2]) > 4 * pa[:, 0]
                    if (P[clear] != lab_ref_p.argmax(1)[clear]).any():
                        res['failures'].append({'signature': 'C01:labels', 'detail': 'predict differs from the arg-max of the decoded mean output'})
                # ---- a row's value inside a very large batch (internal chunking of kernels / RFM.predict) -------
                if big_full is not None:
                    small = (m.predict_proba(Qk) if is_class else m.predict(Qk)).astype(np.float64)
                    bigp = (m.predict_proba(big_full) if is_class else m.predict(big_full)).astype(np.float64)
                    bigp = bigp[np.nonzero(keep_all)[0]]
                    tolb = 2 * (mean_allow.max(axis=1) * (4.0 if is_class else 1.0)) + 1e-5
                    if (np.abs(bigp.reshape(small.shape[0], -1) - small.reshape(small.shape[0], -1)).max(axis=1) > tolb).any():
                        res['failures'].append({'signature': 'C01:batch-dependent',
                                                'detail': f'prediction of a row differs between a {Qk.shape[0]}-row batch and a {big_full.shape[0]}-row batch by '
                                                          f'{np.abs(bigp.reshape(small.shape[0], -1) - small.reshape(small.shape[0], -1)).max():.3e}'})
                # ---- batch independence on the implementation ---------------------------------------------
                if nk >= 4:
                    g = torch.Generator().manual_seed(p['dseed'] + 3)
                    perm = torch.randperm(nk, generator=g)
                    base = (m.predict_proba(Qk) if is_class else m.predict(Qk)).astype(np.float64)
                    tolb = 2 * (mean_allow.max(axis=1) * (4.0 if is_class else 1.0)) + 1e-5
                    permd = (m.predict_proba(Qk[perm]) if is_class else m.predict(Qk[perm])).astype(np.float64)
                    inv = torch.argsort(perm)
                    if (np.abs(permd[inv.numpy()] - base).max(axis=1) > tolb).any():
                        res['failures'].append({'signature': 'C01:order-dependent', 'detail': 'prediction of a row changes when the batch is permuted'})
                    cut = nk // 3
                    parts = np.concatenate([(m.predict_proba(Qk[a:b]) if is_class else m.predict(Qk[a:b])).astype(np.float64)
                                            for a, b in ((0, cut), (cut, cut + 1), (cut + 1, nk)) if b > a])
                    if (np.abs(parts - base).max(axis=1) > tolb).any():
                        res['failures'].append({'signature': 'C01:batch-dependent', 'detail': 'prediction of a row changes when the batch is split'})
                    # one caller-owned buffer refilled in place between two calls (the same tensor / ndarray object with other
                    # rows in it): the value of a row is a function of that row, not of what the object held before
                    half = nk // 2
                    call = (lambda a: m.predict_proba(a)) if is_class else (lambda a: m.predict(a))
                    for kind_buf in ('tensor', 'ndarray'):
                        if kind_buf == 'tensor':
                            buf = Qk[:half].clone()
                            call(buf)
                            buf.copy_(Qk[half:2 * half])
                        else:
                            buf = Qk[:half].numpy().copy()
                            call(buf)
                            buf[:] = Qk[half:2 * half].numpy()
                        got = call(buf).astype(np.float64)
                        if (np.abs(got - base[half:2 * half]).max(axis=1) > tolb[half:2 * half]).any():
                            res['failures'].append({'signature': 'C01:reused-buffer',
                                                    'detail': f'rows predicted through a {kind_buf} buffer that held other rows in an earlier call differ from the '
                                                              f'same rows predicted from a fresh {kind_buf} by {np.abs(got - base[half:2 * half]).max():.3e}'})
                    # internal batch size of the leaf predictor
                    tj, leaves, nodes, leaf, dec = per_tree[0]
                    lf = None
                    for ln in [x for x in _leaves(m.trees[0])]:
                        lf = ln['model']
                        break
                    rows = Qk[: min(nk, 12)]
                    r0 = lf.predict(rows).double().numpy()
                    for bs in (1, 3, 5):
                        rb = lf.predict(rows, max_batch_size=bs).double().numpy()
                        if np.abs(rb - r0).max() > 2 * mean_allow.max() + 1e-5:
                            res['failures'].append({'signature': 'C01:internal-batch-size', 'detail': f'leaf prediction depends on max_batch_size={bs}'})
                            break
                nl = sum(len(leaf_ids(t)[1]) for t in sd['param_trees'])
                res['nontrivial'] = [p['task'], p['mode'], p['kernel'][0], p['diag'], p['adaptive'], p['trees'], p['f'], p['exact'], p['dseed']]
                res['dist'] = {'task': p['task'] + (':' + p['mode'] if is_class else ''), 'kernel': p['kernel'][0], 'trees': len(sd['param_trees']),
                               'leaves': nl, 'exact_tie_family': p['exact'], 'overlap': p['f'], 'diag': p['diag']}
                res['sample'] = {'config': {k: p[k] for k in ('task', 'mode', 'kernel', 'diag', 'adaptive', 'trees', 'L', 'n', 'f', 'exact')},
                                 'leaves': nl, **stats, 'max_allowance': float(mean_allow.max())}
                res['dist_counts'] = stats
            except Exception as e:
                import traceback
                res['failures'].append({'signature': f'C01:raises:{type(e).__name__}', 'detail': (str(e) + ' | ' + traceback.format_exc()[-500:])[:700]})
            out.append(res)
    finally:
        drv.close()
    return out


def _leaves(t):
    if t['type'] == 'leaf':
        return [t]
    return _leaves(t['left']) + _leaves(t['right'])


def gen_cases(run):
    r = run.rng
    N = 12 if run.tier == 'quick' else 80
    cases = []
    tasks = [('reg', 'zero_one'), ('class', 'zero_one'), ('class', 'prevalence'), ('reg', 'zero_one')]
    for i in range(N):
        task, mode = tasks[i % len(tasks)]
        kern = KERNELS[i % len(KERNELS)]
        q = r.choice([0.7, 1.0, 1.3])
        if kern[0] == 'lpq':
            q = min(q, 1.5)
        L = r.choice([16, 24, 40, 10 ** 6])
        f = r.choice([0.0, 0.0, 0.1, 0.25])
        if (1 - 2 * f) * L < 4:
            f = 0.0
        exact = (i % 4 == 3)
        cases.append(dict(family='exact-ties' if exact else 'fitted-models', task=task, mode=mode, kernel=list(kern), q=q,
                          diag=r.random() < 0.4, adaptive=r.random() < 0.4, bandwidth=r.choice([2.0, 5.0, 10.0]),
                          iters=r.choice([0, 1, 2]), L=L if not exact else r.choice([16, 24]), n=r.choice([60, 100, 150]),
                          d=r.randint(2, 5), method=r.choice(['random', 'pca', 'top_vector_agop_on_subset', 'linear']),
                          trees=r.choice([1, 1, 2, 3]), f=f if not exact else r.choice([0.0, 0.1]), outputs=r.randint(1, 3),
                          classes=r.choice([2, 3, 5]), exact=exact, dseed=r.randint(0, 10 ** 6)))
    # ensembles cut short: several trees requested, the data fit one leaf (tree building stops after the first tree)
    for k, (task, mode) in enumerate([('reg', 'zero_one'), ('class', 'prevalence')]):
        cases.append(dict(family='fitted-models', task=task, mode=mode, kernel=list(KERNELS[k]), q=1.0, diag=False, adaptive=False,
                          bandwidth=5.0, iters=1, L=10 ** 6, n=60, d=3, method='random', trees=3, f=0.0, outputs=2, classes=3,
                          exact=False, dseed=r.randint(0, 10 ** 6)))
    # features in raw units (large offsets: thresholds of the order 10^3 with projections spread over a few units)
    for k in range(3 if run.tier == 'quick' else 12):
        cases.append(dict(family='fitted-models', task=['reg', 'class', 'reg'][k % 3], mode='zero_one', kernel=list(('l1', {})), q=1.0, diag=bool(k % 2),
                          adaptive=False, bandwidth=5.0, iters=k % 2, L=[24, 40, 16][k % 3], n=r.choice([150, 200]), d=r.randint(2, 4),
                          method=['pca', 'random', 'top_vector_agop_on_subset'][k % 3], trees=1 + k % 2, f=0.0, outputs=1, classes=2, exact=False,
                          offsets=True, dseed=r.randint(0, 10 ** 6)))
    # mixed numerical / one-hot data with the categorical fast path of the leaf kernels (full feature matrix, >= 1 iteration)
    # every (p, q) regime of the Lp/Lq kernel has its own branch on that path: p = 1 (no root), p = 2, and q != 1
    cat_kernels = [(('l2', {}), 1.0), (('l1', {}), 1.0), (('lpq', {'norm_p': 1.5}), 1.0), (('lpq', {'norm_p': 1.0}), 0.7),
                   (('l2', {}), 1.4), (('lpq', {'norm_p': 2.0}), 1.3), (('l1', {}), 0.8), (('lpq', {'norm_p': 1.0}), 1.0)]
    for k in range(8 if run.tier == 'quick' else 32):
        cases.append(dict(family='fitted-models', task=['reg', 'class'][(k // 2) % 2], mode='zero_one', kernel=list(cat_kernels[k % len(cat_kernels)][0]),
                          q=cat_kernels[k % len(cat_kernels)][1],
                          diag=False, adaptive=False, bandwidth=r.choice([5.0, 10.0]), iters=r.choice([1, 2]), L=[40, 10 ** 6, 30][k % 3],
                          n=r.choice([80, 120]), d=r.randint(2, 3), method=r.choice(['random', 'pca']), trees=1, f=0.0, outputs=r.randint(1, 2),
                          classes=3, exact=False, cat=[3, 2] if k % 2 else [4], dseed=r.randint(0, 10 ** 6)))
    # leaves fitted by the logistic solver (binary, zero_one): raw outputs are logits, decoded by the sigmoid in both APIs
    for k in range(3 if run.tier == 'quick' else 16):
        cases.append(dict(family='fitted-models', task='class', mode='zero_one', kernel=list(KERNELS[k % len(KERNELS)]), q=1.0, diag=False,
                          adaptive=False, bandwidth=r.choice([2.0, 5.0]), iters=r.choice([0, 1]), L=[10 ** 6, 40, 24][k % 3], n=r.choice([60, 100]),
                          d=r.randint(2, 4), method=r.choice(['random', 'pca']), trees=[1, 2, 1][k % 3], f=0.0, outputs=1, classes=2,
                          exact=False, solver='log_reg', dseed=r.randint(0, 10 ** 6)))
    # very large batches: cross the 20,000-row chunking of the product kernel and the 50,000-row chunking of RFM.predict
    bigs = [('l1', 20100), ('l2', 50100)] if run.tier == 'quick' else [('l1', 20100), ('l1', 40100), ('l2', 50100), ('lpq', 50100), ('l2_high_dim', 50100)]
    for kn, big in bigs:
        kern = [k for k in KERNELS if k[0] == kn][0]
        cases.append(dict(family='large-batches', task='reg', mode='zero_one', kernel=list(kern), q=1.0, diag=r.random() < 0.5, adaptive=False,
                          bandwidth=5.0, iters=2, L=10 ** 6 if kn == 'l1' else r.choice([30, 10 ** 6]), n=80, d=3, method='random', trees=1, f=0.0, outputs=1,
                          classes=2, exact=False, big=big, dseed=r.randint(0, 10 ** 6)))
    # ... and the row blocks of the categorical path (5,000 / 10,000 rows); the judged rows are spread over the whole batch here
    for k, kn in enumerate(['l1', 'l2'] if run.tier == 'quick' else ['l1', 'l2', 'lpq', 'l1']):
        kern = [kk for kk in KERNELS if kk[0] == kn][0]
        cases.append(dict(family='large-batches', task='reg', mode='zero_one', kernel=list(kern), q=1.0, diag=False, adaptive=False, bandwidth=5.0,
                          iters=1, L=10 ** 6, n=80, d=2, method='random', trees=1, f=0.0, outputs=1, classes=2, exact=False,
                          big=[7100, 12100, 10050, 25100][k], cat=[3, 2], judge_last=True, dseed=r.randint(0, 10 ** 6)))
    return cases


def check(run):
    run.rule = ('fitted xRFM models over {l2, l2_high_dim, l1, lpq, sum_power} x {diag, full} x {constant, adaptive} x {regression 1-3 outputs, '
                'binary, 3-5 classes} x {zero_one, prevalence} x 1-3 trees x depth 0..3 x overlap {0, 0.1, 0.25}; query rows in range, training '
                'rows, x1e3 and x1e6 far rows, permuted / split batches, leaf max_batch_size 1/3/5; every fourth case is the exact-tie family '
                '(integer features, axis-aligned direction) where rows exactly on a threshold are kept; cases distinct by configuration/seed')
    run.assumptions = ['rows within 1e-5*(|v||x|+|b|) of a split threshold are excluded (property quantifier), except in the exact-tie family',
                       'float32 rounding is bounded by the computed allowance of DESIGN 4.3 (cdist expansion above 25 rows, M-form of the light kernel)',
                       'label decoding is the codec proved in C13 (recomputed here in numpy)']
    run.lean()
    cases = gen_cases(run)
    results = core.pmap(MOD, [{'cases': [c]} for c in cases])
    tot = {}
    for r_ in results:
        for k, v in (r_.get('dist_counts') or {}).items():
            tot[k] = tot.get(k, 0) + v
    run.extra['row_counts'] = tot
    run.absorb('c01', results)


def replay(run, payload):
    run.lean()
    run.absorb('replay', core.pmap(MOD, [{'cases': [payload['params']]}], workers=1))
