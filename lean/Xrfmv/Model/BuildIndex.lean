/-
Index-level model of `xRFM._build_tree` / `_get_balanced_split` / `_refill_val_set` (xrfm.py): which
original training indices reach which leaf, which of them stay kernel centers and which are moved to the
leaf's validation set.  Data-dependent library calls are oracles:
  * `sortO path n`  – the permutation returned by `torch.sort(projections)` at the node reached by `path`
  * `permO path n`  – `torch.randperm(n)` drawn by the refill of the leaf at `path`
  * `nvalO path`    – how many of the caller's validation points were routed to the node at `path`
  * `ov n`, `frac n` – the float expressions `int(round(2*overlap_fraction*n))`, `int(n*val_size_frac)`
All integer arithmetic, slices, masks, the leaf test, the refill guard and the child argument plans come
from the regenerated `Gen.Split` / `Gen.Refill`.
-/
import Xrfmv.Gen.Split
import Xrfmv.Gen.Refill

namespace Xrfmv.BuildIndex
open Xrfmv.Gen.Split Xrfmv.Gen.Refill

/-- Python slice `l[lo:hi]` for bounds clamped to `[0, len]` (`none` = open end). -/
def pySlice {α : Type} (l : List α) : Option Int × Option Int → List α
  | (lo, hi) =>
    let n : Int := l.length
    let a := max 0 (min (lo.getD 0) n)
    let b := max 0 (min (hi.getD n) n)
    (l.drop a.toNat).take (b - a).toNat

/-- Positions set to `True` in a mask: those listed in the given parts of the sorted index list. -/
def maskSel (n : Nat) (sorted : List Nat) (r : Int) (parts : List Part) : List Nat :=
  parts.flatMap fun p => pySlice sorted (sliceOf (counts n r) p)

/-- Boolean-mask indexing `xs[mask]`: keeps original order. -/
def selectBy {α : Type} (p : Nat → Bool) (xs : List α) : List α :=
  (xs.zipIdx.filter fun xi => p xi.2).map Prod.fst

structure Oracles where
  sortO : List Bool → Nat → List Nat
  permO : List Bool → Nat → List Nat
  nvalO : List Bool → Nat
  ov : Nat → Int
  frac : Nat → Int

structure Cfg where
  maxLeaf : Nat
  nsplits : Option Nat
  minVal : Nat            -- `refill_size`

inductive ITree
  | leaf (path : List Bool) (centers moved : List Nat)
  | node (l r : ITree)
  | assertFail
  | outOfFuel
  deriving Repr, DecidableEq

/-- `_refill_val_set` on the index list `idx` of a leaf: returns (kept = reported `train_indices` = rows
that stay centers, moved = rows appended to the validation set). -/
def refill (cfg : Cfg) (O : Oracles) (path : List Bool) (idx : List Nat) : List Nat × List Nat :=
  let n := idx.length
  let nval := O.nvalO path
  if refillGuard nval cfg.minVal then
    let k := (numValToAdd cfg.minVal nval (O.frac n))
    let perm := O.permO path n
    let moved := pySlice perm (none, some k)
    let kept := pySlice perm (some k, none)
    (kept.map fun i => idx.getD i 0, moved.map fun i => idx.getD i 0)
  else (idx, [])

def sideMask (n : Nat) (sorted : List Nat) (r : Int) : Side → Nat → Bool
  | .left => fun i => (maskSel n sorted r leftMaskParts).contains i
  | .right => fun i => (maskSel n sorted r rightMaskParts).contains i

/-- `_build_tree`; `path` is the list of turns from the root (`false` = left), most recent last. -/
def build (cfg : Cfg) (O : Oracles) : (fuel : Nat) → (path : List Bool) → (idx : List Nat) →
    (isRoot : Bool) → (count : Nat) → ITree × Nat
  | 0, _, _, _, count => (.outOfFuel, count)
  | fuel + 1, path, idx, isRoot, count =>
    let n := idx.length
    if shouldCreateLeaf n cfg.maxLeaf cfg.nsplits.isNone count (cfg.nsplits.getD 0) then
      if refillWhen isRoot then
        let km := refill cfg O path idx
        (.leaf path km.1 km.2, count)
      else (.leaf path idx [], count)
    else
      let count := count + 1
      let r := O.ov n
      let sorted := O.sortO path n
      let li := selectBy (sideMask n sorted r leftChild.idx) idx
      let ri := selectBy (sideMask n sorted r rightChild.idx) idx
      if n = 0 ∨ li = [] ∨ ri = [] then (.assertFail, count)
      else
        let lres := build cfg O fuel (path ++ [false]) li (!leftChild.isRootFalse) count
        let rres := build cfg O fuel (path ++ [true]) ri (!rightChild.isRootFalse) lres.2
        (.node lres.1 rres.1, rres.2)

/-- All (path, centers, moved) leaves, left to right. -/
def ITree.leaves : ITree → List (List Bool × List Nat × List Nat)
  | .leaf p c m => [(p, c, m)]
  | .node l r => l.leaves ++ r.leaves
  | _ => []

def ITree.ok : ITree → Bool
  | .leaf _ _ _ => true
  | .node l r => l.ok && r.ok
  | _ => false

/-- Every index a leaf holds (centers then moved), over all leaves. -/
def ITree.all (t : ITree) : List Nat := t.leaves.flatMap fun l => l.2.1 ++ l.2.2

end Xrfmv.BuildIndex
