"""
C08 — prediction-time routing agrees with training-time assignment.

Proof: lean/Xrfmv/Props/C08.lean (per-node agreement for every n and overlap; induction over the tree; validation
rule = prediction rule) over regenerated Gen.Split / Gen.Route.
Correspondence: recorded real fits; per split node the recorded projections / sorting permutation / median are
checked against the oracle contract and fed to the Lean node model (masks, routing decisions); the real
prediction-time routing of all training and validation rows is compared with where training put them.
"""
from harness import core
from harness.props import c07

MOD = 'harness.props.c08'


def leaf_paths(tree, path=''):
    if tree['type'] == 'leaf':
        yield path, tree
    else:
        yield from leaf_paths(tree['left'], path + '0')
        yield from leaf_paths(tree['right'], path + '1')


def split_nodes(tree, path=''):
    if tree['type'] != 'leaf':
        yield path, tree
        yield from split_nodes(tree['left'], path + '0')
        yield from split_nodes(tree['right'], path + '1')


def execute(chunk):
    import torch
    from harness import xrec
    drv = core.Driver('C08')
    out = []
    try:
        for p in chunk['cases']:
            res = {'family': p['family'], 'params': p, 'disagreements': [], 'failures': []}
            X, y, Xv, yv, kw = c07.make(p)
            if p.get('integer'):
                g = torch.Generator().manual_seed(p['dseed'] + 7)
                X = torch.randint(-3, 4, X.shape, generator=g).float() + torch.arange(X.shape[0]).float()[:, None] * 0.0
                # keep rows distinct: append a unique id column that the fixed split direction ignores
                X = torch.cat([X, torch.arange(X.shape[0]).float()[:, None]], dim=1)
                Xv = torch.cat([torch.randint(-3, 4, (Xv.shape[0], X.shape[1] - 1), generator=g).float(),
                                1000.0 + torch.arange(Xv.shape[0]).float()[:, None]], dim=1)
                v = torch.zeros(X.shape[1])
                # an axis direction need not be +e_k: sign and length of the single non-zero entry matter for the routing
                v[p['dseed'] % (X.shape[1] - 1)] = [1.0, -1.0, 2.0, -0.5][(p['dseed'] // 7) % 4]
                kw['fixed_vector'] = v
                kw['split_method'] = 'fixed_vector'
            try:
                m = xrec.RecXRFM(stub_leaves=p['stub'], **kw)
                if p.get('prefit'):
                    # the same estimator was fitted before, on other data of the same shape (that recording is dropped)
                    X0, y0, Xv0, yv0, _ = c07.make(dict(p, dseed=p['dseed'] + 13))
                    with xrec.recording(m):
                        m.fit(X0, y0, Xv0, yv0)
                    m.rec_roots = []
                with xrec.recording(m):
                    m.fit(X, y, Xv, yv)
            except Exception as e:
                res['failures'].append({'signature': f'C08:raises:{type(e).__name__}', 'detail': str(e)[:300]})
                out.append(res)
                continue
            impl, oracles, fails = c07.analyse(p, m, X, y, Xv)
            if impl is None:
                out.append(res)
                continue
            tree = m.trees[0]
            n = X.shape[0]
            key2v = {xrec.row_key(Xv[i]): i for i in range(Xv.shape[0])}
            rec = {''.join(str(b) for b in path): node for path, node in xrec.walk(m.rec_roots[0])}
            stats = {'nodes': 0, 'near_excluded': 0, 'tied_val': 0, 'train_checked': 0, 'val_checked': 0}
            # ---- per split node: contract, masks, validation rule --------------------------------
            for ps, node in split_nodes(tree):
                rn = rec[ps]
                sp = rn['split']
                vidx = [key2v[k] for k in rn['val_keys']]
                dirv = torch.tensor(rn['direction'], dtype=torch.float32)
                vproj = (Xv[vidx] @ dirv).double().tolist() if vidx else []
                ans = drv.ask({'op': 'node', 'proj': core.fl(sp['proj']), 'sorted': sp['sorted'],
                               'thr': core.f2b(sp['median']), 'r': c07.py_ov(p['f'], rn['n']), 'val': core.fl(vproj)})
                stats['nodes'] += 1
                if 'error' in ans:
                    res['disagreements'].append({'detail': f'node {ps!r}: model rejects: {ans["error"]}'})
                    continue
                if not (ans['isPerm'] and ans['ascending'] and ans['medianIsLower']):
                    res['failures'].append({'signature': 'C08:oracle-contract',
                                            'detail': f'node {ps!r}: sort/median contract violated: {ans["isPerm"]}, {ans["ascending"]}, {ans["medianIsLower"]}'})
                if ans['left'] != sp['left'] or ans['right'] != sp['right']:
                    res['disagreements'].append({'detail': f'node {ps!r}: masks differ from the model'})
                # validation points: child actually given vs the rule
                lkeys = set(rec[ps + '0']['val_keys'])
                given_left = [k in lkeys for k in rn['val_keys']]
                if given_left != ans['valGoesLeft']:
                    res['disagreements'].append({'detail': f'node {ps!r}: validation assignment differs from the model rule'})
                if ans['valGoesLeft'] != ans['valPredGoesLeft']:
                    res['disagreements'].append({'detail': f'node {ps!r}: validation rule and prediction rule differ in the model'})
                stats['tied_val'] += sum(1 for v in vproj if v == sp['median'])
            # ---- whole tree: prediction-time routing of training and validation rows ----------------
            leaf_of = {id(leaf): ps for ps, leaf in leaf_paths(tree)}

            def routed(T):
                groups, gidx, leaves = m._get_leaf_groups_and_models_on_samples(T, tree)
                where = {}
                for ids, leaf in zip(gidx, leaves):
                    for i in ids.tolist():
                        where[i] = leaf_of[id(leaf)]
                return where

            def near(T):
                """rows within rounding distance of a threshold on their route"""
                bad = set()
                for ps, node in split_nodes(tree):
                    v = node['split_direction']
                    b = float(node['split_point'])
                    pr = (T @ v).double()
                    tol = 1e-5 * (T.norm(dim=1).double() * float(v.norm()) + abs(b))
                    for i in torch.nonzero((pr - b).abs() <= tol).flatten().tolist():
                        bad.add(i)
                return bad

            exact = bool(p.get('integer'))
            w = routed(X)
            nr = set() if exact else near(X)
            # in the exact family ties are real: a training row tied with a threshold is outside the property
            tied = set()
            if exact:
                for ps, node in split_nodes(tree):
                    pr = (X @ node['split_direction'])
                    tied |= set(torch.nonzero(pr == node['split_point']).flatten().tolist())
            holds = {}
            for ps, (c, mv, _) in impl.items():
                for i in c + mv:
                    holds.setdefault(i, set()).add(ps)
            for i in range(n):
                if i in nr or i in tied:
                    stats['near_excluded'] += 1
                    continue
                stats['train_checked'] += 1
                if w[i] not in holds.get(i, set()):
                    res['failures'].append({'signature': 'C08:train-routing',
                                            'detail': f'training row {i} is routed to leaf {w[i]!r} but was given to {sorted(holds.get(i, []))}'})
                    break
            if Xv.shape[0]:
                wv = routed(Xv)
                nrv = set() if exact else near(Xv)
                assigned = {}
                for ps, leaf in leaf_paths(tree):
                    for k in rec[ps]['val_keys']:
                        assigned[key2v[k]] = ps
                for i in range(Xv.shape[0]):
                    if i in nrv:
                        stats['near_excluded'] += 1
                        continue
                    stats['val_checked'] += 1
                    if assigned.get(i) != wv[i]:
                        res['failures'].append({'signature': 'C08:validation-routing',
                                                'detail': f'validation row {i} was assigned to leaf {assigned.get(i)!r} at training time, prediction routes it to {wv[i]!r}'})
                        break
            res['nontrivial'] = [p['n'], p['L'], p['f'], p['method'], p['dseed'], exact] if stats['nodes'] else None
            res['dist'] = {'split_nodes': stats['nodes'], 'exact_tie_family': exact, 'overlap': p['f'], 'method': kw['split_method'],
                           'tied_validation_points': stats['tied_val'] > 0}
            res['sample'] = {'n': p['n'], 'L': p['L'], 'f': p['f'], 'method': kw['split_method'], **stats}
            res['dist_counts'] = stats
            out.append(res)
    finally:
        drv.close()
    return out


def gen_cases(run):
    cases = c07.gen_cases(run)
    r = run.rng
    for c in cases:
        c['family'] = 'recorded-fits'
        c['nsplits'] = (c['nsplits'] if c['nsplits'] else r.choice([None, None, 1])) if c['stub'] else None
        c['nval'] = max(c['nval'], 8) if c['nval'] < 3 * c['n'] else c['n']
    # exact-tie family: integer features, axis-aligned fixed direction, float32-exact projections
    K = 16 if run.tier == 'quick' else 160
    for k in range(K):
        L = r.choice([6, 8, 12, 16])
        f = r.choice([0.0, 0.0, 0.1, 0.125, 0.25])
        if (1 - 2 * f) * L < 4:
            f = 0.0
        cases.append(dict(family='exact-ties', integer=True, n=r.randint(2 * L, 6 * L), d=r.randint(2, 4), L=L, f=f,
                          nsplits=None, refill=r.choice([2, 5, 20]), nval=r.randint(20, 80), val_spread=1.0,
                          method='fixed_vector', task='reg', outputs=1, classes=2, mode='zero_one', stub=True, iters=0,
                          dseed=r.randint(0, 10 ** 6)))
    # nodes whose targets are all equal (regression target max(0, x_0): zero on a half space): every split method still has
    # to produce a usable direction there
    for k in range(6 if run.tier == 'quick' else 40):
        L = r.choice([16, 24, 30])
        cases.append(dict(family='constant-target-nodes', n=r.randint(5 * L, 9 * L), d=r.randint(2, 4), L=L, f=0.0, nsplits=None, refill=r.choice([5, 20]),
                          nval=r.randint(40, 120), val_spread=1.0, method=['linear', 'linear', 'rf_criterion', 'pca'][k % 4] if k % 2 == 0 else 'linear',
                          task='relu', outputs=1, classes=2, mode='zero_one', stub=True, iters=0, dseed=r.randint(0, 10 ** 6)))
    # the estimator is fitted a second time on other data of the same shape: every split must come from the data of this fit
    meths = ['pca', 'rf_criterion', 'linear', 'fixed_vector', 'random', 'top_vector_agop_on_subset', 'random_pca', 'pca']
    for k in range(8 if run.tier == 'quick' else 48):
        L = r.choice([12, 16, 24])
        cases.append(dict(family='refit-same-shape', prefit=True, n=r.randint(3 * L, 7 * L), d=r.randint(2, 4), L=L, f=[0.0, 0.1][k % 2] if L >= 16 else 0.0,
                          nsplits=None, refill=r.choice([5, 20]), nval=r.randint(30, 90), val_spread=1.0, method=meths[k % len(meths)],
                          task=['reg', 'class'][(k // 2) % 2] if meths[k % len(meths)] != 'linear' else 'reg', outputs=1, classes=2, mode='zero_one',
                          stub='agop' not in meths[k % len(meths)], iters=0, dseed=r.randint(0, 10 ** 6)))
    # a node above the sizes at which libraries start to estimate quantiles from subsamples (tens of thousands of rows):
    # one split at the root, leaf models stubbed
    for k in range(1 if run.tier == 'quick' else 4):
        n = r.choice([50_100, 60_001, 75_000])
        cases.append(dict(family='large-node', n=n, d=3, L=int(n * 0.6), f=[0.0, 0.05][k % 2], nsplits=None, refill=20, nval=200, val_spread=1.0,
                          method=['random', 'pca'][k % 2], task='reg', outputs=1, classes=2, mode='zero_one', stub=True, iters=0,
                          dseed=r.randint(0, 10 ** 6)))
    return cases


def check(run):
    run.rule = ('recorded real fits as in C07 (every split method, depth 0..4, overlap 0..0.25) plus an exact-tie family (integer features, '
                'axis-aligned fixed direction: projections and medians exact in float32, validation points lying exactly on thresholds); '
                'rows within 1e-5*(|v||x|+|b|) of a threshold on any node are excluded and counted; non-trivial = the tree has a split')
    run.assumptions = ['torch.sort ascending permutation, torch.median = lower median (checked on every recorded node)',
                       'rows within rounding distance of a threshold are outside the property']
    run.lean()
    cases = gen_cases(run)
    if run.driver_ok:
        results = core.pmap(MOD, [{'cases': c} for c in core.chunks(cases, 48)])
        tot = {}
        for r_ in results:
            for k, v in (r_.get('dist_counts') or {}).items():
                tot[k] = tot.get(k, 0) + v
        run.extra['row_counts'] = tot
        run.absorb('c08', results)


def replay(run, payload):
    run.lean()
    run.absorb('replay', core.pmap(MOD, [{'cases': [payload['params']]}], workers=1))
