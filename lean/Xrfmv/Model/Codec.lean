/-
Model of the label codec `ClassificationConverter` (xrfm/rfm_src/class_conversion.py) and of the
aggregation of class-probability rows in `xRFM.predict_proba` / `xRFM.predict` (xrfm/xrfm.py).

Scalar-generic and Mathlib-free: the same definitions run on `Float` (driver ops of C12/C13) and are
proved about at `ℝ` (Lemmas/Codec.lean, Props/C12.lean, Props/C13.lean).  No laws are assumed.

Vectors are `Fin n → α`, matrices `Fin m → Fin n → α`.  `K = n + 1` classes in prevalence mode, codes
live in dimension `n = K - 1`.

The reduced QR factor `Q` (`K × (K-1)`) of `torch.linalg.qr(I[:, :-1] - I[:, [-1]])` is an ORACLE
parameter.  Its contract (`QContract`, checked by the driver on every real `Q`) is
`QᵀQ = I` and `QQᵀ = I − J/K` (`J` all ones).
-/
import Xrfmv.Gen.Codec
import Xrfmv.Scalar

namespace Xrfmv.Codec

abbrev Vec (α : Type) (n : Nat) := Fin n → α
abbrev Mat (α : Type) (m n : Nat) := Fin m → Fin n → α

section Basic
variable {α : Type} [Add α] [Sub α] [Mul α] [Div α] [OfNat α 0] [OfNat α 1]

/-- Left-to-right sum of the `n` entries of `f`. -/
def vsum : (n : Nat) → (Fin n → α) → α
  | 0, _ => 0
  | n + 1, f => vsum n (fun i => f i.castSucc) + f (Fin.last n)

/-- `float(n)`. -/
def ofNat' : Nat → α
  | 0 => 0
  | n + 1 => ofNat' n + 1

def dot {n : Nat} (u v : Vec α n) : α := vsum n (fun i => u i * v i)

def mulVec {m n : Nat} (M : Mat α m n) (v : Vec α n) : Vec α m := fun i => vsum n (fun j => M i j * v j)

def matMul {m n p : Nat} (A : Mat α m n) (B : Mat α n p) : Mat α m p :=
  fun i k => vsum n (fun j => A i j * B j k)

def sqDist {n : Nat} (u v : Vec α n) : α := vsum n (fun j => (u j - v j) * (u j - v j))

/-- Kronecker delta / identity matrix entry. -/
def delta {n : Nat} (i j : Fin n) : α := if i = j then 1 else 0

/-- `[v; 1]` : the decoder input row with the appended one (`torch.cat([num, ones], dim=1)`). -/
def aug {n : Nat} (v : Vec α n) : Vec α (n + 1) :=
  fun r => if h : r.val < n then v ⟨r.val, h⟩ else 1

/-! ### zero_one mode -/

/-- `labels.float().reshape(-1, 1)` (binary, `K = 2`). -/
def encodeBinary (l : Nat) : Vec α 1 := fun _ => ofNat' l

/-- `F.one_hot(labels, K).float()` (`K > 2`). -/
def encodeOneHot (K : Nat) (l : Fin K) : Vec α K := fun k => delta l k

/-- `torch.cat([1 - num, num], dim=1)` for one-column input. -/
def expandBinary (v : Vec α 1) : Vec α 2 :=
  fun k => if k.val = 0 then Xrfmv.Gen.Codec.binaryFirst (v 0) else Xrfmv.Gen.Codec.binarySecond (v 0)

/-! ### prevalence mode -/

/-- `counts / total`. -/
def priorOf {K : Nat} (counts : Vec Nat K) : Vec α K :=
  fun k => ofNat' (counts k) / vsum K (fun i => (ofNat' (counts i) : α))

/-- `mu = prior @ Q`. -/
def mu {n : Nat} (prior : Vec α (n + 1)) (Q : Mat α (n + 1) n) : Vec α n :=
  fun j => vsum (n + 1) (fun k => prior k * Q k j)

/-- `C = Q - mu` : row `k` is the code of class `k`. -/
def codes {n : Nat} (prior : Vec α (n + 1)) (Q : Mat α (n + 1) n) : Mat α (n + 1) n :=
  fun k j => Q k j - mu prior Q j

/-- `A = [Cᵀ; 1ᵀ]`. -/
def augA {n : Nat} (prior : Vec α (n + 1)) (Q : Mat α (n + 1) n) : Mat α (n + 1) (n + 1) :=
  fun r k => if h : r.val < n then codes prior Q k ⟨r.val, h⟩ else 1

/-- The explicit inverse `[Q | prior]` of `A` (a theorem under the `Q` contract, Lemmas/Codec). -/
def explicitInv {n : Nat} (prior : Vec α (n + 1)) (Q : Mat α (n + 1) n) : Mat α (n + 1) (n + 1) :=
  fun k c => if h : c.val < n then Q k ⟨c.val, h⟩ else prior k

/-- What the code does: `pi = [num, 1] @ invAᵀ` with the stored inverse. -/
def decodeInv {n : Nat} (invA : Mat α (n + 1) (n + 1)) (v : Vec α n) : Vec α (n + 1) :=
  mulVec invA (aug v)

/-- Explicit form of the decoder: `prior + Q v`. -/
def decodeExplicit {n : Nat} (prior : Vec α (n + 1)) (Q : Mat α (n + 1) n) (v : Vec α n) : Vec α (n + 1) :=
  fun k => prior k + vsum n (fun j => Q k j * v j)

/-- `labels_to_numerical` in prevalence mode: `C[labels]`. -/
def encodePrev {n : Nat} (prior : Vec α (n + 1)) (Q : Mat α (n + 1) n) (l : Fin (n + 1)) : Vec α n :=
  codes prior Q l

/-- Entries of `QᵀQ`. -/
def qtq {n : Nat} (Q : Mat α (n + 1) n) : Mat α n n := fun a b => vsum (n + 1) (fun k => Q k a * Q k b)

/-- Entries of `QQᵀ`. -/
def qqt {n : Nat} (Q : Mat α (n + 1) n) : Mat α (n + 1) (n + 1) := fun k l => vsum n (fun j => Q k j * Q l j)

/-- The contract of the QR oracle: `QᵀQ = I` and `QQᵀ = I − J/K`, `K = n + 1`. -/
structure QContract {n : Nat} (Q : Mat α (n + 1) n) : Prop where
  orth : ∀ a b, qtq Q a b = delta a b
  proj : ∀ k l, qqt Q k l = delta k l - 1 / ofNat' (n + 1)

/-- Deviations from the contract (the driver reports their largest absolute value). -/
def qtqDev {n : Nat} (Q : Mat α (n + 1) n) (a b : Fin n) : α := qtq Q a b - delta a b
def qqtDev {n : Nat} (Q : Mat α (n + 1) n) (k l : Fin (n + 1)) : α :=
  qqt Q k l - (delta k l - 1 / ofNat' (n + 1))

/-! ### aggregation (xRFM.predict_proba / predict) -/

/-- Raw output of a leaf at one query row: `K(x, centers) @ weights` (`RFM.predict`). -/
def leafOut {N m : Nat} (kvals : Vec α N) (W : Mat α N m) : Vec α m :=
  fun j => vsum N (fun c => kvals c * W c j)

/-- `torch.mean(torch.stack(rows), dim=0)` over `T` trees. -/
def meanRows {T K : Nat} (rows : Fin T → Vec α K) : Vec α K :=
  fun k => vsum T (fun t => rows t k) / ofNat' T

/-- Soft routing: `Σ_l w_l · row_l` over the leaves. -/
def mixture {L K : Nat} (w : Vec α L) (rows : Fin L → Vec α K) : Vec α K :=
  fun k => vsum L (fun l => w l * rows l k)

/-- What one tree contributes at one query row.
`hard`: the raw output of the leaf the row is routed to (`_predict_tree_hard`).
`soft`: renormalised weights of the leaves and their raw outputs (`_predict_tree_soft`; leaves outside
the kept set carry weight 0). -/
inductive TreeAt (α : Type) (m : Nat) where
  | hard (raw : Vec α m)
  | soft (L : Nat) (w : Vec α L) (raws : Fin L → Vec α m)

/-- `_predict_tree(X, tree, proba=True)` at one row; `P` is the leaf's `predict_proba` decoder. -/
def TreeAt.proba {m K : Nat} (P : Vec α m → Vec α K) : TreeAt α m → Vec α K
  | .hard raw => P raw
  | .soft _ w raws => mixture w (fun l => P (raws l))

/-- `_predict_tree(X, tree, proba=False)` at one row. -/
def TreeAt.raw {m : Nat} : TreeAt α m → Vec α m
  | .hard raw => raw
  | .soft _ w raws => mixture w raws

/-- `xRFM.predict_proba` at one row: mean over the trees of the per-tree probability rows. -/
def predictProba {T m K : Nat} (P : Vec α m → Vec α K) (trees : Fin T → TreeAt α m) : Vec α K :=
  meanRows (fun t => (trees t).proba P)

/-- The regression output `xRFM.predict` decodes: mean over the trees of the per-tree raw outputs. -/
def predictRaw {T m : Nat} (trees : Fin T → TreeAt α m) : Vec α m :=
  meanRows (fun t => (trees t).raw)

end Basic

section Order
variable {α : Type} [Add α] [Sub α] [Mul α] [Div α] [OfNat α 0] [OfNat α 1] [Max α] [Min α]

/-- `torch.clamp(x, lo, hi) = min(max(x, lo), hi)`. -/
def clamp (lo hi x : α) : α := min (max x lo) hi

def clampVec {n : Nat} (ε : α) (p : Vec α n) : Vec α n :=
  fun i => clamp (Xrfmv.Gen.Codec.clampLo ε) (Xrfmv.Gen.Codec.clampHi ε) (p i)

/-- `p = clamp(p, eps, 1-eps); p / p.sum()`. -/
def clampNorm {n : Nat} (ε : α) (p : Vec α n) : Vec α n :=
  fun i => clampVec ε p i / vsum n (clampVec ε p)

def probasBinary (ε : α) (v : Vec α 1) : Vec α 2 := clampNorm ε (expandBinary v)
def probasMulti {K : Nat} (ε : α) (v : Vec α K) : Vec α K := clampNorm ε v
def probasPrevInv {n : Nat} (ε : α) (invA : Mat α (n + 1) (n + 1)) (v : Vec α n) : Vec α (n + 1) :=
  clampNorm ε (decodeInv invA v)
def probasPrev {n : Nat} (ε : α) (prior : Vec α (n + 1)) (Q : Mat α (n + 1) n) (v : Vec α n) : Vec α (n + 1) :=
  clampNorm ε (decodeExplicit prior Q v)

variable [LT α] [DecidableLT α]

/-- `torch.argmax`: the first maximal index (a later entry wins only when strictly larger). -/
def argmax : (n : Nat) → (Fin (n + 1) → α) → Fin (n + 1)
  | 0, _ => 0
  | n + 1, f =>
    let b := argmax n (fun i => f i.castSucc)
    if f b.castSucc < f (Fin.last (n + 1)) then Fin.last (n + 1) else b.castSucc

/-- `numerical_to_labels = numerical_to_probas(num).argmax(-1)` in the four shapes. -/
def labelBinary (ε : α) (v : Vec α 1) : Fin 2 := argmax 1 (probasBinary ε v)
def labelMulti {n : Nat} (ε : α) (v : Vec α (n + 1)) : Fin (n + 1) := argmax n (probasMulti ε v)
def labelPrevInv {n : Nat} (ε : α) (invA : Mat α (n + 1) (n + 1)) (v : Vec α n) : Fin (n + 1) :=
  argmax n (probasPrevInv ε invA v)
def labelPrev {n : Nat} (ε : α) (prior : Vec α (n + 1)) (Q : Mat α (n + 1) n) (v : Vec α n) : Fin (n + 1) :=
  argmax n (probasPrev ε prior Q v)

/-- `numerical_to_labels(labels_to_numerical(l))`, zero_one mode, `K = n + 1` classes
(`K = 2`: one column; otherwise one-hot). -/
def roundtripZeroOne (ε : α) (n : Nat) (l : Fin (n + 1)) : Nat :=
  if n + 1 = 2 then (labelBinary ε (encodeBinary l.val)).val
  else (labelMulti ε (encodeOneHot (n + 1) l)).val

/-- `numerical_to_labels(labels_to_numerical(l))`, prevalence mode, with the stored inverse. -/
def roundtripPrevInv {n : Nat} (ε : α) (invA : Mat α (n + 1) (n + 1)) (prior : Vec α (n + 1))
    (Q : Mat α (n + 1) n) (l : Fin (n + 1)) : Fin (n + 1) :=
  labelPrevInv ε invA (encodePrev prior Q l)

/-- `xRFM.predict` at one row: `numerical_to_labels` of the averaged raw outputs. -/
def predictLabel {T m n : Nat} (P : Vec α m → Vec α (n + 1)) (trees : Fin T → TreeAt α m) : Fin (n + 1) :=
  argmax n (P (predictRaw trees))

end Order

end Xrfmv.Codec
