import Xrfmv.Drv.C18

def main : IO Unit := Xrfmv.Drv.runDriver Xrfmv.Drv.C18.ops
