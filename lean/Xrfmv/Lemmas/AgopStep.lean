/-
C19: the concrete AGOP step (`Model/AgopStep.lean`) is scale covariant — the half of the contract `AgopScaleCovariant`
that used to be an hypothesis.  Gradient homogeneity (`Lemmas/GradScale.lean`) + scale freedom of the max-normalised AGOP
(`Lemmas/AgopScale.lean`).
-/
import Xrfmv.Model.AgopStep
import Xrfmv.Lemmas.GradScale
import Xrfmv.Lemmas.AgopScale
import Xrfmv.Lemmas.Median

namespace Xrfmv.AgopStep
open Xrfmv
open Xrfmv.Kernel (Spec Transform)

@[simp] theorem gradKind_withL (K : Spec ℝ) (L : ℝ) : gradKind (K.withL L) = gradKind K := by cases K <;> rfl

theorem gradParams_withL (e : ℝ) (K : Spec ℝ) (L : ℝ) : gradParams e (K.withL L) = (gradParams e K).withL L := by
  cases K <;> rfl

@[simp] theorem gradParams_L (e : ℝ) (K : Spec ℝ) : (gradParams e K).L = K.L := by cases K <;> rfl
@[simp] theorem gradParams_eps (e : ℝ) (K : Spec ℝ) : (gradParams e K).eps = e := by cases K <;> rfl

theorem scaleOK_of_paramOK (e : ℝ) (K : Spec ℝ) (hK : Median.ParamOK K) (hL : 0 ≤ K.L) :
    Grad.ScaleOK (gradKind K) (gradParams e K) := by
  refine ⟨by rw [gradParams_L]; exact hL, ?_⟩
  cases K with
  | laplace q L => trivial
  | light q L => trivial
  | product q L => exact (show (0 : ℝ) < q from hK).ne'
  | lpq p q L => exact (show (0 : ℝ) < p from hK).ne'
  | sumPower q L c' P => exact hK

theorem head_length_smul (c : ℝ) (X : List (List ℝ)) :
    ((X.map (Median.smul c)).head?.map List.length).getD 0 = (X.head?.map List.length).getD 0 := by
  cases X with
  | nil => rfl
  | cons x X => simp

theorem flatten_map_map (a : ℝ) (G : List (List (List ℝ))) :
    (G.map fun perOut => perOut.map (Grad.sm a)).flatten = G.flatten.map (Grad.sm a) := by
  rw [List.map_flatten]

/-- The mask guard of the AGOP step: for every pair of centers the coincidence mask of the kernel fires at scale `c`
exactly when it fires at scale 1 (true whenever all distinct centers are at least `max(eps, eps/c)` apart). -/
def MaskGuard (c gradEps : ℝ) (K : Spec ℝ) (T : Transform ℝ) (X : List (List ℝ)) : Prop :=
  Grad.AllMaskStable c (gradKind K) (gradParams gradEps K) (toGradT T) X X

/-- **The normalised AGOP is unchanged** when centers and bandwidth are rescaled by `c > 0` (jitter idealised to 0). -/
theorem normAgop_scale {c : ℝ} (hc : 0 < c) (gradEps : ℝ) (K : Spec ℝ) (hK : Median.ParamOK K) (hL : 0 ≤ K.L)
    (T : Transform ℝ) (X A : List (List ℝ)) (hm : MaskGuard c gradEps K T X) :
    normAgop gradEps 0 (K.withL (c * K.L)) T (X.map (Median.smul c)) A = normAgop gradEps 0 K T X A := by
  unfold normAgop
  simp only [head_length_smul, gradKind_withL, gradParams_withL]
  have h := Grad.fgrad_scale hc (gradKind K) (gradParams gradEps K) (scaleOK_of_paramOK gradEps K hK hL) (toGradT T)
    X X (transpose A) hm
  rw [gradParams_L] at h
  have hX : X.map (Median.smul c) = X.map (Grad.sm c) := rfl
  rw [hX, h, flatten_map_map]
  exact Agop.normalised_agop_scale_invariant _ _ c⁻¹ (inv_ne_zero hc.ne')

theorem agopStep_scale {c : ℝ} (hc : 0 < c) (gradEps : ℝ) (root : List (List ℝ) → Transform ℝ)
    (K : Spec ℝ) (hK : Median.ParamOK K) (hL : 0 ≤ K.L) (T : Transform ℝ) (X A : List (List ℝ))
    (hm : MaskGuard c gradEps K T X) :
    agopStep gradEps 0 root (K.withL (c * K.L)) T (X.map (Median.smul c)) A = agopStep gradEps 0 root K T X A := by
  unfold agopStep
  rw [normAgop_scale hc gradEps K hK hL T X A hm]

/-- With `gradEps = 0` no mask ever fires, at any scale: the guard is satisfiable for every data set. -/
theorem maskGuard_zero {c : ℝ} (hc : 0 < c) (K : Spec ℝ) (T : Transform ℝ) (X : List (List ℝ)) :
    MaskGuard c 0 K T X := by
  intro x _ z _
  cases K with
  | laplace q L =>
    simp only [gradKind, Grad.MaskStable, Grad.maskQ, gradParams]
    have := Real.sqrt_nonneg (Grad.sqDist (Grad.applyT (toGradT T) x) (Grad.applyT (toGradT T) z))
    constructor <;> intro h <;> nlinarith
  | light q L =>
    simp only [gradKind, Grad.LightMaskStable, gradParams]
    have := Real.sqrt_nonneg (Grad.lightSq (toGradT T) x z)
    constructor <;> intro h <;> nlinarith
  | product q L =>
    simp only [gradKind, Grad.MaskStable, Grad.maskQ, gradParams]
    have := Grad.pNorm_nonneg q (Grad.vsub (Grad.applyT (toGradT T) z) (Grad.applyT (toGradT T) x))
    constructor <;> intro h <;> nlinarith
  | lpq p q L =>
    simp only [gradKind, Grad.MaskStable, Grad.maskQ, gradParams]
    have := Grad.pNorm_nonneg p (Grad.vsub (Grad.applyT (toGradT T) z) (Grad.applyT (toGradT T) x))
    constructor <;> intro h <;> nlinarith
  | sumPower q L c' P =>
    simp only [gradKind, Grad.MaskStable, Grad.maskQ, gradParams]
    constructor <;> intro h <;> nlinarith

end Xrfmv.AgopStep
