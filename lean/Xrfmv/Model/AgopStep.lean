/-
The AGOP step of one RFM iteration (`RFM.fit_M` below the sub-sampling limit, `center_grads=False`), assembled from the
models of C04 (`Grad.fgrad`: `Kernel.get_function_grads` of the predictor at its own centers) and C14 (`Agop.agopFull`,
`Agop.normalise`): the next feature transform is a function `root` of the max-normalised AGOP (`sqrtM` through the
eigen-decomposition for the kernels that use a root, `M` itself for the memory-light kernel, the diagonal in diagonal
mode — all functions of the normalised matrix, kept abstract here).

Mathlib-free and scalar-generic: executed on `Float` by `Drv/C19.lean` (op `agopstep`), reasoned about at `ℝ` in
`Lemmas/AgopStep.lean`.
-/
import Xrfmv.Model.Kernel
import Xrfmv.Model.Agop

namespace Xrfmv.AgopStep
open Xrfmv

section
variable {α : Type} [Add α] [Sub α] [Mul α] [Div α] [Neg α] [OfNat α 0] [OfNat α 1] [OfNat α 2]
  [LT α] [DecidableLT α] [HasExp α] [HasRpow α] [HasAbs α] [HasSqrt α]

/-- which gradient code a kernel object runs -/
def gradKind : Kernel.Spec α → Grad.Kind
  | .laplace .. => .l2
  | .light .. => .light
  | .product .. => .prod
  | .lpq .. => .lpq
  | .sumPower .. => .sumPower

/-- its parameters (`gradEps` = the `eps` of the coincidence mask, `1e-10` in the code) -/
def gradParams (gradEps : α) : Kernel.Spec α → Grad.Params α
  | .laplace q L => { L := L, q := q, p := 2, eps := gradEps, cmix := 0, power := 1 }
  | .light q L => { L := L, q := q, p := 2, eps := gradEps, cmix := 0, power := 1 }
  | .product q L => { L := L, q := q, p := q, eps := gradEps, cmix := 0, power := 1 }
  | .lpq p q L => { L := L, q := q, p := p, eps := gradEps, cmix := 0, power := 1 }
  | .sumPower q L c P => { L := L, q := q, p := 2, eps := gradEps, cmix := c, power := P }

/-- transpose of a list of rows -/
def transpose (A : List (List α)) : List (List α) :=
  (List.range ((A.head?.map List.length).getD 0)).map fun j => A.map fun r => r.getD j 0

/-- the kernel-matrix model holds a full transform by columns, the gradient model by rows -/
def toGradT : Kernel.Transform α → Grad.Transform α
  | .none => .none
  | .diag v => .diag v
  | .full cols => .full (transpose cols)

/-- Max-normalised AGOP of the predictor `Σ_i α_i k(x_i, ·)` over its own centers: gradients for every output and every
center (`get_function_grads(centers, centers, weights.T, mat)`), merged to rows, `GᵀG`, divided by `max + jitter`. -/
def normAgop (gradEps jitter : α) (K : Kernel.Spec α) (T : Kernel.Transform α) (X A : List (List α)) : List (List α) :=
  let d := (X.head?.map List.length).getD 0
  Agop.normalise jitter
    (Agop.agopFull d (Grad.fgrad (gradKind K) (gradParams gradEps K) (toGradT T) X X (transpose A)).flatten)

/-- The transform of the next iteration. -/
def agopStep (gradEps jitter : α) (root : List (List α) → Kernel.Transform α)
    (K : Kernel.Spec α) (T : Kernel.Transform α) (X A : List (List α)) : Kernel.Transform α :=
  root (normAgop gradEps jitter K T X A)

end

end Xrfmv.AgopStep
