import Xrfmv.Drv.C10

def main : IO Unit := Xrfmv.Drv.runDriver Xrfmv.Drv.C10.ops
