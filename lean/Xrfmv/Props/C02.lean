/-
C02 — Leaf coefficients solve the ridge system of the state that is stored.

Two parts.  (a) *Which* state: over the regenerated selection program `Gen.Select` the weights, the
feature matrix, its root and the bandwidth that `fit` leaves in the object all belong to one iterate
(with and without best-parameter restoration, with and without early stopping, constant and adaptive
bandwidth) — so the stored `α` was solved against the Gram matrix of the *stored* state.
(b) Algebra of the ridge system: `(K + λI)α = Y ⇔ Kα = Y − λα` (predictions at the centers), and the
solution is unique for symmetric positive semi-definite `K` and `λ > 0`, so `solve`, `cholesky` and `lu`
must return the same coefficients.  That the Laplace-family Gram matrix is PSD is no longer an
hypothesis: `Lemmas/KernelPsd.lean` (C05, Schoenberg) gives it for `0 < q ≤ p ≤ 2`, so the system of the
stored centers has exactly one solution (`ridge_exists_unique_lpq/_laplace/_product`).  torch's
factorisations themselves are modelled, not verified.
-/
import Xrfmv.Lemmas.FitLoop
import Xrfmv.Lemmas.KernelPsd
import Xrfmv.Lemmas.Ridge
import Mathlib.LinearAlgebra.Matrix.PosDef
import Mathlib.Algebra.Order.Star.Real

namespace Xrfmv.Props.C02
open Xrfmv.FitLoop Matrix

/-- All four pieces of state carry the same iterate tag (constant mode: bandwidth tag `0` = the
constructor bandwidth, which every iterate uses). -/
def Coherent (adaptive : Bool) (c : Cur) : Prop :=
  ∃ j, c.w = some j ∧ c.m = j ∧ c.sq = j ∧ c.bw = (if adaptive then j else 0)

/-- **C02(a)** For every iteration budget, score history, direction, early-stop setting and bandwidth
mode the state left by `fit` is coherent — with best-parameter restoration … -/
theorem coherent_final_state_best (cfg : Cfg EReal) (s : ℕ → ℝ) (μ : ℝ)
    (hrb : cfg.returnBest = true) (hmu : cfg.mult = ((μ : ℝ) : EReal)) :
    Coherent cfg.adaptive (fit cfg (fun n => ((s n : ℝ) : EReal))).fin := by
  obtain ⟨_, j, _, _, _, hfin, _⟩ := fit_spec cfg s μ hrb hmu
  exact ⟨j, by rw [hfin], by rw [hfin], by rw [hfin], by rw [hfin]⟩

/-- … and without it (the early-stop branch that would advance `M` past the weights is unreachable
because the best score stays `±∞`; multiplier `μ > 0`). -/
theorem coherent_final_state_last (cfg : Cfg EReal) (s : ℕ → ℝ) (μ : ℝ)
    (hrb : cfg.returnBest = false) (hmu : cfg.mult = ((μ : ℝ) : EReal)) (hμ : 0 < μ) :
    Coherent cfg.adaptive (fit cfg (fun n => ((s n : ℝ) : EReal))).fin := by
  obtain ⟨hfin, _, _⟩ := fit_last cfg s μ hrb hmu hμ
  exact ⟨cfg.iters, by rw [hfin], by rw [hfin], by rw [hfin], by rw [hfin]⟩

variable {n m : Type} [Fintype n] [DecidableEq n]

/-- **C02(b)** The ridge system is equivalent to the prediction identity at the centers. -/
theorem ridge_iff_pred (K : Matrix n n ℝ) (α Y : Matrix n m ℝ) (lam : ℝ) :
    (K + lam • (1 : Matrix n n ℝ)) * α = Y ↔ K * α = Y - lam • α := by
  rw [Matrix.add_mul, Matrix.smul_mul, Matrix.one_mul]
  constructor
  · intro h; rw [← h]; abel
  · intro h; rw [h]; abel

/-- **C02(b)** Uniqueness: for positive semi-definite `K` and `λ > 0` the ridge system has at most one
solution (per output column). -/
theorem ridge_unique (K : Matrix n n ℝ) (hK : K.PosSemidef) (lam : ℝ) (hl : 0 < lam)
    (a b y : n → ℝ)
    (ha : (K + lam • (1 : Matrix n n ℝ)) *ᵥ a = y) (hb : (K + lam • (1 : Matrix n n ℝ)) *ᵥ b = y) :
    a = b := by
  have hd : (K + lam • (1 : Matrix n n ℝ)) *ᵥ (a - b) = 0 := by
    rw [Matrix.mulVec_sub, ha, hb, sub_self]
  have hq : (a - b) ⬝ᵥ (K *ᵥ (a - b)) + lam * ((a - b) ⬝ᵥ (a - b)) = 0 := by
    have := congrArg (fun v => (a - b) ⬝ᵥ v) hd
    simpa [Matrix.add_mulVec, Matrix.smul_mulVec, dotProduct_add, dotProduct_smul] using this
  have h1 : 0 ≤ (a - b) ⬝ᵥ (K *ᵥ (a - b)) := by
    simpa using hK.dotProduct_mulVec_nonneg (a - b)
  have h2 : 0 ≤ (a - b) ⬝ᵥ (a - b) := by
    simp only [dotProduct]; exact Finset.sum_nonneg fun i _ => mul_self_nonneg _
  have h3 : (a - b) ⬝ᵥ (a - b) = 0 := by nlinarith
  have h4 : a - b = 0 := dotProduct_self_eq_zero.mp h3
  exact sub_eq_zero.mp h4

/-- Matrix (multi-output) form of `ridge_unique`. -/
theorem ridge_unique_matrix (K : Matrix n n ℝ) (hK : K.PosSemidef) (lam : ℝ) (hl : 0 < lam)
    (A B Y : Matrix n m ℝ)
    (hA : (K + lam • (1 : Matrix n n ℝ)) * A = Y) (hB : (K + lam • (1 : Matrix n n ℝ)) * B = Y) :
    A = B := by
  ext i j
  have := ridge_unique K hK lam hl (fun i => A i j) (fun i => B i j) (fun i => Y i j)
    (by ext i; have := congrFun (congrFun hA i) j; simpa [Matrix.mul_apply, Matrix.mulVec, dotProduct] using this)
    (by ext i; have := congrFun (congrFun hB i) j; simpa [Matrix.mul_apply, Matrix.mulVec, dotProduct] using this)
  exact congrFun this i

/-- Existence and uniqueness: for PSD `K` and `λ > 0` the ridge system has exactly one solution. -/
theorem ridge_exists_unique (K : Matrix n n ℝ) (hK : K.PosSemidef) (lam : ℝ) (hl : 0 < lam)
    (Y : Matrix n m ℝ) : ∃! A : Matrix n m ℝ, (K + lam • (1 : Matrix n n ℝ)) * A = Y := by
  have hinj : Function.Injective (K + lam • (1 : Matrix n n ℝ)).mulVec := fun a b h =>
    ridge_unique K hK lam hl a b _ h rfl
  have hdet := (Matrix.isUnit_iff_isUnit_det _).mp (Matrix.mulVec_injective_iff_isUnit.mp hinj)
  exact ⟨(K + lam • (1 : Matrix n n ℝ))⁻¹ * Y, Matrix.mul_nonsing_inv_cancel_left _ Y hdet,
    fun B hB => ridge_unique_matrix K hK lam hl B _ Y hB (Matrix.mul_nonsing_inv_cancel_left _ Y hdet)⟩

/-- The ridge matrix `K + λI` is positive **definite** for PSD `K` and `λ > 0` — what `torch.linalg.cholesky` needs
(so the `cholesky` solver applies to every system the property quantifies over, without its fallback). -/
theorem ridge_matrix_posDef (K : Matrix n n ℝ) (hK : K.PosSemidef) (lam : ℝ) (hl : 0 < lam) :
    (K + lam • (1 : Matrix n n ℝ)).PosDef :=
  Matrix.PosDef.posSemidef_add hK (Matrix.PosDef.smul Matrix.PosDef.one hl)

open Xrfmv.Kernel in
/-- … in particular for the Gram matrix of any centers under the Lpq Laplace kernel, `0 < q ≤ p ≤ 2`. -/
theorem ridge_matrix_posDef_lpq {p q L : ℝ} (hq : 0 < q) (hqp : q ≤ p) (hp2 : p ≤ 2) (hL : 0 < L)
    (T : Transform ℝ) {d k : ℕ} (xs : Fin k → Fin d → ℝ) (lam : ℝ) (hl : 0 < lam) :
    (gram (.lpq p q L) T xs + lam • (1 : Matrix (Fin k) (Fin k) ℝ)).PosDef :=
  ridge_matrix_posDef _ (gram_lpq_posSemidef hq hqp hp2 hL T xs) lam hl

open Xrfmv.Kernel in
/-- **C02(b), closed**: the ridge system of the stored centers under the stored transform and bandwidth
has exactly one solution for the Lpq Laplace kernel, `0 < q ≤ p ≤ 2`, `L > 0`, `λ > 0` — any centers
(repeated ones included), any transform, any number of outputs. -/
theorem ridge_exists_unique_lpq {p q L : ℝ} (hq : 0 < q) (hqp : q ≤ p) (hp2 : p ≤ 2) (hL : 0 < L)
    (T : Transform ℝ) {d k c : ℕ} (xs : Fin k → Fin d → ℝ) (lam : ℝ) (hl : 0 < lam)
    (Y : Matrix (Fin k) (Fin c) ℝ) :
    ∃! A : Matrix (Fin k) (Fin c) ℝ, (gram (.lpq p q L) T xs + lam • (1 : Matrix (Fin k) (Fin k) ℝ)) * A = Y :=
  ridge_exists_unique _ (gram_lpq_posSemidef hq hqp hp2 hL T xs) lam hl Y

open Xrfmv.Kernel in
/-- the L2 Laplace kernel (`'l2'`, the default; exponent `0 < q ≤ 2`), -/
theorem ridge_exists_unique_laplace {q L : ℝ} (hq : 0 < q) (hq2 : q ≤ 2) (hL : 0 < L)
    (T : Transform ℝ) {d k c : ℕ} (xs : Fin k → Fin d → ℝ) (lam : ℝ) (hl : 0 < lam)
    (Y : Matrix (Fin k) (Fin c) ℝ) :
    ∃! A : Matrix (Fin k) (Fin c) ℝ, (gram (.laplace q L) T xs + lam • (1 : Matrix (Fin k) (Fin k) ℝ)) * A = Y := by
  rw [gram_laplace_eq]; exact ridge_exists_unique_lpq hq hq2 le_rfl hL T xs lam hl Y

open Xrfmv.Kernel in
/-- and the product kernel (`'l1'`; exponent `0 < q ≤ 2`). -/
theorem ridge_exists_unique_product {q L : ℝ} (hq : 0 < q) (hq2 : q ≤ 2) (hL : 0 < L)
    (T : Transform ℝ) {d k c : ℕ} (xs : Fin k → Fin d → ℝ) (lam : ℝ) (hl : 0 < lam)
    (Y : Matrix (Fin k) (Fin c) ℝ) :
    ∃! A : Matrix (Fin k) (Fin c) ℝ, (gram (.product q L) T xs + lam • (1 : Matrix (Fin k) (Fin k) ℝ)) * A = Y := by
  rw [gram_product_eq hq]; exact ridge_exists_unique_lpq hq le_rfl hq2 hL T xs lam hl Y

open Xrfmv.Kernel in
/-- The sum-power kernel with a natural power (`0 < q ≤ 2`, `0 ≤ c ≤ 1`). -/
theorem ridge_exists_unique_sumPower {q L c₀ : ℝ} (hq : 0 < q) (hq2 : q ≤ 2) (hL : 0 < L) (hc0 : 0 ≤ c₀)
    (hc1 : c₀ ≤ 1) (P : ℕ) (T : Transform ℝ) {d k c : ℕ} (xs : Fin k → Fin d → ℝ) (lam : ℝ) (hl : 0 < lam)
    (Y : Matrix (Fin k) (Fin c) ℝ) :
    ∃! A : Matrix (Fin k) (Fin c) ℝ,
      (gram (.sumPower q L c₀ (P : ℝ)) T xs + lam • (1 : Matrix (Fin k) (Fin k) ℝ)) * A = Y :=
  ridge_exists_unique _ (gram_sumPower_posSemidef hq hq2 hL hc0 hc1 P T xs) lam hl Y

/-- Non-vacuity: the identity Gram matrix (distinct far-apart points) is PSD and `λ = 1e-3 > 0`. -/
example : (1 : Matrix (Fin 3) (Fin 3) ℝ).PosSemidef ∧ (0 : ℝ) < 1e-3 :=
  ⟨Matrix.PosSemidef.one, by norm_num⟩

/-! ### the solver branches as they are written (regenerated `Gen.Ridge`) -/

/-- **C02 over the regenerated solver code.**  In `RFM.fit_predictor_lstsq` as it is written now (translated into `Gen.Ridge.plan`
on every run) every solver branch — and the plan has a branch for each of `solve`, `cholesky`, `lu` — factorises the Gram matrix of
the centers with `reg` added to its diagonal, solves with the factor it has just computed, against the targets, and changes
nothing else: the system it hands to `torch.linalg` is `(K + reg·I, Y)`. -/
theorem gen_every_solver_branch_solves_the_ridge_system (K : Matrix n n ℝ) (reg : ℝ) (Y : Matrix n m ℝ) :
    (∀ s ∈ ["solve", "cholesky", "lu"], s ∈ Gen.Ridge.plan.branches.map (·.name)) ∧
    ∀ b ∈ Gen.Ridge.plan.branches,
      Ridge.systemOf Gen.Ridge.plan b K reg Y = some (K + reg • (1 : Matrix n n ℝ), Y) := by
  refine ⟨by decide, ?_⟩
  intro b hb
  simp only [Gen.Ridge.plan, List.mem_cons, List.not_mem_nil, or_false] at hb
  rcases hb with rfl | rfl | rfl <;>
    simp [Ridge.systemOf, Ridge.systemMatrix, Ridge.faithful, Gen.Ridge.plan]

/-- … hence, with `torch.linalg` modelled as an exact solve of the system it is given (`hsol`), the coefficients every solver
returns satisfy `(K + reg·I) α = Y`, and for a positive semi-definite `K` and `reg > 0` all solvers return the same `α`. -/
theorem gen_solvers_return_the_ridge_solution (K : Matrix n n ℝ) (hK : K.PosSemidef) (reg : ℝ) (hreg : 0 < reg)
    (Y : Matrix n m ℝ) (sol : String → Matrix n m ℝ)
    (hsol : ∀ b ∈ Gen.Ridge.plan.branches, ∀ A R, Ridge.systemOf Gen.Ridge.plan b K reg Y = some (A, R) → A * sol b.name = R) :
    ∀ b ∈ Gen.Ridge.plan.branches, ∀ b' ∈ Gen.Ridge.plan.branches,
      (K + reg • (1 : Matrix n n ℝ)) * sol b.name = Y ∧ sol b.name = sol b'.name := by
  intro b hb b' hb'
  have h := (gen_every_solver_branch_solves_the_ridge_system K reg Y).2
  have e := hsol b hb _ _ (h b hb)
  have e' := hsol b' hb' _ _ (h b' hb')
  exact ⟨e, ridge_unique_matrix K hK reg hreg _ _ Y e e'⟩

end Xrfmv.Props.C02
