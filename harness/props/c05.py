"""
C05 — kernel matrices match their mathematical definitions.

Proof: lean/Xrfmv/Props/C05.lean (symmetry, unit diagonal, range, light = L2, product = Lpq(q,q), row-locality,
alias table over the regenerated Gen.Alias; `C05_psd_holds`: Gram matrices are positive semi-definite for 0<q<=p<=2,
Schoenberg's theorem proved from Bernstein's representation and the Schur product theorem).

Correspondence: the real `Kernel.get_kernel_matrix` of every CPU kernel class and `RFM(kernel=<alias>).kernel`
for every alias string accepted on CPU, versus the Lean model run at Float (driver_c05, ops `kernel_matrix`,
`alias_matrix`, `aliases`).  Entries are compared under an allowance computed per entry from a forward-error
bound of the implementation's distance algorithm (DESIGN §4.3): the interval [d_lo, d_hi] that contains the
implementation's distance is pushed through the monotone profile g(d) = exp(-d^q/L^q).

Property oracle (independent of the Lean model, evaluated on the implementation's output): closed form
evaluated in numpy; for float64 Gram matrices symmetry, unit diagonal, range (0,1], lambda_min >= -allowance
(the numerical face of the proved PSD theorem), row-locality; documented alias -> documented class.
"""
import math

from harness import core

MOD = 'harness.props.c05'

QS = [0.5, 0.7, 1.0, 1.3, 1.7, 2.0]
SIZES = [1, 2, 3, 5, 8, 13, 20, 25, 26, 30, 40, 60]
KINDS = ['laplace', 'light', 'product', 'lpq', 'sum_power']
CLASS_OF_KIND = {'laplace': 'LaplaceKernel', 'light': 'LightLaplaceKernel', 'product': 'ProductLaplaceKernel',
                 'lpq': 'LpqLaplaceKernel', 'sum_power': 'SumPowerLaplaceKernel'}
KIND_OF_CLASS = {v: k for k, v in CLASS_OF_KIND.items()}
# what the documentation (docstrings of RFM.__init__ / kernel_from_str, property statement) promises
DOCUMENTED = {'laplace': 'LaplaceKernel', 'l2': 'LaplaceKernel', 'l2_high_dim': 'LightLaplaceKernel',
              'l2_light': 'LightLaplaceKernel', 'product_laplace': 'ProductLaplaceKernel', 'l1': 'ProductLaplaceKernel',
              'lpq': 'LpqLaplaceKernel', 'sum_power_laplace': 'SumPowerLaplaceKernel'}
INVALID = ['gaussian', 'rbf', '', 'L2', 'Laplace', 'laplace ', ' l2', 'l3', 'l2_', 'lpq2', 'l1_power', 'product',
           'sum_power', 'kermac', 'l2-high-dim', 'laplace,l2']


# ------------------------------------------------------------------------------------------------
# data
# ------------------------------------------------------------------------------------------------
def make_points(p):
    """x (n,d), z (m,d) float64 numpy arrays (rounded to the case's dtype), transform arrays."""
    import numpy as np
    rs = np.random.RandomState(p['seed'])
    n, m, d = p['n'], p['m'], p['d']
    scale = p.get('scale', 1.0)
    x = rs.randn(n, d) * scale
    z = rs.randn(m, d) * scale
    pts = p['points']
    if pts == 'coincident':
        # duplicates inside x, rows of z equal to rows of x, rows differing in one coordinate only
        for i in range(1, n, 3):
            x[i] = x[i - 1]
        for j in range(m):
            r = j % 3
            if r == 0:
                z[j] = x[j % n]
            elif r == 1:
                z[j] = x[j % n]
                z[j, rs.randint(d)] += rs.randn()
    elif pts == 'far':
        x[n // 2:] += 1e4
        z[: (m + 1) // 2] += 1e4
    if p.get('gram'):
        z = x.copy()
        m = n
    dt = np.float32 if p['dtype'] == 'float32' else np.float64
    x = x.astype(dt).astype(np.float64)
    z = z.astype(dt).astype(np.float64)
    tk = p['tkind']
    T = M = None
    if tk == 'diag':
        T = np.abs(rs.randn(d)) + 0.05
        if rs.rand() < 0.3:
            T[rs.randint(d)] = 0.0          # a feature switched off
        T = T.astype(dt).astype(np.float64)
        M = (T.astype(dt) * T.astype(dt)).astype(np.float64)
    elif tk == 'full':
        if p['kind'] == 'light' or p.get('symmetric'):
            A = rs.randn(d, d) / math.sqrt(d)
            T = (A @ A.T + 0.05 * np.eye(d))    # symmetric PSD root
            T = ((T + T.T) / 2).astype(dt).astype(np.float64)
            M = (T.astype(dt) @ T.astype(dt)).astype(np.float64)   # what a caller holding T passes as M
            M = (M + M.T) / 2
            M = M.astype(dt).astype(np.float64)
        else:
            dout = p.get('dout') or d
            T = (rs.randn(d, dout) / math.sqrt(d)).astype(dt).astype(np.float64)
    return x, z, T, M


def eps_of(dtype):
    return 2.0 ** -23 if dtype == 'float32' else 2.0 ** -52


# ------------------------------------------------------------------------------------------------
# closed form in numpy + allowance (interval image of the distance's forward-error interval)
# ------------------------------------------------------------------------------------------------
def transform_ref(X, tk, mat, eps):
    import numpy as np
    if tk == 'none' or mat is None:
        return X, np.zeros_like(X)
    if tk == 'diag':
        U = X * mat[None, :]
        return U, eps * np.abs(U)
    U = X @ mat
    return U, (X.shape[1] + 2) * eps * (np.abs(X) @ np.abs(mat))


def reference(p, x, z, mat, L):
    """(Kref, allow, info): float64 closed form, per-entry allowance, and the implementation's cdist mode.

    `mat` is what the kernel is given (T, or M for the light kernel)."""
    import numpy as np
    kind, q = p['kind'], p['q']
    # implementation rounds at eps(dtype); model and this reference round at eps(float64): every one of the three
    # values lies in the interval computed with the sum, so any two of them differ by at most its width
    eps = eps_of(p['dtype']) + 2.0 ** -52
    n, m = x.shape[0], z.shape[0]
    Lq = L ** q
    info = {'mode': 'exact'}
    with np.errstate(over='ignore', under='ignore', invalid='ignore', divide='ignore'):
        if kind == 'light':
            d = x.shape[1]
            xm, _ = transform_ref(x, p['tkind'], mat, 0.0)
            zm, _ = transform_ref(z, p['tkind'], mat, 0.0)
            axm, _ = transform_ref(np.abs(x), p['tkind'], None if mat is None else np.abs(mat), 0.0)
            azm, _ = transform_ref(np.abs(z), p['tkind'], None if mat is None else np.abs(mat), 0.0)
            xx = (xm * x).sum(1)
            zz = (zm * z).sum(1)
            s = xx[:, None] - 2 * xm @ z.T + zz[None, :]
            B = (axm * np.abs(x)).sum(1)[:, None] + 2 * axm @ np.abs(z).T + (azm * np.abs(z)).sum(1)[None, :]
            ds = 2 * (d + 4) * eps * B
            g = 8 * eps
            D = np.sqrt(np.maximum(s, 0))
            D_lo = np.sqrt(np.maximum(s - ds, 0)) * (1 - g)
            D_hi = np.sqrt(np.maximum(s + ds, 0)) * (1 + g)
            info['mode'] = 'expansion-M'
        else:
            U, eU = transform_ref(x, p['tkind'], mat, eps)
            V, eV = transform_ref(z, p['tkind'], mat, eps)
            dout = U.shape[1]
            A = np.abs(U[:, None, :] - V[None, :, :])
            E = eU[:, None, :] + eV[None, :, :] + eps * A
            lo = np.maximum(A - E, 0.0)
            hi = A + E
            if kind == 'sum_power':
                c, P = p['c'], p['P']
                e = np.exp(-(A ** q) / Lq).mean(-1)
                e_lo = np.exp(-(hi ** q) / Lq).mean(-1)
                e_hi = np.exp(-(lo ** q) / Lq).mean(-1)
                g = 2 * (dout + 8) * eps * max(P, 1.0)
                Kref = ((1 - c) * e + c) ** P
                K_lo = ((1 - c) * e_lo + c) ** P * (1 - g)
                K_hi = ((1 - c) * e_hi + c) ** P * (1 + g)
                allow = (K_hi - K_lo) + 16 * eps
                info['arg'] = None
                return Kref, allow, info
            pn = {'laplace': 2.0, 'product': q, 'lpq': p.get('p')}[kind]
            S = (A ** pn).sum(-1)
            S_lo = (lo ** pn).sum(-1)
            S_hi = (hi ** pn).sum(-1)
            g = 2 * (dout + 8) * eps * max(1.0, 1.0 / pn)
            D = S ** (1 / pn)
            if pn == 2.0 and (n > 25 or m > 25):
                # torch.cdist switches to ||u||^2 - 2u.v + ||v||^2 (one matmul of length dout+2)
                nu = ((np.abs(U) + eU) ** 2).sum(1)
                nv = ((np.abs(V) + eV) ** 2).sum(1)
                d2 = 2 * (dout + 4) * eps * (nu[:, None] + nv[None, :])
                D_lo = np.sqrt(np.maximum(S_lo - d2, 0)) * (1 - g)
                D_hi = np.sqrt(S_hi + d2) * (1 + g)
                info['mode'] = 'expansion'
            else:
                D_lo = S_lo ** (1 / pn) * (1 - g)
                D_hi = S_hi ** (1 / pn) * (1 + g)
        arg = D ** q / Lq
        Kref = np.exp(-arg)
        K_hi = np.exp(-(D_lo ** q) / Lq)
        K_lo = np.exp(-(D_hi ** q) / Lq)
        allow = (K_hi - K_lo) + 16 * eps
        info['arg'] = arg
    return Kref, allow, info


# ------------------------------------------------------------------------------------------------
# implementation side
# ------------------------------------------------------------------------------------------------
def build_kernel(p):
    from xrfm.rfm_src import kernels as K
    kind = p['kind']
    if kind == 'laplace':
        return K.LaplaceKernel(bandwidth=p['L'], exponent=p['q'])
    if kind == 'light':
        return K.LightLaplaceKernel(bandwidth=p['L'], exponent=p['q'])
    if kind == 'product':
        return K.ProductLaplaceKernel(bandwidth=p['L'], exponent=p['q'])
    if kind == 'lpq':
        return K.LpqLaplaceKernel(bandwidth=p['L'], p=p['p'], q=p['q'])
    return K.SumPowerLaplaceKernel(bandwidth=p['L'], exponent=p['q'], const_mix=p['c'], power=p['P'])


def tens(a, dtype):
    import torch
    if a is None:
        return None
    return torch.from_numpy(a).to(torch.float32 if dtype == 'float32' else torch.float64)


def transform_json(tk, mat):
    if tk == 'none' or mat is None:
        return None
    if tk == 'diag':
        return {'kind': 'diag', 'v': core.fl(mat)}
    return {'kind': 'full', 'cols': core.fl(mat.T)}


def run_matrix(p, drv):
    """One kernel-matrix case. Returns a result dict."""
    import numpy as np
    import torch
    res = {'family': p['family'], 'params': p, 'disagreements': [], 'failures': [], 'dist': {}}
    x, z, T, M = make_points(p)
    light = p['kind'] == 'light'
    mat = M if light else T
    tx, tz, tmat = tens(x, p['dtype']), tens(z, p['dtype']), tens(mat, p['dtype'])
    # ---- implementation ---------------------------------------------------------------------
    try:
        if p['via'] == 'alias':
            from xrfm.rfm_src import RFM
            model = RFM(kernel=p['alias'], bandwidth=p['L'], exponent=p['q'], norm_p=p.get('p'),
                        const_mix=p.get('c', 0.0), power=p.get('P', 2), device='cpu', verbose=False)
            kobj = model.kernel_obj
            if light:
                model.M = tmat
                model.sqrtM = tens(T, p['dtype'])      # must be ignored by the light kernel
            else:
                model.sqrtM = tmat
                model.M = None
            call = lambda a, b: model.kernel(a, b)
        else:
            kobj = build_kernel(p)
            call = lambda a, b: kobj.get_kernel_matrix(a, b, tmat)
        if p.get('pending'):
            kobj._reset_adaptive_bandwidth()
        x0, z0 = tx.clone(), tz.clone()
        Kt = call(tx, tz)
        if not (torch.equal(x0, tx) and torch.equal(z0, tz)):
            res['failures'].append({'signature': 'C05:inputs-modified', 'detail': 'get_kernel_matrix changed x or z in place'})
        L = float(kobj.bandwidth)       # read AFTER the call (a pending adaptation is performed by the call)
        cls = type(kobj).__name__
    except Exception as e:
        res['failures'].append({'signature': f'C05:raises:{type(e).__name__}', 'detail': f'{p["kind"]}/{p.get("alias")}: {str(e)[:300]}'})
        return res
    K = Kt.double().numpy()
    n, m = x.shape[0], z.shape[0]
    if tuple(K.shape) != (n, m):
        res['failures'].append({'signature': 'C05:wrong-shape', 'detail': f'shape {tuple(K.shape)} for n={n}, m={m}'})
        return res
    if Kt.dtype != tx.dtype:
        res['disagreements'].append({'detail': f'output dtype {Kt.dtype} for input {tx.dtype}'})
    # ---- model (driver) ----------------------------------------------------------------------
    if p['via'] == 'alias':
        qy = {'op': 'alias_matrix', 'alias': p['alias'], 'bandwidth': core.f2b(p['L']), 'exponent': core.f2b(p['q']),
              'norm_p': None if p.get('p') is None else core.f2b(p['p']), 'const_mix': core.f2b(p.get('c', 0.0)),
              'power': core.f2b(p.get('P', 2)), 'L': core.f2b(L)}
    else:
        qy = {'op': 'kernel_matrix', 'kind': p['kind'], 'L': core.f2b(L), 'q': core.f2b(p['q']),
              'p': core.f2b(p.get('p') or 0.0), 'c': core.f2b(p.get('c', 0.0)), 'P': core.f2b(p.get('P', 2))}
    qy.update({'transform': transform_json(p['tkind'], mat), 'x': core.fl(x), 'z': core.fl(z)})
    ans = drv.ask(qy)
    Kref, allow, info = reference(p, x, z, mat, L)
    if 'error' in ans:
        res['disagreements'].append({'detail': f'model rejects the case: {ans["error"]}'})
        Km = None
    else:
        Km = np.array(core.unfl(ans['K']), dtype=np.float64).reshape(n, m)
        if p['via'] == 'alias' and ans.get('cls') != cls:
            res['disagreements'].append({'detail': f'alias {p["alias"]!r}: implementation builds {cls}, Gen.Alias says {ans.get("cls")}'})
    if p['via'] == 'alias' and p['alias'] in DOCUMENTED and cls != DOCUMENTED[p['alias']]:
        res['failures'].append({'signature': 'C05:alias-wrong-class',
                                'detail': f'RFM(kernel={p["alias"]!r}) builds {cls}, documented {DOCUMENTED[p["alias"]]}'})
    # ---- comparison ---------------------------------------------------------------------------
    def worst(A, B, tol):
        with np.errstate(invalid='ignore'):
            bad = ~(np.abs(A - B) <= tol)
        if not bad.any():
            return None
        i, j = np.unravel_index(np.argmax(np.where(bad, np.abs(A - B) - tol, -np.inf)), A.shape)
        return int(i), int(j), float(A[i, j]), float(B[i, j]), float(tol[i, j])
    if Km is not None:
        w = worst(K, Km, allow)
        if w:
            res['disagreements'].append({'detail': f'entry ({w[0]},{w[1]}): implementation {w[2]!r}, model {w[3]!r}, allowance {w[4]:.3g} '
                                                   f'[{p["kind"]} via {p["via"]} {p.get("alias")}, L={L}, q={p["q"]}, p={p.get("p")}, T={p["tkind"]}, {p["dtype"]}, {info["mode"]}]'})
        w = worst(Km, Kref, allow)
        if w:
            res['disagreements'].append({'detail': f'harness reference and model differ at ({w[0]},{w[1]}): {w[2]!r} vs {w[3]!r}'})
        # the chain of tensor operations regenerated from the current `_get_kernel_matrix_impl` (Gen.KernelOps), run at Float
        if 'Kgen' in ans:
            Kg = np.array(core.unfl(ans['Kgen']), dtype=np.float64).reshape(n, m)
            res['dist']['regenerated_pipeline'] = 'compared'
            w = worst(K, Kg, allow)
            if w:
                res['disagreements'].append({'detail': f'entry ({w[0]},{w[1]}): implementation {w[2]!r}, regenerated pipeline (Gen.KernelOps) {w[3]!r}, '
                                                       f'allowance {w[4]:.3g} [{p["kind"]} via {p["via"]}, L={L}, q={p["q"]}, T={p["tkind"]}, {p["dtype"]}]'})
    # property oracle 1: the documented closed form, evaluated independently in numpy
    w = worst(K, Kref, allow)
    if w:
        res['failures'].append({'signature': f'C05:entry-differs-from-closed-form:{p["kind"]}',
                                'detail': f'entry ({w[0]},{w[1]}): implementation {w[2]!r}, closed form {w[3]!r}, allowance {w[4]:.3g}; '
                                          f'{cls} L={L} q={p["q"]} p={p.get("p")} c={p.get("c")} P={p.get("P")} T={p["tkind"]} {p["dtype"]} n={n} m={m} d={x.shape[1]}'})
    # property oracle 2 (float64): Gram-matrix consequences, directly on the implementation
    if p['dtype'] == 'float64':
        arg = info.get('arg')
        if not np.isfinite(K).all():
            res['failures'].append({'signature': 'C05:non-finite-entry', 'detail': f'{cls}: non-finite kernel value'})
        over = K > 1 + allow
        if over.any():
            i, j = np.argwhere(over)[0]
            res['failures'].append({'signature': 'C05:entry-above-one', 'detail': f'{cls}: K[{i},{j}] = {K[i, j]!r}'})
        # exact 0 only by underflow of exp: d^q/L^q > 700 (sum-power, c = 0: every coordinate term underflows)
        underflow = (arg > 700) if arg is not None else (Kref < 1e-300)
        nonpos = (K <= 0) & ~((K == 0) & underflow)
        if nonpos.any():
            i, j = np.argwhere(nonpos)[0]
            res['failures'].append({'signature': 'C05:entry-not-positive', 'detail': f'{cls}: K[{i},{j}] = {K[i, j]!r}'})
        if p.get('gram'):
            w = worst(K, K.T, allow + allow.T)
            if w:
                res['failures'].append({'signature': 'C05:asymmetric-gram', 'detail': f'{cls}: K[{w[0]},{w[1]}]={w[2]!r}, K[{w[1]},{w[0]}]={w[3]!r}, allowance {w[4]:.3g}'})
            dg = np.abs(np.diag(K) - 1.0)
            if (dg > np.diag(allow)).any():
                i = int(np.argmax(dg - np.diag(allow)))
                res['failures'].append({'signature': 'C05:diagonal-not-one', 'detail': f'{cls}: K[{i},{i}] = {K[i, i]!r}, allowance {allow[i, i]:.3g}'})
            psd_claimed = (p['kind'] in ('laplace', 'light', 'product') and p['q'] <= 2) or \
                          (p['kind'] == 'lpq' and p['q'] <= p['p'] <= 2) or \
                          (p['kind'] == 'sum_power' and p['q'] <= 2 and float(p['P']).is_integer())
            if psd_claimed and n >= 2:
                lam = float(np.linalg.eigvalsh((K + K.T) / 2).min())
                tol = float(np.linalg.norm(allow, 'fro')) + n * 1e-14
                res['dist']['psd_checked'] = True
                if lam < -tol:
                    res['failures'].append({'signature': 'C05:not-psd', 'detail': f'{cls}: lambda_min = {lam:.3e} < -{tol:.3e}, q={p["q"]}, p={p.get("p")}'})
        # row-locality: replace every other row of x, row i must not change (fixed bandwidth)
        if n >= 2 and not p.get('pending'):
            rs = np.random.RandomState(p['seed'] + 7)
            i = int(rs.randint(n))
            x2 = rs.randn(*x.shape) * p.get('scale', 1.0)
            x2[i] = x[i]
            K2 = call(tens(x2, p['dtype']), tz).double().numpy()
            exact = n <= 25 and m <= 25
            if exact:
                ok = np.array_equal(K2[i], K[i])
            else:
                ok = bool((np.abs(K2[i] - K[i]) <= 2 * allow[i]).all())
            res['dist']['row_local'] = 'bit-exact' if exact else 'allowance'
            if not ok:
                j = int(np.argmax(np.abs(K2[i] - K[i])))
                res['failures'].append({'signature': 'C05:row-depends-on-other-rows',
                                        'detail': f'{cls}: row {i} changed when the other rows of x were replaced: {K[i, j]!r} -> {K2[i, j]!r} ({"bit-exact expected" if exact else "allowance " + format(2 * allow[i, j], ".3g")})'})
    # light kernel given M = T·T  versus  L2 kernel given T (both real implementations)
    if light and p['tkind'] != 'none' and not p.get('pending'):
        from xrfm.rfm_src.kernels import LaplaceKernel
        K2 = LaplaceKernel(bandwidth=L, exponent=p['q']).get_kernel_matrix(tx, tz, tens(T, p['dtype'])).double().numpy()
        p2 = dict(p, kind='laplace')
        Kref2, allow2, _ = reference(p2, x, z, T, L)
        # M as passed is fl(T·T): the two closed forms differ by that rounding
        gap = np.abs(Kref - Kref2)
        w = worst(K, K2, allow + allow2 + gap)
        if w:
            res['failures'].append({'signature': 'C05:light-differs-from-l2',
                                    'detail': f'light(M=T@T) {w[2]!r} vs l2(T) {w[3]!r} at ({w[0]},{w[1]}), allowance {w[4]:.3g}'})
        eps = eps_of(p['dtype'])
        d = x.shape[1]
        if (gap > allow + allow2 + 64 * d * d * eps).any():
            res['disagreements'].append({'detail': f'closed forms of light(M=T·T) and l2(T) differ by {gap.max():.3g}'})
        res['dist']['light_vs_l2'] = True
    # ---- bookkeeping ----------------------------------------------------------------------------
    off = K[~np.eye(n, m, dtype=bool)] if n * m > 1 else K.ravel()
    nontriv = bool(((off > 1e-12) & (off < 1 - 1e-9)).any())
    amax = float(allow.max())
    bucket = '<1e-12' if amax < 1e-12 else '<1e-9' if amax < 1e-9 else '<1e-6' if amax < 1e-6 else '<1e-3' if amax < 1e-3 else '>=1e-3'
    res['nontrivial'] = [p['kind'], p['via'], p.get('alias'), p['dtype'], p['tkind'], p['points'], p['q'], p.get('p'), p['L'], n, m, p['seed']] if nontriv else None
    res['dist'].update({'kind': p['kind'], 'via': p['via'], 'dtype': p['dtype'], 'transform': p['tkind'], 'points': p['points'],
                        'cdist_mode': info['mode'], 'max_allowance': bucket, 'rows_vs_25': ('n>25' if n > 25 else 'n<=25') + (',m>25' if m > 25 else ',m<=25'),
                        'q': p['q']})
    if p['via'] == 'alias':
        res['dist']['alias'] = p['alias']
    res['sample'] = {'kernel': cls, 'via': p['via'], 'alias': p.get('alias'), 'L': L, 'q': p['q'], 'p': p.get('p'), 'transform': p['tkind'],
                     'dtype': p['dtype'], 'n': n, 'm': m, 'd': int(x.shape[1]), 'cdist_mode': info['mode'],
                     'impl_K00': float(K[0, 0]), 'model_K00': None if Km is None else float(Km[0, 0]),
                     'max_abs_diff': None if Km is None else float(np.nanmax(np.abs(K - Km))), 'max_allowance': amax}
    return res


def run_alias_table(p, drv):
    """Exhaustive: every string the regenerated table accepts / the implementation accepts, plus invalid strings."""
    import ast
    import inspect
    import re
    import textwrap
    from xrfm.rfm_src import RFM
    res = {'family': p['family'], 'params': p, 'disagreements': [], 'failures': [], 'dist': {}}
    ans = drv.ask({'op': 'aliases'})
    table = {a: cls for a, cls, _ in ans['aliases']}
    wiring = {a: {k: v for k, v in kw} for a, _, kw in ans['aliases']}
    # candidates: table keys, every string literal of the function, every quoted word of the docstrings, mutations
    src = textwrap.dedent(inspect.getsource(RFM.kernel_from_str))
    cands = set(table) | set(INVALID) | set(p.get('extra', []))
    for node in ast.walk(ast.parse(src)):
        if isinstance(node, ast.Constant) and isinstance(node.value, str) and len(node.value) < 40 and '\n' not in node.value:
            cands.add(node.value)
    for doc in (RFM.kernel_from_str.__doc__ or '', RFM.__init__.__doc__ or ''):
        cands.update(re.findall(r"'([A-Za-z0-9_]+)'", doc))
    for a in list(table):
        cands.update({a.upper(), a + ' ', a + '_', a[:-1], 'x' + a})
    accepted, rejected_other = {}, {}
    for s in sorted(cands):
        try:
            mdl = RFM(kernel=s, bandwidth=1.0, exponent=1.0, norm_p=2.0, device='cpu', verbose=False)
            accepted[s] = type(mdl.kernel_obj).__name__
        except ValueError:
            pass
        except Exception as e:
            rejected_other[s] = type(e).__name__
    for s in sorted(set(accepted) ^ set(table)):
        res['disagreements'].append({'detail': f'alias {s!r}: implementation {"accepts -> " + accepted[s] if s in accepted else "rejects"}, '
                                               f'Gen.Alias {"has -> " + table[s] if s in table else "has no entry"}'})
    for s in sorted(set(accepted) & set(table)):
        if accepted[s] != table[s]:
            res['disagreements'].append({'detail': f'alias {s!r}: implementation builds {accepted[s]}, Gen.Alias says {table[s]}'})
    for s, t in rejected_other.items():
        if s in table:
            res['failures'].append({'signature': f'C05:raises:{t}', 'detail': f'RFM(kernel={s!r}) raises {t}'})
        else:
            res['disagreements'].append({'detail': f'invalid kernel string {s!r} raises {t}, not ValueError'})
    for s, cls in DOCUMENTED.items():
        if s not in accepted:
            res['failures'].append({'signature': 'C05:documented-alias-rejected', 'detail': f'RFM(kernel={s!r}) is rejected'})
        elif accepted[s] != cls:
            res['failures'].append({'signature': 'C05:alias-wrong-class', 'detail': f'RFM(kernel={s!r}) builds {accepted[s]}, documented {cls}'})
    for s in INVALID:
        if s in accepted:
            res['disagreements'].append({'detail': f'string {s!r} expected to be invalid is accepted -> {accepted[s]}'})
    # parameter wiring: exponent -> exponent / q, norm_p -> p, bandwidth -> bandwidth (read back from the object)
    for s in sorted(set(accepted) & set(table)):
        mdl = RFM(kernel=s, bandwidth=3.25, exponent=0.75, norm_p=1.5, const_mix=0.125, power=3, device='cpu', verbose=False)
        k = mdl.kernel_obj
        seen = {'bandwidth': k.bandwidth, 'exponent': k.exponent, 'p': getattr(k, 'p', None),
                'const_mix': getattr(k, 'const_mix', None), 'power': getattr(k, 'power', None)}
        given = {'bandwidth': 3.25, 'exponent': 0.75, 'norm_p': 1.5, 'const_mix': 0.125, 'power': 3}
        attr = {'bandwidth': 'bandwidth', 'exponent': 'exponent', 'q': 'exponent', 'p': 'p', 'const_mix': 'const_mix', 'power': 'power'}
        for param, argname in wiring[s].items():
            if param == 'eps':
                continue
            if seen.get(attr.get(param)) != given[argname]:
                res['disagreements'].append({'detail': f'alias {s!r}: constructor parameter {param} should receive {argname}={given[argname]}, object holds {seen.get(attr.get(param))}'})
    doc_only = sorted(s for s in set(re.findall(r"'([A-Za-z0-9_]+)'", RFM.kernel_from_str.__doc__ or '')) if s not in accepted)
    res['nontrivial'] = ['alias-table', sorted(table.items())]
    res['dist'] = {'aliases_in_table': len(table), 'candidates_tried': len(cands), 'accepted': len(accepted)}
    res['sample'] = {'table': table, 'accepted': accepted, 'rejected_with_ValueError': len(cands) - len(accepted) - len(rejected_other),
                     'listed_in_docstring_but_rejected': doc_only}
    res['observations'] = {'listed_in_docstring_but_rejected': doc_only}
    return res


GUARD_GRID = [
    # (kind, params, description)
    ('laplace', dict(L=1.0, q=1.0)), ('laplace', dict(L=0.0, q=1.0)), ('laplace', dict(L=-1.0, q=1.0)), ('laplace', dict(L=1.0, q=0.0)),
    ('laplace', dict(L=1.0, q=-0.5)), ('laplace', dict(L=1.0, q=2.5)),
    ('light', dict(L=1.0, q=1.0)), ('light', dict(L=0.0, q=1.0)), ('light', dict(L=1.0, q=0.0)), ('light', dict(L=-2.0, q=-1.0)),
    ('product', dict(L=1.0, q=1.0)), ('product', dict(L=0.0, q=1.0)), ('product', dict(L=1.0, q=0.0)), ('product', dict(L=1.0, q=-1.0)),
    ('lpq', dict(L=1.0, q=1.0, p=2.0)), ('lpq', dict(L=1.0, q=1.0, p=1.0)), ('lpq', dict(L=1.0, q=1.5, p=1.0)), ('lpq', dict(L=1.0, q=1.0, p=2.5)),
    ('lpq', dict(L=1.0, q=0.0, p=1.0)), ('lpq', dict(L=1.0, q=1.0, p=0.0)), ('lpq', dict(L=0.0, q=1.0, p=1.0)), ('lpq', dict(L=1.0, q=-1.0, p=-0.5)),
    ('lpq', dict(L=1.0, q=2.0, p=2.0)), ('lpq', dict(L=1.0, q=0.5, p=0.5)),
    ('sum_power', dict(L=1.0, q=1.0, c=0.0, P=2)), ('sum_power', dict(L=1.0, q=1.0, c=0.99, P=1)), ('sum_power', dict(L=1.0, q=1.0, c=1.0, P=2)),
    ('sum_power', dict(L=1.0, q=1.0, c=-0.1, P=2)), ('sum_power', dict(L=0.0, q=1.0, c=0.0, P=2)), ('sum_power', dict(L=1.0, q=0.0, c=0.0, P=2)),
    ('sum_power', dict(L=1.0, q=1.0, c=1.5, P=2)),
]


def run_ctor_guards(p, drv):
    """What the constructors reject (AssertionError) is what the model rejects (`bad-op`), on a fixed grid."""
    res = {'family': p['family'], 'params': p, 'disagreements': [], 'failures': [], 'dist': {}}
    n_acc = 0
    for kind, kw in GUARD_GRID:
        q = dict(kind=kind, **kw)
        try:
            build_kernel(q)
            impl_ok = True
        except AssertionError:
            impl_ok = False
        except Exception as e:
            impl_ok = f'raises {type(e).__name__}'
        ans = drv.ask({'op': 'kernel_matrix', 'kind': kind, 'L': core.f2b(kw['L']), 'q': core.f2b(kw['q']), 'p': core.f2b(kw.get('p', 0.0)),
                       'c': core.f2b(kw.get('c', 0.0)), 'P': core.f2b(kw.get('P', 2)), 'transform': None,
                       'x': core.fl([[0.0, 1.0]]), 'z': core.fl([[0.5, 1.0]])})
        model_ok = 'error' not in ans
        n_acc += impl_ok is True
        if impl_ok is not model_ok:
            res['disagreements'].append({'detail': f'{kind}{kw}: implementation {"accepts" if impl_ok is True else "rejects" if impl_ok is False else impl_ok}, '
                                                   f'model {"accepts" if model_ok else ans["error"]}'})
    res['nontrivial'] = ['ctor-guards']
    res['dist'] = {'guard_grid_accepted': n_acc}
    res['sample'] = {'grid_points': len(GUARD_GRID), 'accepted': n_acc}
    return res


def execute(chunk):
    drv = core.Driver('C05')
    out = []
    try:
        for p in chunk['cases']:
            if p['family'] == 'alias-table':
                out.append(run_alias_table(p, drv))
            elif p['family'] == 'ctor-guards':
                out.append(run_ctor_guards(p, drv))
            else:
                out.append(run_matrix(p, drv))
    finally:
        drv.close()
    return out


# ------------------------------------------------------------------------------------------------
# generators
# ------------------------------------------------------------------------------------------------
def loguniform(r, lo, hi):
    return math.exp(r.uniform(math.log(lo), math.log(hi)))


def pick_pq(r, kind):
    q = r.choice(QS)
    p = None
    if kind == 'lpq':
        # p = 1 and p = 2 are special values in the code (cdist fast paths, `p != 1` guards): make them frequent for every q
        p = r.choice([q, 2.0, (q + 2.0) / 2, round(r.uniform(q, 2.0), 3), 1.0 if q <= 1.0 else 2.0])
    return q, p


def gen_matrix_case(r, family, kind, via='class', alias=None, **force):
    q, pn = pick_pq(r, kind)
    points = r.choice(['random', 'random', 'coincident', 'far', 'highdim'])
    points = force.pop('points', points)
    d = 300 if points == 'highdim' else r.randint(1, 8)
    if points == 'highdim':
        n, m = r.choice([3, 12, 24, 27, 30]), r.choice([2, 9, 25, 26, 30])
        tkind = r.choice(['none', 'diag', 'diag', 'full']) if kind != 'sum_power' else r.choice(['none', 'diag'])
    else:
        n, m = r.choice(SIZES), r.choice(SIZES)
        tkind = r.choice(['none', 'diag', 'full'])
    gram = r.random() < 0.5
    if gram:
        m = n
    L = round(loguniform(r, 1e-2, 1e2), 6)
    if points == 'highdim':
        L = round(L * math.sqrt(d), 6) if r.random() < 0.7 else L      # keep part of the values away from 0
    p = dict(family=family, kind=kind, via=via, alias=alias, dtype=r.choice(['float64', 'float64', 'float32']),
             L=L, q=q, p=pn, tkind=tkind, points=points, n=n, m=m, d=d, gram=gram,
             scale=r.choice([0.1, 1.0, 1.0, 10.0]), seed=r.randint(0, 2 ** 31 - 1))
    if kind == 'sum_power':
        p['c'] = r.choice([0.0, 0.2, 0.5, 0.9])
        p['P'] = r.choice([1, 2, 2, 3, 4, 1.5])
    if tkind == 'full' and kind != 'light' and points != 'highdim' and r.random() < 0.5:
        p['dout'] = r.randint(1, 9)         # rectangular (d_in x d_out) matrices are allowed by _transform_m
    if tkind == 'full' and kind != 'light' and r.random() < 0.25:
        p['symmetric'] = True
    p.update(force)
    if p.get('gram'):
        p['m'] = p['n']
    return p


def gen_cases(run, aliases):
    r = run.rng
    quick = run.tier == 'quick'
    cases = [dict(family='alias-table'), dict(family='ctor-guards')]
    n_class = 60 if quick else 640          # per kernel class
    n_alias = 16 if quick else 160          # per alias string
    n_light = 30 if quick else 300
    n_pend = 8 if quick else 80             # per adaptive-capable class
    for kind in KINDS:
        for _ in range(n_class):
            cases.append(gen_matrix_case(r, 'class-matrix', kind))
    for alias, cls in aliases:
        for _ in range(n_alias):
            cases.append(gen_matrix_case(r, 'alias-matrix', KIND_OF_CLASS[cls], via='alias', alias=alias))
    # light kernel given M = T·T with T symmetric PSD, compared with the L2 kernel given T
    for _ in range(n_light):
        cases.append(gen_matrix_case(r, 'light-vs-l2', 'light', tkind=r.choice(['diag', 'full', 'full']),
                                     points=r.choice(['random', 'coincident', 'far', 'random'])))
    # a call that performs the pending bandwidth adaptation uses the adapted value for every entry
    for kind in ['laplace', 'light', 'product', 'lpq']:
        for _ in range(n_pend):
            cases.append(gen_matrix_case(r, 'pending-adaptation', kind, gram=True, pending=True, n=r.choice([3, 8, 20, 30]),
                                         points=r.choice(['random', 'coincident']), dtype='float64'))
    # very tall x: crosses the 20,000-row chunking inside ProductLaplaceKernel._get_kernel_matrix_impl
    for kind in (['product'] if quick else ['product', 'product', 'laplace', 'lpq']):
        cases.append(gen_matrix_case(r, 'class-matrix', kind, n=20011 + r.randint(0, 60), m=r.choice([3, 7]), d=3, gram=False,
                                     points='random', tkind=r.choice(['diag', 'full']), dtype='float64', symmetric=False, dout=None))
    head, tail = cases[:2], cases[2:]
    r.shuffle(tail)                          # spread the expensive (d = 300) cases over the worker chunks
    return head + tail


def table_from_gen(run):
    """alias strings of the regenerated table (asked from the driver, in the parent process)"""
    drv = core.Driver('C05')
    try:
        ans = drv.ask({'op': 'aliases'})
    finally:
        drv.close()
    return [(a, cls) for a, cls, _ in ans['aliases']]


def _single_thread_blas():
    """numpy's BLAS pool (one per worker process) oversubscribes the machine; workers inherit the environment"""
    import os
    for v in ('OMP_NUM_THREADS', 'OPENBLAS_NUM_THREADS', 'MKL_NUM_THREADS'):
        os.environ[v] = '1'


def check(run):
    run.rule = ('real get_kernel_matrix of every CPU kernel class and RFM(kernel=<alias>).kernel for every alias of the regenerated '
                'table vs the Lean model at Float; per-entry allowance = interval image of the distance forward-error interval through '
                'exp(-d^q/L^q); a case is non-trivial when some off-diagonal entry lies in (1e-12, 1-1e-9)')
    run.assumptions = ['CPU only (Kermac kernels need CUDA)', 'finite inputs; rows of one common length',
                       'theorems are about exact real arithmetic: rounding is absorbed by the allowance, not modelled',
                       'positive semi-definiteness is proved at R (C05_psd_holds); on the float64 matrices the implementation returns it is checked as lambda_min >= -allowance',
                       'row-locality is claimed for a fixed bandwidth (a call performing a pending adaptation uses the adapted value for all rows)']
    _single_thread_blas()
    run.lean()
    if not run.driver_ok:
        return
    aliases = table_from_gen(run)
    cases = gen_cases(run, aliases)
    run.extra['exhaustive'] = True
    run.extra['exhaustive_part'] = 'families alias-table (all alias strings of Gen.Alias and of the source), ctor-guards (fixed grid); every alias also in alias-matrix'
    run.extra['psd'] = 'proved at R (C05_psd_holds, psd_laplace/product/light); numerically: lambda_min(K) >= -(||allowance||_F + n*1e-14) on float64 Gram matrices with 0<q<=p<=2'
    results = core.pmap(MOD, [{'cases': c} for c in core.chunks(cases, 64)])
    for r in results:
        if r.get('observations'):
            run.extra['observations'] = r['observations']
    run.absorb('c05', results)
    run.extra['matrices'] = sum(f['cases'] for k, f in run.families.items() if k not in ('alias-table', 'ctor-guards'))


def replay(run, payload):
    _single_thread_blas()
    run.lean()
    results = core.pmap(MOD, [{'cases': [payload['params']]}], workers=1)
    run.absorb('replay', results)
