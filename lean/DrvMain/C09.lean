import Xrfmv.Drv.C09

def main : IO Unit := Xrfmv.Drv.runDriver Xrfmv.Drv.C09.ops
