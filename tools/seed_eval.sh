#!/bin/bash
# usage: tools/seed_eval.sh <mutant dir with patch.diff + demo.py> <Cnn> [more props to run]
# Confirms a seeded change in a scratch worktree (tests pass, demo fails with / passes without), runs the named
# checks against it, and prints a JSON summary. Nothing in /repo is modified.
set -u
D=$(readlink -f "$1"); shift; PROPS="$@"
WT=/tmp/wt_seed_$$
BASE=$(git -C /repo rev-parse --short HEAD)
git -C /repo worktree add -q --detach "$WT" HEAD || exit 3
cd "$WT"
PYTHONPATH="$WT" timeout 300 /venv/bin/python "$D/demo.py" > /tmp/seed_demo_clean_$$.txt 2>&1; DC=$?
if ! git apply "$D/patch.diff" 2>/tmp/seed_apply_$$.txt; then echo "{\"dir\":\"$D\",\"applies\":false}"; git -C /repo worktree remove --force "$WT"; exit 0; fi
PYTHONPATH="$WT" timeout 300 /venv/bin/python "$D/demo.py" > /tmp/seed_demo_mut_$$.txt 2>&1; DM=$?
OMP_NUM_THREADS=4 PYTHONPATH="$WT" timeout 1500 /venv/bin/python -m pytest -q -p no:cacheprovider --timeout=900 -x tests > /tmp/seed_tests_$$.txt 2>&1; TS=$?
TL=$(tail -1 /tmp/seed_tests_$$.txt | tr -d '"')
RES=""
for P in $PROPS; do
  (cd ${VERIF_HOME:-/verif} && VERIF_EVIDENCE_DIR=/tmp/verif_evidence_seeded VERIF_REPO="$WT" timeout 1700 ./check "$P" --tier quick >/tmp/seed_check_$$.txt 2>/dev/null); RC=$?
  OUT=$(grep -E "^VIOLATION|^KNOWN" /tmp/seed_check_$$.txt | head -3 | tr '\n' ';' | tr -d '"')
  RES="$RES{\"prop\":\"$P\",\"exit\":$RC,\"lines\":\"$OUT\"},"
done
git -C /repo worktree remove --force "$WT"
echo "{\"dir\":\"$D\",\"base\":\"$BASE\",\"applies\":true,\"demo_clean_exit\":$DC,\"demo_mutant_exit\":$DM,\"tests_exit\":$TS,\"tests\":\"$TL\",\"checks\":[${RES%,}]}"
