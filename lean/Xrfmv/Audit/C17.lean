import Xrfmv.Props.C17
#print axioms Xrfmv.Props.C17.all_sites_seeded
#print axioms Xrfmv.Props.C17.seed_forgets_state
#print axioms Xrfmv.Props.C17.seed_forgets_history
#print axioms Xrfmv.Props.C17.fit_facts_ok
#print axioms Xrfmv.Props.C17.refit_eq_fresh
#print axioms Xrfmv.Props.C17.refit_eq_fresh_after_history
