/-
C01 — Hard-routed prediction equals the documented per-leaf kernel formula; batch independence.

Model: `Xrfmv.HardRoute` – the explicit stack traversal of `_get_leaf_groups_and_models_on_samples`, the
argsort-based restore of `_predict_tree_hard`, the chunk loop of `RFM.predict`, over the regenerated `Gen.Route`
(routing predicate `projection <= split_point`, push order, skip-empty rule).  Rows, node payloads, leaf payloads and
values are arbitrary types; every statement holds for all trees (any depth, any shape) and all batches.  The numerical
content of a leaf (`kexp`, the kernel expansion `Σ_i α_i k(x, c_i)`) is tied to the implementation by the float
correspondence; the kernel formulas themselves are C05.
-/
import Xrfmv.Lemmas.HardRoute
import Xrfmv.Gen.Chunks

namespace Xrfmv.Props.C01
open Xrfmv.HardRoute Xrfmv.Gen.Route

variable {N L X Y α : Type}

/-- The routing predicate of the code: a row goes left iff its projection is `≤` the stored threshold. -/
def goes [LE α] [DecidableLE α] [LT α] [DecidableLT α] (proj : N → X → α) (thr : N → α) : N → X → Bool :=
  fun g x => goesLeft (proj g x) (thr g)

/-- **C01 (traversal)** The iterative stack traversal terminates (by construction: well-founded on the total size of the
trees on the stack) and returns the recursive left-to-right grouping. -/
theorem groups_stack_eq_rec (gl : N → X → Bool) (t : Tree N L) (xs : List X) :
    groups gl t xs = groupsRec gl t (xs.zipIdx.map fun xi => (xi.2, xi.1)) :=
  groups_eq_rec gl t xs

/-- **C01 (formula)** For every tree, batch and leaf predictor `f` the hard-routed prediction of a tree is, row by row in
the caller's order, `f (leaf reached by following projection ≤ threshold) row`; with `f = kexp` this is the kernel
expansion of the single leaf reached. -/
theorem predict_is_leaf_formula [LE α] [DecidableLE α] [LT α] [DecidableLT α]
    (proj : N → X → α) (thr : N → α) (f : L → X → Y) (t : Tree N L) (xs : List X) :
    predictHard (goes proj thr) f t xs = xs.map fun x => f (route (goes proj thr) t x) x :=
  predictHard_eq_map _ f t xs

/-- **C01 (concatenation / splitting of batches)** -/
theorem append_hom (gl : N → X → Bool) (f : L → X → Y) (t : Tree N L) (a b : List X) :
    predictHard gl f t (a ++ b) = predictHard gl f t a ++ predictHard gl f t b := by
  simp [predictHard_eq_map]

/-- **C01 (row permutation)** Permuting the rows of the batch permutes the predictions in the same way. -/
theorem perm_equivariant (gl : N → X → Bool) (f : L → X → Y) (t : Tree N L) (xs : List X) (idx : List Nat) (d : X) :
    predictHard gl f t (idx.map fun i => xs.getD i d) =
      idx.map fun i => f (route gl t (xs.getD i d)) (xs.getD i d) := by
  simp [predictHard_eq_map, List.map_map, Function.comp_def]

/-- **C01 (batch independence)** The value returned for a row depends on that row alone: not on the other rows of the
batch, their number or their order. -/
theorem batch_independent (gl : N → X → Bool) (f : L → X → Y) (t : Tree N L) (xs : List X) (i : Nat) :
    (predictHard gl f t xs)[i]? = (xs[i]?).map fun x => f (route gl t x) x := by
  simp [predictHard_eq_map]

/-- **C01 (internal batch size)** The leaf predictor evaluated in chunks of any size `bs ≥ 1` equals the row-wise map,
provided the chunk function acts row by row (C05 `row_local`). -/
theorem internal_batch_size_irrelevant (bs : Nat) (hbs : 1 ≤ bs) (f : X → Y) (xs : List X) :
    batched bs (List.map f) xs = xs.map f :=
  batched_eq_map bs hbs f xs

/-- **C01 (every internal blocked loop, over the regenerated source)**  Every loop of the form
`for i in range(start, stop, step): … T[i : i + w] …` in `kernels.py`, `recursive_feature_machine.py` and `xrfm.py` (the batches
of `RFM.predict`, the row blocks of the product kernel, the row blocks of all categorical fast paths; inventory `Gen.Chunks`,
regenerated on every run) starts at 0, runs to the leading dimension of a tensor, and takes slices exactly as wide as its step. -/
theorem chunk_loops_are_tilings :
    Xrfmv.Gen.Chunks.loops.all (fun l => l.startZero && l.stopIsLeadingDim && l.widthEqStep && l.lowerIsLoopVar) = true := by
  decide

/-- … and such a loop — any length, any block size `≥ 1` — computes exactly the row-wise map: no row is dropped, none is
evaluated twice, and the value of a row does not depend on the block it falls in. -/
theorem tiling_is_rowwise (bs : Nat) (hbs : 1 ≤ bs) (f : X → Y) (xs : List X) :
    chunked bs bs (List.map f) xs = xs.map f :=
  batched_eq_map bs hbs f xs

/-- The two conditions are needed: slices narrower than the step drop rows (what a loop that strides by `2·bs` but slices `bs`
rows does), slices wider than the step evaluate rows twice. -/
theorem narrow_or_wide_blocks_are_not_rowwise :
    chunked 2 1 (List.map id) [0, 1, 2, 3] ≠ [0, 1, 2, 3] ∧ chunked 1 2 (List.map id) [0, 1, 2] ≠ [0, 1, 2] := by
  decide

-- non-vacuity: the inventory is not empty and contains the batch loop of `RFM.predict`
example : Xrfmv.Gen.Chunks.loops.any (fun l => l.func == "RFM.predict") = true ∧ 2 ≤ Xrfmv.Gen.Chunks.loops.length := by
  decide

/-- **C01 (ensemble)** Stacking the per-tree outputs and averaging over trees position by position is the row-wise
average of the per-tree leaf formulas, so batch independence carries over to the ensemble (`avg` = mean over trees,
followed for classification by the label decoding, both applied to one row's values only). -/
theorem ensemble_rowwise (gl : N → X → Bool) (f : L → X → Y) (avg : List Y → Y) (trees : List (Tree N L))
    (xs : List X) (d : Y) :
    ((List.range xs.length).map fun i => avg (trees.map fun t => (predictHard gl f t xs).getD i d)) =
      xs.map fun x => avg (trees.map fun t => f (route gl t x) x) := by
  apply List.ext_getElem
  · simp
  · intro i h1 h2
    have hi : i < xs.length := by simpa using h1
    simp only [List.getElem_map, List.getElem_range]
    congr 1
    apply List.map_congr_left
    intro t _
    rw [predictHard_eq_map, List.getD_eq_getElem?_getD, List.getElem?_map, List.getElem?_eq_getElem hi]
    rfl

/-- Non-vacuity: a two-level tree over `ℕ` rows (thresholds 5 and 2) and a batch with a row exactly on a threshold, which
goes left. -/
example :
    let t : Tree Nat String := .node 5 (.node 2 (.leaf "a") (.leaf "b")) (.leaf "c")
    predictHard (goes (fun _ x => x) (fun g => g)) (fun m x => (m, x)) t [7, 5, 1, 3, 2] =
      [("c", 7), ("b", 5), ("a", 1), ("b", 3), ("a", 2)] := by
  simp only [predictHard_eq_map]
  decide

end Xrfmv.Props.C01
