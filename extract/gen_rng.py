"""
Translator recipes for `Gen.Rng` (property C17): inventory, recomputed from the CURRENT sources on every run, of

  * every random-draw call site of the library with the generator it uses (`draws`), and
  * the generators that `xRFM.__init__` seeds from `random_state` (`seeds`).

Sources: every `*.py` directly under xrfm/ and xrfm/rfm_src/ EXCEPT
  - `eigenpro.py` (only reached with `method='eigenpro'`), `svd.py` (only imported by eigenpro.py) and
    `kernel_log_reg.py` (only reached with `solver='log_reg'`): none of them is on a default path and no property
    quantifies over them.  Noted, not hidden: `eigenpro.py` calls `np.random.seed(seed)` itself, i.e. it RE-SEEDS
    NumPy's global generator as a side effect and draws from it.
  - classes whose name starts with `Kermac` (GPU only) and `if __name__ == '__main__':` blocks.

Classification of a call (rules of the pass; part of the trusted base):
  torch.randperm/randn/rand/rand_like/randn_like/randint/normal/multinomial/bernoulli/poisson, Tensor.*_ samplers
      (normal_, uniform_, random_, bernoulli_, exponential_ ...), torch.nn.init.*
                                   -> torchGlobal   unless the call passes `generator=`: then explicitGenerator
  torch.lobpcg (random initial block when X is None), torch.svd_lowrank, torch.pca_lowrank (Gaussian test matrix)
                                   -> torchGlobal
  np.random.<f>(...) / numpy.random.<f>(...)
                                   -> numpyGlobal   except default_rng / RandomState / Generator / SeedSequence:
                                      entropy when called without arguments, explicitGenerator otherwise;
                                      `np.random.seed` is a seeding call, listed with generator numpyGlobal and kind "seed"
  random.<f>(...)  (the stdlib module) -> pythonGlobal  except random.Random / random.SystemRandom: entropy without
                                      arguments (SystemRandom always), explicitGenerator otherwise
  torch.Generator(...)             -> explicitGenerator (a generator object not seeded by random_state)
  <x>.seed() without argument, <x>.manual_seed(<expr mentioning time>), os.urandom, secrets.*, uuid.uuid1/uuid4,
  torch.seed(), torch.initial_seed  -> entropy
Seeding calls outside `xRFM.__init__` (`torch.manual_seed(..)`, `np.random.seed(..)`, `random.seed(..)`) are listed as
draw sites of kind "reseed" with the generator they touch: re-seeding inside the library would make results
independent of `random_state` consumption but is a process-wide side effect; there is none on the covered paths.

`seeds`: the calls under `if random_state is not None:` in `xRFM.__init__`
  random.seed -> pythonGlobal, np.random.seed -> numpyGlobal, torch.manual_seed -> torchGlobal (also seeds CUDA),
  torch.cuda.manual_seed -> torchCuda; each must be called with `random_state` itself.
"""
import ast
import os
import sys

import py2lean  # the module object whose `generate` is running (py2lean.py's __main__ block imports itself under this name)

U = py2lean.U
Unsupported = py2lean.Unsupported

SKIP_FILES = {'eigenpro.py', 'svd.py', 'kernel_log_reg.py', '__init__.py', '__about__.py'}

TORCH_SAMPLERS = {'randperm', 'randn', 'rand', 'rand_like', 'randn_like', 'randint', 'randint_like', 'normal', 'multinomial',
                  'bernoulli', 'poisson', 'rrelu', 'dropout'}
TORCH_RANDOMISED = {'lobpcg', 'svd_lowrank', 'pca_lowrank'}
TENSOR_SAMPLERS = {'normal_', 'uniform_', 'random_', 'bernoulli_', 'exponential_', 'cauchy_', 'geometric_', 'log_normal_'}
NP_CTORS = {'default_rng', 'RandomState', 'Generator', 'SeedSequence', 'PCG64', 'MT19937'}
NP_NOT_DRAWS = {'seed', 'get_state', 'set_state'}
PY_NOT_DRAWS = {'seed', 'getstate', 'setstate'}


def lean_str(s):
    return '"' + s.replace('\\', '\\\\').replace('"', '\\"') + '"'


def files(src):
    out = []
    for sub in ('xrfm', os.path.join('xrfm', 'rfm_src')):
        d = os.path.join(src.repo, sub)
        for fn in sorted(os.listdir(d)):
            if fn.endswith('.py') and fn not in SKIP_FILES:
                out.append(os.path.join(sub, fn))
    if not out:
        raise Unsupported('no source file found')
    return out


def module_aliases(tree):
    """names under which `random`, `numpy`, `torch`, `os`, `secrets`, `uuid`, `time` are imported at module level"""
    al = {}
    for n in ast.walk(tree):
        if isinstance(n, ast.Import):
            for a in n.names:
                al[(a.asname or a.name).split('.')[0]] = a.name.split('.')[0] if a.asname is None else a.name
        elif isinstance(n, ast.ImportFrom) and n.module in ('random', 'numpy.random', 'numpy', 'torch', 'os', 'secrets', 'uuid'):
            for a in n.names:       # `from random import shuffle` -> shuffle(...) is random.shuffle(...)
                al[a.asname or a.name] = f'{n.module}.{a.name}'
    return al


def scopes(tree):
    """(qualified function name, node) for every function, Kermac classes and __main__ blocks skipped."""
    out = []

    def walk_fn(fn, qual):
        out.append((qual, fn))
        for c in ast.walk(fn):
            if c is not fn and isinstance(c, (ast.FunctionDef, ast.AsyncFunctionDef)) and _parent_fn(fn, c) is fn:
                walk_fn(c, f'{qual}.{c.name}')

    for n in tree.body:
        if isinstance(n, (ast.FunctionDef, ast.AsyncFunctionDef)):
            walk_fn(n, n.name)
        elif isinstance(n, ast.ClassDef) and not n.name.startswith('Kermac'):
            for m in n.body:
                if isinstance(m, (ast.FunctionDef, ast.AsyncFunctionDef)):
                    walk_fn(m, f'{n.name}.{m.name}')
    # module-level statements (outside functions / classes / __main__ guard)
    mod_nodes = [s for s in tree.body if not isinstance(s, (ast.FunctionDef, ast.AsyncFunctionDef, ast.ClassDef))
                 and not (isinstance(s, ast.If) and '__name__' in U(s.test))]
    if mod_nodes:
        out.append(('<module>', ast.Module(body=mod_nodes, type_ignores=[])))
    return out


def _parent_fn(root, target):
    """innermost function of `root`'s subtree that contains `target` (excluding target itself)"""
    best = root
    stack = [(root, root)]
    while stack:
        n, owner = stack.pop()
        for c in ast.iter_child_nodes(n):
            if c is target:
                return owner
            stack.append((c, c if isinstance(c, (ast.FunctionDef, ast.AsyncFunctionDef)) else owner))
    return best


def own_calls(fn):
    """Call nodes of a function, not descending into nested function definitions."""
    out = []
    stack = list(ast.iter_child_nodes(fn))
    while stack:
        n = stack.pop()
        if isinstance(n, (ast.FunctionDef, ast.AsyncFunctionDef)):
            continue
        if isinstance(n, ast.Call):
            out.append(n)
        stack.extend(ast.iter_child_nodes(n))
    out.sort(key=lambda c: (c.lineno, c.col_offset))
    return out


def classify(call, al):
    """-> (generator, kind) or None.  kind in {'draw', 'reseed', 'generator-object'}"""
    f = U(call.func)
    parts = f.split('.')
    full = al.get(parts[0], None) if parts else None
    if full is not None and '.' in full:            # imported name: expand to its dotted origin
        parts = full.split('.') + parts[1:]
        f = '.'.join(parts)
        full = parts[0]
    root = {'np': 'numpy'}.get(full, full)
    has_gen = any(k.arg == 'generator' for k in call.keywords)
    mentions_time = any('time' in U(a) for a in list(call.args) + [k.value for k in call.keywords])
    # torch
    if root == 'torch':
        tail = '.'.join(parts[1:])
        if tail in TORCH_SAMPLERS or tail in TORCH_RANDOMISED:
            return ('explicitGenerator' if has_gen else 'torchGlobal', 'draw')
        if tail.startswith('nn.init.'):
            return ('explicitGenerator' if has_gen else 'torchGlobal', 'draw')
        if tail == 'Generator':
            return ('explicitGenerator', 'generator-object')
        if tail in ('seed', 'initial_seed'):
            return ('entropy', 'draw')
        if tail in ('manual_seed', 'cuda.manual_seed', 'cuda.manual_seed_all', 'random.manual_seed'):
            return ('entropy' if mentions_time else ('torchCuda' if 'cuda' in tail else 'torchGlobal'), 'reseed')
        return None
    # numpy
    if root == 'numpy' and len(parts) >= 3 and parts[1] == 'random':
        name = parts[2]
        if name in NP_CTORS:
            return ('entropy' if not call.args and not call.keywords else 'explicitGenerator', 'generator-object')
        if name == 'seed':
            return ('entropy' if (mentions_time or not call.args) else 'numpyGlobal', 'reseed')
        if name in NP_NOT_DRAWS:
            return None
        return ('numpyGlobal', 'draw')
    # python random
    if root == 'random' and len(parts) == 2:
        name = parts[1]
        if name == 'SystemRandom':
            return ('entropy', 'generator-object')
        if name == 'Random':
            return ('entropy' if not call.args else 'explicitGenerator', 'generator-object')
        if name == 'seed':
            return ('entropy' if (mentions_time or not call.args) else 'pythonGlobal', 'reseed')
        if name in PY_NOT_DRAWS:
            return None
        return ('pythonGlobal', 'draw')
    if root == 'os' and f.endswith('.urandom'):
        return ('entropy', 'draw')
    if root == 'secrets':
        return ('entropy', 'draw')
    if root == 'uuid' and parts[-1] in ('uuid1', 'uuid4'):
        return ('entropy', 'draw')
    # methods on tensors / generator objects
    if isinstance(call.func, ast.Attribute):
        m = call.func.attr
        if m in TENSOR_SAMPLERS:
            return ('explicitGenerator' if has_gen else 'torchGlobal', 'draw')
        if m == 'seed' and not call.args and not call.keywords and root is None:
            return ('entropy', 'reseed')        # generator.seed(): non-deterministic seed
        if m == 'manual_seed' and root is None and mentions_time:
            return ('entropy', 'reseed')
    return None


GEN_DECL = '''/-- Which source of randomness a call site reads (extract/gen_rng.py). -/
inductive Gen | torchGlobal | numpyGlobal | pythonGlobal | torchCuda | explicitGenerator | entropy
  deriving DecidableEq, Repr'''


def _init_seed_calls(src):
    init = src.func('xrfm/xrfm.py', 'xRFM', '__init__')
    blk = None
    for s in init.body:
        if isinstance(s, ast.If) and U(s.test) == 'random_state is not None' and not s.orelse:
            blk = s
    if blk is None:
        raise Unsupported('__init__: `if random_state is not None:` block not found')
    return init, blk


def item_seeds(src):
    _, blk = _init_seed_calls(src)
    table = {'random.seed': 'pythonGlobal', 'np.random.seed': 'numpyGlobal', 'numpy.random.seed': 'numpyGlobal',
             'torch.manual_seed': 'torchGlobal', 'torch.cuda.manual_seed': 'torchCuda',
             'torch.cuda.manual_seed_all': 'torchCuda'}
    gens = []
    for s in blk.body:
        if not (isinstance(s, ast.Expr) and isinstance(s.value, ast.Call)):
            raise Unsupported(f'__init__ seeding block: statement `{U(s)}`')
        c = s.value
        f = U(c.func)
        if f not in table:
            raise Unsupported(f'__init__ seeding block: unknown call `{f}`')
        if len(c.args) != 1 or U(c.args[0]) != 'random_state' or c.keywords:
            raise Unsupported(f'__init__ seeding block: `{U(c)}` is not seeded with random_state itself')
        if table[f] not in gens:
            gens.append(table[f])
    return ('/-- Generators that `xRFM.__init__` seeds with `random_state` (`if random_state is not None:`). -/\n'
            'def seeds : List Gen := [' + ', '.join('.' + g for g in gens) + ']')


def item_draws(src):
    init, blk = _init_seed_calls(src)
    ctor_seed_calls = {id(s.value) for s in blk.body if isinstance(s, ast.Expr)}
    rows = []
    for rel in files(src):
        tree = src.tree(rel)
        al = module_aliases(tree)
        for qual, fn in scopes(tree):
            for c in own_calls(fn):
                if id(c) in ctor_seed_calls:
                    continue
                r = classify(c, al)
                if r is None:
                    continue
                gen, kind = r
                rows.append(f'  ({lean_str(rel.split("/")[-1])}, {lean_str(qual)}, {lean_str(U(c.func))}, {lean_str(kind)}, .{gen})')
    if not rows:
        raise Unsupported('no random draw site found at all: sources not understood')
    return ('/-- Every random-draw call site on the covered paths: (file, function, call, kind, generator). -/\n'
            'def draws : List (String × String × String × String × Gen) := [\n' + ',\n'.join(rows) + ']')


def item_files(src):
    fs = [f.split('/')[-1] for f in files(src)]
    return ('/-- Files the inventory was computed from. -/\n'
            'def inventoryFiles : List String := [' + ', '.join(lean_str(f) for f in fs) + ']')


py2lean.register('Rng', 'xrfm/*.py, xrfm/rfm_src/*.py (without eigenpro.py, svd.py, kernel_log_reg.py)', [], [
    ('Gen', py2lean.const(GEN_DECL)),
    ('seeds', item_seeds),
    ('draws', item_draws),
    ('inventoryFiles', item_files),
])
