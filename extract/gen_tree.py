"""
Translator recipes for the tree logic of xrfm/xrfm.py:
  Gen.Split  <- xRFM._get_balanced_split, xRFM._build_tree
  Gen.Refill <- xRFM._refill_val_set
  Gen.Route  <- xRFM._get_leaf_groups_and_models_on_samples, xRFM._build_tree
"""
import ast

import py2lean
from py2lean import U, Tr, Unsupported, strip_doc, is_print_or_verbose

XRFM_PY = 'xrfm/xrfm.py'


def fn(src, name):
    return src.func(XRFM_PY, 'xRFM', name)


def lets(pairs, result, indent='  '):
    return ''.join(f'{indent}let {n} := {e}\n' for n, e in pairs) + f'{indent}{result}'


# ------------------------------------------------------------------------------------------------
# Gen.Split
# ------------------------------------------------------------------------------------------------
COUNT_VARS = ['overlap_count', 'remaining', 'left_unique_count', 'right_unique_count', 'overlap_start', 'overlap_end']
COUNT_FIELDS = dict(zip(COUNT_VARS, ['overlapCount', 'remaining', 'leftUnique', 'rightUnique', 'overlapStart', 'overlapEnd']))

SPLIT_DECLS = '''/-- The integer quantities computed by `_get_balanced_split`. -/
structure Counts where
  overlapCount : Int
  remaining : Int
  leftUnique : Int
  rightUnique : Int
  overlapStart : Int
  overlapEnd : Int
  deriving DecidableEq, Repr

/-- The three slices of `sorted_indices`. -/
inductive Part | leftUnique | overlap | rightUnique
  deriving DecidableEq, Repr

/-- Which mask a child's argument is indexed with. -/
inductive Side | left | right
  deriving DecidableEq, Repr

/-- Masks used for the arguments of one recursive `_build_tree` call. -/
structure ChildPlan where
  x : Side
  y : Side
  xval : Side
  yval : Side
  idx : Side
  isRootFalse : Bool
  sharesTracker : Bool
  deriving DecidableEq, Repr'''


def split_counts(src):
    f = fn(src, '_get_balanced_split')
    body = strip_doc(f.body)
    pairs = []
    env = {'n_samples': 'n_samples'}
    tr = Tr(env, num='Int')
    started = False
    for s in body:
        if isinstance(s, ast.Assign) and len(s.targets) == 1 and isinstance(s.targets[0], ast.Name):
            name = s.targets[0].id
            if name == 'overlap_count' and not started:
                if U(s.value) != 'int(round(2 * self.overlap_fraction * n_samples))':
                    raise Unsupported(f'overlap count expression `{U(s.value)}`')
                pairs.append((name, 'r'))
                env[name] = name
                started = True
                continue
            if started and name in COUNT_VARS:
                pairs.append((name, tr.num_expr(s.value)))
                env[name] = name
                continue
    have = {n for n, _ in pairs}
    if have != set(COUNT_VARS):
        raise Unsupported(f'_get_balanced_split: count variables {sorted(set(COUNT_VARS) - have)} not found')
    res = '{ ' + ', '.join(f'{COUNT_FIELDS[v]} := {v}' for v in COUNT_VARS) + ' }'
    return ('/-- Straight-line integer code of `_get_balanced_split`; `r` stands for the float expression\n'
            '`int(round(2 * self.overlap_fraction * n_samples))` (a parameter: its relation to `n_samples` is an\n'
            'hypothesis of the theorems and is checked against Python by the correspondence). -/\n'
            'def counts (n_samples r : Int) : Counts :=\n' + lets(pairs, res))


def _slice_bounds(sub, env):
    if not (isinstance(sub, ast.Subscript) and U(sub.value) == 'sorted_indices' and isinstance(sub.slice, ast.Slice)
            and sub.slice.step is None):
        raise Unsupported(f'slice `{U(sub)}`')
    tr = Tr(env, num='Int')
    lo = 'none' if sub.slice.lower is None else f'some {tr.num_expr(sub.slice.lower)}'
    hi = 'none' if sub.slice.upper is None else f'some {tr.num_expr(sub.slice.upper)}'
    return f'({lo}, {hi})'


def split_slices(src):
    f = fn(src, '_get_balanced_split')
    env = {v: f'c.{COUNT_FIELDS[v]}' for v in COUNT_VARS}
    env['n_samples'] = 'n_samples'
    names = {'left_unique_indices': 'leftUnique', 'overlap_indices': 'overlap', 'right_unique_indices': 'rightUnique'}
    got = {}
    for s in ast.walk(f):
        if isinstance(s, ast.Assign) and len(s.targets) == 1 and U(s.targets[0]) in names:
            got[names[U(s.targets[0])]] = _slice_bounds(s.value, env)
    if set(got) != set(names.values()):
        raise Unsupported('_get_balanced_split: slices not found')
    return ('/-- Bounds `(lower, upper)` of the slice of `sorted_indices` taken for each part (`none` = open end). -/\n'
            'def sliceOf (c : Counts) : Part → Option Int × Option Int\n'
            f'  | .leftUnique => {got["leftUnique"]}\n'
            f'  | .overlap => {got["overlap"]}\n'
            f'  | .rightUnique => {got["rightUnique"]}')


def split_masks(src):
    f = fn(src, '_get_balanced_split')
    names = {'left_unique_indices': '.leftUnique', 'overlap_indices': '.overlap', 'right_unique_indices': '.rightUnique'}
    parts = {'left_mask': [], 'right_mask': []}
    for s in ast.walk(f):
        if isinstance(s, ast.Assign) and len(s.targets) == 1 and isinstance(s.targets[0], ast.Subscript):
            t = s.targets[0]
            if U(t.value) in parts:
                if U(t.slice) not in names or U(s.value) != 'True':
                    raise Unsupported(f'mask assignment `{U(s)}`')
                parts[U(t.value)].append(names[U(t.slice)])
    # both masks must start from all-False
    txt = U(f)
    if 'left_mask = torch.zeros(n_samples, dtype=torch.bool' not in txt or 'right_mask = torch.zeros_like(left_mask)' not in txt:
        raise Unsupported('_get_balanced_split: mask initialisation')
    ret = [s for s in ast.walk(f) if isinstance(s, ast.Return)]
    if len(ret) != 1 or U(ret[0].value) != '(left_mask, right_mask)':
        raise Unsupported('_get_balanced_split: return value')
    return ('/-- Parts set to `True` in each returned mask (all other positions stay `False`). -/\n'
            f'def leftMaskParts : List Part := [{", ".join(parts["left_mask"])}]\n'
            f'def rightMaskParts : List Part := [{", ".join(parts["right_mask"])}]')


def split_leaf_test(src):
    f = fn(src, '_build_tree')
    body = strip_doc(f.body)
    env = {'n_samples': 'n_samples', 'self.max_leaf_size': 'max_leaf_size',
           'self.number_of_splits is None': 'splitsNone', "split_tracker['count']": 'count',
           'self.number_of_splits': 'number_of_splits'}
    tr = Tr(env, num='Int')
    for k, s in enumerate(body):
        if isinstance(s, ast.Assign) and U(s) == 'should_create_leaf = False':
            nxt = body[k + 1]
            conds = []
            node = nxt
            while isinstance(node, ast.If) and not node.orelse and len(node.body) == 1:
                conds.append(tr.bool_expr(node.test))
                node = node.body[0]
            if U(node) != 'should_create_leaf = True' or not conds:
                raise Unsupported('_build_tree: leaf test shape')
            after = body[k + 2]
            if not (isinstance(after, ast.If) and U(after.test) == 'should_create_leaf'):
                raise Unsupported('_build_tree: `if should_create_leaf:` expected')
            return ('/-- `_build_tree`: the terminal condition. -/\n'
                    'def shouldCreateLeaf (n_samples max_leaf_size : Int) (splitsNone : Bool) (count number_of_splits : Int) : Bool :=\n'
                    '  ' + ' && '.join(conds))
    raise Unsupported('_build_tree: leaf test not found')


def _leaf_block(src):
    f = fn(src, '_build_tree')
    for s in strip_doc(f.body):
        if isinstance(s, ast.If) and U(s.test) == 'should_create_leaf':
            return f, s
    raise Unsupported('_build_tree: leaf block')


def split_refill_guard(src):
    _, blk = _leaf_block(src)
    first = [s for s in blk.body if not is_print_or_verbose(s)][0]
    if not (isinstance(first, ast.If) and not first.orelse):
        raise Unsupported('_build_tree: leaf block does not start with the refill guard')
    tr = Tr({'is_root': 'isRoot'})
    inner = [s for s in first.body if not is_print_or_verbose(s)]
    if len(inner) != 1 or U(inner[0]) != 'X, y, X_val, y_val, train_indices = self._refill_val_set(X, y, X_val, y_val, train_indices)':
        raise Unsupported('_build_tree: refill call shape')
    rest = [U(s) for s in blk.body[blk.body.index(first) + 1:] if not is_print_or_verbose(s)]
    if not (len(rest) == 3 and rest[0].startswith('model = RFM(') and rest[1].startswith('model.fit((X, y), (X_val, y_val)')
            and rest[2] == "return {'type': 'leaf', 'model': model, 'train_indices': train_indices, 'is_root': is_root}"):
        raise Unsupported('_build_tree: leaf fit / return shape')
    return ('/-- `_build_tree`: a leaf refills its validation set iff this holds; the leaf model is then fitted on the\n'
            'refilled `(X, y)` against `(X_val, y_val)` and the node reports the refilled `train_indices`. -/\n'
            f'def refillWhen (isRoot : Bool) : Bool := {tr.bool_expr(first.test)}')


def split_children(src):
    f = fn(src, '_build_tree')
    body = strip_doc(f.body)
    txt = [U(s) for s in body]
    # the tracker is incremented once per split, after the leaf test and before the children are built
    try:
        k_inc = txt.index("split_tracker['count'] += 1")
    except ValueError:
        raise Unsupported('_build_tree: split counter increment')
    k_leaf = [i for i, s in enumerate(body) if isinstance(s, ast.If) and U(s.test) == 'should_create_leaf'][0]
    if not k_leaf < k_inc:
        raise Unsupported('_build_tree: counter incremented before the leaf test')
    masks = {}
    for s in body:
        if isinstance(s, ast.Assign) and isinstance(s.targets[0], ast.Tuple) and isinstance(s.value, ast.Tuple):
            for t, v in zip(s.targets[0].elts, s.value.elts):
                if isinstance(v, ast.Subscript) and U(v.slice) in ('left_mask', 'right_mask', 'left_mask_val', 'right_mask_val'):
                    masks[U(t)] = (U(v.value), U(v.slice))
    if "left_mask, right_mask = self._get_balanced_split(projections, train_median)" not in txt:
        raise Unsupported('_build_tree: balanced split call')
    if 'right_mask_val = ~left_mask_val' not in txt:
        raise Unsupported('_build_tree: right validation mask')
    side = {'left_mask': '.left', 'right_mask': '.right', 'left_mask_val': '.left', 'right_mask_val': '.right'}
    plans = {}
    order = []
    for s in body:
        if isinstance(s, ast.Assign) and isinstance(s.value, ast.Call) and U(s.value.func) == 'self._build_tree':
            c = s.value
            if len(c.args) != 4:
                raise Unsupported('_build_tree: recursive call arity')
            want_base = ['X', 'y', 'X_val', 'y_val']
            sides = []
            for a, base in zip(c.args, want_base):
                if U(a) not in masks or masks[U(a)][0] != base:
                    raise Unsupported(f'_build_tree: child argument `{U(a)}`')
                m = masks[U(a)][1]
                if base.startswith('X_val') or base.startswith('y_val'):
                    if not m.endswith('_val'):
                        raise Unsupported('_build_tree: validation argument indexed with a training mask')
                elif m.endswith('_val'):
                    raise Unsupported('_build_tree: training argument indexed with a validation mask')
                sides.append(side[m])
            kw = {k.arg: U(k.value) for k in c.keywords if k.arg}
            ti = kw.get('train_indices', '')
            if ti not in ('train_indices[left_mask]', 'train_indices[right_mask]'):
                raise Unsupported(f'_build_tree: child train_indices `{ti}`')
            idx = '.left' if 'left' in ti else '.right'
            plan = (f'{{ x := {sides[0]}, y := {sides[1]}, xval := {sides[2]}, yval := {sides[3]}, idx := {idx}, '
                    f'isRootFalse := {"true" if kw.get("is_root") == "False" else "false"}, '
                    f'sharesTracker := {"true" if kw.get("split_tracker") == "split_tracker" else "false"} }}')
            plans[U(s.targets[0])] = plan
            order.append(U(s.targets[0]))
    if order != ['left_tree', 'right_tree']:
        raise Unsupported(f'_build_tree: children built as {order}')
    ret = [s for s in body if isinstance(s, ast.Return)]
    rtxt = U(ret[-1].value)
    if "'left': left_tree" not in rtxt or "'right': right_tree" not in rtxt or "'split_point': train_median" not in rtxt \
            or "'split_direction': projection" not in rtxt:
        raise Unsupported('_build_tree: split node dictionary')
    return ('/-- `_build_tree`: how the two recursive calls index their arguments (left subtree is built first; the split\n'
            'counter is incremented once per split, before both). -/\n'
            f'def leftChild : ChildPlan := {plans["left_tree"]}\n'
            f'def rightChild : ChildPlan := {plans["right_tree"]}')


# ------------------------------------------------------------------------------------------------
# Gen.Refill
# ------------------------------------------------------------------------------------------------
def refill_items(src):
    f = fn(src, '_refill_val_set')
    body = strip_doc(f.body)
    ifs = [s for s in body if isinstance(s, ast.If)]
    if len(ifs) != 1 or ifs[0].orelse:
        raise Unsupported('_refill_val_set: guard')
    g = ifs[0]
    env = {'len(X_val)': 'lenXval', 'self.min_val_size': 'minValSize', 'len(X)': 'lenX',
           'int(len(X) * self.val_size_frac)': 'fracCount'}
    tr = Tr(env, num='Int')
    guard = tr.bool_expr(g.test)
    pairs = []
    for s in g.body:
        if isinstance(s, ast.Assign) and U(s.targets[0]) == 'num_val_to_add':
            pairs.append(('num_val_to_add', tr.num_expr(s.value)))
            env['num_val_to_add'] = 'num_val_to_add'
    if not pairs:
        raise Unsupported('_refill_val_set: num_val_to_add')
    txt = [U(s) for s in g.body]
    need = ['shuffled_indices = torch.randperm(len(X))', 'val_indices = shuffled_indices[:num_val_to_add]',
            'local_train_indices_to_keep = shuffled_indices[num_val_to_add:]',
            'X_val = torch.cat([X_val, X[val_indices]])', 'y_val = torch.cat([y_val, y[val_indices]])',
            'X = X[local_train_indices_to_keep]', 'y = y[local_train_indices_to_keep]',
            'train_indices = train_indices[local_train_indices_to_keep]']
    flags = {}
    for n in need:
        flags[n] = n in txt
    order_ok = all(flags.values()) and [txt.index(n) for n in need] == sorted(txt.index(n) for n in need)
    ret = [s for s in body if isinstance(s, ast.Return)]
    if len(ret) != 1 or U(ret[0].value) != '(X, y, X_val, y_val, train_indices)':
        raise Unsupported('_refill_val_set: return tuple')
    if not order_ok:
        raise Unsupported(f'_refill_val_set: statements changed: {[n for n, v in flags.items() if not v]}')
    a = ('/-- `_refill_val_set`: the guard under which samples are moved. -/\n'
         f'def refillGuard (lenXval minValSize : Int) : Bool := {guard}')
    b = ('/-- `_refill_val_set`: how many samples are moved; `fracCount` stands for the float expression\n'
         '`int(len(X) * self.val_size_frac)`. -/\n'
         'def numValToAdd (minValSize lenXval fracCount : Int) : Int :=\n' + lets(pairs, 'num_val_to_add'))
    c = ('/-- `_refill_val_set`: with `π = randperm(len(X))` and `k = numValToAdd`, the moved samples are `π[:k]`, the kept\n'
         'ones `π[k:]`; `X`, `y` and `train_indices` are all indexed by the kept list, the validation set is extended by\n'
         '`X[π[:k]]`, `y[π[:k]]`. -/\n'
         'def movedIsPrefix : Bool := true\ndef keptIsSuffix : Bool := true\ndef indicesFollowKept : Bool := true')
    return a, b, c


def refill_guard(src):
    return refill_items(src)[0]


def refill_num(src):
    return refill_items(src)[1]


def refill_slices(src):
    return refill_items(src)[2]


def refill_frac(src):
    f = src.func(XRFM_PY, 'xRFM', '__init__')
    for s in ast.walk(f):
        if isinstance(s, ast.Assign) and U(s.targets[0]) == 'self.val_size_frac':
            v = s.value
            if isinstance(v, ast.Constant) and isinstance(v.value, float):
                num, den = v.value.as_integer_ratio()
                # report the decimal literal as a rational num/den in lowest decimal terms
                from fractions import Fraction
                fr = Fraction(repr(v.value))
                return ('/-- `__init__`: `self.val_size_frac` as the decimal literal written in the source. -/\n'
                        f'def valSizeFracNum : Nat := {fr.numerator}\ndef valSizeFracDen : Nat := {fr.denominator}')
    raise Unsupported('__init__: val_size_frac')


def refill_minval(src):
    f = src.func(XRFM_PY, 'xRFM', '__init__')
    for s in ast.walk(f):
        if isinstance(s, ast.Assign) and U(s.targets[0]) == 'self.min_val_size':
            if U(s.value) == 'refill_size':
                return '/-- `__init__`: `self.min_val_size = refill_size`. -/\ndef minValSizeIsRefillSize : Bool := true'
    raise Unsupported('__init__: min_val_size')


# ------------------------------------------------------------------------------------------------
# Gen.Route
# ------------------------------------------------------------------------------------------------
ROUTE_DECLS = '''/-- Children of a split node. -/
inductive Side | left | right
  deriving DecidableEq, Repr'''


def route_predict(src):
    f = fn(src, '_get_leaf_groups_and_models_on_samples')
    env = {'projections': 'proj', "current_node['split_point']": 'thr'}
    tr = Tr(env, num='α')
    found = None
    for s in ast.walk(f):
        if isinstance(s, ast.Assign) and U(s.targets[0]) == 'left_mask':
            found = tr.bool_expr(s.value)
    txt = U(f)
    if found is None or 'right_mask = ~left_mask' not in txt:
        raise Unsupported('prediction routing rule')
    if "projections = current_X @ current_node['split_direction']" not in txt:
        raise Unsupported('prediction projection')
    return ('/-- `_get_leaf_groups_and_models_on_samples`: a row goes to the left child iff this holds (the right mask is\n'
            'the complement); `proj = x · split_direction`, `thr = split_point`. -/\n'
            'def goesLeft {α : Type} [LE α] [DecidableLE α] [LT α] [DecidableLT α] (proj thr : α) : Bool :=\n'
            f'  {found}')


def route_val(src):
    f = fn(src, '_build_tree')
    env = {'projections_val': 'proj', 'train_median': 'thr'}
    tr = Tr(env, num='α')
    found = None
    for s in ast.walk(f):
        if isinstance(s, ast.Assign) and U(s.targets[0]) == 'left_mask_val':
            found = tr.bool_expr(s.value)
    txt = U(f)
    if found is None or 'right_mask_val = ~left_mask_val' not in txt or 'projections_val = X_val @ projection' not in txt:
        raise Unsupported('validation routing rule')
    if 'train_median = torch.median(projections)' not in txt or 'projections = X @ projection' not in txt:
        raise Unsupported('split point definition')
    return ('/-- `_build_tree`: a validation row is given to the left subtree iff this holds; `thr = train_median =\n'
            'torch.median(X @ projection)`, the value stored as `split_point`. -/\n'
            'def valGoesLeft {α : Type} [LE α] [DecidableLE α] [LT α] [DecidableLT α] (proj thr : α) : Bool :=\n'
            f'  {found}')


def route_stack(src):
    f = fn(src, '_get_leaf_groups_and_models_on_samples')
    loop = [s for s in ast.walk(f) if isinstance(s, ast.While)]
    if len(loop) != 1 or U(loop[0].test) != 'stack':
        raise Unsupported('traversal loop')
    pushes = []
    for s in loop[0].body:
        if isinstance(s, ast.If) and 'stack.append' in U(s):
            t = U(s.test)
            if t == 'right_mask.sum() > 0':
                side, guard = '.right', True
            elif t == 'left_mask.sum() > 0':
                side, guard = '.left', True
            else:
                raise Unsupported(f'push guard `{t}`')
            call = U(s.body[0])
            m = 'right' if side == '.right' else 'left'
            want = f"stack.append((current_X[{m}_mask], current_indices[{m}_mask], current_node['{m}']))"
            if call != want:
                raise Unsupported(f'push `{call}`')
            pushes.append(side)
    if sorted(pushes) != ['.left', '.right']:
        raise Unsupported('pushes')
    txt = U(f)
    if 'current_X, current_indices, current_node = stack.pop()' not in txt:
        raise Unsupported('pop')
    if 'sample_indices = torch.arange(X.shape[0], device=self.device)' not in txt or 'stack = [(X, sample_indices, tree)]' not in txt:
        raise Unsupported('initial stack')
    return ('/-- `_get_leaf_groups_and_models_on_samples`: order in which the children are pushed on the LIFO stack; a child\n'
            'is pushed only if it receives at least one row; rows and their original positions are filtered by the same mask. -/\n'
            f'def pushOrder : List Side := [{", ".join(pushes)}]\n'
            'def skipEmptyGroups : Bool := true')


def route_restore(src):
    f = fn(src, '_predict_tree_hard')
    txt = U(f)
    need = ['X_leaf_groups, X_leaf_group_indices, leaf_nodes = self._get_leaf_groups_and_models_on_samples(X, tree)',
            'for X_leaf, leaf_node in zip(X_leaf_groups, leaf_nodes):',
            '_, sorted_indices = torch.sort(order_tensor)', 'return original_tensor[sorted_indices]',
            'order = torch.cat(X_leaf_group_indices, dim=0)',
            'return reorder_tensor(torch.cat(predictions, dim=0), order)']
    for n in need:
        if n not in txt:
            raise Unsupported(f'_predict_tree_hard: `{n}`')
    return ('/-- `_predict_tree_hard`: per-group predictions are concatenated in group order and gathered with\n'
            '`argsort` of the concatenated original positions. -/\n'
            'def restoreByArgsortOfConcat : Bool := true')


py2lean.register('Split', XRFM_PY, [], [
    ('decls', lambda s: SPLIT_DECLS),
    ('counts', split_counts),
    ('sliceOf', split_slices),
    ('maskParts', split_masks),
    ('shouldCreateLeaf', split_leaf_test),
    ('refillWhen', split_refill_guard),
    ('children', split_children),
])
py2lean.register('Refill', XRFM_PY, [], [
    ('refillGuard', refill_guard),
    ('numValToAdd', refill_num),
    ('slices', refill_slices),
    ('valSizeFrac', refill_frac),
    ('minValSize', refill_minval),
])
py2lean.register('Route', XRFM_PY, [], [
    ('decls', lambda s: ROUTE_DECLS),
    ('goesLeft', route_predict),
    ('valGoesLeft', route_val),
    ('stack', route_stack),
    ('restore', route_restore),
])
