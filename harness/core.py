"""
Shared kit of the xRFM verification harness.

  * regenerate lean/Xrfmv/Gen from /repo (extract/py2lean.py), build the Lean project, audit axioms
  * talk to the compiled Lean driver (line protocol, floats as bit patterns)
  * collect cases / disagreements / property failures, decide (DESIGN.md §4.4), write evidence
"""
import contextlib
import fcntl
import hashlib
import json
import os
import random
import re
import struct
import subprocess
import sys
import time
import traceback

VERIF = os.path.dirname(os.path.dirname(os.path.abspath(__file__)))
REPO = os.environ.get('VERIF_REPO', '/repo')
LEAN = os.path.join(VERIF, 'lean')
GEN = os.path.join(LEAN, 'Xrfmv', 'Gen')


def driver_bin(prop):
    return os.path.join(LEAN, '.lake', 'build', 'bin', f'driver_{prop.lower()}')

# evidence of runs against a seeded change (VERIF_REPO set by tools/try_patch.sh / seed_eval.sh) goes elsewhere, so that the
# committed evidence is only ever written by runs against /repo itself
EVID = os.environ.get('VERIF_EVIDENCE_DIR') or os.path.join(VERIF, 'evidence')
REPLAYS = os.path.join(EVID, 'replays')
KNOWN = os.path.join(VERIF, 'known_findings.json')
ALLOWED_AXIOMS = {'propext', 'Classical.choice', 'Quot.sound'}
FORBIDDEN = re.compile(r'\bsorry\b|\badmit\b|^\s*axiom\s|native_decide|bv_decide|implemented_by|\bunsafe\s|maxHeartbeats\s+0\b',
                       re.M)

sys.path.insert(0, os.path.join(VERIF, 'extract'))
sys.path.insert(0, REPO)


# --------------------------------------------------------------------------------------------------
# floats <-> bits
# --------------------------------------------------------------------------------------------------
def f2b(x):
    return struct.unpack('<Q', struct.pack('<d', float(x)))[0]


def b2f(n):
    return struct.unpack('<d', struct.pack('<Q', int(n)))[0]


def fl(xs):
    """nested lists/tensors of floats -> nested lists of bit patterns"""
    if hasattr(xs, 'tolist'):
        xs = xs.tolist()
    if isinstance(xs, (list, tuple)):
        return [fl(x) for x in xs]
    return f2b(xs)


def unfl(xs):
    if isinstance(xs, list):
        return [unfl(x) for x in xs]
    return b2f(xs)


# --------------------------------------------------------------------------------------------------
# Lean side
# --------------------------------------------------------------------------------------------------
@contextlib.contextmanager
def lean_lock():
    os.makedirs(os.path.join(LEAN, '.lake'), exist_ok=True)
    with open(os.path.join(LEAN, '.lake', 'verif.lock'), 'w') as lk:
        fcntl.flock(lk, fcntl.LOCK_EX)
        try:
            yield
        finally:
            fcntl.flock(lk, fcntl.LOCK_UN)


def _run(cmd, cwd=LEAN, timeout=3600):
    p = subprocess.run(cmd, cwd=cwd, stdout=subprocess.PIPE, stderr=subprocess.STDOUT, text=True, timeout=timeout)
    return p.returncode, p.stdout


def regenerate():
    """Run the translator against REPO. Returns its report (item -> status)."""
    import py2lean
    return py2lean.generate(REPO, GEN)


def lean_errors(log, limit=30):
    keep = [l for l in log.splitlines() if re.search(r'error|✖|failed', l)]
    return keep[:limit]


def build_driver(prop):
    with lean_lock():
        rc, log = _run(['lake', 'build', f'driver_{prop.lower()}'])
    return rc == 0, log


def strip_comments(text):
    text = re.sub(r'/-.*?-/', '', text, flags=re.S)
    return re.sub(r'--.*', '', text)


def forbidden_tokens():
    hits = []
    for root, _, files in os.walk(LEAN):
        if '.lake' in root:
            continue
        for fn in files:
            if fn.endswith('.lean'):
                p = os.path.join(root, fn)
                with open(p) as f:
                    body = strip_comments(f.read())
                for m in FORBIDDEN.finditer(body):
                    hits.append(f'{os.path.relpath(p, LEAN)}: {m.group(0).strip()}')
    return hits


def local_modules(root):
    """`root` and every module of this project it imports, directly or not (the theorems' own lemma files)"""
    import re
    seen, todo = [], [root]
    while todo:
        m = todo.pop()
        if m in seen:
            continue
        path = os.path.join(LEAN, *m.split('.')) + '.lean'
        if not os.path.exists(path):
            continue
        seen.append(m)
        with open(path) as fh:
            todo += re.findall(r'^import (Xrfmv\.[A-Za-z0-9_.]+)', fh.read(), flags=re.M)
    return seen


def check_proofs(prop):
    """Build Props/<prop> (theorems over the regenerated Gen) and audit axioms.

    Returns dict(ok, theorems=[(name, axioms)], errors=[...], cmd=str)."""
    mod = f'Xrfmv.Props.{prop}'
    audit = os.path.join('Xrfmv', 'Audit', f'{prop}.lean')
    res = {'ok': False, 'theorems': [], 'errors': [], 'cmd': f'cd lean && lake build {mod} && lake env lean {audit}'}
    with lean_lock():
        rc, log = _run(['lake', 'build', mod])
        if rc != 0:
            res['errors'] = lean_errors(log)
            res['log'] = log[-6000:]
            return res
        rc, out = _run(['lake', 'env', 'lean', audit])
    if rc != 0:
        res['errors'] = lean_errors(out) or [out[-500:]]
        return res
    for m in re.finditer(r"'([^']+)' depends on axioms: \[([^\]]*)\]", out.replace('\n', ' ')):
        res['theorems'].append((m.group(1), [a.strip() for a in m.group(2).split(',') if a.strip()]))
    for m in re.finditer(r"'([^']+)' does not depend on any axioms", out):
        res['theorems'].append((m.group(1), []))
    bad = [(t, [a for a in ax if a not in ALLOWED_AXIOMS]) for t, ax in res['theorems']]
    bad = [(t, a) for t, a in bad if a]
    if bad:
        res['errors'].append(f'disallowed axioms: {bad}')
    tok = forbidden_tokens()
    if tok:
        res['errors'].append(f'forbidden tokens in Lean sources: {tok[:5]}')
    n_expected = len(re.findall(r'^#print axioms', open(os.path.join(LEAN, audit)).read(), re.M))
    if len(res['theorems']) != n_expected:
        res['errors'].append(f'audit listed {len(res["theorems"])} of {n_expected} theorems')
    res['ok'] = not res['errors']
    return res


class Driver:
    """Compiled Lean model driver. `ask` is synchronous; `batch` sends many lines at once."""

    def __init__(self, prop):
        b = driver_bin(prop)
        self.p = None
        # a driver that no longer builds against the regenerated Gen must not stop the failing-input search on the
        # implementation: it answers every query with an error, the property oracles still run
        if os.environ.get(f'VERIF_DRIVER_BROKEN_{prop.upper()}') == '1':
            return
        if not os.path.exists(b):
            raise RuntimeError(f'driver binary {b} missing: run ./check --setup')
        self.p = subprocess.Popen([b], stdin=subprocess.PIPE, stdout=subprocess.PIPE, text=True, bufsize=1)

    def ask(self, obj):
        if self.p is None:
            return {'error': 'model-unavailable: the driver does not build against the regenerated Gen'}
        self.p.stdin.write(json.dumps(obj) + '\n')
        self.p.stdin.flush()
        line = self.p.stdout.readline()
        if not line:
            raise RuntimeError('driver died')
        return json.loads(line)

    def close(self):
        if self.p is None:
            return
        try:
            self.p.stdin.close()
            self.p.wait(timeout=5)
        except Exception:
            self.p.kill()


def driver_batch(prop, queries):
    if not queries:
        return []
    if os.environ.get(f'VERIF_DRIVER_BROKEN_{prop.upper()}') == '1':
        return [{'error': 'model-unavailable: the driver does not build against the regenerated Gen'} for _ in queries]
    inp = ''.join(json.dumps(q) + '\n' for q in queries)
    p = subprocess.run([driver_bin(prop)], input=inp, stdout=subprocess.PIPE, text=True)
    lines = p.stdout.splitlines()
    if len(lines) != len(queries):
        raise RuntimeError(f'driver answered {len(lines)} of {len(queries)} lines')
    return [json.loads(l) for l in lines]


# --------------------------------------------------------------------------------------------------
# parallel map over cases (each worker = fresh interpreter, torch pinned to one thread)
# --------------------------------------------------------------------------------------------------
def _worker(args):
    modname, params = args
    try:
        import importlib
        import torch
        torch.set_num_threads(1)
        if os.environ.get('VERIF_IN_POOL_WORKER') == '1':
            sys.stdout = open(os.devnull, 'w')   # the library prints progress chatter; verdict lines come from the parent only
        mod = importlib.import_module(modname)
        out = mod.execute(params)
        return out if isinstance(out, list) else [out]
    except Exception as e:  # a crash of the harness itself is an internal error, not a violation
        return [{'internal_error': f'{type(e).__name__}: {e}', 'trace': traceback.format_exc()[-2000:], 'params': params}]


def pmap(modname, params_list, workers=None):
    """Run execute() of `modname` over the parameter list in worker processes (spawned, one torch thread
    each).  A worker that dies (killed from outside, OOM) breaks the pool: unfinished chunks are re-run in a
    fresh pool, then serially, so a lost worker never hangs the check."""
    import multiprocessing as mp
    from concurrent.futures import ProcessPoolExecutor
    from concurrent.futures.process import BrokenProcessPool
    workers = workers or min(16, os.cpu_count() or 1)
    n = len(params_list)
    done = [None] * n
    if workers <= 1 or n <= 1:
        with open(os.devnull, 'w') as dn, contextlib.redirect_stdout(dn):
            for i, p in enumerate(params_list):
                done[i] = _worker((modname, p))
        return [r for rs in done for r in rs]
    pending = list(range(n))
    for attempt in range(3):
        if not pending:
            break
        ctx = mp.get_context('spawn')
        os.environ['VERIF_IN_POOL_WORKER'] = '1'   # inherited by the spawned workers only
        try:
            with ProcessPoolExecutor(max_workers=min(workers, len(pending)), mp_context=ctx) as ex:
                futs = {i: ex.submit(_worker, (modname, params_list[i])) for i in pending}
                for i, f in futs.items():
                    try:
                        done[i] = f.result()
                    except BrokenProcessPool:
                        pass
        except BrokenProcessPool:
            pass
        finally:
            os.environ.pop('VERIF_IN_POOL_WORKER', None)
        pending = [i for i in range(n) if done[i] is None]
    with open(os.devnull, 'w') as dn, contextlib.redirect_stdout(dn):
        for i in pending:
            done[i] = _worker((modname, params_list[i]))
    return [r for rs in done for r in rs]


def chunks(xs, n):
    """split a list into about n contiguous chunks"""
    if not xs:
        return []
    k = max(1, (len(xs) + n - 1) // n)
    return [xs[i:i + k] for i in range(0, len(xs), k)]


# --------------------------------------------------------------------------------------------------
# known findings
# --------------------------------------------------------------------------------------------------
def load_known():
    if not os.path.exists(KNOWN):
        return {'open': [], 'fixed': []}
    with open(KNOWN) as f:
        return json.load(f)


# --------------------------------------------------------------------------------------------------
# one check run
# --------------------------------------------------------------------------------------------------
class Run:
    def __init__(self, prop, tier, seed):
        self.prop, self.tier, self.seed = prop, tier, seed
        self.rng = random.Random(f'{prop}:{seed}')
        self.t0 = time.time()
        self.families = {}
        self.nontrivial = set()
        self.samples = []
        self.dist = {}
        self.failures = []       # property fails on the implementation: concrete input
        self.disagreements = []  # model and implementation differ
        self.internal = []
        self.proof = None
        self.gen_report = None
        self.obligation_names = []
        self.assumptions = []
        self.rule = ''
        self.trusted = []
        self.extra = {}

    # ---- bookkeeping -------------------------------------------------------------------------
    def fam(self, name):
        return self.families.setdefault(name, {'cases': 0, 'disagreements': 0, 'failures': 0})

    def case(self, family, nontrivial_key=None, sample=None):
        self.fam(family)['cases'] += 1
        if nontrivial_key is not None:
            self.nontrivial.add(hashlib.sha1(json.dumps([family, nontrivial_key], sort_keys=True, default=str).encode()).hexdigest())
        if sample is not None and len(self.samples) < 6 and self.fam(family)['cases'] <= 2:
            self.samples.append({'family': family, 'case': sample})

    def count(self, key, sub=None, n=1):
        d = self.dist.setdefault(key, {})
        k = str(sub)
        d[k] = d.get(k, 0) + n

    def disagree(self, family, params, detail, signature=None):
        self.fam(family)['disagreements'] += 1
        self.disagreements.append({'family': family, 'params': params, 'detail': detail, 'signature': signature})

    def fail(self, family, params, detail, signature):
        """The property itself fails on the real implementation for the concrete input `params`."""
        self.fam(family)['failures'] += 1
        self.failures.append({'family': family, 'params': params, 'detail': detail, 'signature': signature})

    def absorb(self, family, results):
        """Fold worker results (dicts produced by a prop module's execute())."""
        for r in results:
            if 'internal_error' in r:
                self.internal.append(r)
                continue
            self.case(r.get('family', family), r.get('nontrivial'), r.get('sample'))
            for k, v in (r.get('dist') or {}).items():
                self.count(k, v)
            for d in r.get('disagreements', []):
                self.disagree(r.get('family', family), r.get('params'), d.get('detail'), d.get('signature'))
            for f in r.get('failures', []):
                self.fail(r.get('family', family), f.get('params', r.get('params')), f.get('detail'), f.get('signature'))

    # ---- Lean --------------------------------------------------------------------------------
    def lean(self, need_props=True):
        """Regenerate Gen from the current source, rebuild driver + this property's theorems."""
        try:
            with lean_lock():
                self.gen_report = regenerate()
        except Exception as e:
            self.gen_report = {'error': f'{type(e).__name__}: {e}'}
        ok, log = build_driver(self.prop)
        self.driver_built = ok
        self.driver_ok = True   # checks always run: with a broken driver only the property oracles can speak
        if not ok:
            self.extra['driver_build_errors'] = lean_errors(log)
            os.environ[f'VERIF_DRIVER_BROKEN_{self.prop.upper()}'] = '1'
        self.proof = check_proofs(self.prop) if need_props else {'ok': True, 'theorems': [], 'errors': [], 'cmd': ''}
        if need_props and self.tier == 'thorough' and self.proof['ok']:
            # independent re-check of the compiled theorems by the toolchain's leanchecker
            try:
                mods = local_modules(f'Xrfmv.Props.{self.prop}')
                with lean_lock():
                    rc, out = _run(['lake', 'env', 'leanchecker'] + mods, timeout=1800)
                self.extra['leanchecker'] = {'exit': rc, 'tail': out[-300:], 'modules': mods}
                if rc != 0:
                    self.proof['ok'] = False
                    self.proof['errors'].append(f'leanchecker rejected Xrfmv.Props.{self.prop}: {out[-300:]}')
            except Exception as e:  # the tool being unavailable is not a verdict
                self.extra['leanchecker'] = {'error': f'{type(e).__name__}: {e}'}
        return ok

    # ---- verdict -----------------------------------------------------------------------------
    def write_replay(self, payload):
        os.makedirs(REPLAYS, exist_ok=True)
        h = hashlib.sha1(json.dumps(payload, sort_keys=True, default=str).encode()).hexdigest()[:12]
        path = os.path.join(REPLAYS, f'{self.prop}-{h}.json')
        with open(path, 'w') as f:
            json.dump(payload, f, indent=1, default=str)
        return os.path.relpath(path, VERIF) if path.startswith(VERIF + os.sep) else path

    def unresolved(self):
        """something is no longer shown to hold (proof obligation, model build or correspondence) and no failing input
        outside the known findings has been found yet: the failing-input search should go deeper"""
        known = load_known()
        open_sigs = {e['signature'] for e in known.get('open', []) if e.get('property') == self.prop}
        if any(f['signature'] not in open_sigs for f in self.failures):
            return False
        if self.proof is not None and not self.proof['ok']:
            return True
        if getattr(self, 'driver_built', True) is False:
            return True
        return any(d.get('signature') not in open_sigs for d in self.disagreements)

    def deep_search(self, check_script, budget_s=None):
        """The quick generator found no failing input although something broke: run the thorough generator of the same
        check in a child process (own evidence directory, bounded time) and adopt the failing inputs it finds.  Finding
        none changes nothing: the verdict stays `no-failing-input-found`."""
        import glob
        import shutil
        import signal as _sig
        import tempfile
        budget_s = budget_s or int(os.environ.get('VERIF_SEARCH_BUDGET_S', '900'))
        tmp = tempfile.mkdtemp(prefix=f'verif_search_{self.prop}_')
        env = dict(os.environ, VERIF_EVIDENCE_DIR=tmp, VERIF_NO_SEARCH='1', VERIF_SEED=str(self.seed), VERIF_BUDGET_S=str(budget_s))
        info = {'tier': 'thorough', 'budget_s': budget_s, 'adopted': 0}
        t0 = time.time()
        try:
            pr = subprocess.Popen([check_script, self.prop, '--tier', 'thorough'], env=env, stdout=subprocess.DEVNULL,
                                  stderr=subprocess.DEVNULL, start_new_session=True)
            try:
                info['exit'] = pr.wait(timeout=budget_s + 30)
            except subprocess.TimeoutExpired:
                info['exit'] = 'timeout'
                try:
                    os.killpg(pr.pid, _sig.SIGKILL)
                except OSError:
                    pass
            for fn in sorted(glob.glob(os.path.join(tmp, 'replays', '*.json'))):
                try:
                    with open(fn) as fh:
                        pl = json.load(fh)
                except Exception:
                    continue
                if pl.get('kind') == 'failing-input':
                    self.fail(pl.get('family', 'deep-search'), pl.get('params'), pl.get('detail'), pl.get('signature'))
                    info['adopted'] += 1
        except Exception as e:   # the search is best effort
            info['error'] = f'{type(e).__name__}: {e}'
        finally:
            shutil.rmtree(tmp, ignore_errors=True)
        info['wall_s'] = round(time.time() - t0, 1)
        self.extra['deep_search'] = info

    def finish(self, replaying=False):
        known = load_known()
        open_sigs = {e['signature']: e for e in known.get('open', []) if e.get('property') == self.prop}
        lines = []
        violations = 0
        known_hit = {}
        reported = set()
        for f in self.failures:
            sig = f['signature']
            if sig in open_sigs:
                known_hit.setdefault(sig, f)
                continue
            if sig in reported:
                continue
            reported.add(sig)
            if len(reported) > 5:
                continue
            path = self.write_replay({'property': self.prop, 'kind': 'failing-input', 'family': f['family'],
                                      'signature': sig, 'params': f['params'], 'detail': f['detail'],
                                      'seed': self.seed, 'tier': self.tier})
            lines.append(f'VIOLATION property={self.prop} replay={path}')
            violations += 1
        for sig, f in known_hit.items():
            lines.append(f'KNOWN-FINDING: property={self.prop} {open_sigs[sig]["what"]}')
        # things no longer shown to hold although no (unlisted) failing input was found
        unexplained = [d for d in self.disagreements if not (d.get('signature') in open_sigs)]
        broken = []
        if self.proof is not None and not self.proof['ok']:
            broken.append({'kind': 'proof-obligation', 'checker_cmd': self.proof['cmd'], 'errors': self.proof['errors']})
        if getattr(self, 'driver_built', True) is False:
            broken.append({'kind': 'model-build', 'errors': self.extra.get('driver_build_errors')})
        if unexplained:
            fams = sorted({d['family'] for d in unexplained})
            broken.append({'kind': 'correspondence', 'families': fams, 'first': unexplained[:3]})
        if broken and violations == 0:
            path = self.write_replay({'property': self.prop, 'kind': 'no-failing-input-found', 'no_longer_checks': broken,
                                      'gen_report': self.gen_report, 'seed': self.seed, 'tier': self.tier})
            lines.append(f'VIOLATION property={self.prop} replay={path} no-failing-input-found')
            violations += 1
        self.write_evidence(violations, known_hit, broken)
        for l in lines:
            print(l, flush=True)
        if self.internal:
            print(f'INTERNAL-ERROR property={self.prop} {self.internal[0].get("internal_error")}', file=sys.stderr)
            print(self.internal[0].get('trace', ''), file=sys.stderr)
            return 1 if violations else 2
        return 1 if violations else 0

    def write_evidence(self, violations, known_hit, broken):
        thms = [t for t, _ in (self.proof or {}).get('theorems', [])]
        fams = sorted(self.families)
        suppressed = set()
        known = load_known()
        for e in known.get('open', []):
            if e.get('property') == self.prop and e.get('family'):
                suppressed.add(e['family'])
        fam_ok = [f for f in fams if f not in suppressed and self.families[f]['disagreements'] == 0
                  and self.families[f]['failures'] == 0]
        fam_counted = [f for f in fams if f not in suppressed]
        proof_ok = bool(self.proof and self.proof['ok'])
        n_thm = len(thms) if thms else len(self.obligation_names)
        obligations = n_thm + len(fam_counted)
        discharged = (n_thm if proof_ok else 0) + len(fam_ok)
        cov = {
            'obligations': max(obligations, 1),
            'discharged': discharged,
            'checker_cmd': (self.proof or {}).get('cmd', '') or 'cd lean && lake build',
            'trusted_base': ['Lean 4.33.0 kernel', 'axioms: propext, Classical.choice, Quot.sound (audited by #print axioms)',
                             'Mathlib v4.33.0 (single modules)', 'extract/py2lean.py (translator)',
                             'harness/ + lean/Driver.lean (correspondence check)'] + self.trusted,
            'theorems': thms,
            'theorem_axioms': {t: a for t, a in (self.proof or {}).get('theorems', [])},
            'proof_errors': (self.proof or {}).get('errors', []),
            'correspondence_families': self.families,
            'known_findings_open': sorted(known_hit),
            'evaluations': sum(f['cases'] for f in self.families.values()),
            'distinct_nontrivial': len(self.nontrivial),
            'rule': self.rule,
            'samples': self.samples or [{'note': 'no case executed'}],
            'distribution': self.dist,
            'gen_report': self.gen_report,
            'no_longer_checks': broken,
            'exhaustive': bool(self.extra.get('exhaustive', False)),
        }
        cov.update({k: v for k, v in self.extra.items() if k not in cov})
        ev = {
            'property_id': self.prop, 'tier': self.tier, 'seed': self.seed, 'level': 'proof',
            'coverage': cov, 'assumptions': self.assumptions,
            'wall_s': round(time.time() - self.t0, 2), 'violations': violations,
        }
        os.makedirs(EVID, exist_ok=True)
        tmp = os.path.join(EVID, f'.{self.prop}.json.tmp')
        with open(tmp, 'w') as f:
            json.dump(ev, f, indent=1, default=str)
        os.replace(tmp, os.path.join(EVID, f'{self.prop}.json'))
