-- Root of the library: everything `./check --setup` pre-builds.
import Xrfmv.Props.C02
import Xrfmv.Props.C03
import Xrfmv.Props.C06
import Xrfmv.Props.C09
import Xrfmv.Props.C15
import Xrfmv.Props.C16
