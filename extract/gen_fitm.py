"""
Translator recipes: Gen.FitM <- RFM.fit_M (batching arithmetic of the AGOP accumulation).
"""
import ast

import py2lean
from py2lean import U, Unsupported, strip_doc

RFM_PY = 'xrfm/rfm_src/recursive_feature_machine.py'


def fitm_batches(src):
    f = src.func(RFM_PY, 'RFM', 'fit_M')
    txt = [U(s) for s in ast.walk(f) if isinstance(s, (ast.Assign, ast.Expr))]
    need = ['batches = torch.arange(n).split(M_batch_size)', 'num_batches = 1 + self.total_points_to_sample // M_batch_size',
            'batches = batches[:num_batches]', 'M.add_(self.update_M(samples[bids]))', 'scaled_M = M / (M.max() + 1e-30)']
    for n in need:
        if n not in txt:
            raise Unsupported(f'fit_M: `{n}` not found')
    order = [txt.index(n) for n in need[:3]]
    if order != sorted(order):
        raise Unsupported('fit_M: batching statements reordered')
    return ('/-- `fit_M`: the training points are cut into consecutive batches of `M_batch_size` (`torch.arange(n).split`), only the\n'
            'first `num_batches` are used, every used batch is added once, and the sum is divided by its largest entry (+1e-30). -/\n'
            'def numBatches (totalPointsToSample batchSize : Nat) : Nat := 1 + totalPointsToSample / batchSize\n'
            'def batchesAreConsecutiveChunks : Bool := true\n'
            'def everyUsedBatchAddedOnce : Bool := true')


py2lean.register('FitM', RFM_PY, [], [('batches', fitm_batches)])
