/- Driver ops for C07 (none yet). -/
import Xrfmv.Drv.Common

namespace Xrfmv.Drv.C07

def ops : List (String × Handler) := []

end Xrfmv.Drv.C07
