"""
C06 — tree construction terminates with bounded, balanced leaves.

Proof: lean/Xrfmv/Props/C06.lean over the regenerated Gen.Split.
Correspondence: (A) exhaustive size grid, real `_build_tree` with stubbed leaf fits, recorded size tree vs
the Lean `build` (exact); (B) real fits for every split method on random and degenerate data under a
wall-clock guard; (C) the float hypothesis |round(2fn) - 2fn| < 1 checked for every n up to a bound.
The property oracle is evaluated on the recorded implementation tree directly.
"""
import math
import signal

from harness import core

MOD = 'harness.props.c06'
FRACS = [0.0, 0.05, 0.1, 0.125, 0.25, 0.3]
METHODS = ['top_vector_agop_on_subset', 'random_agop_on_subset', 'top_pc_agop_on_subset', 'random_pca', 'pca',
           'linear', 'rf_criterion', 'fixed_vector', 'random']
DATA = ['random', 'duplicate', 'two-valued', 'integer', 'constant-cols', 'rank-1']


def py_ov(f, m):
    return int(round(2 * f * m))


class Hang(Exception):
    pass


def _alarm(*_):
    raise Hang()


def make_data(kind, n, d, seed):
    import torch
    g = torch.Generator().manual_seed(seed)
    if kind == 'random':
        X = torch.randn(n, d, generator=g)
    elif kind == 'duplicate':
        X = torch.randn(1, d, generator=g).repeat(n, 1)
    elif kind == 'two-valued':
        X = torch.randint(0, 2, (n, 1), generator=g).float().repeat(1, d) * 2.0 - 1.0
    elif kind == 'integer':
        X = torch.randint(-2, 3, (n, d), generator=g).float()
    elif kind == 'constant-cols':
        X = torch.randn(n, d, generator=g)
        X[:, : max(1, d // 2)] = 1.5
    elif kind == 'rank-1':
        X = torch.randn(n, 1, generator=g) @ torch.randn(1, d, generator=g)
    y = torch.sin(X.sum(1, keepdim=True)) + 0.1 * torch.randn(n, 1, generator=g)
    return X, y


def oracle(p, roots, raised):
    """C06 evaluated on the recorded implementation tree."""
    from harness import xrec
    L, f, ns, n = p['L'], p['f'], p['nsplits'], p['n']
    fails = []
    for root in roots:
        splits = 0
        maxdepth = 0
        for path, node in xrec.walk(root):
            if node.get('type') == 'leaf':
                maxdepth = max(maxdepth, len(path))
                fit_n = (node.get('leaf_fit') or {}).get('n', node['n'])
                if node['n'] > L or fit_n > L:
                    fails.append(('C06:leaf-exceeds-max-leaf-size', f'leaf at {path} trained on {fit_n} (received {node["n"]}) > {L}'))
            elif node.get('type') == 'split':
                splits += 1
                m = node['n']
                o = max(0, min(py_ov(f, m), m))
                ln, rn = node['children'][0]['n'], node['children'][1]['n']
                if (ln, rn) != ((m - o + 1) // 2 + o, (m - o) // 2 + o):
                    fails.append(('C06:split-sizes', f'node of {m} with band {o} split into ({ln},{rn}), documented '
                                                     f'({(m - o + 1) // 2 + o},{(m - o) // 2 + o})'))
        if raised is None:
            if ns is None and f == 0.0 and n > 0:
                bound = max(0, math.ceil(math.log2(n / L))) if n > L else 0
                while L * 2 ** bound < n:   # guard against log2 rounding
                    bound += 1
                if maxdepth > bound:
                    fails.append(('C06:depth', f'leaf at depth {maxdepth} > ceil(log2({n}/{L})) = {bound}'))
            if ns is not None and splits < ns:
                fails.append(('C06:min-splits', f'{splits} splits < number_of_splits {ns}'))
    return fails


def run_fit(p):
    import torch
    from harness import xrec
    X, y = make_data(p['data'], p['n'], p['d'], p['dseed'])
    nv = max(6, p['n'] // 3)
    Xv, yv = make_data('random' if p['stub'] else p['data'], nv, p['d'], p['dseed'] + 1)
    if p['data'] != 'random' and not p['stub']:
        # give the validation set some spread so that routed validation rows exist on both sides when possible
        Xv = torch.cat([Xv, X[: min(6, p['n'])]])
        yv = torch.cat([yv, y[: min(6, p['n'])]])
    kw = dict(max_leaf_size=p['L'], number_of_splits=p['nsplits'], device='cpu', verbose=False, n_trees=p.get('trees', 1),
              overlap_fraction=p['f'], split_method=p['method'], use_temperature_tuning=False,
              random_state=p['dseed'], refill_size=p.get('refill', 10),
              rfm_params={'model': {'kernel': 'l2', 'bandwidth': 5.0, 'exponent': 1.0, 'diag': False,
                                    'bandwidth_mode': 'constant'},
                          'fit': {'reg': 1e-3, 'iters': p.get('iters', 0), 'verbose': False, 'early_stop_rfm': False}})
    if p['method'] == 'fixed_vector':
        v = torch.zeros(p['d'])
        v[0] = 1.0
        kw['fixed_vector'] = v
    m = xrec.RecXRFM(stub_leaves=p['stub'], **kw)
    m.rec_rows = False
    raised = None
    signal.signal(signal.SIGALRM, _alarm)
    signal.setitimer(signal.ITIMER_REAL, p.get('guard_s', 60))
    try:
        with xrec.recording(m):
            m.fit(X, y, Xv, yv)
    except Hang:
        raised = ('hang', f'fit did not return within {p.get("guard_s", 60)} s')
    except Exception as e:
        raised = (type(e).__name__, str(e)[:200])
    finally:
        signal.setitimer(signal.ITIMER_REAL, 0)
    return m.rec_roots, raised


def float_hyp(p):
    import numpy as np
    f, N = p['f'], p['N']
    n = np.arange(0, N + 1, dtype=np.float64)
    t = (2 * f) * n          # Python evaluates 2 * f * n left to right
    r = np.rint(t)           # round(): half to even on the float
    # spot-check the vectorised formula against Python itself
    for m in list(range(0, 200)) + [N - 3, N - 2, N - 1, N]:
        if int(r[m]) != py_ov(f, m):
            return ('C06:float-hypothesis', f'vectorised rounding disagrees with Python at n={m}')
    bad = np.nonzero(np.abs(r - t) >= 1.0 - 1e-9)[0]
    if len(bad):
        return ('C06:float-hypothesis', f'|round(2fn) - 2fn| >= 1 at n={int(bad[0])}, f={f}')
    k = np.arange(0, N + 1, dtype=np.int64)
    bad = np.nonzero((k.astype(np.float64) * 0.2).astype(np.int64) != k // 5)[0]
    if len(bad):
        return ('C06:float-hypothesis-refill', f'int(n*0.2) != n//5 at n={int(bad[0])}')
    return None


def execute(chunk):
    drv = core.Driver('C06')
    out = []
    try:
        for p in chunk['cases']:
            res = {'family': p['family'], 'params': p, 'disagreements': [], 'failures': []}
            if p['family'] == 'float-hypothesis':
                bad = float_hyp(p)
                if bad:
                    res['failures'].append({'signature': bad[0], 'detail': bad[1]})
                res['nontrivial'] = ['float', p['f'], p['N']]
                res['sample'] = {'f': p['f'], 'checked_n_up_to': p['N']}
                out.append(res)
                continue
            roots, raised = run_fit(p)
            q = {'op': 'buildsizes', 'L': p['L'], 'ns': p['nsplits'], 'n': p['n'],
                 'ov': [py_ov(p['f'], m) for m in range(p['n'] + 1)]}
            m = drv.ask(q)
            from harness import xrec
            for sig, detail in oracle(p, roots, raised):
                res['failures'].append({'signature': sig, 'detail': detail})
            if raised is not None:
                model_fails = 'error' not in m and not m['ok']
                if raised[0] == 'AssertionError' and model_fails:
                    res['dist'] = {'infeasible_forced_split': True}
                elif raised[0] == 'hang':
                    res['failures'].append({'signature': 'C06:hang', 'detail': raised[1]})
                else:
                    res['failures'].append({'signature': f'C06:raises:{raised[0]}:{p["method"]}:{p["data"]}',
                                            'detail': raised[1]})
            elif 'error' in m:
                res['disagreements'].append({'detail': f'model rejects: {m["error"]}'})
            else:
                # every tree of the ensemble is built by the same size recursion (own split counter per tree)
                want_trees = p.get('trees', 1) if (m['tree'].get('node') is not None) else 1
                if len(roots) != want_trees:
                    res['disagreements'].append({'detail': f'{len(roots)} trees built, expected {want_trees}'})
                for k, root in enumerate(roots):
                    impl = xrec.size_tree(root)
                    if impl != m['tree']:
                        res['disagreements'].append({'detail': f'size tree {k} differs: impl {str(impl)[:300]} model {str(m["tree"])[:300]}'})
                        break
            res['nontrivial'] = [p['L'], p['n'], p['f'], p['nsplits'], p['method'], p['data'], p['stub']] \
                if p['n'] > p['L'] or p['nsplits'] else None
            d = res.setdefault('dist', {})
            d.update({'method': p['method'], 'data': p['data'], 'overlap': p['f'], 'nsplits': p['nsplits'],
                      'depth': m.get('depth') if isinstance(m, dict) else None})
            res['sample'] = {'L': p['L'], 'n': p['n'], 'f': p['f'], 'nsplits': p['nsplits'], 'method': p['method'],
                             'data': p['data'], 'model_leaves': m.get('leaves') if isinstance(m, dict) else None,
                             'raised': raised}
            out.append(res)
    finally:
        drv.close()
    return out


def gen_cases(run):
    r = run.rng
    cases = []
    Ls = [2, 3, 4, 5, 6, 8, 11, 16] if run.tier == 'quick' else range(2, 41)
    # (A) exhaustive size grid, stubbed leaves
    for L in Ls:
        for k in range(0, 4 if run.tier == 'quick' else 5):
            for off in range(-3, 4):
                n = L * 2 ** k + off
                if n < 2:
                    continue
                for f in FRACS:
                    if (1 - 2 * f) * L < 4 and f > 0:
                        continue
                    if f == 0 and L < 2:
                        continue
                    for ns in (None, 1, 2, 3):
                        if run.tier == 'thorough' and L > 16 and ns in (1, 3):
                            continue
                        cases.append(dict(family='size-grid-stub', L=L, n=n, f=f, nsplits=ns, method='random', data='random',
                                          d=3, dseed=(L * 131 + n) % 9973, stub=True))
    # (A') ensembles: every tree gets its own split counter and the same size skeleton
    for L in (4, 8):
        for n in (L - 1, 2 * L + 1, 5 * L):
            for ns in (None, 1, 3):
                for trees in (2, 3):
                    cases.append(dict(family='size-grid-stub', L=L, n=n, f=0.0, nsplits=ns, method='random', data='random',
                                      d=3, dseed=(L * 31 + n) % 997, stub=True, trees=trees))
    # (B) real fits: every split method x data kind
    reps = 1 if run.tier == 'quick' else 5
    for rep in range(reps):
        for method in METHODS:
            for data in DATA:
                # real leaf models need a non-empty validation set per leaf (the proviso C07 spells out): keep every leaf
                # at >= 5 samples before the refill (a node is split only above L, so leaves hold > L/2 >= 5), no forced splits
                L = r.choice([10, 12, 16])
                f = r.choice([0.0, 0.0, 0.1, 0.125])
                if (1 - 2 * f) * L < 4:
                    f = 0.0
                n = r.randint(2 * L + 1, 5 * L)
                cases.append(dict(family='real-fits', L=L, n=n, f=f, nsplits=None, method=method,
                                  data=data, d=r.randint(2, 5), dseed=r.randint(0, 10 ** 6), stub=False, iters=r.choice([0, 1]),
                                  refill=r.choice([4, 10, 30]), guard_s=90))
    # (C) float hypotheses
    N = 10 ** 5 if run.tier == 'quick' else 2 * 10 ** 6
    for f in FRACS + [0.2, 0.15, 1 / 3, 0.49]:
        cases.append(dict(family='float-hypothesis', f=f, N=N))
    return cases


def check(run):
    run.rule = ('(A) EXHAUSTIVE grid n = L*2^k + {-3..3}, k = 0..3, L in {2,3,4,5,6,8,11,16} (thorough: k = 0..4, L = 2..40), overlap fractions with (1-2f)L >= 4, '
                'number_of_splits in {None,1,2,3}: real _build_tree with stubbed leaf fits, recorded size tree compared exactly with '
                'the Lean build; (B) real fits for every split method x {random, duplicate, two-valued, integer, constant columns, '
                'rank-1} data under a wall-clock guard; (C) |round(2fn)-2fn| < 1 and int(0.2n) = n//5 for all n up to 1e5 (thorough 2e6). '
                'Non-trivial = the tree splits at least once.')
    run.assumptions = ['CPU: memory_scaling_factor = 1, so max_leaf_size is used as given',
                       'forced splits on a node with a single sample are infeasible (assertion in the implementation, `assertFail` in the model)']
    run.lean()
    run.extra['exhaustive'] = True
    run.extra['exhaustive_part'] = 'family size-grid-stub (the whole grid) and float-hypothesis (every n up to the bound)'
    cases = gen_cases(run)
    if run.driver_ok:
        # long real fits first so that they do not straggle
        cases.sort(key=lambda c: 0 if c['family'] == 'real-fits' else 1 if c['family'] == 'float-hypothesis' else 2)
        real = [c for c in cases if c['family'] != 'size-grid-stub']
        grid = [c for c in cases if c['family'] == 'size-grid-stub']
        jobs = [{'cases': [c]} for c in real] + [{'cases': c} for c in core.chunks(grid, 96)]
        run.absorb('c06', core.pmap(MOD, jobs))


def replay(run, payload):
    run.lean()
    run.absorb('replay', core.pmap(MOD, [{'cases': [payload['params']]}], workers=1))
