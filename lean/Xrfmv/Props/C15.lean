/-
C15 — Categorical fast path equals dense evaluation on one-hot inputs.

Statements are about `Xrfmv.Categorical` (Model/Categorical.lean) at `ℝ`: `fastKernel` is
`_get_kernel_matrix_categorical_impl` (per-group tables `‖T_g(e_a) − T_g(e_b)‖_p^p` of identity code
vectors, looked up at the arg-max category of each row and added to the numerical distance), `denseKernel`
is `_get_kernel_matrix_impl` on the one-hot expanded row, `agopCat` is `get_agop_categorical`.

Unbounded: any number `d` of columns, any number of numerical columns and groups, any number of levels,
any column order (`lay.cover` is only required to be a permutation of `0..d-1`), any rows, any `p`.
Exact real arithmetic; floating-point rounding is not modelled.
-/
import Xrfmv.Lemmas.Categorical
import Xrfmv.Gen.Chunks

namespace Xrfmv.Props.C15
open Xrfmv.Categorical

/-- **C15 (mechanism 1a)** `‖u − v‖_p^p = Σ_i |u_i − v_i|^p` over all `d` coordinates is the sum of the
same quantity over the numerical block and over every categorical block, for every exponent `p` and every
partition of the columns into numerical columns and index groups. -/
theorem lp_pow_block_additive (p : ℝ) (lay : Layout) (d : ℕ) (hcover : lay.cover.Perm (List.range d))
    (u v : ℕ → ℝ) :
    lpPowRange p d u v = lpPowOver p lay.num u v + sumL (lay.groups.map fun g => lpPowOver p g u v) :=
  lpPowRange_block_additive p lay d hcover u v

/-- **C15 (mechanism 1b)** If `x_g = e_a` and `z_g = e_b` are one-hot on group `g`, the term of block `g`
in the dense computation equals `table_g[a][b]`, and the arg-max the fast path takes is `a` (resp. `b`):
the lookup hits exactly that entry.  Holds for every transform that does not mix blocks. -/
theorem onehot_lookup (p : ℝ) (lay : Layout) (d : ℕ) (hcover : lay.cover.Perm (List.range d))
    (T : Transform ℝ) (hT : NoMix lay d T) (g : List ℕ) (hg : g ∈ lay.groups) (x z : ℕ → ℝ) (a b : ℕ)
    (ha : a < g.length) (hb : b < g.length)
    (hxa : ∀ c < g.length, restrict x g c = onehot a c) (hzb : ∀ c < g.length, restrict z g c = onehot b c) :
    lpPowOver p g (applyT T d x) (applyT T d z) = table p T g a b ∧
      argmax (restrict x g) g.length = a ∧ argmax (restrict z g) g.length = b ∧
      catTerm p T x z g = table p T g a b :=
  ⟨onehot_block_term hcover hT hg p x z hxa hzb,
   by rw [argmax_congr hxa, argmax_onehot ha],
   by rw [argmax_congr hzb, argmax_onehot hb],
   catTerm_onehot p T x z g ha hb hxa hzb⟩

/-- **C15 (kernel clause; transform absent or diagonal)** For the L2, product and Lpq kernels, any
exponents with `q > 0`, any bandwidth, any layout that partitions the `d` columns, and rows that are
one-hot on every categorical group, the fast-path kernel value equals the dense kernel value on the
expanded rows. -/
theorem categorical_eq_dense (kind : Kind) (p q L : ℝ) (hq : 0 < q) (lay : Layout) (d : ℕ)
    (hcover : lay.cover.Perm (List.range d)) (T : Transform ℝ)
    (hT : T = .none ∨ ∃ v, T = .diag v) (x z : ℕ → ℝ)
    (hx : OneHotRows lay x) (hz : OneHotRows lay z) :
    fastKernel kind p q L lay T x z = denseKernel kind p q L d T x z := by
  have hmix : NoMix lay d T := by
    rcases hT with rfl | ⟨v, rfl⟩ <;> trivial
  exact fastKernel_eq_denseKernel kind p q L hq hcover hmix hx hz

/-- **C15 (kernel clause; block-diagonal transform)** The same for a full matrix whose entries between
different blocks are zero (and, through `NoMix`, for the absent and diagonal transforms): `(x·T)`
restricted to a block depends only on `x` restricted to that block. -/
theorem categorical_eq_dense_blockdiag (kind : Kind) (p q L : ℝ) (hq : 0 < q) (lay : Layout) (d : ℕ)
    (hcover : lay.cover.Perm (List.range d)) (T : Transform ℝ) (hT : NoMix lay d T) (x z : ℕ → ℝ)
    (hx : OneHotRows lay x) (hz : OneHotRows lay z) :
    fastKernel kind p q L lay T x z = denseKernel kind p q L d T x z :=
  fastKernel_eq_denseKernel kind p q L hq hcover hT hx hz

/-- **C15 (kernel clause, matrices)** Whole kernel matrices agree when every row of `xs` and `zs` is
one-hot on every group. -/
theorem categorical_matrix_eq_dense (kind : Kind) (p q L : ℝ) (hq : 0 < q) (lay : Layout) (d : ℕ)
    (hcover : lay.cover.Perm (List.range d)) (T : Transform ℝ) (hT : NoMix lay d T)
    (xs zs : List (ℕ → ℝ)) (hx : ∀ x ∈ xs, OneHotRows lay x) (hz : ∀ z ∈ zs, OneHotRows lay z) :
    fastMatrix kind p q L lay T xs zs = denseMatrix kind p q L d T xs zs := by
  unfold fastMatrix denseMatrix
  apply List.map_congr_left
  intro x hxm
  apply List.map_congr_left
  intro z hzm
  exact fastKernel_eq_denseKernel kind p q L hq hcover hT (hx x hxm) (hz z hzm)

/-- **C15 (AGOP clause)** The categorical AGOP (zeros, then one masked assignment per block) is entrywise
the dense AGOP `GᵀG` where both indices lie in one block of the layout and `0` elsewhere — for every
gradient matrix `G` (any number of rows) and every layout. -/
theorem agop_block_restriction (n : ℕ) (G : ℕ → ℕ → ℝ) (lay : Layout) (i j : ℕ) :
    agopCat n G lay i j = (if sameBlock lay i j then gram n G i j else 0) :=
  agopCat_eq_blockMask n G lay i j

/-- **C15 (AGOP clause, blocks do not overlap)** When the index groups are disjoint (no column is declared
twice) every column lies in at most one block and sharing a block is transitive: the mask of
`agop_block_restriction` is that of a block-diagonal matrix (up to the column order). -/
theorem agop_blocks_disjoint (lay : Layout) (hnd : lay.cover.Nodup) :
    (∀ B ∈ lay.blocks, ∀ B' ∈ lay.blocks, ∀ i, i ∈ B → i ∈ B' → B = B') ∧
    (∀ i j k, sameBlock lay i j = true → sameBlock lay j k = true → sameBlock lay i k = true) :=
  ⟨fun _ hB _ hB' _ hi hi' => block_unique hnd hB hB' hi hi',
   fun _ _ _ hij hjk => sameBlock_trans hnd hij hjk⟩

/-! ### Non-vacuity -/

/-- Six columns, interleaved: numerical column 2, groups `{0, 3}` and `{1, 4, 5}`. -/
def exLayout : Layout := { num := [2], groups := [[0, 3], [1, 4, 5]] }

/-- A full matrix without cross-block entries and with non-zero off-diagonal entries inside blocks. -/
noncomputable def exT : Transform ℝ :=
  .full fun i j => if sameBlock exLayout i j then (i : ℝ) + j + 1 else 0

/-- A row: numerical value `1/2`, level 1 of the first group (column 3), level 1 of the second (column 4). -/
noncomputable def exRow : ℕ → ℝ := fun i => if i = 2 then 1 / 2 else if i = 3 ∨ i = 4 then 1 else 0

/-- The hypotheses of the kernel theorems are met by a concrete non-trivial instance: a shuffled layout
that partitions the columns, a block-diagonal (non-diagonal) transform, a one-hot row. -/
example : exLayout.cover.Perm (List.range 6) ∧ NoMix exLayout 6 exT ∧ OneHotRows exLayout exRow := by
  refine ⟨by decide, ?_, ?_⟩
  · intro i j _ _ h
    simp [h]
  · intro g hg
    simp only [exLayout, List.mem_cons, List.not_mem_nil, or_false] at hg
    rcases hg with rfl | rfl
    · refine ⟨1, by decide, fun c hc => ?_⟩
      have : c = 0 ∨ c = 1 := by simp at hc; omega
      rcases this with rfl | rfl <;> simp [restrict, onehot, exRow]
    · refine ⟨1, by decide, fun c hc => ?_⟩
      have : c = 0 ∨ c = 1 ∨ c = 2 := by simp at hc; omega
      rcases this with rfl | rfl | rfl <;> simp [restrict, onehot, exRow]

/-- … and the transform really has an off-diagonal entry inside a block (it is not diagonal). -/
example : (match exT with | .full m => m 0 3 | _ => 0) = 4 := by
  simp [exT, sameBlock, exLayout, Layout.blocks]
  norm_num

/-- **C15 (row blocks of the fast paths, over the regenerated source)**  The categorical fast paths add the per-group lookup
tables to the numerical distances in row blocks (`for i in range(0, x.shape[0], batch_size): m[i:i+batch_size].add_(…)`; the
product kernel fills the numerical part in blocks of another size).  Every such loop of the regenerated inventory `Gen.Chunks`
starts at 0, runs to the number of rows and slices exactly one step: each row receives each group's table entry exactly once
(`Props/C01.tiling_is_rowwise` is the general statement about such loops). -/
theorem row_blocks_are_tilings :
    Xrfmv.Gen.Chunks.loops.all (fun l => l.startZero && l.stopIsLeadingDim && l.widthEqStep && l.lowerIsLoopVar) = true := by
  decide

end Xrfmv.Props.C15
