/-
Random number generation as explicit state (property C17, clause "same seed ⇒ same predictions no matter how much
randomness was consumed before seeding").  Mathlib-free.

The three process-global generators (`random`, `numpy.random`, torch's default CPU generator) are abstract states
`(seed, count)`: the seed last installed and the number of draws taken since.  This is the most pessimistic reading:
ANY difference in the seed or in the number of earlier draws may change every later value.  `seedAll` is what
`xRFM.__init__(random_state = s)` does — it re-seeds exactly the generators listed in the regenerated
`Gen.Rng.seeds`; `consume` is randomness taken by anybody (the caller before construction, or a draw site).
A draw site reads the one generator the regenerated inventory `Gen.Rng.draws` attributes to it; sites that would
read an explicit generator object or an entropy source observe `none`: a value that is not a function of the
seeded state.
-/
import Xrfmv.Gen.Rng

namespace Xrfmv.Rng
open Xrfmv.Gen.Rng

structure GenState where
  seed : Nat
  count : Nat
  deriving DecidableEq, Repr

structure Rng where
  torch : GenState
  numpy : GenState
  python : GenState
  deriving DecidableEq, Repr

/-- Is this one of the three modelled process-global CPU generators? -/
def isGlobal : Gen → Bool
  | .torchGlobal | .numpyGlobal | .pythonGlobal => true
  | _ => false

/-- `xRFM.__init__` with `random_state = s`: re-seeds the generators named in `seedList`. -/
def seedWith (seedList : List Gen) (s : Nat) (g : Rng) : Rng :=
  { torch := if Gen.torchGlobal ∈ seedList then ⟨s, 0⟩ else g.torch
    numpy := if Gen.numpyGlobal ∈ seedList then ⟨s, 0⟩ else g.numpy
    python := if Gen.pythonGlobal ∈ seedList then ⟨s, 0⟩ else g.python }

/-- … for the current source. -/
def seedAll (s : Nat) (g : Rng) : Rng := seedWith seeds s g

/-- `k` values drawn from generator `gen` (no effect on the three states for CUDA / explicit / entropy sources). -/
def consume (gen : Gen) (k : Nat) (g : Rng) : Rng :=
  match gen with
  | .torchGlobal => { g with torch := { g.torch with count := g.torch.count + k } }
  | .numpyGlobal => { g with numpy := { g.numpy with count := g.numpy.count + k } }
  | .pythonGlobal => { g with python := { g.python with count := g.python.count + k } }
  | _ => g

/-- What a draw from `gen` depends on: the whole state of that generator; `none` = not determined by seeded state. -/
def observe (gen : Gen) (g : Rng) : Option GenState :=
  match gen with
  | .torchGlobal => some g.torch
  | .numpyGlobal => some g.numpy
  | .pythonGlobal => some g.python
  | _ => none

/-- The values seen by a sequence of draw sites (each reads its generator, then advances it). -/
def run : List Gen → Rng → List (Option GenState)
  | [], _ => []
  | gen :: rest, g => observe gen g :: run rest (consume gen 1 g)

/-- Generator of each inventoried call site. -/
def siteGens : List Gen := draws.map (fun d => d.2.2.2.2)

end Xrfmv.Rng
