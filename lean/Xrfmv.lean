-- Root of the library: everything `./check --setup` pre-builds.
import Xrfmv.Props.C03
import Xrfmv.Props.C02
