/- Driver ops for C02: the selection state machine (shared with C03). -/
import Xrfmv.Drv.C03

namespace Xrfmv.Drv.C02

def ops : List (String × Handler) := Xrfmv.Drv.C03.ops

end Xrfmv.Drv.C02
