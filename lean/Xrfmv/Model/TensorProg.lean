/-
Element-wise tensor programs over named tensors: the meaning, on one matrix entry, of the closed-form gradient weights of
`LaplaceKernel._get_function_grad_impl` and `LightLaplaceKernel.get_function_grads` as they are written (two tensors,
`dists` and `kernel_mat`, a mask, in-place operations, products of tensors).  The programs themselves are regenerated from
the source on every run (`Xrfmv.Gen.GradOps`, `extract/gen_gradops.py`).

`Props/C04.lean` proves that the regenerated program computes the factor `−(q/L^q)·k·dist^{q−2}` of the closed-form
gradient with the coincidence mask `dist ≥ eps` (`gen_l2_weight_eq`), and `Drv/C04.lean` runs it at `Float`.
-/
import Xrfmv.Model.KernelOps

namespace Xrfmv.TensorProg
open Xrfmv Xrfmv.KernelOps

/-- One statement; every tensor has the shape of the distance matrix and statements act entry by entry. -/
inductive Stmt (α : Type)
  | powOf (dst src : String) (e : α)      -- `dst = src ** e`
  | geOf (dst src : String) (c : α)       -- `dst = src >= c`  (a 0/1 mask)
  | op (dst : String) (o : Op α)          -- `dst.<o>_(…)`
  | mulBy (dst src : String)              -- `dst.mul_(src)`

/-- the entries of the named tensors at one position -/
abbrev Env (α : Type) := String → α

def Env.set {α : Type} (ρ : Env α) (k : String) (v : α) : Env α := fun n => if n = k then v else ρ n

/-- How the returned gradient is assembled from the weight tensor `W` (named `weights`):
`einsum('li,ij,jd->ljd', coefs, W, zm) − einsum('li,ij,id->ljd', coefs, W, xm)`, i.e. `Σ_i c_li · W_ij · (zm_j − xm_i)`. -/
structure GradProg (α : Type) where
  /-- how `dists` is created (`cdist` of the transformed points / the quadratic forms of the light kernel) -/
  init : Init α
  /-- operations applied to `dists` before anything else (`clamp_(min=0)`, `sqrt_()`) -/
  prep : List (Op α)
  body : List (Stmt α)
  weights : String
  weightedDifferences : Bool

section
variable {α : Type} [Add α] [Sub α] [Mul α] [Div α] [Neg α] [OfNat α 0] [OfNat α 1] [OfNat α 2]
  [Max α] [LT α] [DecidableLT α] [HasExp α] [HasRpow α] [HasAbs α] [HasSqrt α]

def Stmt.exec (ρ : Env α) : Stmt α → Env α
  | .powOf dst src e => ρ.set dst (rpow (ρ src) e)
  | .geOf dst src c => ρ.set dst (if ρ src < c then 0 else 1)
  | .op dst o => ρ.set dst (o.apply (ρ dst))
  | .mulBy dst src => ρ.set dst (ρ dst * ρ src)

def run (body : List (Stmt α)) (ρ : Env α) : Env α := body.foldl Stmt.exec ρ

/-- the weight `W_ij` a program computes from the (prepared) distance `d` of the pair -/
def weight (g : GradProg α) (d : α) : α :=
  run g.body (fun n => if n = "dists" then runOps g.prep d else 0) g.weights

end
end Xrfmv.TensorProg
