/-
Entry-wise tensor expressions: the meaning, on one (center, query point[, coordinate]) position, of the `forward_func` closures that
the autograd-based gradient routines differentiate (`ProductLaplaceKernel`, `LpqLaplaceKernel`, `SumPowerLaplaceKernel`:
`_get_function_grad_impl`).  The expressions are regenerated from the source on every run (`Xrfmv.Gen.FwdOps`,
`extract/gen_fwdops.py`).  `Props/C04.lean` proves that, away from the coincidence masks, the regenerated closure evaluates the
closed-form kernel of `Model/Grad.lean` — the function whose derivative `C04_full_holds` is about — and that a masked pair (resp.
coordinate) contributes a constant; `torch.func.jacrev` / `torch.autograd` themselves are trusted.
-/
import Xrfmv.Model.KernelOps

namespace Xrfmv.FwdProg
open Xrfmv Xrfmv.KernelOps

/-- an expression over named tensors of one common shape, evaluated position by position -/
inductive TE (α : Type)
  | var (n : String)
  | sc (c : α)                          -- a Python scalar
  | add (a b : TE α)
  | sub (a b : TE α)
  | mul (a b : TE α)
  | div (a b : TE α)
  | powS (a : TE α) (e : α)             -- `a ** e`, `a.pow(e)`
  | exp (a : TE α)
  | abs (a : TE α)
  | ge (a : TE α) (c : α)               -- `a >= c` as a 0/1 mask
  | clampMin (a : TE α) (c : α)         -- `a.clamp_min(c)`
  | whereZero (cond a : TE α)           -- `torch.where(cond, a, torch.zeros_like(·))`

/-- A translated `forward_func`: how the base tensor is created, the local tensors in order of assignment, for the sum-power
kernel the reduction over the feature axis (`Σ_d coord` is then available as `"Σ"`) followed by further locals, and the name of
the tensor that is summed over the query points and multiplied by `coefs`. -/
structure Prog (α : Type) where
  init : Init α
  base : String
  coordLets : List (String × TE α)
  reduced : Option String               -- the tensor whose `.sum(dim=-1)` is taken (`none`: no feature axis)
  lets : List (String × TE α)
  result : String
  coefsTimesSumOverQueries : Bool

section
variable {α : Type} [Add α] [Sub α] [Mul α] [Div α] [Neg α] [OfNat α 0] [OfNat α 1] [OfNat α 2]
  [Max α] [LT α] [DecidableLT α] [HasExp α] [HasRpow α] [HasAbs α] [HasSqrt α]

def TE.eval (ρ : String → α) : TE α → α
  | .var n => ρ n
  | .sc c => c
  | .add a b => a.eval ρ + b.eval ρ
  | .sub a b => a.eval ρ - b.eval ρ
  | .mul a b => a.eval ρ * b.eval ρ
  | .div a b => a.eval ρ / b.eval ρ
  | .powS a e => rpow (a.eval ρ) e
  | .exp a => HasExp.exp (a.eval ρ)
  | .abs a => HasAbs.abs (a.eval ρ)
  | .ge a c => if a.eval ρ < c then 0 else 1
  | .clampMin a c => max (a.eval ρ) c
  | .whereZero cond a => if cond.eval ρ < 1 then 0 else a.eval ρ

/-- bind the locals in order -/
def runLets (ls : List (String × TE α)) (ρ : String → α) : String → α :=
  ls.foldl (fun ρ (nt : String × TE α) => fun n => if n = nt.1 then nt.2.eval ρ else ρ n) ρ

/-- value of the result tensor at one pair, for a program without a feature axis, from the base entry `b` -/
def pairValue (g : Prog α) (b : α) : α :=
  runLets g.lets (fun n => if n = g.base then b else 0) g.result

/-- value at one pair for a program with a feature axis: `coords` are the base entries of the pair, one per coordinate -/
def pairValueCoords (g : Prog α) (coords : List α) : α :=
  let per := coords.map fun b => runLets g.coordLets (fun n => if n = g.base then b else 0) (g.reduced.getD g.base)
  runLets g.lets (fun n => if n = "Σ" then Kernel.sumL per else 0) g.result

end
end Xrfmv.FwdProg
