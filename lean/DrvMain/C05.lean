import Xrfmv.Drv.C05

def main : IO Unit := Xrfmv.Drv.runDriver Xrfmv.Drv.C05.ops
