/- Helpers shared by the driver op modules (`Xrfmv/Drv/Cnn.lean`). Mathlib-free. -/
import Lean.Data.Json
import Xrfmv.Scalar

open Lean

namespace Xrfmv.Drv

/-- An op handler: JSON request -> JSON answer or an error string (`bad-op: ...` for rejected input). -/
abbrev Handler := Json → Except String Json

def bitsToFloat (n : Nat) : Float := Float.ofBits (UInt64.ofNat n)
def floatToBits (x : Float) : Nat := x.toBits.toNat

/-- A float sent as its IEEE-754 bit pattern (decimal Nat). -/
def getF (j : Json) (k : String) : Except String Float := do
  let n ← j.getObjValAs? Nat k
  pure (bitsToFloat n)

def getFs (j : Json) (k : String) : Except String (Array Float) := do
  let a ← j.getObjValAs? (Array Nat) k
  pure (a.map bitsToFloat)

/-- Matrix of floats (array of rows) sent as bit patterns. -/
def getFss (j : Json) (k : String) : Except String (Array (Array Float)) := do
  let a ← j.getObjValAs? (Array (Array Nat)) k
  pure (a.map fun r => r.map bitsToFloat)

def optFs (j : Json) (k : String) : Except String (Option (Array Float)) :=
  match j.getObjVal? k with
  | .ok Json.null => pure none
  | .ok _ => do pure (some (← getFs j k))
  | .error _ => pure none

def optFss (j : Json) (k : String) : Except String (Option (Array (Array Float))) :=
  match j.getObjVal? k with
  | .ok Json.null => pure none
  | .ok _ => do pure (some (← getFss j k))
  | .error _ => pure none

def optNatJson : Option Nat → Json
  | some n => toJson n
  | none => Json.null

def fJson (x : Float) : Json := toJson (floatToBits x)
def fsJson (xs : Array Float) : Json := toJson (xs.map floatToBits)
def fssJson (xs : Array (Array Float)) : Json := toJson (xs.map fun r => r.map floatToBits)

def dispatch (ops : List (String × Handler)) (j : Json) : Except String Json := do
  let op ← j.getObjValAs? String "op"
  if op == "ping" then return Json.mkObj [("pong", toJson true)]
  match ops.lookup op with
  | some h => h j
  | none => throw s!"bad-op: unknown op {op}"

partial def loop (ops : List (String × Handler)) (h : IO.FS.Stream) (out : IO.FS.Stream) : IO Unit := do
  let line ← h.getLine
  if line.isEmpty then return ()
  let res := match Json.parse line with
    | .ok j => dispatch ops j
    | .error e => .error s!"bad-json: {e}"
  match res with
  | .ok r => out.putStrLn (Json.compress r)
  | .error e => out.putStrLn (Json.compress (Json.mkObj [("error", toJson e)]))
  out.flush
  loop ops h out

/-- Line-protocol main loop: one JSON object per input line (`{"op": name, ...}`), one JSON object per
output line (`{"error": msg}` on failure). -/
def runDriver (ops : List (String × Handler)) : IO Unit := do
  loop ops (← IO.getStdin) (← IO.getStdout)

end Xrfmv.Drv
