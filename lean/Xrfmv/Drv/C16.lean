/- Driver ops for C16 (none yet). -/
import Xrfmv.Drv.Common

namespace Xrfmv.Drv.C16

def ops : List (String × Handler) := []

end Xrfmv.Drv.C16
