/- Driver ops for C05 (none yet). -/
import Xrfmv.Drv.Common

namespace Xrfmv.Drv.C05

def ops : List (String × Handler) := []

end Xrfmv.Drv.C05
