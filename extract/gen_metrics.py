"""
Translator recipes for Gen.Metrics (property C16): the class-level declarations of the eight built-in tuning
metrics in xrfm/rfm_src/metrics.py, read from the CURRENT source by `ast`:

    flags     : List (String × Bool)          name -> should_maximize
    required  : List (String × List String)   name -> required_quantities
    taskTypes : List (String × List String)   name -> task_types
    classes   : List (String × String)        class -> name   (as listed in Metric.from_name)

`Xrfmv.Metrics.shouldMaximize` is a lookup in `flags`, and `Props/C16.direction_table` proves, for every entry
of `flags`, that perfect predictions are optimal in *that* direction - a flipped flag in the source changes the
generated table and the theorem no longer checks.
"""
import ast
import os
import sys

import py2lean
from py2lean import U

# `python3 extract/py2lean.py ...` runs the translator as `__main__`, a module object different from the
# `py2lean` imported here (two `Unsupported` classes, two `MODULES` tables): cope with both.
_main = sys.modules.get('__main__')
if not (_main is not None and _main is not py2lean and hasattr(_main, 'MODULES') and hasattr(_main, 'register')
        and os.path.basename(getattr(_main, '__file__', '') or '') == 'py2lean.py'):
    _main = None


class Unsupported(py2lean.Unsupported, ValueError):
    """Caught by `_gen_module` of either module object (it catches its own `Unsupported` and `ValueError`)."""


_UNSUPPORTED = (py2lean.Unsupported, ValueError) + ((_main.Unsupported,) if _main is not None else ())

METRICS_PY = 'xrfm/rfm_src/metrics.py'
# the classes behind the eight metric names of the property, in the order of the property text
CLASSES = ['MSE', 'RMSE', 'MAE', 'Accuracy', 'Brier', 'Logloss', 'F1', 'AUC']


def _const(node):
    """Evaluate a literal class attribute (bool/str/list of str; `not`, and/or of literals allowed)."""
    if isinstance(node, ast.Constant):
        return node.value
    if isinstance(node, (ast.List, ast.Tuple)):
        return [_const(e) for e in node.elts]
    if isinstance(node, ast.UnaryOp) and isinstance(node.op, ast.Not):
        v = _const(node.operand)
        if not isinstance(v, bool):
            raise Unsupported(f'`{U(node)}`')
        return not v
    if isinstance(node, ast.BoolOp):
        vs = [_const(v) for v in node.values]
        if not all(isinstance(v, bool) for v in vs):
            raise Unsupported(f'`{U(node)}`')
        return all(vs) if isinstance(node.op, ast.And) else any(vs)
    raise Unsupported(f'class attribute is not a literal: `{U(node)}`')


def _attr(src, cls_name, attr, seen=()):
    """Value of a class attribute, following base classes defined in the same file (Python MRO for single
    inheritance; multiple bases are searched left to right)."""
    if cls_name in seen:
        raise Unsupported(f'inheritance cycle at {cls_name}')
    cls = src.cls(METRICS_PY, cls_name)
    found = None
    for s in cls.body:
        if isinstance(s, ast.Assign) and len(s.targets) == 1 and isinstance(s.targets[0], ast.Name) \
                and s.targets[0].id == attr:
            found = s.value          # the last assignment in the body wins, as in Python
        elif isinstance(s, ast.AnnAssign) and isinstance(s.target, ast.Name) and s.target.id == attr \
                and s.value is not None:
            found = s.value
        elif isinstance(s, (ast.If, ast.For, ast.While, ast.Try, ast.With)) and attr in U(s):
            raise Unsupported(f'{cls_name}.{attr} assigned under control flow')
    if found is not None:
        return _const(found)
    for b in cls.bases:
        if isinstance(b, ast.Name):
            try:
                return _attr(src, b.id, attr, seen + (cls_name,))
            except _UNSUPPORTED:
                continue
    raise Unsupported(f'{cls_name}.{attr} not found')


def _check_no_late_patch(src):
    """Refuse when the module assigns the attributes from outside the class bodies (e.g. `MSE.should_maximize =
    ...` at top level): the table would not describe what `from_name` returns."""
    for n in src.tree(METRICS_PY).body:
        if isinstance(n, ast.ClassDef):
            continue
        for s in ast.walk(n):
            if isinstance(s, (ast.Assign, ast.AugAssign, ast.AnnAssign)):
                tg = s.targets if isinstance(s, ast.Assign) else [s.target]
                for t in tg:
                    if isinstance(t, ast.Attribute) and t.attr in ('should_maximize', 'required_quantities',
                                                                   'task_types', 'name'):
                        raise Unsupported(f'attribute patched outside the class body: `{U(s)[:80]}`')
            if isinstance(s, ast.Call) and U(s.func) == 'setattr':
                raise Unsupported(f'setattr at module level: `{U(s)[:80]}`')


def _registered(src):
    """Class names listed in `Metric.from_name` (`all_metrics = [...]`)."""
    f = src.func(METRICS_PY, 'Metric', 'from_name')
    for s in ast.walk(f):
        if isinstance(s, ast.Assign) and U(s.targets[0]) == 'all_metrics' and isinstance(s.value, ast.List):
            return [U(e) for e in s.value.elts]
    raise Unsupported('Metric.from_name: `all_metrics = [...]` not found')


def _names(src):
    _check_no_late_patch(src)
    reg = _registered(src)
    out = []
    for c in CLASSES:
        if c not in reg:
            raise Unsupported(f'class {c} is not listed in Metric.from_name')
        nm = _attr(src, c, 'name')
        if not isinstance(nm, str):
            raise Unsupported(f'{c}.name is not a string')
        out.append((c, nm))
    return out


def _s(x):
    if not isinstance(x, str) or '"' in x or '\\' in x or '\n' in x:
        raise Unsupported(f'string {x!r}')
    return f'"{x}"'


def _strlist(v, what):
    if not isinstance(v, list) or not all(isinstance(x, str) for x in v):
        raise Unsupported(f'{what} is not a list of strings')
    return '[' + ', '.join(_s(x) for x in v) + ']'


def metrics_flags(src):
    rows = []
    for c, nm in _names(src):
        v = _attr(src, c, 'should_maximize')
        if not isinstance(v, bool):
            raise Unsupported(f'{c}.should_maximize is not a bool literal')
        rows.append(f'({_s(nm)}, {"true" if v else "false"})')
    return ('/-- `should_maximize` of the eight built-in metric classes, keyed by `name`. -/\n'
            'def flags : List (String × Bool) :=\n  [' + ',\n   '.join(rows) + ']')


def metrics_required(src):
    rows = [f'({_s(nm)}, {_strlist(_attr(src, c, "required_quantities"), c + ".required_quantities")})'
            for c, nm in _names(src)]
    return ('/-- `required_quantities` (the keyword arguments `Metric.compute` insists on). -/\n'
            'def required : List (String × List String) :=\n  [' + ',\n   '.join(rows) + ']')


def metrics_task_types(src):
    rows = [f'({_s(nm)}, {_strlist(_attr(src, c, "task_types"), c + ".task_types")})' for c, nm in _names(src)]
    return ('/-- `task_types` of the metric classes. -/\n'
            'def taskTypes : List (String × List String) :=\n  [' + ',\n   '.join(rows) + ']')


def metrics_classes(src):
    rows = [f'({_s(c)}, {_s(nm)})' for c, nm in _names(src)]
    return ('/-- class -> `name` under which `Metric.from_name` finds it. -/\n'
            'def classes : List (String × String) :=\n  [' + ',\n   '.join(rows) + ']')


ITEMS = [('flags', metrics_flags), ('required', metrics_required), ('taskTypes', metrics_task_types),
         ('classes', metrics_classes)]

py2lean.register('Metrics', METRICS_PY, [], ITEMS)
if _main is not None:
    _main.register('Metrics', METRICS_PY, [], ITEMS)
