/-
C17 — Fitting is reproducible and independent of object history.

HONEST SCOPE.  This property is decided mostly by its correspondence (harness/props/c17.py: bit-exact predictions
after 0…10⁴ draws consumed from each global generator before construction, and fresh vs. re-fitted objects).  The
theorems are protocol-level and thin:

(a) `all_sites_seeded` (by `decide` over the REGENERATED inventory `Gen.Rng.draws`/`Gen.Rng.seeds`, extract/gen_rng.py):
    every random-draw call site of the library reads a process-global generator that `xRFM.__init__` seeds from
    `random_state` — no entropy source, no explicit `torch.Generator`, no re-seeding inside the library.
    `seed_forgets_history`: in the explicit-state RNG model (generator state = (seed, number of draws since); a draw may
    depend on all of it) the values seen by ANY sequence of the inventoried draw sites after `seedAll s` do not depend on
    the state before seeding — in particular not on `consume gen k`.  What is thin: that torch's generators really are
    functions of (seed, draws) and that the inventory's patterns catch every draw (the pass's rules are in gen_rng.py).
(b) `refit_eq_fresh`: in the record model of `xRFM.fit` (`Model/FitObj.lean`: the rest of `fit` is an ARBITRARY function of
    the whole object after the entry block, of the data and of the RNG state) an object with any history of earlier fits of
    the same task type and a fresh object of the same constructor configuration produce the same fitted object, hence the same
    `predictView`.  Which attributes the entry block re-initialises is the regenerated `Gen.FitObj.facts`
    (extract/gen_fitobj.py): removing `self.trees = []` or the `split_temperature` reset from the source flips a fact to
    `false` and `fit_facts_ok` (a `decide`) fails.  What is thin: the seven-field record is hand-written
    (`unmodelledLearnedReads = []` checks that no other attribute is both assigned and read in `fit`'s call graph), state held
    outside the object (module globals, the shared `rfm_params` dict, torch thread count) is not modelled.
-/
import Xrfmv.Lemmas.Rng
import Xrfmv.Lemmas.FitObj

namespace Xrfmv.Props.C17
open Xrfmv.Gen.Rng
open Xrfmv.Rng
open Xrfmv.FitObj
open Xrfmv.Gen.FitObj (facts unmodelledLearnedReads rhsLearnedLoads)

/-! ## (a) same seed ⇒ same draws, whatever was consumed before -/

/-- **C17(a), inventory** Every random-draw call site on the covered paths is a plain draw from a process-global CPU
generator that `random_state` seeds: no site reads an entropy source or an explicitly constructed generator, and the
library never re-seeds behind the caller's back. -/
theorem all_sites_seeded :
    ∀ d ∈ draws, d.2.2.2.2 ∈ seeds ∧ isGlobal d.2.2.2.2 = true ∧ d.2.2.2.1 = "draw" := by
  decide

/-- **C17(a)** After `xRFM(random_state = s)` the values observed by any sequence (any number, any order) of the
library's draw sites are the same for every two prior RNG states … -/
theorem seed_forgets_state (s : Nat) (g g' : Rng) (sites : List Gen) (hs : ∀ x ∈ sites, x ∈ siteGens) :
    run sites (seedAll s g) = run sites (seedAll s g') := by
  have hG : ∀ gen ∈ siteGens, gen ∈ seeds ∧ isGlobal gen = true := by
    intro gen hg
    obtain ⟨d, hd, rfl⟩ := List.mem_map.1 hg
    exact ⟨(all_sites_seeded d hd).1, (all_sites_seeded d hd).2.1⟩
  exact run_congr sites (agreeOn_seedWith hG s g g') hs

/-- … in particular seeding forgets how much randomness was consumed before, from whichever generator:
`(consume gen k g).seedAll s` and `g.seedAll s` are indistinguishable to the library. -/
theorem seed_forgets_history (s k : Nat) (gen : Gen) (g : Rng) (sites : List Gen) (hs : ∀ x ∈ sites, x ∈ siteGens) :
    run sites (seedAll s (consume gen k g)) = run sites (seedAll s g) :=
  seed_forgets_state s (consume gen k g) g sites hs

/-- Non-vacuity: the refill permutation, the subset permutation and two Gaussian projections drawn after seeding with 7
see the states (7,0), (7,1), (7,2), (7,3) of torch's generator — whether or not 10⁴ values were drawn from it before. -/
example : run [.torchGlobal, .torchGlobal, .torchGlobal, .torchGlobal]
      (seedAll 7 (consume .torchGlobal 10000 ⟨⟨1, 5⟩, ⟨2, 6⟩, ⟨3, 7⟩⟩))
    = [some ⟨7, 0⟩, some ⟨7, 1⟩, some ⟨7, 2⟩, some ⟨7, 3⟩] := by decide

/-! ## (b) re-fit = fresh -/

/-- **C17(b), source facts** On the current source, `fit` re-initialises (or never reads) every learned attribute before
use: all ten facts of the regenerated `Gen.FitObj.facts` hold, no attribute outside the model is both assigned and read
in `fit`'s call graph, and the right-hand sides of the entry assignments read learned attributes only right after
assigning them. -/
theorem fit_facts_ok :
    factsOk facts = true ∧ unmodelledLearnedReads = [] ∧
    (∀ p ∈ rhsLearnedLoads, p ∈ [("extra_rfm_params_", "class_converter_"), ("class_converter_", "n_classes_")]) := by
  decide

/-- **C17(b)** Two objects of equal constructor configuration — one fresh or with ANY history of earlier fits, the other
too — fitted on the same data of the same task type from the same RNG state end up with the same `predictView`
(indeed the same object), for every tree-building / tuning procedure reading anything on the entry object. -/
theorem refit_eq_fresh (dv : Derive) (L : Learner) (cfg : Cfg) (D : Data) (r : Rng)
    (hist₁ hist₂ : List (Data × Rng))
    (h₁ : ∀ h ∈ hist₁, h.1.isClass = D.isClass) (h₂ : ∀ h ∈ hist₂, h.1.isClass = D.isClass) :
    predictView D.isClass (fitObj facts dv L (afterHistory facts dv L cfg hist₁) D r) =
    predictView D.isClass (fitObj facts dv L (afterHistory facts dv L cfg hist₂) D r) := by
  have hF := fit_facts_ok.1
  rw [fitObj_eq hF dv L (inv_afterHistory hF dv L cfg D.isClass hist₁ h₁)
        (inv_afterHistory hF dv L cfg D.isClass hist₂ h₂) r]

/-- The form in the property's words: re-fitted (after `hist`) versus fresh (`hist = []`). -/
theorem refit_eq_fresh_after_history (dv : Derive) (L : Learner) (cfg : Cfg) (D : Data) (r : Rng) (hist : List (Data × Rng))
    (h : ∀ x ∈ hist, x.1.isClass = D.isClass) :
    predictView D.isClass (fitObj facts dv L (afterHistory facts dv L cfg hist) D r) =
    predictView D.isClass (fitObj facts dv L (fresh cfg) D r) :=
  refit_eq_fresh dv L cfg D r hist [] h (fun _ hx => by cases hx)

/-- Why the reset matters (the defect repaired upstream by `fix: re-fitting tunes the split temperature from the configured
value`): with the `split_temperature` reset missing, a tuner whose tie rule prefers the incumbent returns different
temperatures for a re-fitted and a fresh object. -/
example :
    let F := { facts with tempResetIfTuning := false }
    let dv : Derive := ⟨fun _ _ => 0, fun _ _ => 0, fun _ _ => 0, fun _ => 0, fun _ => 0⟩
    let L : Learner := ⟨fun _ D _ => (D.id, true), fun e _ _ => e.splitTemperature⟩   -- all candidates tie: keep incumbent
    let cfg : Cfg := ⟨true, none, none, 0⟩
    let D : Data := ⟨false, 1⟩
    let r : Rng := ⟨⟨0, 0⟩, ⟨0, 0⟩, ⟨0, 0⟩⟩
    let earlier := { (fitObj F dv L (fresh cfg) ⟨false, 2⟩ r) with splitTemperature := some 5 }  -- an earlier fit tuned to 5
    predictView false (fitObj F dv L earlier D r) ≠ predictView false (fitObj F dv L (fresh cfg) D r) := by
  decide

end Xrfmv.Props.C17
