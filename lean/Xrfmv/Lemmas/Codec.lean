/-
Helper lemmas about the label codec model `Xrfmv.Codec` at `ℝ` (exact real arithmetic).
Property theorems are in `Props/C13.lean` and `Props/C12.lean`.

Everything about the prevalence decoder follows from one computation: under the contract of the QR
oracle (`QᵀQ = I`, `QQᵀ = I − J/K`) and `Σ prior = 1`, `A · [Q | prior] = I`, hence (square matrices)
`[Q | prior] · A = I`, the stored inverse is `[Q | prior]` and `decode v = prior + Q v`.
-/
import Xrfmv.Model.Codec
import Mathlib.Algebra.BigOperators.Fin
import Mathlib.Algebra.BigOperators.Field
import Mathlib.Data.Real.Basic
import Mathlib.LinearAlgebra.Matrix.NonsingularInverse
import Mathlib.Algebra.Order.BigOperators.Group.Finset
import Mathlib.Tactic.Linarith
import Mathlib.Tactic.Ring
import Mathlib.Tactic.FieldSimp
import Mathlib.Tactic.Positivity

open Finset BigOperators
namespace Xrfmv.Codec

theorem vsum_eq_sum : ∀ (n : ℕ) (f : Fin n → ℝ), vsum n f = ∑ i, f i
  | 0, f => by simp [vsum]
  | n + 1, f => by rw [vsum, vsum_eq_sum n, Fin.sum_univ_castSucc]

theorem ofNat'_eq : ∀ k : ℕ, (ofNat' k : ℝ) = k
  | 0 => by simp [ofNat']
  | k + 1 => by simp [ofNat', ofNat'_eq k]

@[simp] theorem aug_castSucc {n : ℕ} (v : Vec ℝ n) (j : Fin n) : aug v j.castSucc = v j := by
  simp [aug]

@[simp] theorem aug_last {n : ℕ} (v : Vec ℝ n) : aug v (Fin.last n) = 1 := by
  simp [aug]

@[simp] theorem augA_castSucc {n : ℕ} (prior : Vec ℝ (n + 1)) (Q : Mat ℝ (n + 1) n) (j : Fin n) (k : Fin (n + 1)) :
    augA prior Q j.castSucc k = codes prior Q k j := by
  simp [augA]

@[simp] theorem augA_last {n : ℕ} (prior : Vec ℝ (n + 1)) (Q : Mat ℝ (n + 1) n) (k : Fin (n + 1)) :
    augA prior Q (Fin.last n) k = 1 := by
  simp [augA]

@[simp] theorem explicitInv_castSucc {n : ℕ} (prior : Vec ℝ (n + 1)) (Q : Mat ℝ (n + 1) n) (k : Fin (n + 1)) (j : Fin n) :
    explicitInv prior Q k j.castSucc = Q k j := by
  simp [explicitInv]

@[simp] theorem explicitInv_last {n : ℕ} (prior : Vec ℝ (n + 1)) (Q : Mat ℝ (n + 1) n) (k : Fin (n + 1)) :
    explicitInv prior Q k (Fin.last n) = prior k := by
  simp [explicitInv]

/-- The contract of the QR oracle in `Finset.sum` form. -/
structure QC {n : ℕ} (Q : Mat ℝ (n + 1) n) : Prop where
  orth : ∀ a b : Fin n, ∑ k, Q k a * Q k b = if a = b then 1 else 0
  proj : ∀ k l : Fin (n + 1), ∑ j, Q k j * Q l j = (if k = l then 1 else 0) - 1 / ((n : ℝ) + 1)

theorem QContract.toQC {n : ℕ} {Q : Mat ℝ (n + 1) n} (h : QContract Q) : QC Q := by
  constructor
  · intro a b
    have := h.orth a b
    simpa [qtq, delta, vsum_eq_sum] using this
  · intro k l
    have := h.proj k l
    simpa [qqt, delta, vsum_eq_sum, ofNat'_eq] using this

theorem QC.toQContract {n : ℕ} {Q : Mat ℝ (n + 1) n} (h : QC Q) : QContract Q := by
  constructor
  · intro a b
    simpa [qtq, delta, vsum_eq_sum] using h.orth a b
  · intro k l
    simpa [qqt, delta, vsum_eq_sum, ofNat'_eq] using h.proj k l

/-- `Qᵀ1 = 0` follows from the contract. -/
theorem QC.colsum {n : ℕ} {Q : Mat ℝ (n + 1) n} (h : QC Q) (a : Fin n) : ∑ k, Q k a = 0 := by
  -- `Q (Qᵀ1) = 0`
  have h1 : ∀ k : Fin (n + 1), ∑ j, Q k j * (∑ l, Q l j) = 0 := by
    intro k
    have e : ∑ j, Q k j * (∑ l, Q l j) = ∑ l, ∑ j, Q k j * Q l j := by
      rw [Finset.sum_comm]
      apply Finset.sum_congr rfl; intro j _
      rw [Finset.mul_sum]
    rw [e]
    simp only [h.proj]
    rw [Finset.sum_sub_distrib, Finset.sum_ite_eq, Finset.sum_const, Finset.card_univ, Fintype.card_fin]
    have hn : ((n : ℝ) + 1) ≠ 0 := by positivity
    simp only [Finset.mem_univ, if_true, nsmul_eq_mul]
    push_cast
    field_simp
    ring
  -- `Qᵀ1 = QᵀQ (Qᵀ1)`
  have key : ∀ S : Fin n → ℝ, ∑ b, (∑ k, Q k a * Q k b) * S b = ∑ k, Q k a * (∑ b, Q k b * S b) := by
    intro S
    calc ∑ b, (∑ k, Q k a * Q k b) * S b = ∑ b, ∑ k, Q k a * (Q k b * S b) := by
          apply Finset.sum_congr rfl; intro b _
          rw [Finset.sum_mul]
          apply Finset.sum_congr rfl; intro k _
          ring
      _ = ∑ k, ∑ b, Q k a * (Q k b * S b) := Finset.sum_comm
      _ = ∑ k, Q k a * (∑ b, Q k b * S b) := by
          apply Finset.sum_congr rfl; intro k _
          rw [Finset.mul_sum]
  have h2 : ∑ k, Q k a = ∑ b, (∑ k, Q k a * Q k b) * (∑ l, Q l b) := by
    simp only [h.orth]
    simp
  rw [h2, key]
  simp [h1]


theorem QC.sum_Q_mul {n : ℕ} {Q : Mat ℝ (n + 1) n} (h : QC Q) (a : Fin n) (v : Vec ℝ n) :
    ∑ k, Q k a * (∑ l, Q k l * v l) = v a := by
  calc ∑ k, Q k a * (∑ l, Q k l * v l) = ∑ k, ∑ l, (Q k a * Q k l) * v l := by
        apply Finset.sum_congr rfl; intro k _
        rw [Finset.mul_sum]
        apply Finset.sum_congr rfl; intro l _
        ring
    _ = ∑ l, (∑ k, Q k a * Q k l) * v l := by
        rw [Finset.sum_comm]
        apply Finset.sum_congr rfl; intro l _
        rw [Finset.sum_mul]
    _ = v a := by
        simp only [h.orth]
        simp

/-- Sum of the decoded vector is one. -/
theorem sum_decodeExplicit {n : ℕ} {Q : Mat ℝ (n + 1) n} (h : QC Q) (prior : Vec ℝ (n + 1))
    (hp : ∑ k, prior k = 1) (v : Vec ℝ n) : ∑ k, decodeExplicit prior Q v k = 1 := by
  simp only [decodeExplicit, vsum_eq_sum]
  rw [Finset.sum_add_distrib, hp, Finset.sum_comm]
  have : ∀ l : Fin n, ∑ k, Q k l * v l = 0 := by
    intro l
    rw [← Finset.sum_mul, h.colsum, zero_mul]
  simp [this]

/-- **Key lemma**: `A · (prior + Q v) = [v; 1]`. -/
theorem augA_mul_decodeExplicit {n : ℕ} {Q : Mat ℝ (n + 1) n} (h : QC Q) (prior : Vec ℝ (n + 1))
    (hp : ∑ k, prior k = 1) (v : Vec ℝ n) (r : Fin (n + 1)) :
    ∑ k, augA prior Q r k * decodeExplicit prior Q v k = aug v r := by
  have hs := sum_decodeExplicit h prior hp v
  refine Fin.lastCases ?_ (fun j => ?_) r
  · simp only [augA_last, aug_last, one_mul]
    exact hs
  · simp only [augA_castSucc, aug_castSucc, codes, mu, vsum_eq_sum]
    have e1 : ∑ k, Q k j * decodeExplicit prior Q v k = (∑ k, prior k * Q k j) + v j := by
      simp only [decodeExplicit, vsum_eq_sum, mul_add]
      rw [Finset.sum_add_distrib, h.sum_Q_mul]
      congr 1
      apply Finset.sum_congr rfl; intro k _; ring
    calc ∑ k, (Q k j - ∑ i, prior i * Q i j) * decodeExplicit prior Q v k
        = ∑ k, Q k j * decodeExplicit prior Q v k
            - (∑ i, prior i * Q i j) * ∑ k, decodeExplicit prior Q v k := by
          rw [Finset.mul_sum, ← Finset.sum_sub_distrib]
          apply Finset.sum_congr rfl; intro k _; ring
      _ = v j := by rw [e1, hs]; ring

/-- `A · [Q | prior] = I`. -/
theorem augA_mul_explicitInv {n : ℕ} {Q : Mat ℝ (n + 1) n} (h : QC Q) (prior : Vec ℝ (n + 1))
    (hp : ∑ k, prior k = 1) :
    (Matrix.of (augA prior Q)) * (Matrix.of (explicitInv prior Q)) = (1 : Matrix (Fin (n + 1)) (Fin (n + 1)) ℝ) := by
  ext r c
  rw [Matrix.mul_apply]
  simp only [Matrix.of_apply]
  refine Fin.lastCases ?_ (fun j => ?_) c
  · -- column `prior = decode 0`
    have := augA_mul_decodeExplicit h prior hp (fun _ => 0) r
    simp only [decodeExplicit, vsum_eq_sum, mul_zero, Finset.sum_const_zero, add_zero] at this
    simp only [explicitInv_last]
    rw [this]
    refine Fin.lastCases ?_ (fun i => ?_) r
    · simp
    · simp [Fin.castSucc_ne_last]
  · -- column `Q e_j = decode e_j - decode 0`
    have h0 := augA_mul_decodeExplicit h prior hp (fun _ => 0) r
    have h1 := augA_mul_decodeExplicit h prior hp (fun l => if l = j then 1 else 0) r
    simp only [decodeExplicit, vsum_eq_sum, mul_zero, Finset.sum_const_zero, add_zero] at h0
    simp only [decodeExplicit, vsum_eq_sum, mul_ite, mul_one, mul_zero, Finset.sum_ite_eq',
      Finset.mem_univ, if_true] at h1
    simp only [explicitInv_castSucc]
    have : ∑ k, augA prior Q r k * Q k j
        = ∑ k, augA prior Q r k * (prior k + Q k j) - ∑ k, augA prior Q r k * prior k := by
      rw [← Finset.sum_sub_distrib]
      apply Finset.sum_congr rfl; intro k _; ring
    rw [this, h0, h1]
    refine Fin.lastCases ?_ (fun i => ?_) r
    · simp [(Fin.castSucc_ne_last j).symm]
    · simp [Matrix.one_apply, Fin.castSucc_inj]


/-- `[Q | prior] · A = I` (square matrices: a right inverse is a left inverse). -/
theorem explicitInv_mul_augA {n : ℕ} {Q : Mat ℝ (n + 1) n} (h : QC Q) (prior : Vec ℝ (n + 1))
    (hp : ∑ k, prior k = 1) :
    (Matrix.of (explicitInv prior Q)) * (Matrix.of (augA prior Q)) = (1 : Matrix (Fin (n + 1)) (Fin (n + 1)) ℝ) :=
  mul_eq_one_comm.mp (augA_mul_explicitInv h prior hp)

/-- Decoding with the explicit inverse is `prior + Q v`. -/
theorem decodeInv_explicitInv {n : ℕ} (prior : Vec ℝ (n + 1)) (Q : Mat ℝ (n + 1) n) (v : Vec ℝ n) :
    decodeInv (explicitInv prior Q) v = decodeExplicit prior Q v := by
  funext k
  simp only [decodeInv, mulVec, decodeExplicit, vsum_eq_sum]
  rw [Fin.sum_univ_castSucc]
  simp only [explicitInv_castSucc, explicitInv_last, aug_castSucc, aug_last, mul_one]
  ring

/-- Any one-sided inverse of `A` is the explicit one. -/
theorem inv_unique {n : ℕ} {Q : Mat ℝ (n + 1) n} (h : QC Q) (prior : Vec ℝ (n + 1))
    (hp : ∑ k, prior k = 1) (invA : Mat ℝ (n + 1) (n + 1))
    (hinv : Matrix.of (augA prior Q) * Matrix.of invA = 1 ∨ Matrix.of invA * Matrix.of (augA prior Q) = 1) :
    invA = explicitInv prior Q := by
  have hr : Matrix.of (augA prior Q) * Matrix.of invA = 1 := by
    rcases hinv with h' | h'
    · exact h'
    · exact mul_eq_one_comm.mp h'
  have hB := explicitInv_mul_augA h prior hp
  have : Matrix.of invA = Matrix.of (explicitInv prior Q) := by
    calc Matrix.of invA = (Matrix.of (explicitInv prior Q) * Matrix.of (augA prior Q)) * Matrix.of invA := by
          rw [hB, Matrix.one_mul]
      _ = Matrix.of (explicitInv prior Q) := by rw [Matrix.mul_assoc, hr, Matrix.mul_one]
  exact Matrix.of.injective this

/-- The code of class `i` decodes to the `i`-th unit vector. -/
theorem decodeExplicit_codes {n : ℕ} {Q : Mat ℝ (n + 1) n} (h : QC Q) (prior : Vec ℝ (n + 1))
    (hp : ∑ k, prior k = 1) (i k : Fin (n + 1)) :
    decodeExplicit prior Q (codes prior Q i) k = if i = k then 1 else 0 := by
  have hB := explicitInv_mul_augA h prior hp
  have := congrFun (congrFun hB k) i
  rw [Matrix.mul_apply, Fin.sum_univ_castSucc] at this
  simp only [Matrix.of_apply, explicitInv_castSucc, explicitInv_last, augA_castSucc, augA_last, mul_one,
    Matrix.one_apply] at this
  simp only [decodeExplicit, vsum_eq_sum]
  rw [add_comm, this]
  simp [eq_comm]

theorem sqDist_codes {n : ℕ} {Q : Mat ℝ (n + 1) n} (h : QC Q) (prior : Vec ℝ (n + 1))
    (i j : Fin (n + 1)) (hij : i ≠ j) : sqDist (codes prior Q i) (codes prior Q j) = 2 := by
  simp only [sqDist, codes, vsum_eq_sum]
  have : ∀ c : Fin n, (Q i c - mu prior Q c - (Q j c - mu prior Q c)) * (Q i c - mu prior Q c - (Q j c - mu prior Q c))
      = Q i c * Q i c - 2 * (Q i c * Q j c) + Q j c * Q j c := by intro c; ring
  simp only [this]
  rw [Finset.sum_add_distrib, Finset.sum_sub_distrib, ← Finset.mul_sum, h.proj, h.proj, h.proj]
  simp only [hij, if_false, if_true]
  ring

theorem decodeExplicit_zero {n : ℕ} (prior : Vec ℝ (n + 1)) (Q : Mat ℝ (n + 1) n) :
    decodeExplicit prior Q (fun _ => 0) = prior := by
  funext k
  simp [decodeExplicit, vsum_eq_sum]

theorem decodeExplicit_mixture {n m : ℕ} (prior : Vec ℝ (n + 1)) (Q : Mat ℝ (n + 1) n)
    (w : Vec ℝ m) (hw : ∑ i, w i = 1) (vs : Fin m → Vec ℝ n) :
    decodeExplicit prior Q (mixture w vs) = mixture w (fun i => decodeExplicit prior Q (vs i)) := by
  funext k
  simp only [decodeExplicit, mixture, vsum_eq_sum, mul_add]
  rw [Finset.sum_add_distrib, ← Finset.sum_mul, hw, one_mul]
  congr 1
  simp only [Finset.mul_sum]
  rw [Finset.sum_comm]
  apply Finset.sum_congr rfl; intro i _
  apply Finset.sum_congr rfl; intro j _
  ring

theorem mixture_delta {m : ℕ} (w : Vec ℝ m) :
    mixture w (fun i k => if i = k then (1 : ℝ) else 0) = w := by
  funext k
  simp [mixture, vsum_eq_sum]


/-! ### clamp, normalise -/

/-- A probability row: non-negative entries summing to one. -/
def IsProb {K : ℕ} (p : Vec ℝ K) : Prop := (∀ k, 0 ≤ p k) ∧ ∑ k, p k = 1

theorem clamp_ge (lo hi x : ℝ) : min lo hi ≤ clamp lo hi x := by
  unfold clamp
  exact le_min (le_trans (min_le_left _ _) (le_max_right _ _)) (min_le_right _ _)

theorem clamp_le (lo hi x : ℝ) : clamp lo hi x ≤ hi := min_le_right _ _

theorem clamp_of_mem {lo hi x : ℝ} (h1 : lo ≤ x) (h2 : x ≤ hi) : clamp lo hi x = x := by
  unfold clamp
  rw [max_eq_left h1, min_eq_left h2]

theorem clampVec_pos {K : ℕ} {ε : ℝ} (h0 : 0 < ε) (h1 : ε < 1) (p : Vec ℝ K) (i : Fin K) :
    0 < clampVec ε p i :=
  lt_of_lt_of_le (lt_min h0 (by linarith)) (clamp_ge _ _ _)

theorem sum_clampVec_pos {K : ℕ} (hK : 0 < K) {ε : ℝ} (h0 : 0 < ε) (h1 : ε < 1) (p : Vec ℝ K) :
    0 < ∑ i, clampVec ε p i := by
  have : Nonempty (Fin K) := ⟨⟨0, hK⟩⟩
  exact Finset.sum_pos (fun i _ => clampVec_pos h0 h1 p i) Finset.univ_nonempty

theorem clampNorm_isProb {K : ℕ} (hK : 0 < K) {ε : ℝ} (h0 : 0 < ε) (h1 : ε < 1) (p : Vec ℝ K) :
    IsProb (clampNorm ε p) := by
  have hs := sum_clampVec_pos hK h0 h1 p
  constructor
  · intro k
    simp only [clampNorm, vsum_eq_sum]
    exact div_nonneg (le_of_lt (clampVec_pos h0 h1 p k)) (le_of_lt hs)
  · simp only [clampNorm, vsum_eq_sum]
    rw [← Finset.sum_div, div_self (ne_of_gt hs)]

/-- Clamped-normalised entries lie in `(0, 1]`, in particular they are finite probabilities. -/
theorem clampNorm_pos {K : ℕ} (hK : 0 < K) {ε : ℝ} (h0 : 0 < ε) (h1 : ε < 1) (p : Vec ℝ K) (k : Fin K) :
    0 < clampNorm ε p k := by
  simp only [clampNorm, vsum_eq_sum]
  exact div_pos (clampVec_pos h0 h1 p k) (sum_clampVec_pos hK h0 h1 p)

/-! ### arg-max -/

theorem argmax_ge : ∀ (n : ℕ) (f : Fin (n + 1) → ℝ) (j : Fin (n + 1)), f j ≤ f (argmax n f)
  | 0, f, j => by
    have : j = 0 := Fin.fin_one_eq_zero j
    subst this
    simp [argmax]
  | n + 1, f, j => by
    have ih := argmax_ge n (fun i => f i.castSucc)
    simp only [argmax]
    split_ifs with hlt
    · refine Fin.lastCases ?_ (fun j' => ?_) j
      · exact le_rfl
      · exact le_of_lt (lt_of_le_of_lt (ih j') hlt)
    · refine Fin.lastCases ?_ (fun j' => ?_) j
      · exact not_lt.mp hlt
      · exact ih j'

/-- `torch.argmax` convention: every earlier entry is strictly smaller. -/
theorem argmax_first : ∀ (n : ℕ) (f : Fin (n + 1) → ℝ) (j : Fin (n + 1)), j < argmax n f → f j < f (argmax n f)
  | 0, f, j => by
    intro h
    have : argmax 0 f = 0 := rfl
    rw [this] at h
    exact absurd h (Fin.not_lt_zero j)
  | n + 1, f, j => by
    have ih := argmax_first n (fun i => f i.castSucc)
    have hge := argmax_ge n (fun i => f i.castSucc)
    simp only [argmax]
    split_ifs with hlt
    · intro hj
      refine Fin.lastCases (motive := fun j => j < Fin.last (n + 1) → f j < f (Fin.last (n + 1))) ?_ (fun j' => ?_) j hj
      · intro h; exact absurd h (lt_irrefl _)
      · intro _; exact lt_of_le_of_lt (hge j') hlt
    · intro hj
      refine Fin.lastCases (motive := fun j => j < (argmax n fun i => f i.castSucc).castSucc →
          f j < f (argmax n fun i => f i.castSucc).castSucc) ?_ (fun j' => ?_) j hj
      · intro h
        exact absurd h (not_lt.mpr (Fin.le_last _))
      · intro h
        exact ih j' (Fin.castSucc_lt_castSucc_iff.mp h)

theorem argmax_unique {n : ℕ} (f : Fin (n + 1) → ℝ) (i : Fin (n + 1)) (h : ∀ j, j ≠ i → f j < f i) :
    argmax n f = i := by
  by_contra hne
  exact absurd (argmax_ge n f i) (not_le.mpr (h _ hne))

/-- Arg-max is unchanged by a strictly increasing re-scaling of the entries. -/
theorem argmax_comp_strictMono {g : ℝ → ℝ} (hg : StrictMono g) :
    ∀ (n : ℕ) (f : Fin (n + 1) → ℝ), argmax n (fun i => g (f i)) = argmax n f
  | 0, f => rfl
  | n + 1, f => by
    have ih := argmax_comp_strictMono hg n (fun i => f i.castSucc)
    simp only [argmax]
    rw [ih]
    simp only [hg.lt_iff_lt]

/-- Normalising does not move the arg-max. -/
theorem argmax_clampNorm {n : ℕ} {ε : ℝ} (h0 : 0 < ε) (h1 : ε < 1) (p : Vec ℝ (n + 1)) :
    argmax n (clampNorm ε p) = argmax n (clampVec ε p) := by
  have hs := sum_clampVec_pos (Nat.succ_pos n) h0 h1 p
  have hg : StrictMono (fun x : ℝ => x / ∑ i, clampVec ε p i) := fun a b hab => div_lt_div_of_pos_right hab hs
  have e : clampNorm ε p = fun i => clampVec ε p i / ∑ i, clampVec ε p i := by
    funext i; simp only [clampNorm, vsum_eq_sum]
  rw [e]
  exact argmax_comp_strictMono hg n (clampVec ε p)

theorem clampVec_delta {K : ℕ} {ε : ℝ} (h0 : 0 < ε) (h2 : ε < 1 / 2) (i k : Fin K) :
    clampVec ε (fun k => if i = k then (1 : ℝ) else 0) k = if i = k then 1 - ε else ε := by
  simp only [clampVec, clamp]
  split_ifs
  · rw [max_eq_left (by linarith), min_eq_right (by linarith)]
  · rw [max_eq_right (by linarith), min_eq_left (by linarith)]

/-- The clamped-normalised unit vector `e_i` has its arg-max at `i` (any `0 < ε < 1/2`). -/
theorem argmax_clampNorm_delta {n : ℕ} {ε : ℝ} (h0 : 0 < ε) (h2 : ε < 1 / 2) (i : Fin (n + 1)) :
    argmax n (clampNorm ε (fun k => if i = k then (1 : ℝ) else 0)) = i := by
  rw [argmax_clampNorm h0 (by linarith)]
  apply argmax_unique
  intro j hj
  rw [clampVec_delta h0 h2, clampVec_delta h0 h2]
  simp only [if_true, if_neg (Ne.symm hj)]
  linarith


/-- `counts / total` is a probability row whenever some label occurs. -/
theorem priorOf_isProb {K : ℕ} (counts : Vec ℕ K) (hpos : 0 < ∑ k, counts k) :
    IsProb (priorOf counts : Vec ℝ K) := by
  have hs : (0 : ℝ) < ∑ k, (counts k : ℝ) := by exact_mod_cast hpos
  constructor
  · intro k
    simp only [priorOf, vsum_eq_sum, ofNat'_eq]
    exact div_nonneg (Nat.cast_nonneg _) (le_of_lt hs)
  · simp only [priorOf, vsum_eq_sum, ofNat'_eq]
    rw [← Finset.sum_div, div_self (ne_of_gt hs)]

/-! ### zero_one encodings -/

theorem encodeOneHot_eq {K : ℕ} (l : Fin K) :
    (encodeOneHot K l : Vec ℝ K) = fun k => if l = k then 1 else 0 := rfl

theorem expandBinary_encodeBinary (l : Fin 2) :
    (expandBinary (encodeBinary l.val) : Vec ℝ 2) = fun k => if l = k then 1 else 0 := by
  funext k
  fin_cases l <;> fin_cases k <;> simp [expandBinary, encodeBinary, ofNat']

/-! ### aggregation -/

theorem mixture_isProb {L K : ℕ} (w : Vec ℝ L) (hw0 : ∀ l, 0 ≤ w l) (hw1 : ∑ l, w l = 1)
    (rows : Fin L → Vec ℝ K) (hr : ∀ l, IsProb (rows l)) : IsProb (mixture w rows) := by
  constructor
  · intro k
    simp only [mixture, vsum_eq_sum]
    exact Finset.sum_nonneg (fun l _ => mul_nonneg (hw0 l) ((hr l).1 k))
  · simp only [mixture, vsum_eq_sum]
    rw [Finset.sum_comm]
    have : ∀ l, ∑ k, w l * rows l k = w l := by
      intro l
      rw [← Finset.mul_sum, (hr l).2, mul_one]
    simp only [this, hw1]

theorem meanRows_isProb {T K : ℕ} (hT : 0 < T) (rows : Fin T → Vec ℝ K) (hr : ∀ t, IsProb (rows t)) :
    IsProb (meanRows rows) := by
  have hTr : (0 : ℝ) < (T : ℝ) := Nat.cast_pos.mpr hT
  constructor
  · intro k
    simp only [meanRows, vsum_eq_sum, ofNat'_eq]
    exact div_nonneg (Finset.sum_nonneg (fun t _ => (hr t).1 k)) (le_of_lt hTr)
  · simp only [meanRows, vsum_eq_sum, ofNat'_eq]
    rw [← Finset.sum_div, Finset.sum_comm]
    simp only [(hr _).2, Finset.sum_const, Finset.card_univ, Fintype.card_fin, nsmul_eq_mul, mul_one]
    exact div_self (ne_of_gt hTr)

theorem meanRows_one {K : ℕ} (x : Vec ℝ K) : meanRows (fun _ : Fin 1 => x) = x := by
  funext k
  simp [meanRows, vsum, ofNat']

theorem meanRows_const {T K : ℕ} (hT : 0 < T) (x : Vec ℝ K) : meanRows (fun _ : Fin T => x) = x := by
  have hTr : (T : ℝ) ≠ 0 := Nat.cast_ne_zero.mpr (Nat.pos_iff_ne_zero.mp hT)
  funext k
  simp only [meanRows, vsum_eq_sum, ofNat'_eq, Finset.sum_const, Finset.card_univ, Fintype.card_fin, nsmul_eq_mul]
  field_simp

theorem mixture_const {L K : ℕ} (w : Vec ℝ L) (hw1 : ∑ l, w l = 1) (x : Vec ℝ K) :
    mixture w (fun _ => x) = x := by
  funext k
  simp only [mixture, vsum_eq_sum]
  rw [← Finset.sum_mul, hw1, one_mul]

theorem leafOut_zero {N m : ℕ} (kv : Vec ℝ N) (W : Mat ℝ N m) (h : ∀ c, kv c = 0) :
    leafOut kv W = fun _ => 0 := by
  funext j
  simp [leafOut, vsum_eq_sum, h]

/-! ### xRFM-level aggregation (C12) -/

/-- Routing weights of a soft tree lie on the simplex (C09 `weights_simplex`); nothing is asked of a
hard-routed tree. -/
def TreeAt.Valid {m : ℕ} : TreeAt ℝ m → Prop
  | .hard _ => True
  | .soft _ w _ => (∀ l, 0 ≤ w l) ∧ ∑ l, w l = 1

theorem TreeAt.proba_isProb {m K : ℕ} (P : Vec ℝ m → Vec ℝ K) (hP : ∀ v, IsProb (P v))
    (t : TreeAt ℝ m) (ht : t.Valid) : IsProb (t.proba P) := by
  cases t with
  | hard raw => exact hP raw
  | soft L w raws => exact mixture_isProb w ht.1 ht.2 _ (fun l => hP (raws l))

theorem clamp_dist {ε x : ℝ} (h0 : 0 < ε) (h2 : ε ≤ 1 / 2) (hx0 : 0 ≤ x) (hx1 : x ≤ 1) :
    |clamp ε (1 - ε) x - x| ≤ ε := by
  unfold clamp
  rcases le_total x ε with h | h
  · rw [max_eq_right h, min_eq_left (by linarith), abs_of_nonneg (by linarith)]
    linarith
  · rw [max_eq_left h]
    rcases le_total x (1 - ε) with h' | h'
    · rw [min_eq_left h']; simp [le_of_lt h0]
    · rw [min_eq_right h', abs_of_nonpos (by linarith)]
      linarith

/-- Clamping and renormalising a probability row moves every entry by at most `(K + 1) ε`. -/
theorem clampNorm_near {K : ℕ} (hK : 0 < K) {ε : ℝ} (h0 : 0 < ε) (h2 : ε ≤ 1 / 2) (p : Vec ℝ K) (hp : IsProb p)
    (k : Fin K) : |clampNorm ε p k - p k| ≤ ((K : ℝ) + 1) * ε := by
  have h1 : ε < 1 := by linarith
  have hle : ∀ j, p j ≤ 1 := by
    intro j
    rw [← hp.2]
    exact Finset.single_le_sum (f := p) (fun i _ => hp.1 i) (Finset.mem_univ j)
  have hd : ∀ j, |clampVec ε p j - p j| ≤ ε := fun j => clamp_dist h0 h2 (hp.1 j) (hle j)
  set s := ∑ i, clampVec ε p i with hs
  have hspos : 0 < s := sum_clampVec_pos hK h0 h1 p
  have hs1 : |1 - s| ≤ (K : ℝ) * ε := by
    have : 1 - s = ∑ j, (p j - clampVec ε p j) := by
      rw [Finset.sum_sub_distrib, hp.2]
    rw [this]
    calc |∑ j, (p j - clampVec ε p j)| ≤ ∑ j, |p j - clampVec ε p j| := Finset.abs_sum_le_sum_abs _ _
      _ ≤ ∑ _j : Fin K, ε := Finset.sum_le_sum (fun j _ => by rw [abs_sub_comm]; exact hd j)
      _ = (K : ℝ) * ε := by simp
  have hck : clampVec ε p k ≤ s :=
    Finset.single_le_sum (f := clampVec ε p) (fun i _ => le_of_lt (clampVec_pos h0 h1 p i)) (Finset.mem_univ k)
  have hq0 : 0 ≤ clampVec ε p k / s := div_nonneg (le_of_lt (clampVec_pos h0 h1 p k)) (le_of_lt hspos)
  have hq1 : clampVec ε p k / s ≤ 1 := (div_le_one hspos).mpr hck
  have e : clampNorm ε p k - p k = (clampVec ε p k / s) * (1 - s) + (clampVec ε p k - p k) := by
    simp only [clampNorm, vsum_eq_sum, ← hs]
    field_simp
    ring
  rw [e]
  calc |clampVec ε p k / s * (1 - s) + (clampVec ε p k - p k)|
      ≤ |clampVec ε p k / s * (1 - s)| + |clampVec ε p k - p k| := abs_add_le _ _
    _ ≤ 1 * ((K : ℝ) * ε) + ε := by
        refine add_le_add ?_ (hd k)
        rw [abs_mul, abs_of_nonneg hq0]
        exact mul_le_mul hq1 hs1 (abs_nonneg _) (by norm_num)
    _ = ((K : ℝ) + 1) * ε := by ring

end Xrfmv.Codec
