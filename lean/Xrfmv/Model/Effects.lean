/-
Model of the process-wide side effects of `xRFM.fit / predict / predict_proba` and of the decorator
`with_env_var` (gpu_utils.py) that wraps `RFM.fit / predict / predict_proba`.  Mathlib-free.

Observable events (what a recorder placed around `torch.get_num_threads`, `torch.set_num_threads` and
`os.environ` for the one variable PYTORCH_CUDA_ALLOC_CONF sees):

  getThreads            `old_n_threads = torch.get_num_threads()`
  setThreads n          `torch.set_num_threads(n)`
  envGet                `original_value = os.environ.get(var_name)`
  envSet v              `os.environ[var_name] = v`
  envDel                `del os.environ[var_name]`

Process state: the thread count and the variable's value *or absence*.

Bracket grammar (source: xrfm.py `fit`, `predict`, `predict_proba`; gpu_utils.py `with_env_var`):

  fit/predict/predict_proba  =  if n_threads given then  getThreads; setThreads n; BODY; setThreads old
                                else                     BODY
  with_env_var(v)(f)         =  envGet; envSet v; BODY; finally (envSet old | envDel)
  BODY                       =  any sequence of such brackets, nested to any depth
                                (`xRFM.fit` calls `RFM.fit` once per leaf and split model, each of which calls
                                `RFM.predict`/`predict_proba` once per iteration; temperature tuning calls more)

`exec` is the plain semantics of a flat event list; `WellBracketed s t` says that `t` is produced by the grammar
when started in state `s` (the closing event of a bracket carries the value *saved at its opening*, which is
why the predicate is indexed by the state).  `Tree`/`flatten` is the same grammar as syntax, used by the
executable acceptor `accept`.
-/
namespace Xrfmv.Effects

inductive Event
  | getThreads
  | setThreads (n : Nat)
  | envGet
  | envSet (v : String)
  | envDel
  deriving DecidableEq, Repr

structure State where
  threads : Nat
  env : Option String
  deriving DecidableEq, Repr

/-- Effect of one event on the process state (reads change nothing). -/
def step (s : State) : Event → State
  | .getThreads => s
  | .setThreads n => { s with threads := n }
  | .envGet => s
  | .envSet v => { s with env := some v }
  | .envDel => { s with env := none }

/-- `run`: plain semantics of a recorded event trace. -/
def exec (s : State) : List Event → State
  | [] => s
  | e :: t => exec (step s e) t

/-- What `with_env_var`'s `finally` does with the value saved on entry. -/
def restoreEnv : Option String → Event
  | none => .envDel
  | some v => .envSet v

/-- The traces the bracket grammar produces from state `s`. -/
inductive WellBracketed : State → List Event → Prop
  /-- empty body -/
  | nil (s : State) : WellBracketed s []
  /-- one bracket after another (`xRFM.fit` calling several leaf fits; `RFM.fit` calling `predict` per iteration) -/
  | seq {s : State} {a b : List Event} : WellBracketed s a → WellBracketed s b → WellBracketed s (a ++ b)
  /-- `if self.n_threads is not None: old = get(); set(n)  …body…  set(old)` -/
  | threads {s : State} (n : Nat) {body : List Event} :
      WellBracketed { s with threads := n } body →
      WellBracketed s (.getThreads :: .setThreads n :: (body ++ [.setThreads s.threads]))
  /-- `with_env_var(var, v)`: `orig = get(); environ[var] = v; try: body finally: restore orig` -/
  | env {s : State} (v : String) {body : List Event} :
      WellBracketed { s with env := some v } body →
      WellBracketed s (.envGet :: .envSet v :: (body ++ [restoreEnv s.env]))

/-! ### The grammar as syntax (Dyck-style: a bracket, its body, and what follows it) -/

inductive Tree
  | nil
  | thr (n : Nat) (body rest : Tree)
  | env (v : String) (body rest : Tree)
  deriving Repr

/-- Events of a bracket tree started in state `s`. -/
def flatten (s : State) : Tree → List Event
  | .nil => []
  | .thr n body rest =>
      .getThreads :: .setThreads n :: (flatten { s with threads := n } body ++ [.setThreads s.threads])
        ++ flatten s rest
  | .env v body rest =>
      .envGet :: .envSet v :: (flatten { s with env := some v } body ++ [restoreEnv s.env])
        ++ flatten s rest

/-! ### Executable acceptor (used by the driver) -/

def isCloser : Event → Bool
  | .setThreads _ => true
  | .envSet _ => true
  | .envDel => true
  | _ => false

/-- Recursive-descent parser of the bracket *shape* (payload of closers is checked afterwards by comparing with
`flatten`).  Parses as many consecutive brackets as possible and returns the rest; `fuel` bounds the recursion
(`events.length + 1` always suffices). -/
def parseSeq : Nat → List Event → Option (Tree × List Event)
  | 0, _ => none
  | fuel + 1, .getThreads :: .setThreads n :: rest =>
      match parseSeq fuel rest with
      | some (body, .setThreads _ :: rest') =>
          match parseSeq fuel rest' with
          | some (tl, r) => some (.thr n body tl, r)
          | none => none
      | _ => none
  | fuel + 1, .envGet :: .envSet v :: rest =>
      match parseSeq fuel rest with
      | some (body, c :: rest') =>
          if (match c with | .envSet _ => true | .envDel => true | _ => false) then
            match parseSeq fuel rest' with
            | some (tl, r) => some (.env v body tl, r)
            | none => none
          else none
      | _ => none
  | _ + 1, evs => some (.nil, evs)

/-- Length of the longest common prefix. -/
def commonPrefix : List Event → List Event → Nat
  | a :: as, b :: bs => if a = b then commonPrefix as bs + 1 else 0
  | _, _ => 0

/-- Accept a recorded trace: `.ok final` iff the trace is the flattening of a bracket tree started in `s`
(then `final = exec s evs`); `.error pos` = index of the first event that does not fit the grammar. -/
def accept (s : State) (evs : List Event) : Except Nat State :=
  match parseSeq (evs.length + 1) evs with
  | some (t, []) =>
      if flatten s t = evs then .ok (exec s evs) else .error (commonPrefix (flatten s t) evs)
  | some (_, r) => .error (evs.length - r.length)
  | none => .error evs.length

/-! ### Calls whose body raises (not part of the property: recorded as an observation)

`with_env_var` restores in a `finally`; `xRFM.fit/predict/predict_proba` restore the thread count with plain
statements after the body, so an exception skips them. -/

inductive Raised : State → List Event → Prop
  /-- the raise point -/
  | here (s : State) : Raised s []
  /-- completed brackets before the one that raises -/
  | after {s : State} {a b : List Event} : WellBracketed s a → Raised s b → Raised s (a ++ b)
  /-- thread bracket left open: no closing `setThreads` -/
  | threads {s : State} (n : Nat) {body : List Event} :
      Raised { s with threads := n } body → Raised s (.getThreads :: .setThreads n :: body)
  /-- env bracket: the `finally` still runs -/
  | env {s : State} (v : String) {body : List Event} :
      Raised { s with env := some v } body →
      Raised s (.envGet :: .envSet v :: (body ++ [restoreEnv s.env]))

end Xrfmv.Effects
