/-
C10 — Temperature tuning selects a best candidate and never regresses.

Model: `Xrfmv.Tune.tune`, the candidate loop of `xRFM.fit_temperature` as a fold over the regenerated
`Gen.Temp` (direction-aware comparison, tie clause, `≤ 0 ↦ hard routing`, initial values), run on real
scores embedded in `EReal`.  `s attr` is the validation score of the model whose `split_temperature` is
`attr`; all statements hold for every candidate list, order, initial temperature and score function.
-/
import Xrfmv.Lemmas.Tune

namespace Xrfmv.Props.C10
open Xrfmv.Tune Xrfmv.Gen.Temp

/-- **C10 (optimal candidate)** The stored temperature is (the attribute of) one of the candidates and no candidate
scores strictly better in the metric's direction. -/
theorem tuned_optimal (maximizing : Bool) (s : Option ℝ → ℝ) (current : Option ℝ) (cands : List ℝ) (hne : cands ≠ []) :
    let r := tune maximizing current cands (escore s)
    (∃ c ∈ cands, r.bestAttr = attrOf c) ∧ ∀ c ∈ cands, ¬ better maximizing (s (attrOf c)) (s r.bestAttr) :=
  let h := tune_spec maximizing s current cands hne
  ⟨h.fromCand, h.optimal⟩

/-- **C10 (recorded best score)** The recorded best score is the validation score of the model exactly as returned. -/
theorem best_score_is_returned_score (maximizing : Bool) (s : Option ℝ → ℝ) (current : Option ℝ) (cands : List ℝ)
    (hne : cands ≠ []) :
    let r := tune maximizing current cands (escore s)
    r.bestScore = ((s r.bestAttr : ℝ) : EReal) :=
  (tune_spec maximizing s current cands hne).score

/-- **C10 (results)** The recorded per-candidate results are the candidates' true scores, in order. -/
theorem results_faithful (maximizing : Bool) (s : Option ℝ → ℝ) (current : Option ℝ) (cands : List ℝ) (hne : cands ≠ []) :
    (tune maximizing current cands (escore s)).results = cands.map fun c => (c, ((s (attrOf c) : ℝ) : EReal)) :=
  (tune_spec maximizing s current cands hne).results

/-- **C10 (no regression)** Whenever hard routing (a candidate `≤ 0`, e.g. temperature `0`) is among the candidates,
the returned model's validation score is not worse than hard routing's. -/
theorem no_regress_vs_hard (maximizing : Bool) (s : Option ℝ → ℝ) (current : Option ℝ) (cands : List ℝ)
    (c0 : ℝ) (hc0 : c0 ∈ cands) (hle : c0 ≤ 0) :
    ¬ better maximizing (s none) (s (tune maximizing current cands (escore s)).bestAttr) := by
  have hne : cands ≠ [] := List.ne_nil_of_mem hc0
  have h := (tune_spec maximizing s current cands hne).optimal c0 hc0
  have : attrOf c0 = none := by
    simp only [attrOf]
    have : c0 ≤ (0.0 : ℝ) := by norm_num; exact hle
    simp [this]
  rwa [this] at h

/-- Non-vacuity: the default-like tuning space `[0, 0.05, 0.5]` with a tuned incoming temperature. -/
example : ([0, 0.05, 0.5] : List ℝ) ≠ [] ∧ (0 : ℝ) ∈ ([0, 0.05, 0.5] : List ℝ) ∧ (0 : ℝ) ≤ 0 := by
  refine ⟨by simp, by simp, le_rfl⟩

end Xrfmv.Props.C10
