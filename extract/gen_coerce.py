"""
Translator recipes: Gen.Coerce <- the input coercion at the top of xRFM.fit / predict / predict_proba (xrfm/xrfm.py).

What is read off the source (and becomes data of the Lean coercion table of C20, `Model/Coerce.lean`):
  * the dtype non-tensor feature containers are converted to (`torch.tensor(X, dtype=torch.<T>, ...)`), at every site;
  * that integer targets (non-floating, non-bool) are widened with `.long()` before anything else looks at them;
  * the regression branch: `y.float()` / `y_val.float()` and the `(n,) -> (n,1)` unsqueeze of both;
  * the pre-encoded float-label branch (classification metric given): `.float()` and `[:, None]` of both.
Anything the recipe does not recognise raises Unsupported (pinned fallback; the correspondence then decides).
"""
import ast

import py2lean
from py2lean import U, Unsupported

X_PY = 'xrfm/xrfm.py'


def _dtype_of_tensor_calls(f, names):
    out = {}
    for n in ast.walk(f):
        if isinstance(n, ast.Call) and U(n.func) == 'torch.tensor' and n.args and U(n.args[0]) in names:
            dt = [k for k in n.keywords if k.arg == 'dtype']
            if not dt:
                raise Unsupported(f'torch.tensor({U(n.args[0])}) without dtype')
            t = U(dt[0].value)
            if not t.startswith('torch.'):
                raise Unsupported(f'dtype expression {t}')
            out.setdefault(U(n.args[0]), set()).add(t[len('torch.'):])
    return out


def coerce_features(src):
    found = {}
    for fn, names in (('fit', ('X', 'X_val')), ('predict', ('X',)), ('predict_proba', ('X',))):
        f = src.func(X_PY, 'xRFM', fn)
        got = _dtype_of_tensor_calls(f, names)
        for nm in names:
            if nm not in got:
                raise Unsupported(f'xRFM.{fn}: no torch.tensor({nm}, dtype=...) conversion of non-tensor features')
            found[f'{fn}.{nm}'] = got[nm]
        txt = U(f)
        for nm in names:
            if f'if not isinstance({nm}, torch.Tensor):' not in txt:
                raise Unsupported(f'xRFM.{fn}: conversion of {nm} is no longer guarded by `not isinstance({nm}, torch.Tensor)`')
    dts = set().union(*found.values())
    if len(dts) != 1:
        raise Unsupported(f'feature containers are converted to different dtypes at different sites: {found}')
    dt = dts.pop()
    return ('/-- Non-tensor feature containers are converted with `torch.tensor(X, dtype=torch.<this>)` in `fit` (X and X_val),\n'
            '`predict` and `predict_proba`; tensors are only moved to the device (their dtype is kept). -/\n'
            f'def featuresArrayDType : String := "{dt}"\n'
            'def featureTensorsKeepDType : Bool := true')


def coerce_targets(src):
    f = src.func(X_PY, 'xRFM', 'fit')
    txt = U(f)
    need_int = ['if not y.is_floating_point() and y.dtype != torch.bool:', 'y = y.long()',
                'if not y_val.is_floating_point() and y_val.dtype != torch.bool:', 'y_val = y_val.long()']
    for n in need_int:
        if n not in txt:
            raise Unsupported(f'xRFM.fit: `{n}` not found (integer targets widened on entry)')
    if txt.index('y = y.long()') > txt.index('y_train_and_val = torch.cat([y, y_val], dim=0)'):
        raise Unsupported('xRFM.fit: integer targets are widened after y_train_and_val is built')
    if 'is_class = not y.is_floating_point()' not in txt:
        raise Unsupported('xRFM.fit: task inference changed')
    # regression branch
    reg = ['y = y.float()', 'y_val = y_val.float()', 'if len(y.shape) == 1:', 'y = y.unsqueeze(-1)',
           'if len(y_val.shape) == 1:', 'y_val = y_val.unsqueeze(-1)']
    for n in reg:
        if n not in txt:
            raise Unsupported(f'xRFM.fit: `{n}` not found (regression targets)')
    # pre-encoded float labels with a classification metric
    fc = ['y = y[:, None]', 'y_val = y_val[:, None]']
    for n in fc:
        if n not in txt:
            raise Unsupported(f'xRFM.fit: `{n}` not found (float class targets)')
    if txt.count('y = y.float()') < 2 or txt.count('y_val = y_val.float()') < 2:
        raise Unsupported('xRFM.fit: float class targets are not cast to float32 on both sides')
    return ('/-- Targets: integer (non-bool) containers are widened with `.long()` on entry, before the class count is taken;\n'
            'the task is classification iff the targets are not floating point (no metric given); regression targets and\n'
            'pre-encoded float labels are cast with `.float()` and a 1-D vector becomes a column — training and validation side alike. -/\n'
            'def intTargetsWidenedTo : String := "int64"\n'
            'def boolTargetsNotWidened : Bool := true\n'
            'def floatTargetsCastTo : String := "float32"\n'
            'def vectorTargetsBecomeColumns : Bool := true\n'
            'def validationTargetsTreatedLikeTraining : Bool := true')


py2lean.register('Coerce', X_PY, [], [
    ('features', coerce_features),
    ('targets', coerce_targets),
])
