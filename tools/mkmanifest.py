#!/usr/bin/env python3
"""Regenerate MANIFEST.json from the table below (kept valid at every commit)."""
import json
import os

HERE = os.path.dirname(os.path.dirname(os.path.abspath(__file__)))

TB = ('Trusted: Lean 4.33 kernel; axioms propext/Classical.choice/Quot.sound only (audited on every run by #print axioms; '
      'no sorry/native_decide/bv_decide/user axioms); Mathlib v4.33 single modules; the translator extract/py2lean.py; '
      'the correspondence harness (harness/, lean/Driver.lean). ')

CHECKS = {
    'C02': dict(
        text='Theorems (Props/C02.lean): over the regenerated selection program the weights, M, sqrtM and bandwidth left by fit '
             'belong to one iterate for every budget/history/flag combination (with and without restoration; the incoherent '
             'early-stop branch is proved unreachable); (K+lam I)alpha=Y iff K alpha = Y - lam alpha; uniqueness of the ridge solution '
             'for PSD K and lam>0 (so solve/cholesky/lu must agree), and existence and uniqueness for the Gram matrix of ANY centers under the '
             'Laplace / product / Lpq kernel with 0<q<=p<=2 (PSD proved, C05 Schoenberg); over the solver plan regenerated from fit_predictor_lstsq (Gen.Ridge) every '
             'solver branch hands (K + reg I, Y) to torch.linalg and all branches return the one ridge solution. Correspondence in float64 against real fits: iterate tags vs the '
             'Lean machine and the residual of the ridge system with K recomputed from the stored state by an independent reference, '
             'under a computed rounding allowance.',
        note=TB + 'Modelled, not verified: torch.linalg.solve/cholesky/lu_factor (exact solve; checked through residuals), '
             'floating-point rounding (absorbed by the allowance of DESIGN 4.3). PSD of the Gram matrix is proved for the Laplace family (0<q<=p<=2); '
             'and for the sum-power kernel with a natural power; for a non-integer power it stays an hypothesis of ridge_unique.',
        technique='Lean 4 proof (loop invariant over regenerated program + matrix algebra) + float64 differential check with property oracle',
        ref='DESIGN.md §6 C02'),
    'C03': dict(
        text='Theorems (Props/C03.lean) over the Lean interpreter of the selection program regenerated from RFM.fit / '
             'update_best_params / _should_early_stop on every run: for every iteration budget and every real score history the '
             'returned weights, M, sqrtM and bandwidth carry the tag of one evaluated iterate that is optimal in the declared '
             'direction; evaluated iterates are exactly the prefix up to the first early-stop hit. Tied to the code by the '
             'translator and by an exhaustive scripted-score correspondence against the real RFM.fit.',
        note=TB + 'Modelled, not verified: the numerical content of each iterate (solve, AGOP) - only which iterate each piece of '
             'state comes from; time_limit_s; NaN scores.',
        technique='Lean 4 proof by induction over the fit loop (invariant), model regenerated from source + differential check',
        ref='DESIGN.md §6 C03'),
}

CHECKS.update({
    'C06': dict(
        text='Theorems (Props/C06.lean) over the size skeleton of _build_tree built from the regenerated Gen.Split (integer code of '
             '_get_balanced_split, its slices and masks, the leaf test): for every n, max_leaf_size and overlap oracle that leaves two '
             'unshared samples per split the construction terminates within n+1 levels with no assertion failing and every leaf <= '
             'max_leaf_size; children are ceil/floor halves plus the band; depth <= ceil(log2(n/L)) at zero overlap; forced split counts '
             'are honoured; the float hypothesis follows from (1-2f)L >= 4. Sizes are data independent: for every sort/permutation oracle meeting its '
             'contract the index-level tree of C07/C08 has the shape, leaf sizes and split count of the size skeleton (sizes_independent_of_data). Tied to the code by '
             'the translator and by an exhaustive size grid of real _build_tree runs (stubbed leaves) plus real fits for every split method '
             'on degenerate data under a wall-clock guard.',
        note=TB + 'Modelled, not verified: torch.sort/median/quantile (rank split needs only that sort returns a permutation), the float '
             'expression int(round(2*f*n)) (oracle; |r-2fn|<1 checked for every n up to 1e5/2e6), direction finding (svd, solve, lobpcg) - '
             'covered only by the real-fit family. Forced splits of a single-sample node are infeasible (assertion) and excluded.',
        technique='Lean 4 proof (induction on fuel/depth, omega arithmetic over regenerated integer code) + exhaustive differential size grid',
        ref='DESIGN.md §6 C06'),
    'C09': dict(
        text='Proved in Lean for every tree shape and depth, row, keep fraction, cap and tie-breaking of the sort: the cache built by the '
             'stack traversal pairs each leaf id with its model and its root-to-leaf gates; soft-routing weights are the documented soft-max '
             'of summed log-sigmoid gate terms; truncation keeps a non-empty top-m set (m <= min(cap, leaves), minimal for the keep fraction, '
             'ties open) and renormalises to a simplex, so each output lies in the hull of the active leaves; a dominant leaf gives exactly '
             'its prediction, and as T->0+ the output eventually equals the hard-routed prediction for keep < 1/(1+(N-1)e^-50). Decision '
             'expressions are regenerated from the current source (Gen.Soft) and the model is run against the real code (recording leaf '
             'stubs, fitted models, float32/float64) with an independent property oracle.',
        note=TB + 'Real arithmetic; float rounding absorbed by a computed allowance. torch.sort is an oracle (any sorting permutation). Clamps '
             'of normalisers to finfo.tiny are not modelled (normaliser >= 1). T <= 0, NaN rows and empty batches are outside the quantifier. '
             'A harmless change of push order breaks cache_paths (left-to-right claim) with no failing input.',
        technique='Lean 4 + Mathlib: functional induction on the stack machine, list algebra for the cumulative cut-off, Filter/Tendsto '
                  'argument for T->0+; ast translator (Gen.Soft); float64 Lean driver vs torch; exhaustive shapes of depth <= 3',
        ref='DESIGN.md §6 C09'),
    'C15': dict(
        text='Proved in Lean for all sizes, group counts, levels and column orders: on one-hot rows with identity code vectors the categorical '
             'fast path (per-group l_p^p tables indexed by arg-max category plus the numerical distance, then the kernel\'s outer function) '
             'equals the dense L2/product/Lpq kernel on the expanded rows for every transform without cross-block entries (absent, diagonal, '
             'block-diagonal); the categorical AGOP equals the dense AGOP masked to the numerical and per-group blocks, which do not overlap for '
             'disjoint index groups. Tied to the code by a float64 correspondence of the real fast path, the real dense path and the compiled '
             'model, exhaustive over all one-hot rows of small layouts. The row blocks of the fast paths are exact tilings over the regenerated inventory Gen.Chunks (row_blocks_are_tilings).',
        note=TB + 'Exact real arithmetic; float64 rounding absorbed by a computed per-entry allowance. No translator tie (correspondence only). '
             'Function gradients enter the AGOP model as a given matrix (gradient correctness is C04). Adaptive-bandwidth hook, batching and '
             'center_grads are not modelled; GPU/Kermac kernels out of reach.',
        technique='Lean 4 + Mathlib proof over a scalar-generic executable model (list-sum partition algebra, one-hot arg-max, block-matrix '
                  'restriction) + differential check real fast vs real dense vs Lean driver, exhaustive small family, negative control',
        ref='DESIGN.md §6 C15'),
    'C16': dict(
        text='Lean 4 theorems prove, for every array size, class count and value, that predictions identical to the targets attain the optimum '
             'of each of the eight metrics (0 for mse/rmse/mae/brier/logloss, 1 for accuracy/f1/auc, rmse monotone in mse), and that every '
             'entry of the should_maximize table regenerated from the current source points to that optimum (a flipped flag breaks '
             'direction_table). Metric values are tied to the code by a correspondence comparing the real Metric.compute (float64/float32) with '
             'exact rational evaluation of the model and with an independent numpy definition, including an exhaustive binary family. The _compute chains of MSE / RMSE / MAE / Brier are regenerated from the source (Gen.MetricOps) and proved to be the model metrics (gen_mean_metrics_eq_model).',
        note=TB + 'Theorems are about the model in exact arithmetic. Floating-point rounding, sklearn roc_auc_score/f1_score/log_loss (incl. '
             'clipping) and torch reductions are modelled by their textbook definitions, compared per case under a computed allowance. Brier '
             'follows the code\'s samples x classes convention.',
        technique='Lean 4 proof over a source-regenerated flag table + exact-rational model/implementation correspondence with exhaustive small family',
        ref='DESIGN.md §6 C16'),
})

CHECKS.update({
    'C04': dict(
        text='Lean theorems at R show that the closed-form gradient the driver executes is, coordinate by coordinate (HasDerivAt along each '
             'axis), the partial derivative of every CPU kernel and of the whole predictor sum_i c_{l,i} k(x_i,.), through a diagonal feature '
             'matrix end to end, with output-wise linearity (no mixing between outputs), the chain rule for a symmetric matrix, and an exactly '
             'zero term for a coinciding center; the full statement is proved (C04_full_holds): for every kernel incl. the memory-light one, no transform / vector / symmetric '
             'matrix, every n and every point in general position the predictor on R^n is Frechet differentiable and the returned row is its gradient. The real get_function_grads, RFM.get_grads and xRFM.get_grads are compared with these closed '
             'forms under a computed allowance, and independently with Richardson finite differences of the real kernel and predict. For the two closed-form '
             'routines (L2, memory-light) the statements of the gradient code itself are regenerated on every run (Gen.GradOps: the tensor program '
             'kernel_mat = dists**q, mul_/exp_/clamp_/pow_, mask = dists >= eps, tensor products, einsum difference) and gen_fgrad_eq_model proves that '
             'this program returns exactly the closed-form gradient tensor; the driver runs it at Float next to the model. For the three autograd-based routines '
             '(product, Lpq, sum-power) the closure handed to torch.autograd is regenerated (Gen.FwdOps) and gen_forward_eq_model proves that it evaluates the '
             'closed-form kernel in general position (a masked pair is the constant 1); autograd itself is trusted.',
        note=TB + 'General position as in the property: distance (L2-type kernels) or every coordinate difference (coordinate-wise kernels) at least eps. Exact real arithmetic; rounding (incl. the unmasked self-term cancellation of '
             'the expansion-distance kernels) is absorbed by a computed per-entry allowance. Translator tie for the L2 / memory-light gradient routines (Gen.GradOps) and for the closures the autograd-based routines differentiate (Gen.FwdOps); torch.func.jacrev / autograd.functional.jacobian are trusted. torch '
             'autograd, cdist, solve, SVD are modelled, not verified.',
        technique='Lean 4 + Mathlib calculus (HasDerivAt / HasFDerivAt) over a scalar-generic executable model; gradient tensor programs regenerated from source by the AST translator and proved equal to the model; float64 correspondence with computed allowance; finite-difference oracle',
        ref='DESIGN.md §6 C04'),
    'C05': dict(
        text='Symmetry, unit diagonal, range (0,1], light = L2 for M = T^2 (symmetric T), product = Lpq(q,q), row-locality and the alias table '
             '(regenerated from kernel_from_str) are proved in Lean at R for all dimensions and points, for the same definitions the driver runs '
             'at Float; these are compared entry-wise with the real kernels and every alias under a computed rounding allowance. Positive '
             'semi-definiteness for 0<q<=p<=2 is proved in full (C05_psd_holds: Schoenberg via the Bernstein representation of r^a, power series '
             'and the Schur product theorem; any transform, dimension and number of points) and also checked numerically on the real matrices. '
             'The chain of tensor operations of every _get_kernel_matrix_impl (cdist / quadratic forms / coordinate differences, clamp_, sqrt_, pow_, '
             'the _adapt_bandwidth call, mul_, exp_, abs_, sum, add_) is regenerated from the source on every run (Gen.KernelOps); gen_pipeline_eq_model '
             'proves at R that it computes the closed form for every kernel, transform and pair of rows, bandwidth_read_after_adaptation that the '
             'bandwidth enters after the adaptation, and the driver runs the regenerated chain at Float against torch on every matrix.',
        note=TB + 'Exact real arithmetic; rounding absorbed by an interval-image allowance per entry (cdist expansion mode above 25 rows, M-form of '
             'the light kernel); CPU only.',
        technique='Lean 4 + Mathlib scalar-generic model (R proofs / Float driver); kernel tensor-operation chains and alias table regenerated from source by the AST translator and proved equal to the closed forms; exhaustive alias and guard correspondence',
        ref='DESIGN.md §6 C05'),
    'C07': dict(
        text='Theorems (Props/C07.lean) over the index-level model of _build_tree/_get_balanced_split/_refill_val_set built from the regenerated '
             'Gen.Split/Gen.Refill, with torch.sort and torch.randperm as oracles that only have to return permutations: at zero overlap the '
             'centers and moved samples of all leaves are a permutation of 0..n-1 (no loss, no duplicate, never both); with overlap every sample '
             'is held at least once and each leaf holds distinct samples; per leaf at most min(refill - routed, int(0.2 m)) samples are moved, '
             'none when routed validation exceeds the refill size or for a single leaf; reported indices, rows and targets are indexed by the same '
             'lists. Recorded real fits feed their sort/randperm values to the Lean build; leaf index lists must be identical.',
        note=TB + 'Modelled, not verified: torch.sort/randperm (permutation contract, checked on every recorded value), boolean-mask indexing and '
             'torch.cat (list semantics), int(n*0.2) (oracle; = n//5 checked for all n up to 1e5/2e6 in C06). That the construction fails no assertion '
             'and has enough fuel is a theorem (construction_ok), so the partition theorem is unconditional.',
        technique='Lean 4 proof (List.Perm algebra, induction over the construction, regenerated integer code) + recorded-oracle differential check',
        ref='DESIGN.md §6 C07'),
    'C08': dict(
        text='Theorems (Props/C08.lean): for every node size (odd/even), overlap band and linear order of projections, a sample not tied with the '
             'threshold is sent by the regenerated prediction rule (Gen.Route.goesLeft) to a child that received it from the rank split '
             '(lower-median contract); by induction over the construction every training sample untied along its route reaches a leaf that '
             'holds it; the validation rule and the prediction rule are the same predicate. Recorded fits: sort/median contract checked per node, '
             'masks and decisions compared with the Lean node model, real prediction-time routing of all training and validation rows compared '
             'with the training-time assignment, including an exact-tie family with validation points lying exactly on thresholds.',
        note=TB + 'Modelled, not verified: torch.sort (ascending permutation) and torch.median (lower median) - contracts checked on every recorded '
             'node; matmul rounding (rows within 1e-5 relative of a threshold are excluded and counted, as the property allows).',
        technique='Lean 4 proof (order/rank arithmetic with omega, induction over the tree) over regenerated code + recorded differential check',
        ref='DESIGN.md §6 C08'),
    'C12': dict(
        text='Proved over R for any number of classes, trees, leaves and any real leaf outputs: clamp-normalise, soft mixtures with simplex weights '
             'and means over trees give probability rows; labels are in range; with one hard tree predict is the first arg-max of the '
             'predict_proba row; in prevalence mode rows whose kernel values are all 0 equal the clamp-normalised training frequencies (within '
             '(K+1)eps of the frequencies). Fitted classifiers over all listed configurations are inspected directly and every row and label is '
             'recomputed by the Lean model from the model\'s own raw leaf outputs.',
        note=TB + 'Soft-routing weights on the simplex is an hypothesis here (theorem of C09), checked on the weights read from the implementation; '
             'kernel underflow to exactly 0 at far rows is a float effect (observed); at R the limit is proved (far_limit_prior); leaf regression outputs and torch arithmetic are modelled; AUC-undefined '
             'leaves are excluded (property proviso).',
        technique='Lean 4 convexity lemmas over Finset sums + C13 codec; per-row recomputation on Float with float32 allowance',
        ref='DESIGN.md §6 C12'),
    'C13': dict(
        text='Proved in Lean over R for every K>=2 and every prior (zeros included): under the QR contract Q^T Q = I, Q Q^T = I - J/K the augmented '
             'code matrix is invertible with inverse [Q|prior], so the stored inverse decodes v to prior + Qv; hence prevalence and zero_one '
             'round-trips, squared code distance 2, zero -> prior, affinity before clamping, and validity of clamp-normalised decodes of any real '
             'vector for 0 < eps < 1 (at eps = 0: valid iff an entry is positive; the all-non-positive zero_one row divides by zero, reproduced). The same definitions run on Float against the real ClassificationConverter, exhaustively over count vectors for small K and '
             'on a grid up to K=12 with decoder inputs up to 1e6.',
        note=TB + 'Q (torch.linalg.qr) and _invA (torch.linalg.inv) are oracles whose contracts are checked on every value the implementation '
             'produced; float32 rounding is outside the theorems and absorbed by computed allowances.',
        technique='Lean 4 linear algebra over Fin-indexed sums (Mathlib), scalar-generic model, exhaustive + grid correspondence',
        ref='DESIGN.md §6 C13'),
    'C14': dict(
        text='Lean theorems at R: the uncentred AGOP is independent of batching and row order, symmetric and PSD, its largest entry is positive, on '
             'the diagonal and exactly one after normalisation; the stored root of an orthonormal decomposition squares back; a rational witness '
             'proves that per-batch centring depends on the partition (the open known finding). Every fit_M call of real RFM.fit runs is '
             'recomputed by the driver from the recorded predictor (own kernel term omitted) and the properties are evaluated directly on the '
             'implementation\'s matrices.',
        note=TB + 'Exact real arithmetic with the eigendecomposition as a contract-checked oracle; the 1e-30 regulariser is idealised; the in-place '
             '1e-8*I jitter is modelled in the check, not in the theorems; gradient correctness is C04. Open known finding: center_grads=True with '
             'multi-batch accumulation (known_findings.json).',
        technique='Lean 4 + Mathlib proofs over a scalar-generic model incl. a rational counterexample; recorded-state correspondence; direct property oracle',
        ref='DESIGN.md §6 C14'),
    'C19': dict(
        text='Scale laws of the sort-based lower/upper median, of distances in each kernel\'s own norm (any transform), of the adapted bandwidth, of '
             'every Laplace-family kernel value and of the whole Gram matrix are proved in Lean at R; gradient homogeneity (every kernel, transform, '
             'output) and scale freedom of the max-normalised AGOP give invariance of every iterate\'s predictions for any iteration budget with '
             'the implementation\'s AGOP step (fit_scale_invariant_concrete; linear solve and matrix root abstract functions). The AGOP-step model '
             'is compared with RFM.fit_M. Real adaptive fits '
             'are checked for bandwidth = base x median of the stored transformed centers of the selected iterate and for prediction invariance '
             'under rescaling by 1e-3..1e3.',
        note=TB + 'Guards of fit_scale_invariant_concrete: the <1e-14 median guard and the <1e-10 gradient masks fire alike at both scales '
             '(satisfiable); the 1e-30 normalisation jitter is idealised to 0, gradients are not centred, all centers are used; the float64 prediction comparison uses a computed distance-rounding allowance (with a heuristic (1+iters) factor).',
        technique='Lean 4 + Mathlib (List.map_mergeSort, rpow algebra, induction over the fit loop with oracles) + rescaled real fits with scripted selection',
        ref='DESIGN.md §6 C19'),
})

CHECKS.update({
    'C10': dict(
        text='Theorems (Props/C10.lean) over the candidate loop of fit_temperature as a fold built from the regenerated Gen.Temp (direction-aware '
             'comparison, tie clause, <=0 -> hard routing, initial values): for every non-empty candidate list, order, initial temperature and '
             'score function the stored temperature is a candidate whose score no candidate beats, the recorded best score is the score of the '
             'model as returned, the recorded results are the candidates\' scores in order, and if a candidate <= 0 is present the returned score '
             'is not worse than hard routing. Tied to the code by the translator and by the real fit_temperature with a scripted metric, '
             'exhaustively over score alphabet x ordered candidate lists x direction x initial temperature, plus real fits whose candidate '
             'scores are recomputed from predict/predict_proba.',
        note=TB + 'Modelled, not verified: the metric value of each candidate (a function of the routing attribute); NaN scores excluded; which '
             'optimum is kept on ties is left open by the theorems (a harmless tie-rule change breaks only the correspondence).',
        technique='Lean 4 proof (fold invariant over regenerated decision code) + exhaustive scripted differential check',
        ref='DESIGN.md §6 C10'),
    'C17': dict(
        text='Theorems (Props/C17.lean): every random-draw call site of the inventory regenerated from xrfm/ on each run reads a global generator '
             'that random_state seeds, and in the explicit-state RNG model seeding forgets any prior consumption; in the record model of xRFM.fit, '
             'whose re-initialisation facts are regenerated from the source, a re-fitted object with any same-task history and a fresh one yield '
             'the same prediction view for every learner. Tied to the code by bit-exact predict/predict_proba comparisons after 0..1e4 prior draws '
             'and after 0/1/2 earlier fits, plus generator-state and entry-object correspondence.',
        note=TB + 'Thin, protocol level: generators abstracted to (seed, count), seven-field object model, inventories by trusted AST patterns; '
             'mostly decided by the correspondence. eigenpro/log_reg paths, GPU, n_tree_iters>0, thread-count dependence outside scope; same task '
             'type assumed (fit sets tuning_metric).',
        technique='Lean 4 decide over regenerated inventories + induction over fit histories; bit-exact differential testing',
        ref='DESIGN.md §6 C17'),
    'C18': dict(
        text='Theorems (Props/C18.lean): every trace of the bracket grammar of fit/predict/predict_proba (thread count) and with_env_var '
             '(PYTORCH_CUDA_ALLOC_CONF), at any nesting depth and length, returns thread count and the variable (value or absence) to the initial '
             'state; every in-place tensor operation of the inventory regenerated on each run targets a freshly allocated tensor or is one of four '
             'allow-listed sites justified by further decided inventories. Tied to the code by real recorded event traces parsed by a proved-sound '
             'acceptor and by byte/_version comparison of all caller tensors over the recorded call sequences.',
        note=TB + 'Thin/partial by nature: protocol level. Trusted: extract/gen_inplace.py (intraprocedural alias pass), the hand-written grammar, '
             'the recorder. Not modelled: aliasing inside torch (runtime check only), GPU/Kermac, eigenpro/log_reg paths. Calls that raise are '
             'outside the property (threads are not restored by xRFM on exceptions; recorded as an observation).',
        technique='Lean 4 induction over a bracket grammar + decide over a regenerated static inventory; outside-recorder differential check',
        ref='DESIGN.md §6 C18'),
    'C20': dict(
        text='Theorems (Props/C20.lean): in the coercion model of xRFM.fit/predict/validate_data/labels_to_numerical all documented representations '
             'of the same data (container x dtype x shape, complete finite table) reach the leaves as one canonical float32 tensor and outputs '
             'have the documented shape/dtype; pre-encoded float labels with a classification metric likewise; representations outside the interface are stated explicitly. Tied to the code by recording every '
             'leaf input for every documented representation and by bit-exact comparison of predict/predict_proba across representations.',
        note=TB + 'Thin: finite table; the conversion facts (dtype of array features at every site, widening of integer targets, float casts, vector->column on both sides) are regenerated (Gen.Coerce), output formats are hand-written; value conversion is torch\'s; decided mostly by the '
             'correspondence. float64 feature tensors are outside the claimed interface (not converted).',
        technique='Lean 4 decide over an exhaustive finite table + bit-exact differential testing across representations',
        ref='DESIGN.md §6 C20'),
})

CHECKS.update({
    'C01': dict(
        text='Theorems (Props/C01.lean), for every tree shape/depth, batch and leaf predictor: the explicit stack traversal of '
             '_get_leaf_groups_and_models_on_samples (termination proved) equals the recursive grouping; concatenating per-group predictions '
             'and restoring by argsort of the original positions returns, row by row in the caller\'s order, the predictor of the leaf reached by '
             'the regenerated rule projection <= threshold applied to that row - hence permutation equivariance, concatenation/splitting '
             'homomorphism, row-wise batch independence (also for the mean over trees) and independence of the leaf\'s internal batch size. '
             'Tied to the code by the translator (Gen.Route) and by fitted models whose exported state is evaluated by an independent float64 '
             'reference (routing, kernel expansion of the leaf reached, mean, decoding) under a computed rounding allowance; the discrete part '
             '(groups, order, restore) is compared exactly with the Lean stack machine, including an exact-tie family. Every blocked loop of the source (RFM.predict batches, row blocks of the product kernel and of the categorical fast paths; inventory Gen.Chunks regenerated on every run) is proved an exact tiling, and an exact tiling is proved to be the row-wise map for any length and block size.',
        note=TB + 'The numeric leaf formula is tied by the correspondence only (kernel closed forms are C05, the codec C13); float32 rounding is '
             'absorbed by the allowance of DESIGN 4.3 (up to ~1e-2 for the memory-light kernel); rows within rounding distance of a threshold '
             'are excluded as the property allows. torch matmul/cdist/sort modelled, not verified.',
        technique='Lean 4 proof (functional induction on the stack machine, List.Perm + merge-sort uniqueness) over regenerated routing code + float64 reference differential check',
        ref='DESIGN.md §6 C01'),
    'C11': dict(
        text='Theorems (Props/C11.lean) over get_state_dict/load_state_dict as value plumbing with the wiring regenerated from the source '
             '(Gen.State: which attribute is written under which key, which key is read back into which attribute, what is conditional on '
             'classification, how centers are re-derived): every value predictions read (model level incl. the split temperature and the '
             'label decoder, every split node, every leaf incl. centers = X_train[train_indices]) arrives unchanged in a fresh model, for '
             'every number of trees and tree shape; the round trip can be iterated; exporting leaves the source untouched. Tied to the code by '
             'the translator and by bit-exact predict/predict_proba comparisons of fitted models (direct and pickled state, two cycles). Over the regenerated attribute inventories (Gen.State: attributes assigned in the call graph of fit and read in the call graph of predict / predict_proba / get_grads vs attributes assigned by load_state_dict) every learned attribute read at prediction time is restored by a load (learned_state_read_at_prediction_is_restored).',
        note=TB + 'Values are abstract in the model (tensor contents are never inspected); the C07 invariant centers = X[train_indices] is an '
             'hypothesis of the theorem (proved for the construction in C07). Same constructor arguments assumed, as the property states.',
        technique='Lean 4 proof (finite case analysis by rfl over regenerated wiring tables + induction on trees) + bit-exact differential check',
        ref='DESIGN.md §6 C11'),
})

NOT_YET = {}


def main():
    props = [json.loads(l) for l in open(os.path.join(HERE, 'properties.jsonl'))]
    checks = []
    na = []
    for p in props:
        pid = p['id']
        if pid in CHECKS:
            c = CHECKS[pid]
            checks.append({
                'property_id': pid,
                'quick_cmd': f'./check {pid} --tier quick',
                'thorough_cmd': f'./check {pid} --tier thorough',
                'evidence_file': f'evidence/{pid}.json',
                'replay_cmd_template': f'./check {pid} --replay {{path}}',
                'engine': 'lean4-proof+correspondence',
                'level_claimed': {'category': 'proof', 'text': c['text'], 'design_ref': c['ref']},
                'level_note': c['note'],
                'technique': c['technique'],
            })
        else:
            na.append({'property_id': pid, 'reason': NOT_YET.get(pid, 'check not built yet in this round (planned: see DESIGN.md §6); no claim made')})
    man = {
        'version': 1,
        'setup_cmd': './check --setup',
        'hooks': {
            'guard': 'XRFM_VERIF',
            'enable': 'no source hooks are needed: recorders wrap methods from outside the repository (harness/rfmrec.py, harness/xrec.py)',
            'baseline_off_cmd': 'cd /repo && /venv/bin/python -m pytest -ra -q -p no:cacheprovider --timeout=900 --continue-on-collection-errors',
            'source_commits': [],
            'add_only': True,
        },
        'engines': [{
            'name': 'lean4-proof+correspondence',
            'path': 'lean/ (Lean 4 project Xrfmv), extract/py2lean.py (translator), harness/ (correspondence), check (entry point)',
            'serves_properties': sorted(CHECKS),
            'kind_free_text': 'machine-checked proofs in Lean 4 about executable models; models regenerated from the Python source '
                              'and run against the implementation on the same inputs',
        }],
        'checks': checks,
        'not_applicable': na,
        'notes': 'Exit 2 = internal error or time-out (no verdict). VERIF_SEED seeds every generator; VERIF_TIER overrides --tier.',
    }
    with open(os.path.join(HERE, 'MANIFEST.json'), 'w') as f:
        json.dump(man, f, indent=1)
    print(f'{len(checks)} checks, {len(na)} not claimed')


if __name__ == '__main__':
    main()
