"""
Translator recipes: Gen.State <- xRFM.get_state_dict, tree_utils.get_param_tree, xRFM.load_state_dict,
xRFM._build_leaf_models_from_param_trees.

What is extracted is the *wiring*: which attribute of the fitted object is written under which key, and which key
is read back into which attribute.  Values are never looked at.
"""
import ast

import py2lean
from py2lean import U, Unsupported, strip_doc, is_print_or_verbose

XRFM_PY = 'xrfm/xrfm.py'
TREE_PY = 'xrfm/tree_utils.py'

# attribute expression (as written in the source) -> model field
M_ATTR = {
    'self.rfm_params': 'rfmParams', 'self.categorical_info': 'categoricalInfo', 'self.n_classes_': 'nClasses',
    'self.split_temperature': 'splitTemperature', 'self.classification_mode': 'classificationMode',
    'self.class_converter_._prior': 'convPrior', 'self.class_converter_._C': 'convC',
    'self.class_converter_._invA': 'convInvA', 'self.class_converter_._numerical_type': 'convNumType',
    'self.extra_rfm_params_': 'extraRfmParams', 'clean_extra_rfm_params': 'extraRfmParams',
    'self.solver': 'solver', "self.rfm_params['fit']['solver']": 'solver', "self.rfm_params['model']['solver']": 'solver',
}
M_KEY = {
    'rfm_params': 'rfmParams', 'categorical_info': 'categoricalInfo', 'n_classes': 'nClasses',
    'split_temperature': 'splitTemperature', 'classification_mode': 'classificationMode',
    'class_converter._prior': 'convPrior', 'class_converter._C': 'convC', 'class_converter._invA': 'convInvA',
    'class_converter._numerical_type': 'convNumType', 'extra_rfm_params_': 'extraRfmParams', 'solver': 'solver',
}
L_ATTR = {
    'leaf_model.kernel_obj.bandwidth': 'bandwidth', 'leaf_model.weights': 'weights', 'leaf_model.M': 'M',
    'leaf_model.sqrtM': 'sqrtM', "tree['train_indices']": 'trainIndices',
}
L_KEY = {'bandwidth': 'bandwidth', 'weights': 'weights', 'M': 'M', 'sqrtM': 'sqrtM', 'train_indices': 'trainIndices'}
N_ATTR = {"tree['split_direction']": 'splitDirection', "tree['split_point']": 'splitPoint',
          "tree.get('adaptive_temp_scaling', 1.0)": 'adaptiveTempScaling'}
N_KEY = {'split_direction': 'splitDirection', 'split_point': 'splitPoint', 'adaptive_temp_scaling': 'adaptiveTempScaling'}

DECLS = '''/-- Model-level learned state that predictions read. -/
inductive MField
  | rfmParams | categoricalInfo | nClasses | splitTemperature | classificationMode
  | convPrior | convC | convInvA | convNumType | extraRfmParams | solver
  deriving DecidableEq, Repr

/-- Per-leaf state. -/
inductive LField | bandwidth | weights | M | sqrtM | trainIndices
  deriving DecidableEq, Repr

/-- Per-split-node state. -/
inductive NField | splitDirection | splitPoint | adaptiveTempScaling
  deriving DecidableEq, Repr

/-- One exported entry: written under `key`, taken from attribute `src`; `classOnly` = written only when `n_classes_ > 0`;
`optional` = written only under a source-level condition on the configuration. -/
structure MExport where
  key : MField
  src : MField
  classOnly : Bool
  optional : Bool
  deriving DecidableEq, Repr

/-- One restored attribute: `attr` is assigned from the entry `key`; `classOnly` as above; `ifPresent` = assigned only when
the key is present (older state dictionaries). -/
structure MRestore where
  attr : MField
  key : MField
  classOnly : Bool
  ifPresent : Bool
  deriving DecidableEq, Repr'''


def _pairs(kind, items, fmt):
    return '[' + ', '.join(fmt(*it) for it in items) + ']'


def state_export_model(src):
    f = src.func(XRFM_PY, 'xRFM', 'get_state_dict')
    body = strip_doc(f.body)
    out = []

    def add(key, val, class_only, optional):
        if key == 'param_trees':
            return
        if key not in M_KEY:
            raise Unsupported(f'get_state_dict: unknown key `{key}`')
        if val not in M_ATTR:
            raise Unsupported(f'get_state_dict: unknown source `{val}` for key `{key}`')
        out.append((M_KEY[key], M_ATTR[val], class_only, optional))

    def walk(stmts, class_only, optional):
        for s in stmts:
            if is_print_or_verbose(s) or isinstance(s, ast.Return):
                continue
            if isinstance(s, ast.Assign) and U(s.targets[0]) == 'state_dict' and isinstance(s.value, ast.Dict):
                for k, v in zip(s.value.keys, s.value.values):
                    add(k.value, U(v), class_only, optional)
                continue
            if isinstance(s, ast.Assign) and isinstance(s.targets[0], ast.Subscript) and U(s.targets[0].value) == 'state_dict':
                key = s.targets[0].slice.value
                if isinstance(s.value, ast.Dict):
                    for k, v in zip(s.value.keys, s.value.values):
                        add(f'{key}.{k.value}', U(v), class_only, optional)
                else:
                    add(key, U(s.value), class_only, optional)
                continue
            if isinstance(s, ast.If):
                t = U(s.test)
                if t == 'self.n_classes_ > 0' and not s.orelse:
                    walk(s.body, True, optional)
                    continue
                if t.startswith("'solver' in self.rfm_params") and not s.orelse:
                    walk(s.body, class_only, True)
                    continue
                raise Unsupported(f'get_state_dict: condition `{t}`')
            txt = U(s)
            if txt in ('param_trees = []', 'clean_extra_rfm_params = self.extra_rfm_params_.copy()',
                       "clean_extra_rfm_params.pop('class_converter')") or isinstance(s, ast.For):
                continue
            raise Unsupported(f'get_state_dict: statement `{txt[:70]}`')

    walk(body, False, False)
    fmt = lambda k, a, c, o: f'⟨.{k}, .{a}, {"true" if c else "false"}, {"true" if o else "false"}⟩'
    return ('/-- `get_state_dict`: model-level entries. -/\n'
            'def exportedM : List MExport :=\n  ' + _pairs('M', out, fmt))


def state_export_pure(src):
    f = src.func(XRFM_PY, 'xRFM', 'get_state_dict')
    txt = [U(s) for s in ast.walk(f) if isinstance(s, (ast.Assign, ast.Expr))]
    copied = 'clean_extra_rfm_params = self.extra_rfm_params_.copy()' in txt
    pops_copy = any(t == "clean_extra_rfm_params.pop('class_converter')" for t in txt)
    pops_self = any('self.extra_rfm_params_.pop(' in t or "del self.extra_rfm_params_[" in t for t in txt)
    # any assignment to an attribute of self inside get_state_dict would change the source model
    writes_self = [U(s) for s in ast.walk(f) if isinstance(s, (ast.Assign, ast.AugAssign))
                   and any(U(t).startswith('self.') for t in (s.targets if isinstance(s, ast.Assign) else [s.target]))]
    pure = copied and pops_copy and not pops_self and not writes_self
    trees = 'param_trees.append(get_param_tree(tree, is_root=True))' in [U(s) for s in ast.walk(f) if isinstance(s, ast.Expr)]
    if not trees:
        raise Unsupported('get_state_dict: param tree collection')
    return ('/-- `get_state_dict` does not assign to any attribute of the source model and removes the converter only from a\n'
            'copy of `extra_rfm_params_`. -/\n'
            f'def exportLeavesSourceUntouched : Bool := {"true" if pure else "false"}')


def state_param_tree(src):
    f = src.func(TREE_PY, None, 'get_param_tree')
    body = strip_doc(f.body)
    top = [s for s in body if isinstance(s, ast.If)]
    if len(top) != 1 or U(top[0].test) != "tree['type'] == 'leaf'":
        raise Unsupported('get_param_tree: shape')
    leaf_dict = node_dict = None
    for s in ast.walk(top[0]):
        if isinstance(s, ast.Dict):
            keys = [k.value for k in s.keys]
            if 'bandwidth' in keys or 'weights' in keys:
                leaf_dict = s
            elif 'left' in keys:
                node_dict = s
    if leaf_dict is None or node_dict is None:
        raise Unsupported('get_param_tree: dictionaries')
    if 'leaf_model = tree[\'model\']' not in [U(s) for s in ast.walk(f) if isinstance(s, ast.Assign)]:
        raise Unsupported('get_param_tree: leaf model binding')
    lp = []
    for k, v in zip(leaf_dict.keys, leaf_dict.values):
        if k.value in ('type', 'is_root'):
            continue
        if k.value not in L_KEY or U(v) not in L_ATTR:
            raise Unsupported(f'get_param_tree: leaf entry {k.value}: {U(v)}')
        lp.append((L_KEY[k.value], L_ATTR[U(v)]))
    npairs = []
    rec = {}
    for k, v in zip(node_dict.keys, node_dict.values):
        if k.value in ('type', 'is_root'):
            continue
        if k.value in ('left', 'right'):
            rec[k.value] = U(v)
            continue
        if k.value not in N_KEY or U(v) not in N_ATTR:
            raise Unsupported(f'get_param_tree: node entry {k.value}: {U(v)}')
        npairs.append((N_KEY[k.value], N_ATTR[U(v)]))
    if rec != {'left': "get_param_tree(tree['left'], is_root=False)", 'right': "get_param_tree(tree['right'], is_root=False)"}:
        raise Unsupported(f'get_param_tree: recursion {rec}')
    fmt = lambda k, a: f'(.{k}, .{a})'
    return ('/-- `get_param_tree`: per-leaf and per-node entries as (key, source attribute); children are exported recursively,\n'
            'left under `left`, right under `right`. -/\n'
            'def exportedL : List (LField × LField) :=\n  ' + _pairs('L', lp, fmt) + '\n'
            'def exportedN : List (NField × NField) :=\n  ' + _pairs('N', npairs, fmt) + '\n'
            'def childrenExportedInPlace : Bool := true')


def state_restore_model(src):
    f = src.func(XRFM_PY, 'xRFM', 'load_state_dict')
    body = strip_doc(f.body)
    out = []

    def parse_get(v):
        """state_dict['k'] | state_dict['a']['b'] | state_dict.get('k', None) -> key"""
        if isinstance(v, ast.Subscript):
            if U(v.value) == 'state_dict':
                return v.slice.value
            if isinstance(v.value, ast.Subscript) and U(v.value.value) == 'state_dict':
                return f'{v.value.slice.value}.{v.slice.value}'
        if isinstance(v, ast.Call) and U(v.func) == 'state_dict.get':
            return v.args[0].value
        return None

    def walk(stmts, class_only, if_present):
        for s in stmts:
            if is_print_or_verbose(s) or isinstance(s, ast.Return):
                continue
            if isinstance(s, ast.Assign) and len(s.targets) == 1:
                tgt = U(s.targets[0])
                key = parse_get(s.value)
                if key is not None:
                    if tgt not in M_ATTR or key not in M_KEY:
                        raise Unsupported(f'load_state_dict: `{U(s)}`')
                    out.append((M_ATTR[tgt], M_KEY[key], class_only, if_present))
                    continue
                if tgt == 'self.class_converter_' and U(s.value).startswith('ClassificationConverter('):
                    if 'mode=self.classification_mode' not in U(s.value) or 'n_classes=self.n_classes_' not in U(s.value) \
                            or 'init_from_params=True' not in U(s.value):
                        raise Unsupported('load_state_dict: converter construction')
                    continue
                if tgt == "self.extra_rfm_params_['class_converter']" and U(s.value) == 'self.class_converter_':
                    continue
            if isinstance(s, ast.If):
                t = U(s.test)
                if t == 'self.n_classes_ > 0' and not s.orelse:
                    walk(s.body, True, if_present)
                    continue
                if t.startswith("'") and t.endswith("in state_dict") and not s.orelse:
                    walk(s.body, class_only, True)
                    continue
                raise Unsupported(f'load_state_dict: condition `{t}`')
            txt = U(s)
            if txt == "self._build_leaf_models_from_param_trees(state_dict['param_trees'])" or isinstance(s, ast.For):
                continue
            raise Unsupported(f'load_state_dict: statement `{txt[:70]}`')

    walk(body, False, False)
    fmt = lambda a, k, c, p: f'⟨.{a}, .{k}, {"true" if c else "false"}, {"true" if p else "false"}⟩'
    return ('/-- `load_state_dict`: model-level attributes assigned from the dictionary. -/\n'
            'def restoredM : List MRestore :=\n  ' + _pairs('M', out, fmt))


def state_restore_tree(src):
    f = src.func(XRFM_PY, 'xRFM', '_build_leaf_models_from_param_trees')
    inner = [s for s in ast.walk(f) if isinstance(s, ast.FunctionDef) and s.name == 'set_leaf_model_single_tree']
    if len(inner) != 1:
        raise Unsupported('_build_leaf_models_from_param_trees: inner function')
    tgt_map = {'leaf_model.kernel_obj.bandwidth': 'bandwidth', 'leaf_model.weights': 'weights', 'leaf_model.M': 'M',
               'leaf_model.sqrtM': 'sqrtM'}
    lp = []
    node_ok = {'left': False, 'right': False}
    for s in ast.walk(inner[0]):
        if isinstance(s, ast.Assign) and len(s.targets) == 1:
            t = U(s.targets[0])
            if t in tgt_map:
                v = s.value
                if not (isinstance(v, ast.Subscript) and U(v.value) == 'tree' and v.slice.value in L_KEY):
                    raise Unsupported(f'leaf restore `{U(s)}`')
                lp.append((tgt_map[t], L_KEY[v.slice.value]))
            if t == "tree['left']" and U(s.value) == "set_leaf_model_single_tree(tree['left'])":
                node_ok['left'] = True
            if t == "tree['right']" and U(s.value) == "set_leaf_model_single_tree(tree['right'])":
                node_ok['right'] = True
    txt = U(inner[0])
    if "tree['model'] = leaf_model" not in txt or not all(node_ok.values()):
        raise Unsupported('_build_leaf_models_from_param_trees: tree reconstruction')
    # kernel / diag / exponent come from rfm_params['model'] of the state dict
    if "RFM(**self.rfm_params['model']" not in txt:
        raise Unsupported('leaf model construction')
    g = src.func(XRFM_PY, 'xRFM', 'load_state_dict')
    gt = U(g)
    centers = ("leaf_center_indices = leaf_node['train_indices']" in gt and 'leaf_model.centers = X_train[leaf_center_indices]' in gt)
    if centers:
        lp.append(('trainIndices', 'trainIndices'))
    fmt = lambda a, k: f'(.{a}, .{k})'
    return ('/-- `_build_leaf_models_from_param_trees` / `load_state_dict`: leaf attributes as (attribute, key read); the parameter\n'
            'tree dictionaries themselves become the tree (node entries are kept as exported); centers are re-derived as\n'
            '`X_train[train_indices]`; leaf models are constructed from `rfm_params[\'model\']` of the state. -/\n'
            'def restoredL : List (LField × LField) :=\n  ' + _pairs('L', lp, fmt) + '\n'
            'def nodeDictReused : Bool := true\n'
            f'def centersFromTrainIndices : Bool := {"true" if centers else "false"}')


def state_predict_reads(src):
    """Attributes of the estimator that `fit` assigns (learned state) and that the prediction-time code reads, against the
    attributes `load_state_dict` assigns.  A learned attribute read at prediction time and not restored by a load makes the
    loaded model predict from the constructor's default for it."""
    import gen_fitobj as g
    pred = []
    for root in ('predict', 'predict_proba', 'get_grads'):
        for m in g.call_graph_closure(src, root):
            if m not in pred:
                pred.append(m)
    if not pred:
        raise Unsupported('no prediction entry point found')
    p_stores, p_loads = g.attr_stores_loads(src, pred)
    f_stores, _ = g.attr_stores_loads(src, g.call_graph_closure(src, 'fit'))
    l_stores, _ = g.attr_stores_loads(src, g.call_graph_closure(src, 'load_state_dict'))
    # a lazily built cache (assigned inside the prediction code itself) is rebuilt by the loaded model on first use
    learned = sorted((set(p_loads) & set(f_stores)) - set(p_stores))
    q = lambda l: '[' + ', '.join('"' + a + '"' for a in l) + ']'  # noqa: E731
    return ('/-- Attributes assigned in the call graph of `fit` and read in the call graph of `predict` / `predict_proba` / `get_grads`\n'
            '(caches assigned by the prediction code itself excluded), and the attributes assigned in the call graph of `load_state_dict`. -/\n'
            f'def learnedStateReadAtPrediction : List String := {q(learned)}\n'
            f'def attributesAssignedByLoad : List String := {q(sorted(set(l_stores)))}')


py2lean.register('State', XRFM_PY, [], [
    ('decls', lambda s: DECLS),
    ('exportedM', state_export_model),
    ('exportPure', state_export_pure),
    ('paramTree', state_param_tree),
    ('restoredM', state_restore_model),
    ('restoredTree', state_restore_tree),
    ('predictReads', state_predict_reads),
])
