/-
C09 — Soft routing computes the documented leaf mixture.

Statements are about `Xrfmv.Soft` (Model/Soft.lean): the stack machine `buildCache` of `_build_tree_cache` and the
scalar-generic pipeline of `_predict_tree_soft` instantiated at `ℝ`, every decision of which is a definition of the
*regenerated* `Xrfmv.Gen.Soft` (push order and `took_left` flags, `(x·v − b)/(T·σ)`, sign per branch, clamp −50,
sort direction, `cumulative < keep`, `max(min(cap, n) − 1, 0)`, `position ≤ keep_count`, hard-routing predicate).
`torch.sort` is an oracle: theorems hold for EVERY permutation `perm` meeting `SortContract` (ties in any order).
Unbounded: any tree (shape, depth), any number of leaves, any row, any real `keep`, any `cap`.
-/
import Xrfmv.Lemmas.Soft

namespace Xrfmv.Props.C09
open Xrfmv.Soft Xrfmv.Gen.Soft Filter Topology

/-- **C09(0) documented weights** — for every tree and row, the log-probability the model (cache + regenerated
`nodeLogit`/`gateTerm`) assigns to the ℓ-th leaf is the sum over its root-to-leaf gates of `log σ(−z)` (left
branch) resp. `log σ(z)` (right branch) with `z = (x·v − b)/(T·σ)`, `σ(t) = 1/(1+e^{−t})`; and the weights before
truncation are the textbook soft-max `exp(ℓp_i)/Σ_j exp(ℓp_j)` of the log-probabilities clamped below at
`Gen.Soft.logClamp`. -/
theorem documented_weights {μ : Type} (T : ℝ) (t : Tree ℝ μ) (x : List ℝ) :
    rowLogPs T (buildCache t) x = (pathsSpec t).map (fun e => (e.2.map (docTerm T x)).sum) ∧
    (∀ (g : Gate ℝ) (tookLeft : Bool), docTerm T x (g, tookLeft) =
      Real.log (sigmoid (if tookLeft then -((dot x g.dir - g.thr) / (T * g.scale))
                         else (dot x g.dir - g.thr) / (T * g.scale)))) ∧
    (∀ lps : List ℝ, leafWeights lps =
      lps.map (fun v => Real.exp (max v logClamp) / (lps.map (fun v => Real.exp (max v logClamp))).sum)) := by
  refine ⟨rowLogPs_documented T t x, fun _ _ => rfl, ?_⟩
  intro lps
  simp only [leafWeights, softmax_textbook, List.map_map, Function.comp_def, clampLog]

/-- **C09(1) cache** — the stack machine equals the recursion: leaf ids are `0..k−1` in left-to-right order, node
ids are `0..` in preorder with the gates of the tree, and for every leaf id the cached model and the cached path,
with its node ids looked up in the cached gate table, are that leaf's payload and its root-to-leaf gate list with
`took_left = true` exactly for left branches (`pathsSpec`).  Every tree; no depth bound. -/
theorem cache_paths {α μ : Type} (t : Tree α μ) :
    buildCache t = ⟨leavesRec t 0 0 [], gatesRec t 0⟩ ∧
    (buildCache t).leaves.map (fun e => e.1) = List.range t.nleaves ∧
    (buildCache t).gates.map (fun e => e.1) = List.range t.nodes ∧
    (buildCache t).gates.map (fun e => e.2) = t.gatesPre ∧
    (buildCache t).leaves.map (fun e => (e.2.1, resolve (buildCache t).gates e.2.2)) =
      (pathsSpec t).map (fun e => (e.1, e.2.map (fun ge => (some ge.1, ge.2)))) :=
  ⟨buildCache_eq t, cache_spec t⟩

/-- **C09(2) simplex** — for a non-empty list of leaf log-probabilities the soft-max weights are positive and sum to
one; after truncation and renormalisation the weights are non-negative, sum to one, and vanish on every inactive
leaf. -/
theorem weights_simplex (lps : List ℝ) (hne : lps ≠ []) (keep : ℝ) (cap : ℕ) (perm : List ℕ)
    (hs : SortContract (leafWeights lps) perm) :
    ((leafWeights lps).length = lps.length ∧ (∀ v ∈ leafWeights lps, 0 < v) ∧ (leafWeights lps).sum = 1) ∧
    ((finalWeights keep cap (leafWeights lps) perm).2.length = lps.length ∧
     (∀ v ∈ (finalWeights keep cap (leafWeights lps) perm).2, 0 ≤ v) ∧
     (finalWeights keep cap (leafWeights lps) perm).2.sum = 1 ∧
     ∀ i, i < lps.length → (finalWeights keep cap (leafWeights lps) perm).1.getD i false = false →
       (finalWeights keep cap (leafWeights lps) perm).2.getD i 0 = 0) := by
  have hw := leafWeights_spec lps hne
  have hne' : leafWeights lps ≠ [] := by
    intro h; rw [h] at hw; exact hne (List.length_eq_zero_iff.mp hw.1.symm)
  have hR := keptOf_mass_pos keep cap (leafWeights lps) hw.2.1 hne' perm hs
  have hf := final_spec (leafWeights lps) (fun v hv => le_of_lt (hw.2.1 v hv)) _
    (hs.take_nodup _) (hs.take_lt _) hR
  refine ⟨hw, ?_⟩
  rw [finalWeights_eq]
  refine ⟨hf.1.trans hw.1, hf.2.1, hf.2.2.1, ?_⟩
  intro i hi hm
  apply hf.2.2.2 i (by rw [hw.1]; exact hi)
  intro hk
  have := (activeMask_getD (leafWeights lps).length _ i).mpr ⟨by rw [hw.1]; exact hi, hk⟩
  have hm' : (activeMask (leafWeights lps).length (keptOf keep cap (leafWeights lps) perm)).getD i false = false := hm
  unfold keptOf at hm'
  rw [this] at hm'
  cases hm'

/-- **C09(3) kept set** — with `m = keep_count + 1`: the active leaves are the first `m` positions of the sorting
permutation, a top-`m` set by weight (every kept weight ≥ every dropped weight), never empty, `m ≤ min(cap, n)`;
no smaller top set exceeds `keep` (`top-(m−1)` mass `≤ keep`), and when `m` is below the cap the top-`m` mass reaches
`keep`.  Tie-tolerant: the proof uses only `cutoff_spec`, which `<` and `≤` in the cut-off both satisfy. -/
theorem kept_set (w : List ℝ) (hw : ∀ v ∈ w, 0 ≤ v) (hne : w ≠ []) (keep : ℝ) (cap : ℕ) (hcap : 1 ≤ cap)
    (perm : List ℕ) (hs : SortContract w perm) :
    let m := keepCount keep cap w.length (perm.map (fun i => w.getD i 0)) + 1
    (∀ i, (finalWeights keep cap w perm).1.getD i false = true ↔ i ∈ perm.take m) ∧
    1 ≤ m ∧ m ≤ min cap w.length ∧ (perm.take m).length = m ∧
    (∀ i ∈ perm.take m, ∀ j, j < w.length → j ∉ perm.take m → w.getD j 0 ≤ w.getD i 0) ∧
    (2 ≤ m → topMass w perm (m - 1) ≤ keep) ∧
    (m < min cap w.length → keep ≤ topMass w perm m) := by
  intro m
  obtain ⟨_, h2, h3, h4⟩ := kept_spec w hw hne keep cap hcap perm hs
  refine ⟨?_, by omega, h2, ?_, hs.top_le m, ?_, h4⟩
  · intro i
    rw [finalWeights_eq]
    simp only [activeMask_getD, keptOf]
    exact ⟨fun h => h.2, fun h => ⟨hs.take_lt _ i h, h⟩⟩
  · rw [List.length_take, hs.length_eq]; omega
  · intro h
    exact h3 (by omega)

/-- **C09(4) convex hull** — one output coordinate of `_predict_tree_soft` lies between any bounds that hold for
the predictions of the ACTIVE leaves (in particular between their minimum and maximum). `f m` is the prediction of
leaf model `m` for the row; leaves are addressed by their left-to-right position. -/
theorem convex_hull {μ : Type} (T keep : ℝ) (cap : ℕ) (t : Tree ℝ μ) (x : List ℝ) (perm : List ℕ)
    (hs : SortContract (leafWeights (rowLogPs T (buildCache t) x)) perm) (f : μ → ℝ) (lo hi : ℝ)
    (hf : ∀ i, (finalWeights keep cap (leafWeights (rowLogPs T (buildCache t) x)) perm).1.getD i false = true →
      lo ≤ ((pathsSpec t).map (fun e => f e.1)).getD i 0 ∧ ((pathsSpec t).map (fun e => f e.1)).getD i 0 ≤ hi) :
    lo ≤ softPredict T keep cap t x perm f ∧ softPredict T keep cap t x perm f ≤ hi := by
  have hne : rowLogPs T (buildCache t) x ≠ [] := by
    intro h
    have := rowLogPs_length T t x
    rw [h] at this
    have := nleaves_pos t
    simp at *; omega
  have hw := leafWeights_spec _ hne
  have hne' : leafWeights (rowLogPs T (buildCache t) x) ≠ [] := by
    intro h; rw [h] at hw; exact hne (List.length_eq_zero_iff.mp hw.1.symm)
  have hR := keptOf_mass_pos keep cap _ hw.2.1 hne' perm hs
  simp only [softPredict, cache_preds]
  rw [mixture_eq keep cap _ perm hs]
  apply convex_sum _ (fun i => (leafWeights (rowLogPs T (buildCache t) x)).getD i 0 /
      keptMass (leafWeights (rowLogPs T (buildCache t) x))
        (keptOf keep cap (leafWeights (rowLogPs T (buildCache t) x)) perm))
    (fun i => ((pathsSpec t).map (fun e => f e.1)).getD i 0)
  · intro i _
    exact div_nonneg (getD_nonneg _ (fun v hv => le_of_lt (hw.2.1 v hv)) i) (le_of_lt hR)
  · exact kept_coeff_sum _ _ hR
  · intro i hi
    apply hf i
    rw [finalWeights_eq, activeMask_getD]
    exact ⟨hs.take_lt _ i hi, hi⟩

/-- **C09(5) dominant leaf** — if the heaviest leaf alone exceeds `keep` (or the cap is one) exactly that leaf is
active and the output EQUALS its prediction.  (At exact equality `weight = keep` the cut-off tie decides; the
property leaves it open, so it is not part of the statement.) -/
theorem hard_when_dominant {μ : Type} (T keep : ℝ) (cap : ℕ) (t : Tree ℝ μ) (x : List ℝ) (perm : List ℕ)
    (hs : SortContract (leafWeights (rowLogPs T (buildCache t) x)) perm) (f : μ → ℝ)
    (hdom : keep < (leafWeights (rowLogPs T (buildCache t) x)).getD (perm.headD 0) 0 ∨ cap = 1) :
    (∀ i, (finalWeights keep cap (leafWeights (rowLogPs T (buildCache t) x)) perm).1.getD i false = true ↔
      i = perm.headD 0) ∧
    softPredict T keep cap t x perm f = ((pathsSpec t).map (fun e => f e.1)).getD (perm.headD 0) 0 := by
  have hne : rowLogPs T (buildCache t) x ≠ [] := by
    intro h
    have := rowLogPs_length T t x
    rw [h] at this
    have := nleaves_pos t
    simp at *; omega
  have hw := leafWeights_spec _ hne
  have hp : perm ≠ [] := by
    intro h
    have h1 := hs.length_eq
    rw [h, hw.1, rowLogPs_length] at h1
    have := nleaves_pos t
    simp at h1; omega
  have hk := keptOf_dominant keep cap _ (fun v hv => le_of_lt (hw.2.1 v hv)) perm hdom hp
  constructor
  · intro i
    rw [finalWeights_eq, activeMask_getD, hk]
    constructor
    · intro h; simpa using h.2
    · intro h
      subst h
      refine ⟨hs.lt _ ?_, by simp⟩
      cases perm with
      | nil => exact absurd rfl hp
      | cons a l => simp
  · simp only [softPredict, cache_preds]
    exact mixture_single keep cap _ hne perm hs _ _ hk

/-- **C09(6) `T → 0⁺`** — for a row with no zero logit (and positive node scales) and a keep fraction below
`1/(1+(N−1)·e^{clamp})` (`clamp = −50`, `N` leaves): for all sufficiently small `T > 0` and every admissible sorting
permutation the top leaf is the hard-routed leaf and the output EQUALS the hard-routed prediction.  From
`log σ(c/T) → 0` (`c > 0`) and `log σ(−c/T) → −∞` on `𝓝[>] 0`.  The bound on `keep` is necessary because of the
clamp: every other leaf keeps the weight `e^{−50}/(1+(N−1)e^{−50})` in the limit, so for `keep` above the bound
(e.g. `keep = 1`) those leaves stay active and the limit differs from the hard prediction by at most
`N·e^{−50}` times the range of the leaf predictions (C09(4)). -/
theorem limit_T0 {μ : Type} (t : Tree ℝ μ) (x : List ℝ) (keep : ℝ) (cap : ℕ) (f : μ → ℝ)
    (hg : ∀ g ∈ t.gatesPre, 0 < g.scale ∧ dot x g.dir ≠ g.thr)
    (hkeep : keep < 1 / (1 + ((t.nleaves : ℝ) - 1) * Real.exp logClamp)) :
    ∀ᶠ T in 𝓝[>] (0 : ℝ), ∀ perm, SortContract (leafWeights (rowLogPs T (buildCache t) x)) perm →
      perm.headD 0 = hardIndex x t ∧ softPredict T keep cap t x perm f = f (hardRoute x t) :=
  limit_T0_main t x keep cap f hg hkeep

/-- The two one-variable limits behind C09(6). -/
theorem limit_T0_gates (c : ℝ) (hc : 0 < c) :
    Tendsto (fun T : ℝ => logSigmoid (c / T)) (𝓝[>] 0) (𝓝 0) ∧
    Tendsto (fun T : ℝ => logSigmoid (-(c / T))) (𝓝[>] 0) atBot :=
  ⟨logSigmoid_pos_limit c hc, logSigmoid_neg_limit c hc⟩

/-! ### Non-vacuity -/

/-- The sorting contract is satisfiable for every row (merge sort of the positions meets it). -/
example (w : List ℝ) : SortContract w (sortPerm w) := sortPerm_contract w

/-- The hypotheses of C09(2)–(5) hold for a concrete three-leaf row with a binding truncation. -/
example : ∃ (lps : List ℝ) (keep : ℝ) (cap : ℕ) (perm : List ℕ),
    lps ≠ [] ∧ 1 ≤ cap ∧ cap < lps.length ∧ 0 < keep ∧ keep < 1 ∧ SortContract (leafWeights lps) perm :=
  ⟨[-0.1, -3, -2.5], 0.9, 2, sortPerm (leafWeights [-0.1, -3, -2.5]), by simp, by norm_num, by simp,
    by norm_num, by norm_num, sortPerm_contract _⟩

/-- The hypotheses of C09(6) hold for a concrete two-leaf tree (scale 2 ≠ 1), row `x = [1]`, `keep = 0.4`
(any negative clamp constant). -/
example : ∃ (t : Tree ℝ ℕ) (x : List ℝ) (keep : ℝ),
    (∀ g ∈ t.gatesPre, 0 < g.scale ∧ dot x g.dir ≠ g.thr) ∧ 2 ≤ t.nleaves ∧ 0 < keep ∧
    keep < 1 / (1 + ((t.nleaves : ℝ) - 1) * Real.exp logClamp) := by
  refine ⟨.node ⟨[1], 0, 2⟩ (.leaf 0) (.leaf 1), [1], 0.4, ?_, by simp [Tree.nleaves], by norm_num, ?_⟩
  · intro g hg
    simp [Tree.gatesPre] at hg
    subst hg
    simp [dot, sumL]
  · have h1 : Real.exp (logClamp : ℝ) ≤ 1 := by
      rw [← Real.exp_zero]; exact Real.exp_le_exp.mpr (le_of_lt logClamp_neg)
    have hpos := Real.exp_pos (logClamp : ℝ)
    simp only [Tree.nleaves]
    rw [lt_div_iff₀ (by push_cast; nlinarith)]
    push_cast
    nlinarith

end Xrfmv.Props.C09
