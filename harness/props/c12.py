"""
C12 — class probabilities are valid distributions and consistent with labels.

Proof: lean/Xrfmv/Props/C12.lean about the model lean/Xrfmv/Model/Codec.lean (leaf decode / clamp /
normalise, soft mixture over leaves, mean over trees; exact reals, any K, T, leaf count, leaf outputs).
Property oracle: fitted xRFM classifiers, `predict_proba` / `predict` inspected directly.
Correspondence: every probability row and label is recomputed by the Lean model on Float (driver_c12,
op `ensemble`) from the raw leaf outputs of the very same fitted model (per-tree `_predict_tree(...,
proba=False)` for hard routing; per-leaf `RFM.predict` plus the routing weights the code computed for
soft routing) and compared under a float32 allowance.
"""
from harness import core
from harness.props.c13 import proba_allowance, U32

MOD = 'harness.props.c12'
METRICS = [None, 'accuracy', 'brier', 'logloss', 'f1', 'auc']
PROFILES = ['balanced', 'imbalanced', 'extreme', 'missing']
ROUTINGS = ['hard', 'soft', 'tuned']
BIG_LEAF = 100_000


# ------------------------------------------------------------------------------------------------
def class_counts(p):
    """(train counts, validation counts) per class id; n_classes = K is pinned by the largest id."""
    import random
    r = random.Random(p['dseed'])
    K, ntr, nva = p['K'], p['n_train'], p['n_val']
    prof = p['profile']

    def spread(n, w):
        tot = sum(w)
        c = [int(n * x / tot) for x in w]
        c[max(range(K), key=lambda i: w[i])] += n - sum(c)
        return c

    if prof == 'balanced':
        w = [1.0] * K
        ctr, cva = spread(ntr, w), spread(nva, w)
    elif prof == 'imbalanced':
        w = [0.5 ** i for i in range(K)]
        r.shuffle(w)
        ctr, cva = spread(ntr, w), spread(nva, w)
        ctr = [max(c, 3) for c in ctr]
    elif prof == 'extreme':        # one class with 1-2 training samples
        j = r.randrange(K)
        w = [1.0] * K
        w[j] = 0.0
        ctr, cva = spread(ntr - 2, w), spread(nva - 1, w)
        ctr[j] = r.choice([1, 2])
        cva[j] = r.choice([0, 1])
    else:                          # 'missing': a class id below n_classes never occurs in training
        j = r.randrange(K)
        w = [1.0] * K
        w[j] = 0.0
        ctr, cva = spread(ntr, w), spread(nva - 2, w)
        ctr[j] = 0
        cva[j] = 2 if j == K - 1 else r.choice([0, 2])
    if p['metric'] == 'auc':       # AUC needs every class in every leaf's validation set (single leaf here)
        cva = [max(c, 2) for c in cva]
    if ctr[K - 1] + cva[K - 1] == 0:
        cva[K - 1] = 1
    return ctr, cva


def make_data(p):
    import torch
    g = torch.Generator().manual_seed(p['dseed'])
    K, d = p['K'], p['d']
    ctr, cva = class_counts(p)
    centers = torch.randn(K, d, generator=g) * p['sep']

    def draw(counts):
        y = torch.cat([torch.full((c,), k, dtype=torch.long) for k, c in enumerate(counts)])
        perm = torch.randperm(len(y), generator=g)
        y = y[perm]
        X = centers[y] + torch.randn(len(y), d, generator=g)
        return X.float().contiguous(), y

    Xtr, ytr = draw(ctr)
    Xva, yva = draw(cva)
    if p.get('replicated'):
        # one design point replicated in 80 % of the training rows (repeated measurements with different outcomes): at
        # every node the projections have zero inter-quartile range
        k = int(p['replicated'] * len(Xtr))
        idx = torch.randperm(len(Xtr), generator=g)[:k]
        Xtr[idx] = Xtr[idx[0]].clone()
        Xva[: max(2, len(Xva) // 4)] = Xtr[idx[0]].clone()
    far_dir = torch.randn(4, d, generator=g)
    fresh = torch.randn(8, d, generator=g) * 1.5
    # moderately far rows: every class score is tiny but not yet 0, so the clamp of the decoder creates exact ties
    mod = torch.cat([Xtr[:4] * 5.0, Xtr[4:8] * 12.0, Xva[:4] * 30.0, fresh[:4] * 80.0, Xtr[8:12] * 200.0], 0)
    Xq = torch.cat([Xva[:16], fresh, Xtr[:12], Xtr[:6] * 1e3, Xva[:3] * 1e4, mod, Xtr[:8] * 1e6, far_dir * 1e6,
                    -Xtr[:2] * 1e6], 0).float().contiguous()
    nfar0 = Xq.shape[0] - (8 + 4 + 2)
    kinds = (['in-range'] * (min(16, len(Xva)) + 8) + ['train-point'] * 12 + ['x1e3'] * 6 + ['x1e4'] * min(3, len(Xva))
             + ['moderately-far'] * mod.shape[0])
    kinds = kinds + ['x1e6'] * (Xq.shape[0] - len(kinds))
    return Xtr, ytr, Xva, yva, Xq, kinds, ctr, cva, nfar0


def build_model(p):
    from xrfm import xRFM
    rfm_params = {'model': {'kernel': p['kernel'], 'bandwidth': p['bandwidth'], 'exponent': p['exponent'],
                            'diag': p['diag'], 'bandwidth_mode': 'constant'},
                  'fit': {'reg': p.get('reg', 1e-3), 'iters': p['iters'], 'verbose': False, 'return_best_params': p['return_best'],
                          'early_stop_rfm': False}}
    if p.get('solver_in'):
        # the logistic leaf solver, configured either with the model parameters or with the fit parameters
        rfm_params[p['solver_in']]['solver'] = 'log_reg'
    if p.get('solver'):
        rfm_params['fit']['solver'] = p['solver']
    kw = {}
    if p['routing'] == 'soft':
        kw = dict(split_temperature=p['temperature'], use_temperature_tuning=False)
    elif p['routing'] == 'hard':
        kw = dict(split_temperature=None, use_temperature_tuning=False)
    else:
        kw = dict(split_temperature=None, use_temperature_tuning=True)
    return xRFM(rfm_params=rfm_params, max_leaf_size=p['max_leaf_size'], device='cpu', verbose=False,
                random_state=p['mseed'], classification_mode=p['mode'], tuning_metric=p['metric'],
                n_trees=p['n_trees'], **kw)


def soft_weights(model, tree, Xq):
    """The renormalised routing weights `_predict_tree_soft` uses, read off by running the code's own
    routine with leaf models that answer with a one-hot row (aggregated = 0 + w * 1)."""
    import torch
    cache = model._ensure_tree_cache(tree)
    order = list(cache['leaf_order'])
    L = len(order)

    class Stub:
        def __init__(self, i):
            self.i = i

        def predict(self, X):
            out = torch.zeros(X.shape[0], L)
            out[:, self.i] = 1.0
            return out

    orig = cache['leaf_models']
    cache['leaf_models'] = {lid: Stub(i) for i, lid in enumerate(order)}
    try:
        W = model._predict_tree_soft(Xq, tree, proba=False)
    finally:
        cache['leaf_models'] = orig
    return W, [orig[lid] for lid in order]


def leaf_decode_allowance(np, raw, mode, invA, K, eps=1e-3, delta_in=None):
    """(decoded rows float64, allowance of the clamp-normalised row) for raw leaf outputs `raw`."""
    if mode == 'prevalence':
        B = np.concatenate([raw, np.ones((len(raw), 1))], 1)
        dec = B @ invA.T
        delta = 4 * K * U32 * (np.abs(B) @ np.abs(invA).T)
        if delta_in is not None:
            delta = delta + np.concatenate([delta_in, np.zeros((len(raw), 1))], 1) @ np.abs(invA).T
    elif raw.shape[1] == 1:
        dec = np.concatenate([1 - raw, raw], 1)
        delta = np.concatenate([2 * U32 * np.abs(1 - raw), np.zeros_like(raw)], 1)
        if delta_in is not None:
            delta = delta + np.concatenate([delta_in, delta_in], 1)
    else:
        dec = raw
        delta = np.zeros_like(raw) if delta_in is None else delta_in
    return dec, proba_allowance(np, dec, delta, eps, K)


# ------------------------------------------------------------------------------------------------
def run_case(p, drv):
    import numpy as np
    import torch
    res = {'family': p['family'], 'params': p, 'disagreements': [], 'failures': []}

    def fail(sig, detail):
        res['failures'].append({'signature': sig, 'detail': detail[:500]})

    Xtr, ytr, Xva, yva, Xq, kinds, ctr, cva, nfar0 = make_data(p)
    K, mode = p['K'], p['mode']
    torch.manual_seed(p['mseed'])
    # outside recorder (no repo hook): which classes each leaf's validation set contains
    import xrfm.rfm_src.recursive_feature_machine as rfm_mod
    leaf_val_classes = []
    orig_fit = rfm_mod.RFM.fit

    def rec_fit(self, train_data, val_data=None, *a, **kw):
        try:
            yv_leaf = val_data[1]
            conv = self.class_converter
            # leaf models only (the split-direction model is scored with its own default metric)
            if conv is not None and yv_leaf is not None and getattr(self, 'tuning_metric', None) == p['metric']:
                leaf_val_classes.append(sorted(set(conv.numerical_to_labels(torch.as_tensor(yv_leaf)).reshape(-1).tolist())))
        except Exception:
            leaf_val_classes.append(None)
        return orig_fit(self, train_data, val_data, *a, **kw)

    fit_error = None
    rfm_mod.RFM.fit = rec_fit
    try:
        model = build_model(p)
        if p.get('refit_first'):
            # object history: the same estimator was fitted before on other data with other class frequencies
            q0 = dict(p, dseed=p['dseed'] + 7919, profile=p['refit_first'])
            X0, y0, Xv0, yv0 = make_data(q0)[:4]
            model.fit(X0, y0, Xv0, yv0)
            leaf_val_classes.clear()
        model.fit(Xtr, ytr, Xva, yva)
        if p['dseed'] % 2 == 1:
            # object history: other public calls on other rows before the judged ones
            from harness.props import _xcommon as xc_
            xc_.perturb_history(model, p['dseed'], Xtr.shape[1])
        if p['dseed'] % 3 == 0 and not p.get('solver_in') and not p.get('solver'):
            # a restored model is a fitted classifier too: what is judged below is a fresh estimator that loaded the exported state
            restored = build_model(p)
            restored.load_state_dict(model.get_state_dict(), Xtr)
            model = restored
    except Exception as e:
        import traceback
        fit_error = e
        fit_trace = ' | '.join(l.strip() for l in traceback.format_exc().splitlines()[-7:])
    finally:
        rfm_mod.RFM.fit = orig_fit
    auc_undefined = p['metric'] == 'auc' and any(c is None or len(c) < K for c in leaf_val_classes)
    if auc_undefined:
        # AUC is undefined on a leaf validation set that misses a class: outside the property's quantifier
        res['dist'] = {'skipped': 'auc-undefined-on-a-leaf', 'K': K, 'mode': mode, 'metric': 'auc'}
        res['nontrivial'] = None
        return res
    if fit_error is not None:
        fail(f'C12:fit-raises:{type(fit_error).__name__}', f'{type(fit_error).__name__}: {fit_error} [{fit_trace}]')
        return res
    try:
        P = model.predict_proba(Xq)
        Lb = model.predict(Xq)
    except Exception as e:
        fail(f'C12:raises:{type(e).__name__}', f'{type(e).__name__}: {e}')
        return res

    # ---------------- property oracle, directly on the implementation ----------------
    nq = Xq.shape[0]
    P = np.asarray(P)
    Lb = np.asarray(Lb)
    Pd = P.astype(np.float64)
    ok_shape = P.shape == (nq, K)
    if model.n_classes_ != K or not ok_shape:
        fail('C12:proba-shape', f'predict_proba shape {P.shape}, n_classes_ {model.n_classes_}; expected ({nq}, {K})')
    if not np.isfinite(Pd).all():
        r = int(np.argwhere(~np.isfinite(Pd).all(1))[0][0])
        fail('C12:proba-not-finite', f'row {r} ({kinds[r]}): {P[r].tolist()}')
    elif (Pd < 0).any():
        r = int(np.argwhere((Pd < 0).any(1))[0][0])
        fail('C12:proba-negative', f'row {r} ({kinds[r]}): {P[r].tolist()}')
    elif (np.abs(Pd.sum(1) - 1) > 4 * K * U32).any():
        r = int(np.argmax(np.abs(Pd.sum(1) - 1)))
        fail('C12:proba-sum', f'row {r} ({kinds[r]}) sums to {Pd[r].sum()!r}: {P[r].tolist()}')
    if Lb.shape != (nq,) or not np.issubdtype(Lb.dtype, np.integer):
        fail('C12:label-type', f'predict returns shape {Lb.shape} dtype {Lb.dtype}')
    elif (Lb < 0).any() or (Lb >= K).any():
        fail('C12:label-range', f'labels outside [0,{K}): {sorted(set(Lb.tolist()))}')
    n_leaves = [len(model._collect_leaf_nodes(t)) for t in model.trees]
    hard = not model.split_temperature
    checked = {'argmax': 0, 'argmax_skipped_ties': 0, 'far': 0}
    if hard and len(model.trees) == 1 and ok_shape and Lb.shape == (nq,):
        srt = np.sort(Pd, 1)
        gap = srt[:, -1] - srt[:, -2]
        # near-ties (0 < gap < 1e-6) are left to rounding; an exact tie is decided like torch.argmax decides it (first maximal
        # index: Props/C12 `argmax_consistent`, `predict_is_most_probable`)
        tie = (gap < 1e-6) & (gap > 0)
        bad = (Pd.argmax(1) != Lb) & ~tie
        checked['argmax'] = int((~tie).sum())
        checked['argmax_skipped_ties'] = int(tie.sum())
        if bad.any():
            r = int(np.argwhere(bad)[0][0])
            fail('C12:label-not-argmax', f'row {r} ({kinds[r]}): predict {int(Lb[r])}, predict_proba {P[r].tolist()}')
        # the same consistency on batches of one and of three rows (a label must not depend on which rows share the call)
        sub = list(range(min(nq, 36)))
        for lo, hi in [(i, i + 1) for i in sub] + [(i, i + 3) for i in sub[::3]]:
            try:
                Ps = np.asarray(model.predict_proba(Xq[lo:hi])).astype(np.float64)
                Ls = np.asarray(model.predict(Xq[lo:hi]))
            except Exception as e:
                fail(f'C12:raises:{type(e).__name__}', f'rows {lo}:{hi} alone: {type(e).__name__}: {e}')
                break
            if Ps.shape != (min(hi, nq) - lo, K) or Ls.shape != (min(hi, nq) - lo,):
                fail('C12:proba-shape', f'rows {lo}:{hi} alone: predict_proba shape {Ps.shape}, predict shape {Ls.shape}')
                break
            ss = np.sort(Ps, 1)
            gp = ss[:, -1] - ss[:, -2]
            tie_s = (gp < 1e-6) & (gp > 0)
            bad_s = (Ps.argmax(1) != Ls) & ~tie_s
            checked['argmax'] += int((~tie_s).sum())
            if bad_s.any():
                r = lo + int(np.argwhere(bad_s)[0][0])
                fail('C12:label-not-argmax', f'row {r} ({kinds[r]}) in the batch {lo}:{hi}: predict {int(Ls[r - lo])}, predict_proba {Ps[r - lo].tolist()}')
                break
    prior = np.array(ctr, dtype=np.float64) / float(sum(ctr))
    if mode == 'prevalence' and ok_shape:
        cl = np.clip(prior, 1e-3, 1 - 1e-3)
        cl = cl / cl.sum()
        # "far" is meant in the learned metric: a row 1e6 away in input space can lie along a (near-)null direction of a
        # degenerate feature matrix, where the kernel does not vanish - the claim is about rows whose raw leaf outputs are 0
        try:
            under = np.ones(nq - nfar0, dtype=bool)
            for tree in model.trees:
                rw = torch.as_tensor(model._predict_tree(Xq[nfar0:], tree, proba=False)).double().numpy().reshape(nq - nfar0, -1)
                under &= (rw == 0).all(1)
        except Exception:  # noqa: BLE001 - soft routing of some versions may not expose raw outputs: keep every row
            under = np.ones(nq - nfar0, dtype=bool)
        far = Pd[nfar0:][under]
        checked['far'] = int(under.sum())
        checked['far_not_underflowed'] = int((~under).sum())
        if len(far) and (np.abs(far - cl[None, :]) > 1e-5).any():
            r = nfar0 + int(np.nonzero(under)[0][int(np.argmax(np.abs(far - cl[None, :]).max(1)))])
            fail('C12:far-not-prior', f'row {r} (x1e6): {P[r].tolist()}, clamped training frequencies {cl.tolist()}')

    # ---------------- correspondence: recompute from the raw leaf outputs with the Lean model ----------------
    dis = res['disagreements']
    conv = model.class_converter_
    invA = conv._invA.double().numpy() if mode == 'prevalence' else None
    trees_j, allow_tree, raw_tree, dr_tree = [], [], [], []
    logit = bool(p.get('solver_in'))
    deps = 1e-10 if logit else 1e-3               # RFM.predict_proba clamps at 1e-10 after the sigmoid
    width = None
    try:
        for tree, nl in zip(model.trees, n_leaves):
            if hard or nl == 1:
                raw = model._predict_tree(Xq, tree, proba=False)
                raw = torch.as_tensor(raw).double().numpy().reshape(nq, -1)
                if logit:
                    raw = 1.0 / (1.0 + np.exp(-raw))     # leaves of the logistic solver answer with logits; the decoder starts with the sigmoid
                width = raw.shape[1]
                trees_j.append({'kind': 'hard', 'raw': core.fl(raw)})
                _, a = leaf_decode_allowance(np, raw, mode, invA, K, eps=deps)
                allow_tree.append(a)
                raw_tree.append(raw)
                dr_tree.append(np.zeros_like(raw))
            else:
                W, leaves = soft_weights(model, tree, Xq)
                Wd = W.double().numpy()
                # contract of the routing weights (C09): non-negative, rows on the simplex
                if (Wd < 0).any() or (np.abs(Wd.sum(1) - 1) > (nl + 3) * U32).any():
                    dis.append({'detail': f'soft-routing weights are not on the simplex: min {Wd.min()!r}, row sums '
                                          f'{Wd.sum(1).min()!r}..{Wd.sum(1).max()!r}', 'signature': 'C12:weights-not-simplex'})
                raws = []
                a = np.zeros((nq, K))
                mix = None
                absmix = None
                for i, leaf in enumerate(leaves):
                    idx = torch.nonzero(W[:, i] > 0, as_tuple=False).squeeze(1)
                    if idx.numel() == 0:
                        raws.append(None)
                        continue
                    out = torch.as_tensor(leaf.predict(Xq[idx])).double().numpy().reshape(len(idx), -1)
                    if logit:
                        out = 1.0 / (1.0 + np.exp(-out))
                    width = out.shape[1]
                    full = np.zeros((nq, width))
                    full[idx.numpy()] = out
                    raws.append(full)
                    _, al = leaf_decode_allowance(np, full, mode, invA, K, eps=deps)
                    a += Wd[:, [i]] * al
                    mix = Wd[:, [i]] * full if mix is None else mix + Wd[:, [i]] * full
                    absmix = Wd[:, [i]] * np.abs(full) if absmix is None else absmix + Wd[:, [i]] * np.abs(full)
                raws = [np.zeros((nq, width)) if r is None else r for r in raws]
                trees_j.append({'kind': 'soft', 'w': core.fl(Wd), 'raws': [core.fl(r) for r in raws]})
                allow_tree.append(a + (nl + 3) * U32)
                raw_tree.append(mix)
                dr_tree.append((nl + 3) * U32 * absmix)
    except Exception as e:
        dis.append({'detail': f'raw leaf outputs not obtainable: {type(e).__name__}: {e}'})
        trees_j = None
    if trees_j and ok_shape:
        T = len(trees_j)
        q = {'op': 'ensemble', 'mode': mode, 'eps': core.f2b(deps), 'rows': nq, 'trees': trees_j, 'width': width}
        if mode == 'prevalence':
            q['invA'] = core.fl(invA)
        m = drv.ask(q)
        if 'error' in m:
            dis.append({'detail': f'model rejects the case: {m["error"]}'})
        else:
            mp = np.array(core.unfl(m['probs'])).reshape(nq, K)
            allow = sum(allow_tree) / T + (T + 3) * U32
            diff = np.abs(Pd - mp)
            res['_ratio'] = float((diff / allow).max())
            if (diff > allow).any():
                r, c = map(int, np.argwhere(diff > allow)[0])
                dis.append({'detail': f'predict_proba row {r} ({kinds[r]}) class {c}: impl {P[r, c]!r} model {mp[r, c]!r} '
                                      f'allowance {allow[r, c]:.3g}'})
            # labels: decode of the averaged raw outputs; skip rows whose top two are within the allowance
            rawmean = sum(raw_tree) / T
            d_in = sum(dr_tree) / T + (T + 3) * U32 * sum(np.abs(r) for r in raw_tree) / T
            _, al = leaf_decode_allowance(np, rawmean, mode, invA, K, eps=deps, delta_in=d_in)
            lp = np.array(core.unfl(m['labelProbs'])).reshape(nq, K)
            srt = np.sort(lp, 1)
            tie = (srt[:, -1] - srt[:, -2]) <= 2 * al.max(1)
            ml = np.array(m['labels'])
            # logistic leaves: the label is the sign of the averaged logit, which the decoded average of the per-leaf
            # probabilities determines only for one hard-routed tree
            if Lb.shape == (nq,) and (not logit or (hard and T == 1)):
                wrong = (ml != Lb) & ~tie
                res['_label_ties'] = int(tie.sum())
                if wrong.any():
                    r = int(np.argwhere(wrong)[0][0])
                    dis.append({'detail': f'predict row {r} ({kinds[r]}): impl {int(Lb[r])} model {int(ml[r])}, '
                                          f'decoded mean output {lp[r].tolist()}'})

    res['nontrivial'] = [p['K'], mode, p['metric'], p['profile'], p['routing'], p['n_trees'], p['dseed'], p['mseed']] \
        if max(n_leaves) > 1 or p['max_leaf_size'] >= BIG_LEAF else None
    res['dist'] = {'K': K, 'mode': mode, 'metric': str(p['metric']), 'profile': p['profile'],
                   'routing': p['routing'] + ('' if p['routing'] != 'tuned' else
                                              ':hard' if hard else ':soft'),
                   'n_trees_fitted': len(model.trees), 'leaves_per_tree': max(n_leaves), 'kernel': p['kernel'],
                   'iters': p['iters'], 'argmax_rows_checked': checked['argmax'], 'far_rows_checked': checked['far'],
                   'zero_train_count_classes': sum(1 for c in ctr if c == 0)}
    res['sample'] = {'config': {k: p[k] for k in ('K', 'mode', 'metric', 'profile', 'routing', 'n_trees', 'n_train',
                                                  'n_val', 'd', 'max_leaf_size', 'kernel', 'iters')},
                     'train_counts': ctr, 'val_counts': cva, 'leaves': n_leaves,
                     'split_temperature': model.split_temperature, 'query_rows': nq,
                     'max_diff_over_allowance': res.pop('_ratio', None), 'label_rows_skipped_as_ties': res.pop('_label_ties', None),
                     'far_row': P[-1].tolist() if ok_shape else None}
    return res


def execute(chunk):
    drv = core.Driver('C12')
    out = []
    try:
        for p in chunk['cases']:
            out.append(run_case(p, drv))
    finally:
        drv.close()
    return out


# ------------------------------------------------------------------------------------------------
def gen_cases(run):
    r = run.rng
    N = 192 if run.tier == 'quick' else 6000

    def axis(values):
        xs = [values[i % len(values)] for i in range(N)]
        r.shuffle(xs)
        return xs

    Ks, modes, metrics = axis([2, 3, 4, 5, 6]), axis(['zero_one', 'prevalence']), axis(METRICS)
    profiles, routings, ntrees = axis(PROFILES), axis(ROUTINGS), axis([1, 2, 3])
    cases = []
    n_auc = 0
    for i in range(N):
        K, metric, profile, routing = Ks[i], metrics[i], profiles[i], routings[i]
        n = r.randint(60, 300)
        sep = r.choice([0.6, 1.0, 1.5])
        single_leaf = r.random() < 0.08
        if metric == 'auc':
            n_auc += 1
            if n_auc % 2 == 1:     # multi-leaf AUC: two weakly separated balanced classes, large leaves and validation sets
                K, profile, n, sep = 2, 'balanced', 300, 0.3
            else:                  # otherwise a single leaf (AUC is evaluated on the full validation set)
                single_leaf = True
        n_val = max(int(n * r.uniform(0.42, 0.5)), 2 * K + 4)
        n_train = max(n - n_val, 4 * K + 8)
        if single_leaf:
            L = BIG_LEAF
        elif metric == 'auc':
            L = r.randint(50, 60)
        else:
            L = r.randint(20, max(20, min(60, n_train // 2)))     # at least one split whenever n_train > 40
        cases.append(dict(family='fitted-classifiers', K=K, mode=modes[i], metric=metric, profile=profile,
                          routing=routing, temperature=r.choice([0.05, 0.2, 0.7, 2.0]), n_trees=ntrees[i],
                          n_train=n_train, n_val=n_val, d=r.randint(2, 6), max_leaf_size=L, sep=sep,
                          kernel=r.choice(['l2', 'l2', 'l2_high_dim', 'l1']), bandwidth=r.choice([1.0, 3.0, 10.0]),
                          exponent=r.choice([1.0, 1.0, 1.2]), diag=r.random() < 0.25, iters=r.randint(0, 2),
                          return_best=r.random() < 0.7, dseed=r.randint(0, 10 ** 6), mseed=r.randint(0, 10 ** 6),
                          refit_first=(r.choice([q for q in PROFILES if q != profile]) if (i % 6 == 5 and metric != 'auc') else None)))
    # binary problems with the logistic leaf solver (zero_one encoding), configured in either parameter group
    for i in range(12 if run.tier == 'quick' else 200):
        n = r.randint(80, 240)
        n_val = int(n * 0.45)
        single = i % 3 == 0
        cases.append(dict(family='fitted-classifiers', K=2, mode='zero_one', metric=[None, 'accuracy', 'brier', 'logloss'][i % 4],
                          profile=['balanced', 'imbalanced'][(i // 2) % 2] if 'imbalanced' in PROFILES else PROFILES[i % len(PROFILES)],
                          routing=ROUTINGS[i % len(ROUTINGS)] if not single else 'hard', temperature=r.choice([0.2, 0.7]),
                          n_trees=[1, 1, 2][i % 3], n_train=n - n_val, n_val=n_val, d=r.randint(2, 5),
                          max_leaf_size=BIG_LEAF if single else r.randint(24, 40), sep=r.choice([0.6, 1.0]),
                          kernel=r.choice(['l2', 'l1', 'l2_high_dim']), bandwidth=r.choice([3.0, 10.0]), exponent=1.0, diag=False,
                          iters=r.randint(0, 1), return_best=True, dseed=r.randint(0, 10 ** 6), mseed=r.randint(0, 10 ** 6),
                          refit_first=None, solver_in=['model', 'fit'][i % 2]))
    # a heavily replicated design point: zero spread of the projections at every split node
    for i in range(8 if run.tier == 'quick' else 96):
        K = [2, 3][i % 2]
        n = r.randint(120, 240)
        n_val = int(n * 0.45)
        cases.append(dict(family='fitted-classifiers', K=K, mode=['zero_one', 'prevalence'][(i // 2) % 2], metric=[None, 'brier'][(i // 4) % 2],
                          profile='balanced', routing=['soft', 'tuned', 'soft', 'hard'][i % 4], temperature=r.choice([0.05, 0.3, 1.0]),
                          n_trees=[1, 2][i % 2], n_train=n - n_val, n_val=n_val, d=r.randint(2, 5), max_leaf_size=r.randint(24, 40),
                          sep=1.0, kernel=r.choice(['l2', 'l1']), bandwidth=r.choice([3.0, 10.0]), exponent=1.0, diag=False,
                          iters=r.randint(0, 1), return_best=True, dseed=r.randint(0, 10 ** 6), mseed=r.randint(0, 10 ** 6),
                          refit_first=None, replicated=0.8))
    # singular leaf systems: replicated design point with no / a vanishing ridge, every closed-form solver (a failed
    # factorisation must end in the regularised retry, never in non-finite coefficients)
    for i in range(9 if run.tier == 'quick' else 90):
        K = [2, 3][i % 2]
        n = r.randint(120, 200)
        n_val = int(n * 0.45)
        cases.append(dict(family='fitted-classifiers', K=K, mode=['zero_one', 'prevalence'][(i // 2) % 2], metric=['accuracy', 'f1', None][i % 3],
                          profile='balanced', routing=['hard', 'soft'][(i // 3) % 2], temperature=0.3, n_trees=1, n_train=n - n_val, n_val=n_val,
                          d=r.randint(2, 4), max_leaf_size=[BIG_LEAF, 40][(i // 3) % 2], sep=1.0, kernel=r.choice(['l2', 'l2_high_dim']),
                          bandwidth=r.choice([3.0, 10.0]), exponent=1.0, diag=False, iters=r.randint(0, 1), return_best=True,
                          dseed=r.randint(0, 10 ** 6), mseed=r.randint(0, 10 ** 6), refit_first=None, replicated=0.8,
                          reg=[0.0, 1e-9, 0.0][i % 3], solver=['cholesky', 'cholesky', 'solve', 'lu'][i % 4]))
    return cases


def check(run):
    run.rule = ('fitted xRFM classifiers (n 60..300, d 2..6, max_leaf_size 20..60 so trees split, some single-leaf), every axis '
                'value covered: K 2..6 x {balanced, geometric imbalance, a class with 1-2 training samples, a class id absent '
                'from training} x {zero_one, prevalence} x tuning metric {None, accuracy, brier, logloss, f1, auc (single leaf or '
                '2 balanced classes)} x 1..3 trees x {hard, fixed temperature 0.05..2, temperature tuning}; query rows: validation '
                'rows, fresh rows, exact training points, training points x1e3 / x1e4 / x1e6, random directions x1e6; a case is '
                'non-trivial when a tree split (or a single leaf was requested)')
    run.assumptions = ['every leaf receives validation data (validation set >= 40% of n, leaves >= 8 samples); an empty leaf '
                       'validation set makes RFM.fit raise and is outside the property',
                       'AUC only where every leaf validation set contains every class (single leaf, or 2 balanced classes)',
                       'soft-routing weights lie on the simplex (C09); here they are read from the implementation',
                       'theorems are in exact real arithmetic; float32 rounding is absorbed by computed allowances',
                       'far rows: the kernel value underflows to exactly 0 (observed: raw leaf outputs are 0.0 at x1e6)']
    run.trusted = ['torch matmul/clamp/mean (modelled as exact real operations)', 'C13 codec model (Model/Codec.lean)']
    run.lean()
    cases = gen_cases(run)
    run.extra['allowance'] = 'per leaf: C13 probability allowance from d = 4*K*2^-24*sum_c|invA_kc B_c|; soft tree: ' \
                             'sum_l w_l*allow_l + (L+3)*2^-24; ensemble: mean over trees + (T+3)*2^-24'
    if run.driver_ok:
        results = core.pmap(MOD, [{'cases': c} for c in core.chunks(cases, 16)])
        run.absorb('c12', results)


def replay(run, payload):
    run.lean()
    results = core.pmap(MOD, [{'cases': [payload['params']]}], workers=1)
    run.absorb('replay', results)
