#!/bin/bash
# usage: tools/try_patch.sh <patch.diff> <prop> [tier]
# Runs one check against a scratch worktree of /repo with the seeded change applied (VERIF_REPO), so that
# /repo itself is never modified while other checks are running. The worktree is removed afterwards.
set -u
P=$(readlink -f "$1"); PROP=$2; TIER=${3:-quick}
WT=/tmp/wt_try_$$
git -C /repo worktree add -q --detach "$WT" HEAD || exit 3
git -C "$WT" apply "$P" || { echo "patch does not apply"; git -C /repo worktree remove --force "$WT"; exit 3; }
( cd ${VERIF_HOME:-/verif} && VERIF_EVIDENCE_DIR=/tmp/verif_evidence_seeded VERIF_REPO="$WT" ./check "$PROP" --tier "$TIER" ); RC=$?
git -C /repo worktree remove --force "$WT"
echo "exit=$RC"
exit $RC
