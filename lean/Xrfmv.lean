-- Root of the library: everything `./check --setup` pre-builds.
import Xrfmv.Props.C02
import Xrfmv.Props.C03
import Xrfmv.Props.C04
import Xrfmv.Props.C05
import Xrfmv.Props.C06
import Xrfmv.Props.C07
import Xrfmv.Props.C08
import Xrfmv.Props.C09
import Xrfmv.Props.C12
import Xrfmv.Props.C13
import Xrfmv.Props.C14
import Xrfmv.Props.C15
import Xrfmv.Props.C16
import Xrfmv.Props.C19
