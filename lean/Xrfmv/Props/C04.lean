/-
C04 — Function gradients are the true gradients of the kernel predictor.

Statements are about `Xrfmv.Grad` (`Model/Grad.lean`): the closed forms `pairGrad` / `gradLight` / `rowGrad` / `fgrad`
that the driver executes on `Float` and the correspondence check compares with `Kernel.get_function_grads`,
`RFM.get_grads`, `xRFM.get_grads`.  All theorems are at `ℝ` (exact arithmetic; rounding is the allowance of the check).

The multivariate statement is assembled per coordinate: a point with one varying coordinate is `vpre ++ s :: vpost`,
the matching center `upre ++ a :: upost` with `vpre.length = upre.length` (every coordinate of every vector has this
form), and `HasDerivAt … t` is the partial derivative at `s = t` with the other coordinates fixed.  Theorems named
`…_partial` are the per-coordinate parts of the full Fréchet-derivative statement `C04_full`, which is PROVED
(`C04_full_holds`): every kernel (the memory-light one included), no transform / a vector / a symmetric matrix tied to the
list model, every `n` (joint differentiability and the passage from partial derivatives to the Fréchet derivative are in
`Lemmas/GradFull.lean`).
-/
import Xrfmv.Lemmas.Grad
import Xrfmv.Lemmas.GradFull
import Xrfmv.Lemmas.GradGen
import Xrfmv.Lemmas.FwdGen

namespace Xrfmv.Props.C04
open Xrfmv.Grad

/-- Parameter guards the kernel constructors enforce (`assert`s of `kernels.py`) for the exponents of the property:
`L > 0`, `0 < q ≤ p ≤ 2`, `eps > 0`, `0 ≤ const_mix < 1`. -/
structure Guards (P : Params ℝ) : Prop where
  L_pos : 0 < P.L
  q_pos : 0 < P.q
  q_le_p : P.q ≤ P.p
  p_le_two : P.p ≤ 2
  eps_pos : 0 < P.eps
  cmix_nonneg : 0 ≤ P.cmix
  cmix_lt_one : P.cmix < 1

/-- The guards are satisfiable (Laplace exponent 0.7, Lpq norm 1.5, bandwidth 3, the default `eps`). -/
example : Guards { L := 3, q := 0.7, p := 1.5, eps := 1e-10, cmix := 0.2, power := 2 } := by
  constructor <;> norm_num

/-! ### (1) the one-dimensional profile -/

/-- **C04(1)** `d/ds exp(−|s|^q/L^q) = exp(−|t|^q/L^q)·(−q/L^q)·|t|^{q−1}·sign t` at every `t ≠ 0`. -/
theorem profile_hasDerivAt (L q t : ℝ) (_hL : 0 < L) (_hq : 0 < q) (ht : t ≠ 0) :
    HasDerivAt (fun s : ℝ => Real.exp (-(|s| ^ q) / L ^ q))
      (Real.exp (-(|t| ^ q) / L ^ q) * (-(q / L ^ q)) * (|t| ^ (q - 1) * (SignType.sign t : ℝ))) t := by
  have h := profile_hasDerivAt' L q t ht
  rw [sgnPow_eq] at h
  exact h

example : ∃ L q t : ℝ, 0 < L ∧ 0 < q ∧ t ≠ 0 := ⟨3, 0.7, -2, by norm_num, by norm_num, by norm_num⟩

/-! ### (2) radial kernels: L2 and memory-light -/

/-- **C04(2a)** radial profile of the *squared* distance: `d/dr exp(−(√r)^q/L^q)` for `r > 0`. -/
theorem radial_profile_hasDerivAt (L q r : ℝ) (_hL : 0 < L) (_hq : 0 < q) (hr : 0 < r) :
    HasDerivAt (fun x : ℝ => Real.exp (-(Real.sqrt x ^ q) / L ^ q))
      (Real.exp (-(Real.sqrt r ^ q) / L ^ q) * (-(q / L ^ q)) * Real.sqrt r ^ (q - 2) / 2) r :=
  radial_hasDerivAt L q r hr

/-- **C04(2b)** coordinate chain rule `∂/∂z_d ‖z − x‖² = 2(z_d − x_d)`. -/
theorem sqdist_coord_hasDerivAt (vpre vpost upre upost : List ℝ) (a t : ℝ) (h : vpre.length = upre.length) :
    HasDerivAt (fun s => sqDist (upre ++ a :: upost) (vpre ++ s :: vpost)) (2 * (t - a)) t :=
  sqDist_hasDerivAt vpre vpost upre upost a t h

/-- **C04(2c)** L2 kernel: with the mask not firing (`dist ≥ eps > 0`, the point does not coincide with the center) the
entry `d` of the stated formula `M_ij·(v − u)`, `M_ij = −(q/L^q)·k·dist^{q−2}`, is `∂k/∂v_d`. -/
theorem l2_grad_partial (P : Params ℝ) (g : Guards P) (vpre vpost upre upost : List ℝ) (a t : ℝ)
    (h : vpre.length = upre.length)
    (hne : ¬ (Real.sqrt (sqDist (upre ++ a :: upost) (vpre ++ t :: vpost)) < P.eps)) :
    ∃ gd, (gradL2 P (upre ++ a :: upost) (vpre ++ t :: vpost))[vpre.length]? = some gd ∧
      HasDerivAt (fun s => kL2 P (upre ++ a :: upost) (vpre ++ s :: vpost)) gd t :=
  l2_coord P vpre vpost upre upost a t h g.eps_pos hne

/-- **C04(2d)** memory-light kernel with a diagonal matrix `M = diag m` (it works with `M`, not `√M`, and returns the
gradient w.r.t. the raw point): entry `d` of `M_ij·((z − x)M)` is `∂/∂z_d k`. -/
theorem light_diag_grad_partial (P : Params ℝ) (g : Guards P) (zpre zpost xpre xpost mpre mpost : List ℝ) (a t md : ℝ)
    (h : zpre.length = xpre.length) (hm : zpre.length = mpre.length)
    (hne : ¬ (Real.sqrt (lightSq (.diag (mpre ++ md :: mpost)) (xpre ++ a :: xpost) (zpre ++ t :: zpost)) < P.eps)) :
    ∃ gd, (gradLight P (.diag (mpre ++ md :: mpost)) (xpre ++ a :: xpost) (zpre ++ t :: zpost))[zpre.length]? = some gd ∧
      HasDerivAt (fun s => kLight P (.diag (mpre ++ md :: mpost)) (xpre ++ a :: xpost) (zpre ++ s :: zpost)) gd t :=
  light_diag_coord P zpre zpost xpre xpost mpre mpost a t md h hm g.eps_pos hne

/-- **C04(2e)** memory-light kernel without a matrix is the L2 kernel, value and gradient (so (2c) applies). -/
theorem light_none_is_l2 (P : Params ℝ) (x z : List ℝ) :
    kLight P .none x z = kL2 P x z ∧ gradLight P .none x z = gradL2 P x z :=
  ⟨kLight_none P x z, gradLight_none P x z⟩

/-- Non-vacuity of (2c): two distinct points of `ℝ²` at distance 5 ≥ eps. -/
example : ¬ (Real.sqrt (sqDist ([] ++ (0 : ℝ) :: [0]) ([] ++ (3 : ℝ) :: [4])) < (1e-10 : ℝ)) := by
  have : sqDist ([] ++ (0 : ℝ) :: [0]) ([] ++ (3 : ℝ) :: [4]) = 25 := by
    simp [sqDist, vsub]; norm_num
  rw [this, show (25 : ℝ) = 5 ^ 2 by norm_num, Real.sqrt_sq (by norm_num)]
  norm_num

/-! ### (3) coordinate-wise kernels: product, sum-power, Lpq -/

/-- **C04(3a)** product kernel `Π_d e_d` (only factor `d` depends on `z_d`): for `z_d ≠ x_d` and the mask not firing,
entry `d` of `k·(−q/L^q)·|Δ_d|^{q−1} sgn Δ_d` is `∂k/∂v_d`. -/
theorem prod_grad_partial (P : Params ℝ) (_g : Guards P) (vpre vpost upre upost : List ℝ) (a t : ℝ)
    (h : vpre.length = upre.length) (hta : t ≠ a)
    (hne : ¬ (pNorm P.q (vsub (vpre ++ t :: vpost) (upre ++ a :: upost)) < P.eps)) :
    ∃ gd, (gradProd P (upre ++ a :: upost) (vpre ++ t :: vpost))[vpre.length]? = some gd ∧
      HasDerivAt (fun s => kProd P (upre ++ a :: upost) (vpre ++ s :: vpost)) gd t :=
  prod_coord P vpre vpost upre upost a t h hta hne

/-- **C04(3b)** sum-power kernel (power rule ∘ profile): for `|z_d − x_d| ≥ eps`, entry `d` of
`P·s^{P−1}·((1−c)/dim)·e_d·(−q/L^q)·|Δ_d|^{q−1} sgn Δ_d` is `∂k/∂v_d` (any real power `P`; the bracket `s` is positive). -/
theorem sumpower_grad_partial (P : Params ℝ) (g : Guards P) (vpre vpost upre upost : List ℝ) (a t : ℝ)
    (h : vpre.length = upre.length) (hne : ¬ (|t - a| < P.eps)) :
    ∃ gd, (gradSumPower P (upre ++ a :: upost) (vpre ++ t :: vpost))[vpre.length]? = some gd ∧
      HasDerivAt (fun s => kSumPower P (upre ++ a :: upost) (vpre ++ s :: vpost)) gd t :=
  pair_coord .sumPower P g.eps_pos (lt_of_lt_of_le g.q_pos g.q_le_p) g.cmix_nonneg g.cmix_lt_one vpre vpost upre upost a t h hne

/-- **C04(3c)** Lpq kernel via `D^q = (Σ|Δ|^p)^{q/p}`: for `z_d ≠ x_d` and the mask not firing, entry `d` of
`k·(−q/L^q)·D^{q−p}·|Δ_d|^{p−1} sgn Δ_d` is `∂k/∂v_d`. -/
theorem lpq_grad_partial (P : Params ℝ) (g : Guards P) (vpre vpost upre upost : List ℝ) (a t : ℝ)
    (h : vpre.length = upre.length) (hta : t ≠ a)
    (hne : ¬ (pNorm P.p (vsub (vpre ++ t :: vpost) (upre ++ a :: upost)) < P.eps)) :
    ∃ gd, (gradLpq P (upre ++ a :: upost) (vpre ++ t :: vpost))[vpre.length]? = some gd ∧
      HasDerivAt (fun s => kLpq P (upre ++ a :: upost) (vpre ++ s :: vpost)) gd t :=
  lpq_coord P vpre vpost upre upost a t h (lt_of_lt_of_le g.q_pos g.q_le_p) hta hne

/-- Non-vacuity of (3): in `ℝ²`, `v = (3, 4)`, `u = (0, 0)`, `q = 1`: `Σ|Δ|^q = 7 ≥ eps` and `3 ≠ 0`. -/
example : (3 : ℝ) ≠ 0 ∧ ¬ (pSum (1 : ℝ) (vsub ([] ++ (3 : ℝ) :: [4]) ([] ++ (0 : ℝ) :: [0])) < (1e-10 : ℝ)) := by
  refine ⟨by norm_num, ?_⟩
  have : pSum (1 : ℝ) (vsub ([] ++ (3 : ℝ) :: [4]) ([] ++ (0 : ℝ) :: [0])) = 7 := by
    simp [pSum, vsub]; norm_num
  rw [this]; norm_num

/-! ### (4) the predictor `f_l = Σ_i c_{l,i} k(x_i, ·)` -/

/-- **C04(4a)** `grad_linear`: if every center's kernel term has derivative `g u` along the moving coordinate, the
predictor of a coefficient row `c` has derivative `Σ_i c_i · g(u_i)` — the `c`-weighted sum. -/
theorem grad_linear (kf : List ℝ → List ℝ → ℝ) (V : ℝ → List ℝ) (g : List ℝ → ℝ) (t : ℝ) (c : List ℝ)
    (us : List (List ℝ)) (h : ∀ u ∈ us, HasDerivAt (fun s => kf u (V s)) (g u) t) :
    HasDerivAt (fun s => fval kf c us (V s)) (vsum (List.zipWith (fun ci u => ci * g u) c us)) t :=
  fval_hasDerivAt kf V g t c us h

/-- **C04(4b)** no mixing between outputs: row `l` of the returned tensor is the tensor computed from row `l` of the
coefficient matrix alone. -/
theorem grad_per_output (k : Kind) (P : Params ℝ) (T : Transform ℝ) (xs zs : List (List ℝ)) (coefs : List (List ℝ)) (l : ℕ) :
    (fgrad k P T xs zs coefs)[l]? = (coefs[l]?).map fun c => (fgrad k P T xs zs [c]).headD [] :=
  fgrad_row k P T xs zs coefs l

/-- **C04(4c)** all kernels, whole predictor, transformed coordinates: entry `d` of the model's row gradient is
`∂/∂v_d Σ_i c_i k(u_i, v)` when the point is in general position w.r.t. every center (`CoordOK`: mask not firing, and
for the coordinate-wise kernels `v_d ≠ u_{i,d}`). -/
theorem predictor_grad_partial (k : Kind) (P : Params ℝ) (g : Guards P) (vpre vpost : List ℝ) (t : ℝ) (c : List ℝ)
    (us : List (List ℝ))
    (hus : ∀ u ∈ us, ∃ upre a upost, u = upre ++ a :: upost ∧ vpre.length = upre.length ∧ vpost.length = upost.length ∧
      CoordOK k P u (vpre ++ t :: vpost) (t - a)) :
    HasDerivAt (fun s => fval (kval k P) c us (vpre ++ s :: vpost))
      ((rowGrad (pairGrad k P) c us (vpre ++ t :: vpost)).getD vpre.length 0) t :=
  predictor_coord k P g.eps_pos (lt_of_lt_of_le g.q_pos g.q_le_p) g.cmix_nonneg g.cmix_lt_one vpre vpost t c us hus

/-! ### (5) chain rule through the feature matrix -/

/-- **C04(5a)** `chain_T`, diagonal transform: `∂/∂z_d [G(z ⊙ τ)] = τ_d·(∂_d G)(z ⊙ τ)`. -/
theorem chain_T_diag (G : List ℝ → ℝ) (gd : ℝ) (zpre zpost τpre τpost : List ℝ) (t τd : ℝ)
    (h : zpre.length = τpre.length)
    (hG : HasDerivAt (fun w => G (applyT (.diag τpre) zpre ++ w :: applyT (.diag τpost) zpost)) gd (t * τd)) :
    HasDerivAt (fun s => G (applyT (.diag (τpre ++ τd :: τpost)) (zpre ++ s :: zpost))) (gd * τd) t :=
  chain_diag G gd zpre zpost τpre τpost t τd h hG

/-- **C04(5b)** end to end for a diagonal transform, every kernel evaluated on transformed points (L2, product, Lpq,
sum-power): entry `d` of the tensor row returned by `fgrad` (what `get_function_grads(x, z, coefs, mat)` returns for a
vector `mat`) is `∂/∂z_d` of the predictor `z ↦ Σ_i c_i k(x_i ⊙ τ, z ⊙ τ)` of the *raw* point. -/
theorem predictor_diag_grad_partial (k : Kind) (hk : k ≠ .light) (P : Params ℝ) (g : Guards P)
    (zpre zpost τpre τpost : List ℝ) (t τd : ℝ) (c : List ℝ) (xs : List (List ℝ))
    (hτ : zpre.length = τpre.length) (hτ' : zpost.length = τpost.length)
    (hus : ∀ u ∈ xs.map (applyT (.diag (τpre ++ τd :: τpost))), ∃ upre a upost, u = upre ++ a :: upost ∧
      zpre.length = upre.length ∧ zpost.length = upost.length ∧
      CoordOK k P u (applyT (.diag (τpre ++ τd :: τpost)) (zpre ++ t :: zpost)) (t * τd - a)) :
    HasDerivAt (fun s => predictRow k P (.diag (τpre ++ τd :: τpost)) xs c (zpre ++ s :: zpost))
      ((((fgrad k P (.diag (τpre ++ τd :: τpost)) xs [zpre ++ t :: zpost] [c]).headD []).headD []).getD zpre.length 0) t :=
  predictor_diag_coord k hk P g.eps_pos (lt_of_lt_of_le g.q_pos g.q_le_p) g.cmix_nonneg g.cmix_lt_one zpre zpost τpre τpost t τd c xs hτ hτ' hus

/-- **C04(5c)** `chain_T`, full symmetric transform (stated for a function on `Fin n → ℝ`): if `G` is differentiable
at `zT` with derivative `G'`, then `∂/∂z_d [G(zT)] = Σ_e (∂_e G)(zT)·T_{e,d}` = entry `d` of `(∇G)(zT)·T`, which is what
`_transform_m(grads, mat)` computes; symmetry of `T` is what makes `grads @ mat` (rather than `grads @ matᵀ`) right. -/
theorem chain_T_full {n : ℕ} (T : Matrix (Fin n) (Fin n) ℝ) (hT : T.IsSymm) (G : (Fin n → ℝ) → ℝ)
    (G' : (Fin n → ℝ) →L[ℝ] ℝ) (z : Fin n → ℝ) (d : Fin n) (hG : HasFDerivAt G G' (Matrix.vecMul z T)) :
    HasDerivAt (fun s => G (Matrix.vecMul (Function.update z d s) T))
      (Matrix.vecMul (fun e => G' (Pi.single e 1)) T d) (z d) :=
  chain_full T hT G G' z d hG

/-- **C04(5d)** the model's `x @ T` on lists is `Matrix.vecMul`, entry by entry (ties (5c) to `applyT (.full …)`). -/
theorem model_full_transform_is_vecMul {n : ℕ} (T : Matrix (Fin n) (Fin n) ℝ) (x : Fin n → ℝ) (e : Fin n) :
    (applyT (.full (List.ofFn fun i => List.ofFn (T i))) (List.ofFn x))[(e : ℕ)]? = some (Matrix.vecMul x T e) :=
  applyT_full_entry T x e

/-- Non-vacuity of (5c): a symmetric non-diagonal matrix. -/
example : (Matrix.of ![![2, 1], ![1, 3]] : Matrix (Fin 2) (Fin 2) ℝ).IsSymm := by
  ext i j; fin_cases i <;> fin_cases j <;> rfl

/-! ### (6) the coinciding center -/

/-- **C04(6a)** `self_term_zero`: for every kernel and every exponent, a center coinciding with the evaluation point
contributes exactly 0 to the gradient (every entry of its term is 0). -/
theorem self_term_zero (k : Kind) (P : Params ℝ) (u : List ℝ) : ∀ gd ∈ pairGrad k P u u, gd = 0 :=
  pairGrad_self k P u

/-- **C04(6b)** the masks do fire at a coincidence: distance, `‖Δ‖_q` and `‖Δ‖_p` are 0 `< eps` there. -/
theorem masks_fire_at_coincidence (P : Params ℝ) (g : Guards P) (u : List ℝ) :
    Real.sqrt (sqDist u u) < P.eps ∧ pNorm P.q (vsub u u) < P.eps ∧ pNorm P.p (vsub u u) < P.eps :=
  masks_fire P g.eps_pos g.q_pos (lt_of_lt_of_le g.q_pos g.q_le_p) u

/-- **C04(6c)** finiteness for `q ≥ 1`: the (unmasked) L2 term stays bounded as the point approaches the center,
`|M_ij·δ| ≤ (q/L^q)·dist^{q−1}` for every coordinate difference `|δ| ≤ dist` (for `q < 1` the bound blows up, which is
why the mask exists). -/
theorem l2_term_finite (P : Params ℝ) (g : Guards P) (hq : 1 ≤ P.q) (dist δ : ℝ) (hd : 0 < dist) (hδ : |δ| ≤ dist) :
    |l2Factor P dist * δ| ≤ P.q / P.L ^ P.q * dist ^ (P.q - 1) :=
  l2_term_bounded P g.L_pos hq dist δ hd hδ

/-! ### the full statement (proved below: `C04_full_holds`) -/

/-- Gradient vector as a continuous linear functional on `ℝⁿ`. -/
noncomputable def gradCLM {n : ℕ} (gv : List ℝ) : (Fin n → ℝ) →L[ℝ] ℝ :=
  ∑ e : Fin n, gv.getD e 0 • (ContinuousLinearMap.proj e : (Fin n → ℝ) →L[ℝ] ℝ)

/-- A transform the property quantifies over: none, a vector, or a symmetric matrix. -/
def SymmTransform (n : ℕ) : Transform ℝ → Prop
  | .none => True
  | .diag τ => τ.length = n
  | .full rows => ∃ T : Matrix (Fin n) (Fin n) ℝ, T.IsSymm ∧ rows = List.ofFn fun i => List.ofFn (T i)

/-- The point does not coincide with the center in the sense each kernel needs (transformed coordinates). -/
def GeneralPosition {n : ℕ} (k : Kind) (P : Params ℝ) (T : Transform ℝ) (x z : Fin n → ℝ) : Prop :=
  match k with
  | .l2 => P.eps ≤ Real.sqrt (sqDist (applyT T (List.ofFn x)) (applyT T (List.ofFn z)))
  | .light => P.eps ≤ Real.sqrt (lightSq T (List.ofFn x) (List.ofFn z))
  | _ => ∀ e : Fin n, P.eps ≤ |(applyT T (List.ofFn z)).getD e 0 - (applyT T (List.ofFn x)).getD e 0|

/-- **C04, full strength (proved: `C04_full_holds`)**: for every kernel, every admissible parameter set and transform, every set of
centers and coefficient row, at every point in general position the predictor `z ↦ f(z)` of the raw point is Fréchet
differentiable and the row of the tensor returned by `fgrad` is its gradient. -/
def C04_full : Prop :=
  ∀ (n : ℕ) (k : Kind) (P : Params ℝ) (T : Transform ℝ) (xs : List (Fin n → ℝ)) (c : List ℝ) (z : Fin n → ℝ),
    Guards P → SymmTransform n T → (∀ x ∈ xs, GeneralPosition k P T x z) →
    HasFDerivAt (fun w : Fin n → ℝ => predictRow k P T (xs.map List.ofFn) c (List.ofFn w))
      (gradCLM (((fgrad k P T (xs.map List.ofFn) [List.ofFn z] [c]).headD []).headD [])) z

/-- **C04, full strength without a transform (proved)**: for the L2, product, Lpq and sum-power kernels, every admissible
parameter set, every set of centers and coefficient row, at every point of `ℝⁿ` (`n ≥ 1`) in general position the
predictor of the raw point is Fréchet differentiable and the row of the tensor returned by `fgrad` is its gradient.
(`C04_full` with `T = none`; joint differentiability comes from `Lemmas/GradFull.lean`: each kernel term is
differentiable, and a differentiable function's derivative is determined by its partial derivatives, which are the
per-coordinate theorems above.) -/
theorem C04_full_no_transform (n : ℕ) [NeZero n] (k : Kind) (hk : k ≠ .light) (P : Params ℝ) (xs : List (Fin n → ℝ))
    (c : List ℝ) (z : Fin n → ℝ) (g : Guards P) (hgp : ∀ x ∈ xs, GeneralPosition k P .none x z) :
    HasFDerivAt (fun w : Fin n → ℝ => predictRow k P .none (xs.map List.ofFn) c (List.ofFn w))
      (gradCLM (((fgrad k P .none (xs.map List.ofFn) [List.ofFn z] [c]).headD []).headD [])) z := by
  have hp : 0 < P.p := lt_of_lt_of_le g.q_pos g.q_le_p
  have hGP : ∀ x ∈ xs, GeneralPos k P x z := by
    intro x hx
    have h := hgp x hx
    cases k with
    | l2 => exact generalPos_of_dist P x z (by simpa [GeneralPosition, applyT] using h)
    | light => exact absurd rfl hk
    | prod | lpq | sumPower =>
      refine generalPos_of_coords _ (by constructor <;> simp) P g.eps_pos g.q_pos hp x z ?_
      intro e
      have he := h e
      simpa [GeneralPosition, applyT] using he
  have key := predictor_hasFDerivAt k P g.eps_pos hp g.cmix_nonneg g.cmix_lt_one xs c z hGP
  have hcomp : (applyT (Transform.none : Transform ℝ) ∘ List.ofFn : (Fin n → ℝ) → List ℝ) = List.ofFn := by
    funext x; rfl
  have hrow : ((fgrad k P .none (xs.map List.ofFn) [List.ofFn z] [c]).headD []).headD [] =
      rowGrad (pairGrad k P) c (xs.map List.ofFn) (List.ofFn z) := by
    cases k <;> first | exact absurd rfl hk | simp [fgrad, applyT, hcomp]
  have hfun : (fun w : Fin n → ℝ => predictRow k P .none (xs.map List.ofFn) c (List.ofFn w)) =
      fun w : Fin n → ℝ => fval (kval k P) c (xs.map List.ofFn) (List.ofFn w) := by
    funext w
    cases k <;> first | exact absurd rfl hk | simp [predictRow, applyT, hcomp]
  rw [hfun, hrow]
  exact key

/-- **C04, full strength with a diagonal transform (proved)**: the predictor of the raw point
`z ↦ Σ_i c_i k(x_i ⊙ τ, z ⊙ τ)` is Fréchet differentiable at every point in general position (in transformed coordinates)
and the row returned by `fgrad` with a vector `mat` is its gradient.  Differentiability: the no-transform predictor
composed with the linear map `w ↦ w ⊙ τ`; partial derivatives: `predictor_diag_grad_partial`. -/
theorem C04_full_diag (n : ℕ) [NeZero n] (k : Kind) (hk : k ≠ .light) (P : Params ℝ) (xs : List (Fin n → ℝ))
    (c : List ℝ) (z τ : Fin n → ℝ) (g : Guards P) (hgp : ∀ x ∈ xs, GeneralPosition k P (.diag (List.ofFn τ)) x z) :
    HasFDerivAt (fun w : Fin n → ℝ => predictRow k P (.diag (List.ofFn τ)) (xs.map List.ofFn) c (List.ofFn w))
      (gradCLM (((fgrad k P (.diag (List.ofFn τ)) (xs.map List.ofFn) [List.ofFn z] [c]).headD []).headD [])) z := by
  have hp : 0 < P.p := lt_of_lt_of_le g.q_pos g.q_le_p
  -- general position of the transformed point w.r.t. the transformed centers
  have hGP : ∀ x ∈ xs, GeneralPos k P (fun e => x e * τ e) (fun e => z e * τ e) := by
    intro x hx
    have h := hgp x hx
    cases k with
    | l2 =>
      refine generalPos_of_dist P _ _ ?_
      simpa [GeneralPosition, applyT_diag_ofFn] using h
    | light => exact absurd rfl hk
    | prod | lpq | sumPower =>
      refine generalPos_of_coords _ (by constructor <;> simp) P g.eps_pos g.q_pos hp _ _ ?_
      intro e
      have he := h e
      simpa [GeneralPosition, applyT_diag_ofFn, getD_ofFn] using he
  have hus' : (xs.map List.ofFn).map (applyT (.diag (List.ofFn τ))) = (xs.map fun x => fun e => x e * τ e).map List.ofFn := by
    simp only [List.map_map]
    apply List.map_congr_left
    intro x _
    exact applyT_diag_ofFn τ x
  unfold gradCLM
  apply hasFDerivAt_of_partials
  · -- differentiable: composition with the linear map `w ↦ w ⊙ τ`
    have hfun : (fun w : Fin n → ℝ => predictRow k P (.diag (List.ofFn τ)) (xs.map List.ofFn) c (List.ofFn w)) =
        (fun v : Fin n → ℝ => fval (kval k P) c ((xs.map fun x => fun e => x e * τ e).map List.ofFn) (List.ofFn v)) ∘
          fun w : Fin n → ℝ => fun e => w e * τ e := by
      funext w
      cases k <;> first | exact absurd rfl hk | simp only [predictRow, Function.comp, hus', applyT_diag_ofFn]
    rw [hfun]
    apply DifferentiableAt.comp
    · apply fval_differentiableAt
      intro u hu
      obtain ⟨x', hx', rfl⟩ := List.mem_map.1 hu
      obtain ⟨x, hx, rfl⟩ := List.mem_map.1 hx'
      exact kval_differentiableAt k P g.eps_pos g.cmix_nonneg g.cmix_lt_one _ _ (hGP x hx)
    · fun_prop
  · intro e
    have hlen : ((List.ofFn z).take e).length = (e : ℕ) := by
      simp only [List.length_take, List.length_ofFn]; have := e.isLt; omega
    have hτs := ofFn_split τ e
    have hmain := predictor_diag_grad_partial k hk P g ((List.ofFn z).take e) ((List.ofFn z).drop (e + 1))
      ((List.ofFn τ).take e) ((List.ofFn τ).drop (e + 1)) (z e) (τ e) c (xs.map List.ofFn)
      (by simp only [List.length_take, List.length_ofFn]) (by simp only [List.length_drop, List.length_ofFn])
      (by
        rw [← hτs, ← ofFn_split z e, hus']
        intro u hu
        obtain ⟨x', hx', rfl⟩ := List.mem_map.1 hu
        obtain ⟨x, hx, rfl⟩ := List.mem_map.1 hx'
        refine ⟨(List.ofFn fun e => x e * τ e).take e, x e * τ e, (List.ofFn fun e => x e * τ e).drop (e + 1),
          ofFn_split (fun e => x e * τ e) e, ?_, ?_, ?_⟩
        · simp only [List.length_take, List.length_ofFn]
        · simp only [List.length_drop, List.length_ofFn]
        · rw [applyT_diag_ofFn]; exact hGP x hx e)
    rw [← hτs, ← ofFn_split z e, hlen] at hmain
    refine hmain.congr_of_eventuallyEq ?_
    filter_upwards with s
    rw [ofFn_update]

/-- **C04, full strength with a full symmetric transform (proved; L2, product, Lpq, sum-power)**: the predictor of the raw
point `z ↦ Σ_i c_i k(x_i T, z T)` is Fréchet differentiable at every point whose image is in general position, and the row
`(∇f)(zT)·T` returned by `fgrad` (`_transform_m(grads, mat)`) is its gradient.  Differentiability: the no-transform predictor
composed with `w ↦ wT`; partial derivatives: the chain rule `chain_T_full` applied to `predictor_hasFDerivAt`. -/
theorem C04_full_symm (n : ℕ) [NeZero n] (k : Kind) (hk : k ≠ .light) (P : Params ℝ) (xs : List (Fin n → ℝ))
    (c : List ℝ) (z : Fin n → ℝ) (T : Matrix (Fin n) (Fin n) ℝ) (hT : T.IsSymm) (g : Guards P)
    (hgp : ∀ x ∈ xs, GeneralPosition k P (.full (List.ofFn fun i => List.ofFn (T i))) x z) :
    HasFDerivAt
      (fun w : Fin n → ℝ => predictRow k P (.full (List.ofFn fun i => List.ofFn (T i))) (xs.map List.ofFn) c (List.ofFn w))
      (gradCLM (((fgrad k P (.full (List.ofFn fun i => List.ofFn (T i))) (xs.map List.ofFn) [List.ofFn z] [c]).headD []).headD []))
      z := by
  set rows := (List.ofFn fun i => List.ofFn (T i)) with hrows
  have hp : 0 < P.p := lt_of_lt_of_le g.q_pos g.q_le_p
  have happ : ∀ x : Fin n → ℝ, applyT (Transform.full rows) (List.ofFn x) = List.ofFn (Matrix.vecMul x T) :=
    fun x => applyT_full_ofFn T x
  set us : List (Fin n → ℝ) := xs.map fun x => Matrix.vecMul x T with hus
  have hGP : ∀ u ∈ us, GeneralPos k P u (Matrix.vecMul z T) := by
    intro u hu
    obtain ⟨x, hx, rfl⟩ := List.mem_map.1 hu
    have h := hgp x hx
    cases k with
    | l2 =>
      refine generalPos_of_dist P _ _ ?_
      simpa [GeneralPosition, happ] using h
    | light => exact absurd rfl hk
    | prod | lpq | sumPower =>
      refine generalPos_of_coords _ (by constructor <;> simp) P g.eps_pos g.q_pos hp _ _ ?_
      intro e
      have he := h e
      simpa [GeneralPosition, happ, getD_ofFn] using he
  have hmapT : (xs.map List.ofFn).map (applyT (.full rows)) = us.map List.ofFn := by
    simp only [hus, List.map_map]
    apply List.map_congr_left
    intro x _
    exact happ x
  -- the no-transform predictor on the transformed centers
  set G : (Fin n → ℝ) → ℝ := fun v => fval (kval k P) c (us.map List.ofFn) (List.ofFn v) with hG
  have hGd := predictor_hasFDerivAt k P g.eps_pos hp g.cmix_nonneg g.cmix_lt_one us c (Matrix.vecMul z T) hGP
  have hfun : (fun w : Fin n → ℝ => predictRow k P (.full rows) (xs.map List.ofFn) c (List.ofFn w)) =
      G ∘ fun w : Fin n → ℝ => Matrix.vecMul w T := by
    funext w
    cases k <;> first | exact absurd rfl hk | simp only [predictRow, Function.comp, hmapT, happ, hG]
  -- the returned row is (∇G)(zT)·T
  set gv := rowGrad (pairGrad k P) c (us.map List.ofFn) (List.ofFn (Matrix.vecMul z T)) with hgv
  have hgvlen : gv.length = n := by
    have := (rowGrad_aux (pairGrad k P) (List.ofFn (Matrix.vecMul z T)) 0 c (us.map List.ofFn) (by
      intro u hu
      obtain ⟨x, _, rfl⟩ := List.mem_map.1 hu
      exact pairGrad_length k P _ _ (by simp))).1
    simpa using this
  have hrow : ((fgrad k P (.full rows) (xs.map List.ofFn) [List.ofFn z] [c]).headD []).headD [] =
      List.ofFn (Matrix.vecMul (fun e : Fin n => gv.getD e 0) T) := by
    have h1 : ((fgrad k P (.full rows) (xs.map List.ofFn) [List.ofFn z] [c]).headD []).headD [] = applyT (.full rows) gv := by
      cases k <;> first | exact absurd rfl hk | simp [fgrad, hmapT, happ, hgv]
    rw [h1]
    conv_lhs => rw [list_eq_ofFn_getD gv hgvlen]
    rw [happ]
  rw [hfun, hrow]
  unfold gradCLM
  simp only [getD_ofFn]
  apply hasFDerivAt_of_partials
  · apply DifferentiableAt.comp
    · exact hGd.differentiableAt
    · unfold Matrix.vecMul dotProduct; fun_prop
  · intro d
    have hch := chain_T_full T hT G _ z d hGd
    simp only [Function.comp]
    convert hch using 2
    funext e
    simp [ContinuousLinearMap.sum_apply, Pi.single_apply, hgv]

/-- **C04, full strength, memory-light kernel (proved)**: `M` none, a vector or a symmetric matrix. -/
theorem C04_full_light (n : ℕ) (P : Params ℝ) (T : Transform ℝ) (xs : List (Fin n → ℝ)) (c : List ℝ) (z : Fin n → ℝ)
    (g : Guards P) (hT : SymmTransform n T) (hgp : ∀ x ∈ xs, GeneralPosition .light P T x z) :
    HasFDerivAt (fun w : Fin n → ℝ => predictRow .light P T (xs.map List.ofFn) c (List.ofFn w))
      (gradCLM (((fgrad .light P T (xs.map List.ofFn) [List.ofFn z] [c]).headD []).headD [])) z := by
  obtain ⟨M, hact, hsym⟩ : ∃ M : Matrix (Fin n) (Fin n) ℝ, ActsAs T M ∧ M.IsSymm := by
    cases T with
    | none => exact ⟨1, actsAs_none, Matrix.isSymm_one⟩
    | diag τ =>
      have hτ : τ = List.ofFn fun e : Fin n => τ.getD e 0 := list_eq_ofFn_getD τ hT
      refine ⟨Matrix.diagonal fun e : Fin n => τ.getD e 0, ?_, Matrix.isSymm_diagonal _⟩
      rw [hτ]
      convert actsAs_diag (fun e : Fin n => τ.getD e 0) using 3 <;> simp [getD_ofFn]
    | full rows =>
      obtain ⟨M, hM, rfl⟩ := hT
      exact ⟨M, actsAs_full M, hM⟩
  have key := light_hasFDerivAt P g.eps_pos hact hsym xs c z (fun x hx => hgp x hx)
  simpa [predictRow, fgrad, gradCLM] using key

/-- **C04, full strength (proved)**: `C04_full` holds — every kernel, every admissible parameter set, no transform / a
vector / a symmetric matrix, every set of centers and coefficient row, every point in general position. -/
theorem C04_full_holds : C04_full := by
  intro n k P T xs c z g hT hgp
  rcases Nat.eq_zero_or_pos n with rfl | hn
  · -- `ℝ⁰` is a point: every function is differentiable with every derivative
    have h0 := hasFDerivAt_of_subsingleton (𝕜 := ℝ)
      (fun w : Fin 0 → ℝ => predictRow k P T (xs.map List.ofFn) c (List.ofFn w)) z
    convert h0 using 1
    ext v
    simp [gradCLM]
  haveI : NeZero n := ⟨hn.ne'⟩
  by_cases hk : k = .light
  · subst hk
    exact C04_full_light n P T xs c z g hT hgp
  · cases T with
    | none => exact C04_full_no_transform n k hk P xs c z g hgp
    | diag τ =>
      have hτ : τ = List.ofFn fun e : Fin n => τ.getD e 0 := list_eq_ofFn_getD τ hT
      rw [hτ] at hgp ⊢
      exact C04_full_diag n k hk P xs c z _ g hgp
    | full rows =>
      obtain ⟨M, hM, rfl⟩ := hT
      exact C04_full_symm n k hk P xs c z M hM g hgp

/-- Non-vacuity of `C04_full_holds`: a point in general position w.r.t. a center (coordinate-wise kernels, no transform;
every coordinate differs by at least `eps`), together with the satisfiable `Guards` above. -/
example : GeneralPosition (n := 2) .prod { L := 3, q := 0.7, p := 1.5, eps := 1e-10, cmix := 0.2, power := 2 } .none
    ![0, 0] ![3, 4] := by
  intro e
  fin_cases e <;> simp [applyT] <;> norm_num

/-! ### the code's own gradient-weight programs (regenerated `Gen.GradOps`) -/

/-- **C04 over the regenerated source, L2 and memory-light kernels.**  The statements of
`LaplaceKernel._get_function_grad_impl` / `LightLaplaceKernel.get_function_grads` as they are written *now* (translated into
`Gen.GradOps` on every run: `kernel_mat = dists ** q`, the in-place `mul_ / exp_ / clamp_ / pow_`, the mask `dists >= eps`, the
products of the tensors, the final `einsum` difference) compute, for every kernel parameter, transform, set of centers, query
points and coefficient matrix, exactly the closed-form gradient tensor of `Model/Grad.lean` — the tensor that
`C04_full_holds` shows to be the Fréchet derivative of the predictor. -/
theorem gen_fgrad_eq_model (light : Bool) (P : Params ℝ) (T : Transform ℝ) (xs zs : List (List ℝ))
    (coefs : List (List ℝ)) :
    GradGen.fgrad light P T xs zs coefs = fgrad (if light then .light else .l2) P T xs zs coefs :=
  GradGen.fgrad_eq light P T xs zs coefs

/-- The weight the regenerated program of the L2 kernel gives a pair at (prepared) distance `d ≥ 0`: the stated factor
`−(q/L^q)·k·d^{q−2}`, and exactly `0` for a pair closer than `eps` (the coinciding center contributes nothing). -/
theorem gen_l2_weight_eq (P : Params ℝ) {d : ℝ} (hd : 0 ≤ d) :
    TensorProg.weight (Gen.GradOps.laplaceGrad (GradGen.toOps P)) d = if d < P.eps then 0 else l2Factor P d :=
  GradGen.weight_laplace P hd

/-! ### the closures differentiated by autograd (regenerated `Gen.FwdOps`) -/

/-- **C04 over the regenerated source, product / Lpq / sum-power kernels.**  These three routines hand a closure `forward_func` to
`torch.autograd` (trusted).  The closure as it is written *now* (translated binding by binding into `Gen.FwdOps` on every run: the
`cdist` with its norm or the coordinate differences, the powers, the masks `>= eps`, `clamp_min`, `where`, `exp`, the mean over
the feature axis, the mixing constant and the outer power) evaluates, for every pair of a center and a query point in general
position, exactly the closed-form kernel of `Model/Grad.lean` — the function whose Fréchet derivative `C04_full_holds` identifies
with the returned gradient. -/
theorem gen_forward_eq_model (P : Params ℝ) (hL : 0 ≤ P.L) (hq : 0 < P.q) (u v : List ℝ) :
    (P.eps ≤ pNorm P.q (vsub v u) → FwdGen.kProd P u v = kProd P u v) ∧
    (P.eps ≤ pNorm P.p (vsub v u) → FwdGen.kLpq P u v = kLpq P u v) ∧
    ((∀ t ∈ vsub v u, P.eps ≤ |t|) → FwdGen.kSumPower P u v = kSumPower P u v) :=
  ⟨FwdGen.kProd_eq P hL hq u v, FwdGen.kLpq_eq P hL u v, FwdGen.kSumPower_eq P u v⟩

/-- … and a pair closer than `eps` (in the kernel's own norm) enters the differentiated sum as the constant 1: the coinciding
center contributes exactly zero to the gradient. -/
theorem gen_forward_masked_constant (P : Params ℝ) (hL : 0 ≤ P.L) (u v : List ℝ) :
    (pNorm P.q (vsub v u) < P.eps → FwdGen.kProd P u v = 1) ∧
    (pNorm P.p (vsub v u) < P.eps → FwdGen.kLpq P u v = 1) :=
  FwdGen.masked_pair_constant P hL u v

end Xrfmv.Props.C04
