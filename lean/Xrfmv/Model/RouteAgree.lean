/-
Prediction-time routing on the tree built by `Xrfmv.BuildIndex.build` (C08).  Projections are abstract
values of a linearly ordered type; `projO path x` is the projection of training sample `x` on the direction
chosen at the node reached by `path`, `thrO path` the stored `split_point`.  The routing predicate is the
regenerated `Gen.Route.goesLeft`.
-/
import Xrfmv.Model.BuildIndex
import Xrfmv.Gen.Route

namespace Xrfmv.RouteAgree
open Xrfmv.BuildIndex Xrfmv.Gen.Route

structure ProjOracles (α : Type) where
  projO : List Bool → Nat → α
  thrO : List Bool → α

/-- Follow the stored thresholds from the node at `path` down to a leaf; returns the leaf's path. -/
def routeTo {α : Type} [LE α] [DecidableLE α] [LT α] [DecidableLT α] (P : ProjOracles α) :
    ITree → List Bool → Nat → List Bool
  | .node l r, path, x =>
      if goesLeft (P.projO path x) (P.thrO path) then routeTo P l (path ++ [false]) x
      else routeTo P r (path ++ [true]) x
  | _, path, _ => path

end Xrfmv.RouteAgree
