/- Driver ops for C04 (none yet). -/
import Xrfmv.Drv.Common

namespace Xrfmv.Drv.C04

def ops : List (String × Handler) := []

end Xrfmv.Drv.C04
