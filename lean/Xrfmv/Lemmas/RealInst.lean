/- `ℝ` and `EReal` instances of the law-free operation classes of `Xrfmv.Scalar`. -/
import Xrfmv.Scalar
import Mathlib.Analysis.SpecialFunctions.Pow.Real
import Mathlib.Data.EReal.Inv

namespace Xrfmv

noncomputable instance : HasExp ℝ := ⟨Real.exp⟩
noncomputable instance : HasLog ℝ := ⟨Real.log⟩
noncomputable instance : HasRpow ℝ := ⟨fun x y => x ^ y⟩
noncomputable instance : HasAbs ℝ := ⟨fun x => |x|⟩
noncomputable instance : HasSqrt ℝ := ⟨Real.sqrt⟩
noncomputable instance : HasInf EReal := ⟨⊤, ⊥⟩

end Xrfmv
