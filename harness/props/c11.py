"""
C11 — saving and loading state preserves predictions exactly.

Proof: lean/Xrfmv/Props/C11.lean over the regenerated wiring Gen.State.
Correspondence: fitted models over task / encoding / kernel / diag / adaptive / depth / trees / overlap / tuned or fixed
temperature; a fresh model with the same constructor arguments loads the state (as returned, and after a pickle round
trip) together with the training inputs; predict / predict_proba are compared BIT-EXACTLY (same code on the same
tensors), before/after export on the source, and after a second export+load cycle; per attribute the model's
`flows` answer is compared with whether the loaded attribute equals the source's.
"""
import io
import pickle

from harness import core

MOD = 'harness.props.c11'
KERNELS = [('l2', {}), ('l2_high_dim', {}), ('l1', {}), ('lpq', {'norm_p': 1.5}), ('sum_power_laplace', {})]


def ctor_kwargs(p):
    import torch
    kname, kw = p['kernel']
    model = {'kernel': kname, 'bandwidth': p['bandwidth'], 'exponent': p['q'], 'diag': p['diag'],
             'bandwidth_mode': 'adaptive' if (p['adaptive'] and kname != 'sum_power_laplace') else 'constant'}
    model.update(kw)
    fitp = {'reg': 1e-3, 'iters': p['iters'], 'verbose': False, 'early_stop_rfm': False}
    if p.get('solver'):
        fitp['solver'] = p['solver']
    kws = dict(rfm_params={'model': model, 'fit': fitp},
               max_leaf_size=p['L'], device='cpu', verbose=False, random_state=p['dseed'], split_method=p['method'],
               n_trees=p['trees'], n_tree_iters=p.get('n_tree_iters', 0), overlap_fraction=p['f'], classification_mode=p['mode'], tuning_metric=p['metric'],
               use_temperature_tuning=p['tune'], split_temperature=p['temp'], temp_tuning_space=p.get('space'),
               keep_weight_frac_in_predict=p['keep'], max_leaf_count_in_ensemble=p['cap'])
    if p.get('cat'):
        # categorical groups with code vectors that are NOT the identity (thermometer code, scaled one-hot): the kernels'
        # categorical path (fast_categorical) then differs from the dense evaluation, so a loaded leaf must take it too
        d, off, cidx, vecs = p['d'], p['d'], [], []
        for j, L_ in enumerate(p['cat']):
            cidx.append(torch.arange(off, off + L_))
            off += L_
            vecs.append(torch.tril(torch.ones(L_, L_)) if j % 2 == 0 else 1.7 * torch.eye(L_))
        kws['categorical_info'] = {'numerical_indices': torch.arange(d), 'categorical_indices': cidx, 'categorical_vectors': vecs}
        model['fast_categorical'] = True
    return kws


def data(p):
    import torch
    g = torch.Generator().manual_seed(p['dseed'])
    n, d = p['n'], p['d']
    X = torch.randn(n, d, generator=g)
    Xv = torch.randn(max(16, n // 2), d, generator=g)
    if p.get('zero_inflated'):
        # a column that is exactly 0 for most rows (a rare indicator / zero-inflated count): a node split along it has inter-quartile
        # range 0, so its gating scale sits on the fit-time floor
        for Z in (X, Xv):
            Z[:, 0] = torch.where(torch.rand(Z.shape[0], generator=g) < 0.8, torch.zeros(Z.shape[0]), Z[:, 0].abs() + 0.5)
    Xt = torch.cat([torch.randn(30, d, generator=g), X[:10], 1e4 * torch.randn(5, d, generator=g)])
    if p.get('zero_inflated'):
        Xt[:20, 0] = 0.0
    if p.get('cat'):
        def onehots(m):
            return torch.cat([torch.nn.functional.one_hot(torch.randint(0, L_, (m,), generator=g), L_).float() for L_ in p['cat']], dim=1)
        X, Xv = torch.cat([X, onehots(n)], dim=1), torch.cat([Xv, onehots(Xv.shape[0])], dim=1)
        Xt = torch.cat([Xt[:40], onehots(40)], dim=1)
    if p['task'] == 'reg':
        f = lambda Z: torch.cat([torch.sin(2 * Z[:, :1]), Z[:, 1:2] ** 2][: p['outputs']], dim=1)
        off = float(p.get('yoffset', 0.0))       # targets with a large common offset (a level far from zero, spread of order one)
        return X, f(X) + 0.05 * torch.randn(n, p['outputs'], generator=g) + off, Xv, f(Xv) + off, Xt
    K = p['classes']
    f = lambda Z: (Z[:, 0] * 1.5 + Z[:, 1]).floor().long().remainder(K)
    y, yv = f(X), f(Xv)
    y[:K] = torch.arange(K)
    yv[:K] = torch.arange(K)
    return X, y, Xv, yv, Xt


def outputs(m, Xt, is_class):
    out = {'predict': m.predict(Xt)}
    if is_class:
        out['proba'] = m.predict_proba(Xt)
    return out


def same(a, b):
    import numpy as np
    return all(np.array_equal(a[k], b[k], equal_nan=True) for k in a)


def teq(a, b):
    import torch
    if a is None or b is None:
        return a is None and b is None
    if isinstance(a, torch.Tensor) or isinstance(b, torch.Tensor):
        return isinstance(a, torch.Tensor) and isinstance(b, torch.Tensor) and a.shape == b.shape and torch.equal(a, b)
    return a == b


def leaves(tree):
    if tree['type'] == 'leaf':
        return [tree]
    return leaves(tree['left']) + leaves(tree['right'])


def nodes(tree):
    if tree['type'] == 'leaf':
        return []
    return [tree] + nodes(tree['left']) + nodes(tree['right'])


def attr_equal(src, dst):
    """per attribute: does the loaded model hold the source's value?"""
    res = {'model': {}, 'leaf': {}, 'node': {}}
    mm = res['model']
    mm['rfm_params'] = src.rfm_params == dst.rfm_params
    def info_eq(a, b):
        import torch
        if a is None or b is None:
            return a is None and b is None
        if set(a) != set(b):
            return False
        for k in a:
            va, vb = a[k], b[k]
            la, lb = (va if isinstance(va, (list, tuple)) else [va]), (vb if isinstance(vb, (list, tuple)) else [vb])
            if len(la) != len(lb) or not all(torch.equal(torch.as_tensor(x), torch.as_tensor(y)) for x, y in zip(la, lb)):
                return False
        return True
    mm['categorical_info'] = info_eq(src.categorical_info, dst.categorical_info)
    mm['n_classes_'] = src.n_classes_ == getattr(dst, 'n_classes_', None)
    mm['split_temperature'] = src.split_temperature == dst.split_temperature
    if src.n_classes_ > 0:
        mm['classification_mode'] = src.classification_mode == dst.classification_mode
        for f in ('_prior', '_C', '_invA', '_numerical_type'):
            mm[f'class_converter_.{f}'] = teq(getattr(src.class_converter_, f), getattr(getattr(dst, 'class_converter_', None), f, None))
    ls, ld = [l for t in src.trees for l in leaves(t)], [l for t in dst.trees for l in leaves(t)]
    ok = len(ls) == len(ld)
    for name, get in [('bandwidth', lambda l: l['model'].kernel_obj.bandwidth), ('weights', lambda l: l['model'].weights),
                      ('M', lambda l: l['model'].M), ('sqrtM', lambda l: l['model'].sqrtM),
                      ('train_indices', lambda l: l['train_indices']), ('centers', lambda l: l['model'].centers)]:
        res['leaf'][name] = ok and all(teq(get(a), get(b)) for a, b in zip(ls, ld))
    ns, nd = [x for t in src.trees for x in nodes(t)], [x for t in dst.trees for x in nodes(t)]
    okn = len(ns) == len(nd)
    for name in ('split_direction', 'split_point', 'adaptive_temp_scaling'):
        res['node'][name] = okn and all(teq(a[name], b.get(name)) for a, b in zip(ns, nd))
    return res


def execute(chunk):
    import torch
    from xrfm import xRFM
    drv = core.Driver('C11')
    out = []
    try:
        for p in chunk['cases']:
            p = dict(p, kernel=tuple(p['kernel']))
            res = {'family': p['family'], 'params': dict(p, kernel=list(p['kernel'])), 'disagreements': [], 'failures': []}
            try:
                X, y, Xv, yv, Xt = data(p)
                kw = ctor_kwargs(p)
                src = xRFM(**kw)
                src.fit(X, y, Xv, yv)
                is_class = src.n_classes_ > 0
                if p['dseed'] % 2 == 1:
                    # object history of the source: other public calls on other rows before it is exported
                    from harness.props import _xcommon as xc_
                    xc_.perturb_history(src, p['dseed'], X.shape[1])
                if p['set_temp_after'] is not None:
                    src.split_temperature = p['set_temp_after']
                p0 = outputs(src, Xt, is_class)
                extra_before = dict(src.extra_rfm_params_)
                sd = src.get_state_dict()
                p1 = outputs(src, Xt, is_class)
                if not same(p0, p1) or set(src.extra_rfm_params_) != set(extra_before):
                    res['failures'].append({'signature': 'C11:export-changes-source',
                                            'detail': 'source predictions or extra_rfm_params_ differ after get_state_dict()'})
                if p['pickle']:
                    buf = io.BytesIO()
                    pickle.dump(sd, buf)
                    sd_in = pickle.loads(buf.getvalue())
                else:
                    sd_in = sd
                torch.manual_seed(12345)
                dst = xRFM(**ctor_kwargs(p))
                dst.load_state_dict(sd_in, X)
                q0 = outputs(dst, Xt, is_class)
                if not same(p0, q0):
                    import numpy as np
                    dmax = max(float(np.nanmax(np.abs(p0[k].astype(float) - q0[k].astype(float)))) for k in p0)
                    res['failures'].append({'signature': 'C11:predictions-differ-after-load',
                                            'detail': f'max |source - loaded| = {dmax:.3e} (source temperature {src.split_temperature}, loaded {dst.split_temperature})'})
                # second cycle: load of a load
                sd2 = dst.get_state_dict()
                dst2 = xRFM(**ctor_kwargs(p))
                dst2.load_state_dict(pickle.loads(pickle.dumps(sd2)) if p['pickle'] else sd2, X)
                if not same(p0, outputs(dst2, Xt, is_class)):
                    res['failures'].append({'signature': 'C11:second-cycle-differs', 'detail': 'load of a load predicts differently'})
                # the source must still predict the same after others loaded its state
                if not same(p0, outputs(src, Xt, is_class)):
                    res['failures'].append({'signature': 'C11:export-changes-source', 'detail': 'source predictions changed after its state was loaded elsewhere'})
                eq = attr_equal(src, dst)
                ans = drv.ask({'op': 'flows', 'isClass': bool(is_class)})
                if 'error' in ans:
                    res['disagreements'].append({'detail': f'model: {ans["error"]}'})
                else:
                    bad = [f'{grp}.{k}' for grp in ('model', 'leaf', 'node') for k, v in eq[grp].items()
                           if ans[grp].get(k) is True and not v]
                    if bad:
                        res['disagreements'].append({'detail': f'model says these attributes arrive unchanged, the loaded object differs: {bad}'})
                    if ans['exportPure'] is not True:
                        res['disagreements'].append({'detail': 'model: export not pure'})
                nl = sum(len(leaves(t)) for t in src.trees)
                res['nontrivial'] = [p['task'], p['mode'], p['kernel'][0], p['diag'], p['adaptive'], p['trees'], p['f'], p['tune'],
                                     p['temp'], p['dseed']]
                res['dist'] = {'task': p['task'], 'kernel': p['kernel'][0], 'leaves': nl, 'trees': len(src.trees),
                               'soft': bool(src.split_temperature), 'tuned': p['tune'], 'pickle': p['pickle'],
                               'mode': p['mode'] if is_class else 'reg'}
                res['sample'] = {'task': p['task'], 'kernel': p['kernel'][0], 'leaves': nl, 'temperature': src.split_temperature,
                                 'identical_after_load': same(p0, q0)}
            except Exception as e:
                import traceback
                res['failures'].append({'signature': f'C11:raises:{type(e).__name__}', 'detail': (str(e) + ' | ' + traceback.format_exc()[-400:])[:600]})
            out.append(res)
    finally:
        drv.close()
    return out


def gen_cases(run):
    r = run.rng
    N = 14 if run.tier == 'quick' else 90
    cases = []
    for i in range(N):
        task = ['reg', 'class', 'class'][i % 3]
        kern = KERNELS[i % len(KERNELS)]
        q = r.choice([0.7, 1.0, 1.3])
        if kern[0] == 'lpq':
            q = min(q, 1.5)
        tune = r.random() < 0.5
        L = r.choice([16, 24, 40, 1000])
        f = r.choice([0.0, 0.0, 0.1, 0.125])
        if (1 - 2 * f) * L < 4:
            f = 0.0
        metric = r.choice(['mse', None]) if task == 'reg' else r.choice(['brier', 'accuracy', None, 'logloss'])
        cases.append(dict(
            family='fitted-models', task=task, kernel=list(kern), q=q, diag=r.random() < 0.4, adaptive=r.random() < 0.4,
            bandwidth=r.choice([2.0, 5.0, 10.0]), iters=r.choice([0, 1, 2]), L=L, n=r.choice([60, 90, 140]), d=r.randint(2, 5),
            method=r.choice(['random', 'pca', 'top_vector_agop_on_subset', 'linear']), trees=r.choice([1, 1, 2, 3]), f=f,
            mode=r.choice(['zero_one', 'prevalence']), metric=metric, tune=tune,
            temp=None if tune else r.choice([None, 0.1, 0.7]), space=[0.0, 0.05, 0.3, 1.5] if tune else None,
            set_temp_after=r.choice([None, None, None, 0.2]), keep=r.choice([0.99, 0.8, 1.0]), cap=r.choice([12, 2, 1]),
            outputs=r.randint(1, 2), classes=r.choice([2, 3, 4]), pickle=r.random() < 0.5, dseed=r.randint(0, 10 ** 6)))
    # the remaining classification metrics (AUC, F1) as tuning metric: leaf settings that fit() derives from the metric belong to
    # the prediction view and must come back from a load (AUC needs both classes in a leaf's validation set: single leaves)
    for k, metric in enumerate(['auc', 'f1', 'auc', 'f1']):
        cases.append(dict(family='fitted-models', task='class', kernel=list(KERNELS[k % len(KERNELS)]), q=1.0, diag=bool(k % 2), adaptive=False,
                          bandwidth=5.0, iters=1, L=1000, n=[90, 140][k // 2], d=3, method='random', trees=1 + k // 2, f=0.0,
                          mode=['zero_one', 'prevalence'][k // 2], metric=metric, tune=False, temp=None, space=None, set_temp_after=None,
                          keep=0.99, cap=12, outputs=1, classes=2, pickle=bool(k % 2), dseed=r.randint(0, 10 ** 6)))
    # regression targets far from zero (level 2e4 / -3e3, spread of order one), hard and soft routing, one and two trees
    for k in range(3):
        cases.append(dict(family='fitted-models', task='reg', kernel=list(KERNELS[k % len(KERNELS)]), q=1.0, diag=bool(k % 2), adaptive=False,
                          bandwidth=5.0, iters=1, L=[40, 1000, 30][k], n=120, d=3, method='random', trees=1 + k % 2, f=0.0, mode='zero_one',
                          metric=None, tune=(k == 2), temp=[None, 0.3, None][k], space=[0.0, 0.3] if k == 2 else None, set_temp_after=None,
                          keep=0.99, cap=12, outputs=1 + k % 2, classes=2, pickle=bool(k % 2), dseed=r.randint(0, 10 ** 6),
                          yoffset=[20000.0, -3000.0, 20000.0][k]))
    # nodes whose gating scale sits on the floor (inter-quartile range 0 along an axis-aligned split), soft routing, fixed and tuned
    for k in range(4):
        cases.append(dict(family='fitted-models', task=['reg', 'class'][k % 2], kernel=list(KERNELS[k % len(KERNELS)]), q=1.0, diag=False,
                          adaptive=False, bandwidth=5.0, iters=1, L=40, n=140, d=3, method='rf_criterion', trees=1, f=0.0,
                          mode=['zero_one', 'prevalence'][k // 2], metric=None, tune=bool(k // 2), temp=None if k // 2 else 0.3,
                          space=[0.3, 1.0] if k // 2 else None, set_temp_after=None, keep=0.99, cap=12, outputs=1, classes=2, pickle=bool(k % 2),
                          dseed=r.randint(0, 10 ** 6), zero_inflated=True))
    # a positive temperature configured in the constructor while tuning selects hard routing (None), and the converse
    for k, (space, temp) in enumerate([([0.0], 0.3), ([0.0, 0.3], 0.3), ([0.4], None)]):
        cases.append(dict(family='fitted-models', task=['reg', 'class', 'reg'][k], kernel=list(KERNELS[k]), q=1.0, diag=False, adaptive=k == 1,
                          bandwidth=5.0, iters=1, L=24, n=90, d=3, method='random', trees=1 + (k % 2), f=0.0, mode='prevalence',
                          metric=None, tune=True, temp=temp, space=space, set_temp_after=None, keep=0.99, cap=12, outputs=1,
                          classes=3, pickle=bool(k % 2), dseed=r.randint(0, 10 ** 6)))
    # the logistic leaf solver marks the label decoder (`_numerical_type = 'logit_diff'`): binary, zero_one
    for k in range(2 if run.tier == 'quick' else 8):
        cases.append(dict(family='fitted-models', task='class', kernel=list(KERNELS[k % 2]), q=1.0, diag=False, adaptive=False,
                          bandwidth=5.0, iters=1, L=[1000, 30][k % 2], n=80, d=3, method='random', trees=1, f=0.0, mode='zero_one',
                          metric='accuracy', tune=False, temp=None, space=None, set_temp_after=None, keep=0.99, cap=12, outputs=1,
                          classes=2, pickle=bool(k % 2), solver='log_reg', dseed=r.randint(0, 10 ** 6)))
    # iterated tree building (n_tree_iters > 0: needs >= 2 target columns): the tree that wins may come from a later iteration
    for k in range(4 if run.tier == 'quick' else 24):
        cases.append(dict(family='fitted-models', task='reg', kernel=list(KERNELS[k % 2]), q=1.0, diag=False, adaptive=False, bandwidth=5.0,
                          iters=r.choice([0, 1]), L=[24, 30][k % 2], n=r.choice([90, 120]), d=3, method=['random', 'random_global_agop'][k % 2] if k % 4 < 2 else 'random',
                          trees=1 + (k % 2), f=0.0, mode='zero_one', metric=None, tune=bool(k % 2), temp=None, space=[0.0, 0.3] if k % 2 else None,
                          set_temp_after=None, keep=0.99, cap=12, outputs=2, classes=2, pickle=bool(k % 2), n_tree_iters=[1, 2][k % 2],
                          dseed=r.randint(0, 10 ** 6)))
    # every kernel-specific constructor argument away from its default (the loader must rebuild the leaves with all of them)
    opts = [('sum_power_laplace', {'const_mix': 0.25, 'power': 3}), ('sum_power_laplace', {'const_mix': 0.4, 'power': 1}),
            ('lpq', {'norm_p': 1.2}), ('l2', {'agop_power': 0.25}), ('sum_power_laplace', {'const_mix': 0.1, 'power': 4, 'eps': 1e-6}),
            ('lpq', {'norm_p': 1.0})]
    for k in range(4 if run.tier == 'quick' else 18):
        kern = opts[k % len(opts)]
        cases.append(dict(family='fitted-models', task=['reg', 'class'][k % 2], kernel=list(kern), q=[1.0, 0.8][k % 2] if kern[0] != 'sum_power_laplace' else 1.2,
                          diag=bool(k % 3 == 2), adaptive=False, bandwidth=r.choice([2.0, 5.0]), iters=r.choice([1, 2]), L=[30, 1000][k % 2],
                          n=r.choice([70, 100]), d=3, method='random', trees=1 + (k % 2), f=0.0, mode=['zero_one', 'prevalence'][(k // 2) % 2],
                          metric=None, tune=False, temp=[None, 0.3][(k // 2) % 2], space=None, set_temp_after=None, keep=0.99, cap=12,
                          outputs=1 + (k % 2), classes=3, pickle=bool(k % 2), dseed=r.randint(0, 10 ** 6)))
    # categorical features with non-identity code vectors and the kernels' categorical path
    cat_kernels = [k for k in KERNELS if k[0] in ('l2', 'l1', 'lpq')]
    for k in range(3 if run.tier == 'quick' else 12):
        cases.append(dict(family='fitted-models', task=['reg', 'class', 'reg'][k % 3], kernel=list(cat_kernels[k % len(cat_kernels)]), q=1.0,
                          diag=[False, True, False][k % 3], adaptive=False, bandwidth=5.0, iters=r.choice([0, 1]), L=[1000, 30, 24][k % 3], n=90, d=2,
                          method='random', trees=1, f=0.0, mode='zero_one', metric=None, tune=False, temp=None, space=None,
                          set_temp_after=None, keep=0.99, cap=12, outputs=1, classes=3, pickle=bool(k % 2), cat=[3, 2] if k % 2 else [4],
                          dseed=r.randint(0, 10 ** 6)))
    return cases


def check(run):
    run.rule = ('fitted xRFM models (regression 1-2 outputs, binary / multiclass in both encodings; kernels l2, l2_high_dim, l1, lpq, '
                'sum_power; diag/full; constant/adaptive; 1-3 trees; depth 0..3; overlap; fixed, tuned or hand-set temperature); a fresh '
                'model with the same constructor arguments loads the state (directly or through pickle) with the training inputs; '
                'predictions compared bit-exactly on in-range, training and far rows; two cycles; every case distinct by seed/config')
    run.assumptions = ['same constructor arguments for the loading model (as the property states)',
                       'the state dictionary is loaded together with the original training inputs']
    run.lean()
    cases = gen_cases(run)
    run.absorb('c11', core.pmap(MOD, [{'cases': [c]} for c in cases]))


def replay(run, payload):
    run.lean()
    run.absorb('replay', core.pmap(MOD, [{'cases': [payload['params']]}], workers=1))
