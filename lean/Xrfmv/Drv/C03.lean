/- Driver ops for C02/C03: the selection state machine on `Float` scores. -/
import Xrfmv.Drv.Common
import Xrfmv.Model.FitLoop

open Lean Xrfmv.Drv

namespace Xrfmv.Drv.C03

def opFitLoop : Handler := fun j => do
  let cfg : FitLoop.Cfg Float := {
    maximize := ← j.getObjValAs? Bool "maximize"
    returnBest := ← j.getObjValAs? Bool "returnBest"
    earlyStop := ← j.getObjValAs? Bool "earlyStop"
    adaptive := ← j.getObjValAs? Bool "adaptive"
    mult := ← getF j "mult"
    iters := ← j.getObjValAs? Nat "iters" }
  let sc ← getFs j "scores"
  if sc.size < cfg.iters + 1 then throw "bad-op: history shorter than iters+1"
  if sc.any (fun x => x.isNaN) then throw "bad-op: NaN score"
  let r := FitLoop.fit cfg (fun i => sc.getD i 0.0)
  pure <| Json.mkObj [("w", optNatJson r.fin.w), ("m", toJson r.fin.m), ("sq", toJson r.fin.sq),
    ("bw", toJson r.fin.bw), ("bestIter", optNatJson r.bestIter), ("evals", toJson r.evals),
    ("stopped", toJson r.stopped)]

def ops : List (String × Handler) := [("fitloop", opFitLoop)]

end Xrfmv.Drv.C03
