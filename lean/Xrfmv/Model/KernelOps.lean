/-
Interpreter of the *regenerated* kernel pipelines (`Xrfmv.Gen.KernelOps`, written on every run by
`extract/gen_kernelops.py` from the bodies of `_get_kernel_matrix_impl` of the five CPU kernel classes in
`xrfm/rfm_src/kernels.py`).

The code computes a kernel matrix by creating a matrix of distances (or of coordinate differences) and
then applying a chain of in-place element-wise tensor operations (`clamp_`, `sqrt_`, `pow_`, `mul_`,
`add_`, `exp_`, `abs_`), one reduction over the feature axis for the sum-power kernel, and a call of
`_adapt_bandwidth` somewhere along the chain.  The translator turns exactly that chain into a value of
`Pipeline`; this file gives the chain its meaning on one entry of the matrix.  `Props/C05.lean` proves
that, at `ℝ`, the regenerated chain of every kernel computes the closed form of `Model/Kernel.lean`
(`gen_pipeline_eq_model`), and `Drv/C05.lean` runs the regenerated chain at `Float` against torch.

Mathlib-free and scalar-generic like `Model/Kernel.lean`.
-/
import Xrfmv.Model.Kernel

namespace Xrfmv.KernelOps
open Xrfmv Xrfmv.Kernel

/-- Attributes of the kernel object a pipeline may read (`self.bandwidth`, `self.exponent`, `self.p`,
`self.const_mix`, `self.power`) and `x.shape[1]` after the transform. -/
structure Params (α : Type) where
  bandwidth : α
  exponent : α
  p : α
  constMix : α
  power : α
  dim : α
  /-- `self.eps` (the coincidence threshold of the gradient routines; not read by a kernel matrix) -/
  eps : α
  /-- `self.base_bandwidth`: the configured bandwidth (differs from `bandwidth` after an adaptation; no formula reads it) -/
  baseBandwidth : α

/-- One in-place element-wise tensor operation. -/
inductive Op (α : Type)
  | clampMin (c : α)          -- `.clamp_(min=c)`
  | sqrt                      -- `.sqrt_()`
  | abs                       -- `.abs_()`
  | exp                       -- `.exp_()`
  | pow (e : α)               -- `.pow_(e)`
  | mul (c : α)               -- `.mul_(c)`
  | add (c : α)               -- `.add_(c)`
  | guarded (run : Bool) (op : Op α)   -- `if <test>: <op>`
  | adapt                     -- `if not self.is_adaptive_bandwidth: self._adapt_bandwidth(m)`: entries unchanged

/-- How the matrix is created. -/
inductive Init (α : Type)
  | cdist (p : α)             -- `torch.cdist(T(x), T(z), p=p)`
  | lightQuad                 -- `(xm*x).sum(-1)[:, None] - 2*xm@z.T + (zm*z).sum(-1)[None, :]`, `xm = T(x)`, `zm = T(z)`
  | coordDiff                 -- `T(x)[:, None, :] - T(z)[None, :, :]` (one entry per coordinate)

/-- A translated `_get_kernel_matrix_impl`: creation, operations per coordinate (before the reduction
over the feature axis; empty when there is no such axis), operations on the matrix entries. -/
structure Pipeline (α : Type) where
  init : Init α
  pre : List (Op α)
  post : List (Op α)

section run
variable {α : Type} [Add α] [Sub α] [Mul α] [Div α] [Neg α] [OfNat α 0] [OfNat α 1] [OfNat α 2]
  [Max α] [HasExp α] [HasRpow α] [HasAbs α] [HasSqrt α]

/-- meaning of one operation on one entry -/
def Op.apply : Op α → α → α
  | .clampMin c, v => max v c
  | .sqrt, v => HasSqrt.sqrt v
  | .abs, v => HasAbs.abs v
  | .exp, v => HasExp.exp v
  | .pow e, v => rpow v e
  | .mul c, v => v * c
  | .add c, v => v + c
  | .guarded true op, v => op.apply v
  | .guarded false _, v => v
  | .adapt, v => v

/-- a chain of operations, first to last -/
def runOps (ops : List (Op α)) (v : α) : α := ops.foldl (fun v op => op.apply v) v

/-- the entry `(i, j)` of the matrix a pipeline returns for rows `x = x_i`, `z = z_j` and `mat = T`
(for a fixed bandwidth: the pending adaptation, if any, has been performed). -/
def entry (pl : Pipeline α) (T : Transform α) (x z : List α) : α :=
  match pl.init with
  | .cdist p => runOps pl.post (pdist p (applyT T x) (applyT T z))
  | .lightQuad => runOps pl.post (lightSq T x z)
  | .coordDiff =>
      runOps pl.post (sumL ((List.zipWith (fun a b => a - b) (applyT T x) (applyT T z)).map (runOps pl.pre)))

/-- the whole matrix -/
def matrix (pl : Pipeline α) (T : Transform α) (xs zs : List (List α)) : List (List α) :=
  xs.map fun x => zs.map fun z => entry pl T x z

/-- number of `adapt` markers in a chain -/
def adaptCount : List (Op α) → Nat
  | [] => 0
  | .adapt :: r => adaptCount r + 1
  | _ :: r => adaptCount r

/-- does an operation read the bandwidth?  (decided by the translator: `usesBandwidth` flags) -/
structure BandwidthUse where
  /-- index in `post` of the `adapt` marker (`none`: the kernel never adapts) -/
  adaptAt : Option Nat
  /-- indices in `post` of the operations whose argument mentions `self.bandwidth` -/
  readsAt : List Nat
  deriving DecidableEq, Repr

/-- every read of the bandwidth comes after the adaptation -/
def BandwidthUse.readsAfterAdapt (u : BandwidthUse) : Bool :=
  match u.adaptAt with
  | none => true
  | some a => u.readsAt.all fun r => a < r

end run

end Xrfmv.KernelOps
