/- Driver ops for C15: categorical fast path / dense path kernel matrices and block-restricted AGOP on `Float`. -/
import Xrfmv.Drv.Common
import Xrfmv.Model.Categorical

open Lean Xrfmv.Drv

namespace Xrfmv.Drv.C15
open Xrfmv.Categorical

def rowFn (r : Array Float) : Nat → Float := fun i => r.getD i 0.0
def matFn (m : Array (Array Float)) : Nat → Nat → Float := fun i j => (m.getD i #[]).getD j 0.0

/-- Layout of a `d`-column input; what indexing with these tensors would reject is rejected. -/
def getLayout (j : Json) (d : Nat) : Except String Layout := do
  let num ← j.getObjValAs? (List Nat) "num"
  let groups ← j.getObjValAs? (List (List Nat)) "groups"
  let lay : Layout := { num := num, groups := groups }
  if lay.cover.any (fun i => i ≥ d) then throw "bad-op: column index out of range"
  pure lay

def getKind (j : Json) : Except String Kind := do
  match ← j.getObjValAs? String "kernel" with
  | "l2" => pure .l2
  | "product" => pure .product
  | "lpq" => pure .lpq
  | s => throw s!"bad-op: kernel {s} has no categorical path"

def getTransform (j : Json) (d : Nat) : Except String (Transform Float) := do
  match ← j.getObjValAs? String "transform" with
  | "none" => pure .none
  | "diag" =>
    let v ← getFs j "mat"
    if v.size ≠ d then throw "bad-op: diagonal transform of wrong length"
    pure (.diag (rowFn v))
  | "full" =>
    let m ← getFss j "mat"
    if m.size ≠ d || m.any (fun r => r.size ≠ d) then throw "bad-op: transform matrix is not d x d"
    pure (.full (matFn m))
  | s => throw s!"bad-op: transform {s}"

def getRows (j : Json) (k : String) (d : Nat) : Except String (List (Nat → Float)) := do
  let rows ← getFss j k
  if rows.any (fun r => r.size ≠ d) then throw s!"bad-op: a row of {k} does not have d columns"
  pure (rows.toList.map rowFn)

/-- (a) fast-path and dense kernel matrices for a layout, kernel kind, exponents, bandwidth, transform, rows. -/
def opKernel : Handler := fun j => do
  let d ← j.getObjValAs? Nat "d"
  let lay ← getLayout j d
  let kind ← getKind j
  let p ← getF j "p"
  let q ← getF j "q"
  let L ← getF j "L"
  if !(L > 0) then throw "bad-op: bandwidth must be positive"
  if !(q > 0) then throw "bad-op: exponent must be positive"
  if kind == .lpq && !(0 < p && p ≤ 2 && q ≤ p) then throw "bad-op: need 0 < q <= p <= 2"
  if lay.num.isEmpty && lay.groups.isEmpty then throw "bad-op: no numerical or categorical features"
  let T ← getTransform j d
  let xs ← getRows j "x" d
  let zs ← getRows j "z" d
  let fast := fastMatrix kind p q L lay T xs zs
  let dense := denseMatrix kind p q L d T xs zs
  let cats := lay.groups.map fun g => xs.map fun x => argmax (restrict x g) g.length
  pure <| Json.mkObj [("fast", fssJson (fast.map List.toArray).toArray),
    ("dense", fssJson (dense.map List.toArray).toArray), ("xcat", toJson cats)]

def tabulate (d : Nat) (A : Nat → Nat → Float) : Array (Array Float) :=
  (Array.range d).map fun i => (Array.range d).map fun j => A i j

/-- (b) block mask of a `d × d` matrix. -/
def opMask : Handler := fun j => do
  let d ← j.getObjValAs? Nat "d"
  let lay ← getLayout j d
  let m ← getFss j "A"
  if m.size ≠ d || m.any (fun r => r.size ≠ d) then throw "bad-op: matrix is not d x d"
  pure <| Json.mkObj [("masked", fssJson (tabulate d (blockMask lay (matFn m))))]

/-- (c) categorical AGOP (zeros + one assignment per block) and dense AGOP of a gradient matrix. -/
def opAgop : Handler := fun j => do
  let d ← j.getObjValAs? Nat "d"
  let lay ← getLayout j d
  let G ← getFss j "G"
  if G.any (fun r => r.size ≠ d) then throw "bad-op: a gradient row does not have d columns"
  pure <| Json.mkObj [("cat", fssJson (tabulate d (agopCat G.size (matFn G) lay))),
    ("dense", fssJson (tabulate d (gram G.size (matFn G))))]

def ops : List (String × Handler) := [("kernel", opKernel), ("mask", opMask), ("agop", opAgop)]

end Xrfmv.Drv.C15
