/- Lemmas for C01: stack traversal = recursion, restore = inverse permutation, chunked prediction = map. -/
import Xrfmv.Model.HardRoute
import Mathlib.Data.List.Sort
import Mathlib.Data.List.Perm.Basic
import Mathlib.Data.List.Range
import Mathlib.Tactic.Linarith

namespace Xrfmv.HardRoute
open Xrfmv.Gen.Route List

variable {N L X Y : Type}

theorem pushChildren_eq (goes : N → X → Bool) (rows : List (Nat × X)) (g : N) (l r : Tree N L)
    (stack : List (Entry N L X)) :
    pushChildren goes rows g l r stack =
      (if (rows.filter fun ix => goes g ix.2).isEmpty then [] else [(rows.filter fun ix => goes g ix.2, l)]) ++
      ((if (rows.filter fun ix => !goes g ix.2).isEmpty then [] else [(rows.filter fun ix => !goes g ix.2, r)]) ++
        stack) := by
  simp only [pushChildren, pushOrder, skipEmptyGroups, List.foldl_cons, List.foldl_nil, Bool.true_and]
  split <;> split <;> simp_all

/-- **Stack traversal = recursion**: the loop appends, for every stack entry from the top, the recursive grouping
of its subtree. -/
theorem groupsLoop_spec (goes : N → X → Bool) :
    ∀ (stack : List (Entry N L X)) (acc : List (List (Nat × X) × L)),
      groupsLoop goes stack acc = acc ++ stack.flatMap fun e => groupsRec goes e.2 e.1 := by
  intro stack acc
  induction stack, acc using groupsLoop.induct goes with
  | case1 acc => simp [groupsLoop]
  | case2 rows m stack acc ih =>
    rw [groupsLoop, ih]
    simp [groupsRec, List.append_assoc]
  | case3 rows g l r stack acc ih =>
    rw [groupsLoop, ih, pushChildren_eq]
    simp only [List.flatMap_append, List.flatMap_cons, groupsRec]
    congr 1
    rw [← List.append_assoc]
    congr 1
    congr 1
    · split <;> simp
    · split <;> simp

theorem groups_eq_rec (goes : N → X → Bool) (t : Tree N L) (xs : List X) :
    groups goes t xs = groupsRec goes t (xs.zipIdx.map fun xi => (xi.2, xi.1)) := by
  simp [groups, groupsLoop_spec]

/-- Each row is predicted exactly once, by the leaf it is routed to. -/
theorem tagged_groupsRec_perm (goes : N → X → Bool) (f : L → X → Y) (t : Tree N L) :
    ∀ rows : List (Nat × X),
      (tagged f (groupsRec goes t rows)).Perm (rows.map fun ix => (ix.1, f (route goes t ix.2) ix.2)) := by
  induction t with
  | leaf m => intro rows; simp [groupsRec, tagged, route]
  | node g l r ihl ihr =>
    intro rows
    simp only [groupsRec, tagged, List.flatMap_append]
    have hl : ((if (rows.filter fun ix => goes g ix.2).isEmpty then []
          else groupsRec goes l (rows.filter fun ix => goes g ix.2)).flatMap
          fun gr => gr.1.map fun ix => (ix.1, f gr.2 ix.2)).Perm
        ((rows.filter fun ix => goes g ix.2).map fun ix => (ix.1, f (route goes (.node g l r) ix.2) ix.2)) := by
      have hmap : ((rows.filter fun ix => goes g ix.2).map fun ix => (ix.1, f (route goes (.node g l r) ix.2) ix.2)) =
          ((rows.filter fun ix => goes g ix.2).map fun ix => (ix.1, f (route goes l ix.2) ix.2)) := by
        apply List.map_congr_left
        intro ix hix
        have := (List.mem_filter.mp hix).2
        simp only [route]; simp [this]
      rw [hmap]
      split
      · rename_i he
        rw [List.isEmpty_iff] at he
        simp [he]
      · exact ihl _
    have hr : ((if (rows.filter fun ix => !goes g ix.2).isEmpty then []
          else groupsRec goes r (rows.filter fun ix => !goes g ix.2)).flatMap
          fun gr => gr.1.map fun ix => (ix.1, f gr.2 ix.2)).Perm
        ((rows.filter fun ix => !goes g ix.2).map fun ix => (ix.1, f (route goes (.node g l r) ix.2) ix.2)) := by
      have hmap : ((rows.filter fun ix => !goes g ix.2).map fun ix => (ix.1, f (route goes (.node g l r) ix.2) ix.2)) =
          ((rows.filter fun ix => !goes g ix.2).map fun ix => (ix.1, f (route goes r ix.2) ix.2)) := by
        apply List.map_congr_left
        intro ix hix
        have := (List.mem_filter.mp hix).2
        simp only [route]
        have hf : goes g ix.2 = false := by simpa using this
        simp [hf]
      rw [hmap]
      split
      · rename_i he
        rw [List.isEmpty_iff] at he
        simp [he]
      · exact ihr _
    have hsplit := (List.filter_append_perm (fun ix : Nat × X => goes g ix.2) rows).map
      (fun ix => (ix.1, f (route goes (.node g l r) ix.2) ix.2))
    rw [List.map_append] at hsplit
    exact (hl.append hr).trans hsplit

end Xrfmv.HardRoute

namespace Xrfmv.HardRoute
open Xrfmv.Gen.Route List

variable {N L X Y : Type}

/-- **Restore = inverse permutation**: sorting the concatenated positions and gathering returns the values in the
caller's order, whenever the tagged values are a permutation of a list whose positions are strictly increasing. -/
theorem restore_of_perm (P Q : List (Nat × Y)) (hperm : P.Perm Q)
    (hsorted : (Q.map Prod.fst).Pairwise (· < ·)) : restore P = Q.map Prod.snd := by
  unfold restore
  congr 1
  have hS : (P.mergeSort fun a b => decide (a.1 ≤ b.1)).Perm Q := (List.mergeSort_perm P _).trans hperm
  have hnd : (Q.map Prod.fst).Nodup := hsorted.imp (fun h => Nat.ne_of_lt h)
  have hQ : Q.Pairwise fun a b => (decide (a.1 ≤ b.1)) = true := by
    have := List.pairwise_map.mp hsorted
    exact this.imp (fun h => by simpa using Nat.le_of_lt h)
  have hSs : (P.mergeSort fun a b => decide (a.1 ≤ b.1)).Pairwise fun a b => (decide (a.1 ≤ b.1)) = true :=
    List.pairwise_mergeSort (le := fun a b => decide (a.1 ≤ b.1))
      (fun a b c h1 h2 => by simp only [decide_eq_true_eq] at *; omega)
      (fun a b => by simp only [Bool.or_eq_true, decide_eq_true_eq]; omega) P
  refine List.Perm.eq_of_pairwise (le := fun a b => (decide (a.1 ≤ b.1)) = true) ?_ hSs hQ hS
  intro a b ha hb h1 h2
  simp only [decide_eq_true_eq] at h1 h2
  have hk : a.1 = b.1 := by omega
  exact List.inj_on_of_nodup_map hnd (hS.mem_iff.mp ha) hb hk

theorem zipIdx_keys_sorted (xs : List X) (h : X → Y) :
    (((xs.zipIdx.map fun xi => (xi.2, xi.1)).map fun ix => (ix.1, h ix.2)).map Prod.fst).Pairwise (· < ·) := by
  simp only [List.map_map]
  have : (Prod.fst ∘ (fun ix : Nat × X => (ix.1, h ix.2)) ∘ fun xi : X × Nat => (xi.2, xi.1)) = Prod.snd := by
    funext xi; rfl
  rw [this, List.zipIdx_map_snd]
  exact List.pairwise_lt_range'

/-- **Hard-routed prediction = map**: for every tree, every batch and every leaf predictor, the value returned for a
row is the predictor of the leaf that row is routed to, applied to that row — in the caller's order. -/
theorem predictHard_eq_map (goes : N → X → Bool) (f : L → X → Y) (t : Tree N L) (xs : List X) :
    predictHard goes f t xs = xs.map fun x => f (route goes t x) x := by
  unfold predictHard
  rw [groups_eq_rec]
  have hperm := tagged_groupsRec_perm goes f t (xs.zipIdx.map fun xi => (xi.2, xi.1))
  rw [restore_of_perm _ _ hperm (zipIdx_keys_sorted xs fun x => f (route goes t x) x)]
  simp only [List.map_map]
  have : (Prod.snd ∘ (fun ix : Nat × X => (ix.1, f (route goes t ix.2) ix.2)) ∘ fun xi : X × Nat => (xi.2, xi.1)) =
      (fun x => f (route goes t x) x) ∘ Prod.fst := by
    funext xi; rfl
  rw [this, ← List.map_map, List.zipIdx_map_fst]

/-- **Chunked leaf prediction = map**: for every batch size `bs ≥ 1`, if the chunk function acts row by row. -/
theorem batched_eq_map (bs : Nat) (hbs : 1 ≤ bs) (f : X → Y) (xs : List X) :
    batched bs (List.map f) xs = xs.map f := by
  unfold batched
  have key : ∀ m : Nat, ((List.range m).flatMap fun k => ((xs.drop (k * bs)).take bs).map f) = (xs.take (m * bs)).map f := by
    intro m
    induction m with
    | zero => simp
    | succ m ih =>
      rw [List.range_succ, List.flatMap_append, ih]
      simp only [List.flatMap_cons, List.flatMap_nil, List.append_nil]
      rw [← List.map_append, Nat.succ_mul, List.take_add]
  rw [key]
  congr 1
  apply List.take_of_length_le
  have h1 : xs.length ≤ (xs.length + bs - 1) / bs * bs := by
    have := Nat.div_add_mod (xs.length + bs - 1) bs
    have hm := Nat.mod_lt (xs.length + bs - 1) (by omega : bs > 0)
    rw [Nat.mul_comm] at this
    omega
  exact h1

end Xrfmv.HardRoute
