/-
Model of `xRFM.fit_temperature` (xrfm.py): the candidate loop as a fold, over the regenerated `Gen.Temp`.
`score attr` is the validation metric of the model when its `split_temperature` attribute is `attr`
(`none` = hard routing); every candidate `≤ 0` is evaluated with hard routing, so the score of a candidate is
`score (attrOf c)`.
-/
import Xrfmv.Scalar
import Xrfmv.Gen.Temp

namespace Xrfmv.Tune
open Xrfmv.Gen.Temp

structure TState (α τ : Type) where
  bestScore : α
  bestAttr : Option τ
  results : List (τ × α)

variable {α τ : Type} [LT α] [DecidableLT α] [BEq α] [HasInf α]
  [LE τ] [DecidableLE τ] [LT τ] [DecidableLT τ] [OfScientific τ] [OfNat τ 0] [BEq τ]

def step (maximizing : Bool) (bestTempValue : τ) (score : Option τ → α) (st : TState α τ) (c : τ) : TState α τ :=
  let sc := score (attrOf c)
  let st := { st with results := st.results ++ [(c, sc)] }
  if isBetter maximizing sc st.bestScore || tieClause c bestTempValue sc st.bestScore then
    { st with bestScore := sc, bestAttr := attrOf c }
  else st

/-- `fit_temperature(X_val, y_val, cands)` on a model whose current attribute is `current`. -/
def tune (maximizing : Bool) (current : Option τ) (cands : List τ) (score : Option τ → α) : TState α τ :=
  cands.foldl (step maximizing (initBestTempValue (initBestAttr current)) score)
    { bestScore := initBestScore maximizing, bestAttr := initBestAttr current, results := [] }

end Xrfmv.Tune
