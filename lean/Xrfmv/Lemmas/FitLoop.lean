/-
Helper lemmas about the selection state machine `Xrfmv.FitLoop` interpreted over `EReal`
(real scores, `±∞` initial best).  Property theorems are in `Props/C02.lean`, `Props/C03.lean`.
-/
import Xrfmv.Model.FitLoop
import Xrfmv.Lemmas.RealInst

namespace Xrfmv.FitLoop
open Xrfmv.Gen.Select

/-- `a` is strictly better than `b` in the declared direction. -/
def better (maximize : Bool) (a b : ℝ) : Prop := if maximize then b < a else a < b

noncomputable instance (mx : Bool) (a b : ℝ) : Decidable (better mx a b) := by
  unfold better; infer_instance

/-- Best score among iterates `0..k`. -/
noncomputable def runBest (maximize : Bool) (s : ℕ → ℝ) : ℕ → ℝ
  | 0 => s 0
  | k + 1 => if maximize then max (runBest maximize s k) (s (k + 1))
             else min (runBest maximize s k) (s (k + 1))

/-- The documented early-stop condition at iterate `k`: worse than the best so far (iterate `k`
included) by more than the multiplier. -/
def stopCond (maximize : Bool) (μ : ℝ) (s : ℕ → ℝ) (k : ℕ) : Prop :=
  if maximize then s k < runBest maximize s k / μ else s k > runBest maximize s k * μ

theorem runBest_attained (mx : Bool) (s : ℕ → ℝ) (k : ℕ) : ∃ j ≤ k, s j = runBest mx s k := by
  induction k with
  | zero => exact ⟨0, le_rfl, rfl⟩
  | succ k ih =>
    obtain ⟨j, hj, hs⟩ := ih
    cases mx <;> simp only [runBest, Bool.false_eq_true, if_false, if_true]
    · rcases min_choice (runBest false s k) (s (k + 1)) with h | h
      · exact ⟨j, by omega, by rw [h, hs]⟩
      · exact ⟨k + 1, le_rfl, by rw [h]⟩
    · rcases max_choice (runBest true s k) (s (k + 1)) with h | h
      · exact ⟨j, by omega, by rw [h, hs]⟩
      · exact ⟨k + 1, le_rfl, by rw [h]⟩

theorem runBest_optimal (mx : Bool) (s : ℕ → ℝ) (k : ℕ) :
    ∀ k' ≤ k, ¬ better mx (s k') (runBest mx s k) := by
  induction k with
  | zero =>
    intro k' hk'
    have : k' = 0 := by omega
    subst this
    cases mx <;> simp [better, runBest]
  | succ k ih =>
    intro k' hk'
    rcases Nat.lt_or_ge k' (k + 1) with h | h
    · have := ih k' (by omega)
      cases mx <;> simp only [better, runBest, Bool.false_eq_true, if_false, if_true, not_lt] at this ⊢
      · exact le_trans (min_le_left _ _) this
      · exact le_trans this (le_max_left _ _)
    · have : k' = k + 1 := by omega
      subst this
      cases mx <;> simp only [better, runBest, Bool.false_eq_true, if_false, if_true, not_lt]
      · exact min_le_right _ _
      · exact le_max_right _ _

/-- Updating the running best with a new score. -/
theorem runBest_succ_eq (mx : Bool) (s : ℕ → ℝ) (k : ℕ) :
    runBest mx s (k + 1) = if better mx (s (k + 1)) (runBest mx s k) then s (k + 1) else runBest mx s k := by
  cases mx <;> simp only [better, runBest, Bool.false_eq_true, if_false, if_true]
  · split
    · exact min_eq_right (le_of_lt ‹_›)
    · exact min_eq_left (not_lt.mp ‹_›)
  · split
    · exact max_eq_right (le_of_lt ‹_›)
    · exact max_eq_left (not_lt.mp ‹_›)

section machine
variable (cfg : Cfg EReal) (s : ℕ → ℝ) (μ : ℝ)

/-- The state when the loop is about to run iterate `i` (no stop so far). -/
structure Inv (i : ℕ) (st : St EReal) : Prop where
  notStopped : st.stopped = false
  curM : st.cur.m = i
  curSq : st.cur.sq = i
  curBw : cfg.adaptive = false → st.cur.bw = 0
  evals : st.evals = (List.range i).reverse
  noStop : ∀ k < i, ¬ (cfg.earlyStop = true ∧ stopCond cfg.maximize μ s k)
  zero : i = 0 → st.best.metric = initBest (!cfg.maximize) ∧ st.best.w = none
  pos : ∀ n, i = n + 1 →
    st.best.metric = ((runBest cfg.maximize s n : ℝ) : EReal) ∧
    ∃ j ≤ n, s j = runBest cfg.maximize s n ∧ st.best.w = some j ∧ st.best.m = some j ∧
      st.best.sq = some j ∧ st.best.iter = some j ∧ st.best.bw = (if cfg.adaptive then j else 0)

/-- The state after iterate `i` has been scored and (possibly) snapshotted: shared by the stop
branch of the loop and by the final refit. -/
structure Scored (i : ℕ) (st : St EReal) : Prop where
  curW : st.cur.w = some i
  curM : st.cur.m = i
  curSq : st.cur.sq = i
  curBw : st.cur.bw = (if cfg.adaptive then i else 0)
  evals : st.evals = (List.range (i + 1)).reverse
  best : st.best.metric = ((runBest cfg.maximize s i : ℝ) : EReal) ∧
    ∃ j ≤ i, s j = runBest cfg.maximize s i ∧ st.best.w = some j ∧ st.best.m = some j ∧
      st.best.sq = some j ∧ st.best.iter = some j ∧ st.best.bw = (if cfg.adaptive then j else 0)

end machine

end Xrfmv.FitLoop

namespace Xrfmv.FitLoop
open Xrfmv.Gen.Select

section steps
variable (cfg : Cfg EReal) (s : ℕ → ℝ) (μ : ℝ)

/-- What the snapshot holds once iterate `i` has been scored and compared. -/
def BestAt (i : ℕ) (b : Best EReal) : Prop :=
  b.metric = ((runBest cfg.maximize s i : ℝ) : EReal) ∧
    ∃ j ≤ i, s j = runBest cfg.maximize s i ∧ b.w = some j ∧ b.m = some j ∧
      b.sq = some j ∧ b.iter = some j ∧ b.bw = (if cfg.adaptive then j else 0)

/-- What the snapshot holds before iterate `i` is scored. -/
def BestBefore (i : ℕ) (b : Best EReal) : Prop :=
  (i = 0 → b.metric = initBest (!cfg.maximize) ∧ b.w = none) ∧
  (∀ n, i = n + 1 → BestAt cfg s n b)

theorem doUpdate_spec (i : ℕ) (st : St EReal)
    (hb : BestBefore cfg s i st.best)
    (hw : st.cur.w = some i) (hm : st.cur.m = i) (hsq : st.cur.sq = i)
    (hbw : st.cur.bw = (if cfg.adaptive then i else 0)) :
    let st' := doUpdate cfg i ((s i : ℝ) : EReal) st
    st'.cur = st.cur ∧ st'.stopped = st.stopped ∧ st'.evals = st.evals ∧ BestAt cfg s i st'.best := by
  obtain ⟨hb0, hbS⟩ := hb
  rcases Nat.eq_zero_or_pos i with hi | hi
  · subst hi
    obtain ⟨hmet, _⟩ := hb0 rfl
    cases hmx : cfg.maximize <;>
      simp [doUpdate, updateGuards, updatePlans, firstFiring, applyPlan, hmet, initBest, hmx,
        HasInf.posInf, HasInf.negInf, BestAt, runBest, EReal.coe_lt_top, EReal.bot_lt_coe, hw, hm, hsq, hbw]
  · obtain ⟨n, rfl⟩ : ∃ n, i = n + 1 := ⟨i - 1, by omega⟩
    obtain ⟨hmet, j, hj, hsj, hjw, hjm, hjsq, hjit, hjbw⟩ := hbS n rfl
    have hrb := runBest_succ_eq cfg.maximize s n
    cases hmx : cfg.maximize <;> rw [hmx] at hrb hmet hsj <;>
      simp only [better, Bool.false_eq_true, if_false, if_true] at hrb
    · by_cases hlt : s (n + 1) < runBest false s n
      · rw [if_pos hlt] at hrb
        simp [doUpdate, updateGuards, updatePlans, firstFiring, applyPlan, hmet, hmx, BestAt,
          EReal.coe_lt_coe_iff, hlt, hrb, hw, hm, hsq, hbw]
      · rw [if_neg hlt] at hrb
        simp [doUpdate, updateGuards, updatePlans, firstFiring, applyPlan, hmet, hmx, BestAt,
          EReal.coe_lt_coe_iff, hlt, hrb]
        exact ⟨j, by omega, hsj, hjw, hjm, hjsq, hjit, hjbw⟩
    · by_cases hlt : runBest true s n < s (n + 1)
      · rw [if_pos hlt] at hrb
        simp [doUpdate, updateGuards, updatePlans, firstFiring, applyPlan, hmet, hmx, BestAt,
          EReal.coe_lt_coe_iff, hlt, hrb, hw, hm, hsq, hbw]
      · rw [if_neg hlt] at hrb
        simp [doUpdate, updateGuards, updatePlans, firstFiring, applyPlan, hmet, hmx, BestAt,
          EReal.coe_lt_coe_iff, hlt, hrb]
        exact ⟨j, by omega, hsj, hjw, hjm, hjsq, hjit, hjbw⟩


/-- `shouldStop` on real scores is the documented condition. -/
theorem shouldStop_coe (mx : Bool) (a b : ℝ) :
    shouldStop (!mx) ((a : ℝ) : EReal) ((b : ℝ) : EReal) ((μ : ℝ) : EReal) = true ↔
      (if mx then a < b / μ else a > b * μ) := by
  cases mx <;> simp [shouldStop, ← EReal.coe_mul, ← EReal.coe_div, EReal.coe_lt_coe_iff]

/-- With the initial `±∞` best the stop test cannot fire. -/
theorem shouldStop_init (hμ : 0 < μ) (mx : Bool) (a : ℝ) :
    shouldStop (!mx) ((a : ℝ) : EReal) (initBest (!mx)) ((μ : ℝ) : EReal) = false := by
  cases mx
  · simp [shouldStop, initBest, HasInf.posInf, EReal.top_mul_coe_of_pos hμ]
  · have h : (⊥ : EReal) / ((μ : ℝ) : EReal) = ⊥ :=
      EReal.bot_div_of_pos_ne_top (by exact_mod_cast hμ) (EReal.coe_ne_top μ)
    simp [shouldStop, initBest, HasInf.negInf, h]

/-- One pass through the regenerated loop body with `return_best_params=True`. -/
theorem loopBody_spec (hrb : cfg.returnBest = true) (hmu : cfg.mult = ((μ : ℝ) : EReal))
    (i : ℕ) (st : St EReal) (h : Inv cfg s μ i st) :
    let st' := runBody cfg i ((s i : ℝ) : EReal) loopBody st
    (st'.stopped = true ∧ Scored cfg s i st' ∧ cfg.earlyStop = true ∧ stopCond cfg.maximize μ s i ∧
        ∀ k < i, ¬ (cfg.earlyStop = true ∧ stopCond cfg.maximize μ s k)) ∨
    (st'.stopped = false ∧ Inv cfg s μ (i + 1) st') := by
  -- state after `solve; score`
  set st1 : St EReal :=
    { st with cur := { st.cur with w := some i, bw := if cfg.adaptive && resetBandwidthBeforeSolve then i else st.cur.bw },
              evals := i :: st.evals } with hst1
  have hbw1 : st1.cur.bw = (if cfg.adaptive then i else 0) := by
    cases had : cfg.adaptive <;> simp [hst1, had, resetBandwidthBeforeSolve, h.curBw]
  have hup := doUpdate_spec cfg s i st1 ⟨h.zero, h.pos⟩ (by simp [hst1]) (by simp [hst1, h.curM])
    (by simp [hst1, h.curSq]) hbw1
  obtain ⟨hcur, hstop, hev, hbest⟩ := hup
  set st2 := doUpdate cfg i ((s i : ℝ) : EReal) st1 with hst2
  have hrun : runBody cfg i ((s i : ℝ) : EReal) loopBody st =
      if cfg.earlyStop && shouldStop (!cfg.maximize) ((s i : ℝ) : EReal) st2.best.metric cfg.mult then
        { st2 with stopped := true }
      else { st2 with cur := { st2.cur with w := none, m := st2.cur.m + 1, sq := st2.cur.sq + 1 } } := by
    simp [loopBody, runBody, hrb, doFitM, hst2, hst1]
  have hstopiff : (cfg.earlyStop && shouldStop (!cfg.maximize) ((s i : ℝ) : EReal) st2.best.metric cfg.mult) = true ↔
      (cfg.earlyStop = true ∧ stopCond cfg.maximize μ s i) := by
    rw [hbest.1, hmu, Bool.and_eq_true, shouldStop_coe]
    rfl
  simp only [hrun]
  by_cases hs : (cfg.earlyStop && shouldStop (!cfg.maximize) ((s i : ℝ) : EReal) st2.best.metric cfg.mult) = true
  · left
    rw [if_pos hs]
    refine ⟨rfl, ⟨?_, ?_, ?_, ?_, ?_, hbest⟩, (hstopiff.mp hs).1, (hstopiff.mp hs).2, h.noStop⟩
    · simp [hcur, hst1]
    · simp [hcur, hst1, h.curM]
    · simp [hcur, hst1, h.curSq]
    · simp [hcur, hbw1]
    · simp [hev, hst1, h.evals, List.range_succ]
  · right
    rw [if_neg hs]
    refine ⟨by simp [hstop, hst1, h.notStopped], ⟨?_, ?_, ?_, ?_, ?_, ?_, ?_, ?_⟩⟩
    · simp [hstop, hst1, h.notStopped]
    · simp [hcur, hst1, h.curM]
    · simp [hcur, hst1, h.curSq]
    · intro had; simp [hcur, hbw1, had]
    · simp [hev, hst1, h.evals, List.range_succ]
    · intro k hk
      rcases Nat.lt_or_ge k i with hki | hki
      · exact h.noStop k hki
      · have : k = i := by omega
        subst this
        exact fun hc => hs (hstopiff.mpr hc)
    · intro hi; omega
    · intro n hn
      have : n = i := by omega
      subst this
      exact hbest

/-- The final refit with `return_best_params=True`. -/
theorem finalBody_spec (hrb : cfg.returnBest = true)
    (i : ℕ) (st : St EReal) (h : Inv cfg s μ i st) :
    Scored cfg s i (runBody cfg i ((s i : ℝ) : EReal) finalBody st) := by
  set st1 : St EReal :=
    { st with cur := { st.cur with w := some i, bw := if cfg.adaptive && resetBandwidthBeforeSolve then i else st.cur.bw },
              evals := i :: st.evals } with hst1
  have hbw1 : st1.cur.bw = (if cfg.adaptive then i else 0) := by
    cases had : cfg.adaptive <;> simp [hst1, had, resetBandwidthBeforeSolve, h.curBw]
  have hup := doUpdate_spec cfg s i st1 ⟨h.zero, h.pos⟩ (by simp [hst1]) (by simp [hst1, h.curM])
    (by simp [hst1, h.curSq]) hbw1
  obtain ⟨hcur, _, hev, hbest⟩ := hup
  have hrun : runBody cfg i ((s i : ℝ) : EReal) finalBody st = doUpdate cfg i ((s i : ℝ) : EReal) st1 := by
    simp [finalBody, runBody, hrb, hst1]
  rw [hrun]
  refine ⟨?_, ?_, ?_, ?_, ?_, hbest⟩
  · rw [hcur]
  · rw [hcur]; exact h.curM
  · rw [hcur]; exact h.curSq
  · rw [hcur]; exact hbw1
  · rw [hev]; simp [hst1, h.evals, List.range_succ]


/-- The loop from iterate `i` with `k` iterations left. -/
theorem loop_spec (hrb : cfg.returnBest = true) (hmu : cfg.mult = ((μ : ℝ) : EReal))
    (k : ℕ) : ∀ (i : ℕ) (st : St EReal), Inv cfg s μ i st →
    let st' := loop cfg (fun n => ((s n : ℝ) : EReal)) k i st
    (st'.stopped = true ∧ ∃ n, i ≤ n ∧ n < i + k ∧ Scored cfg s n st' ∧ cfg.earlyStop = true ∧
        stopCond cfg.maximize μ s n ∧ ∀ k' < n, ¬ (cfg.earlyStop = true ∧ stopCond cfg.maximize μ s k')) ∨
    (st'.stopped = false ∧ Inv cfg s μ (i + k) st') := by
  induction k with
  | zero => intro i st h; right; exact ⟨h.notStopped, h⟩
  | succ k ih =>
    intro i st h
    simp only [loop]
    rcases loopBody_spec cfg s μ hrb hmu i st h with ⟨hst, hsc, hes, hsc', hno⟩ | ⟨hst, hinv⟩
    · left
      rw [if_pos hst]
      exact ⟨hst, i, le_rfl, by omega, hsc, hes, hsc', hno⟩
    · rw [if_neg (by simp [hst])]
      rcases ih (i + 1) _ hinv with ⟨hst', n, hn1, hn2, rest⟩ | ⟨hst', hinv'⟩
      · left; exact ⟨hst', n, by omega, by omega, rest⟩
      · right; exact ⟨hst', by rwa [show i + (k + 1) = i + 1 + k by omega]⟩

/-- Master specification of `fit` with `return_best_params=True`: there is a last evaluated iterate
`n` and a selected iterate `j ≤ n` such that everything returned carries tag `j`. -/
theorem fit_spec (hrb : cfg.returnBest = true) (hmu : cfg.mult = ((μ : ℝ) : EReal)) :
    let r := fit cfg (fun n => ((s n : ℝ) : EReal))
    ∃ n j, j ≤ n ∧ n ≤ cfg.iters ∧ r.evals = List.range (n + 1) ∧
      r.fin = { w := some j, m := j, sq := j, bw := if cfg.adaptive then j else 0 } ∧
      r.bestIter = some j ∧ s j = runBest cfg.maximize s n ∧
      (∀ k' < n, ¬ (cfg.earlyStop = true ∧ stopCond cfg.maximize μ s k')) ∧
      ((r.stopped = true ∧ n < cfg.iters ∧ cfg.earlyStop = true ∧ stopCond cfg.maximize μ s n) ∨
       (r.stopped = false ∧ n = cfg.iters)) := by
  have h0 : Inv cfg s μ 0 (init cfg) := by
    refine ⟨rfl, rfl, rfl, fun _ => rfl, rfl, fun k hk => absurd hk (Nat.not_lt_zero k), fun _ => ⟨rfl, rfl⟩, ?_⟩
    intro n hn; omega
  have key : ∀ (n : ℕ) (st : St EReal), Scored cfg s n st →
      ∃ j, j ≤ n ∧ st.evals.reverse = List.range (n + 1) ∧
        restored cfg st = { w := some j, m := j, sq := j, bw := if cfg.adaptive then j else 0 } ∧
        st.best.iter = some j ∧ s j = runBest cfg.maximize s n := by
    intro n st hsc
    obtain ⟨_, j, hj, hsj, hw, hm, hsq, hit, hbw⟩ := hsc.best
    refine ⟨j, hj, by simp [hsc.evals], ?_, hit, hsj⟩
    simp [restored, restore, hrb, hw, hm, hsq, hbw]
  simp only [fit]
  rcases loop_spec cfg s μ hrb hmu cfg.iters 0 (init cfg) h0 with ⟨hst, n, _, hn2, hsc, hes, hscn, hno⟩ | ⟨hst, hinv⟩
  · have hfin : final cfg (fun n => ((s n : ℝ) : EReal)) (loop cfg (fun n => ((s n : ℝ) : EReal)) cfg.iters 0 (init cfg)) =
        loop cfg (fun n => ((s n : ℝ) : EReal)) cfg.iters 0 (init cfg) := by
      simp [final, finalGuardNotStopped, hst]
    rw [hfin]
    obtain ⟨j, hj, hev, hres, hit, hsj⟩ := key n _ hsc
    exact ⟨n, j, hj, by omega, hev, hres, hit, hsj, hno, Or.inl ⟨hst, by omega, hes, hscn⟩⟩
  · have hfin : final cfg (fun n => ((s n : ℝ) : EReal)) (loop cfg (fun n => ((s n : ℝ) : EReal)) cfg.iters 0 (init cfg)) =
        runBody cfg cfg.iters ((s cfg.iters : ℝ) : EReal) finalBody
          (loop cfg (fun n => ((s n : ℝ) : EReal)) cfg.iters 0 (init cfg)) := by
      simp [final, hst]
    rw [hfin]
    rw [Nat.zero_add] at hinv
    have hsc := finalBody_spec cfg s μ hrb cfg.iters _ hinv
    obtain ⟨j, hj, hev, hres, hit, hsj⟩ := key cfg.iters _ hsc
    refine ⟨cfg.iters, j, hj, le_rfl, hev, hres, hit, hsj, hinv.noStop, Or.inr ⟨?_, rfl⟩⟩
    -- the final body contains no stop test
    simp [finalBody, runBody, hrb, doUpdate, hinv.notStopped]
    split <;> simp [hinv.notStopped]


/-- Loop-head state with `return_best_params=False`: nothing is ever snapshotted. -/
structure InvLast (i : ℕ) (st : St EReal) : Prop where
  notStopped : st.stopped = false
  curM : st.cur.m = i
  curSq : st.cur.sq = i
  curBw : cfg.adaptive = false → st.cur.bw = 0
  evals : st.evals = (List.range i).reverse
  best : st.best.metric = initBest (!cfg.maximize)

theorem loopBody_last (hrb : cfg.returnBest = false) (hmu : cfg.mult = ((μ : ℝ) : EReal)) (hμ : 0 < μ)
    (i : ℕ) (st : St EReal) (h : InvLast cfg i st) :
    InvLast cfg (i + 1) (runBody cfg i ((s i : ℝ) : EReal) loopBody st) := by
  have hns := shouldStop_init μ hμ cfg.maximize (s i)
  have hrun : runBody cfg i ((s i : ℝ) : EReal) loopBody st =
      { st with cur := { w := none, m := st.cur.m + 1, sq := st.cur.sq + 1,
                         bw := if cfg.adaptive && resetBandwidthBeforeSolve then i else st.cur.bw },
                evals := i :: st.evals } := by
    simp [loopBody, runBody, hrb, doFitM, h.best, hmu, hns]
  rw [hrun]
  refine ⟨h.notStopped, by simp [h.curM], by simp [h.curSq], ?_, by simp [h.evals, List.range_succ], h.best⟩
  intro had; simp [had, h.curBw]

theorem loop_last (hrb : cfg.returnBest = false) (hmu : cfg.mult = ((μ : ℝ) : EReal)) (hμ : 0 < μ)
    (k : ℕ) : ∀ (i : ℕ) (st : St EReal), InvLast cfg i st →
    InvLast cfg (i + k) (loop cfg (fun n => ((s n : ℝ) : EReal)) k i st) := by
  induction k with
  | zero => intro i st h; exact h
  | succ k ih =>
    intro i st h
    simp only [loop]
    have h1 := loopBody_last cfg s μ hrb hmu hμ i st h
    rw [if_neg (by simp [h1.notStopped])]
    have := ih (i + 1) _ h1
    rwa [show i + (k + 1) = i + 1 + k by omega]

/-- `return_best_params=False`: the last refit is returned, every iterate is evaluated, the stop
branch (which would advance `M` past the weights) is unreachable. -/
theorem fit_last (hrb : cfg.returnBest = false) (hmu : cfg.mult = ((μ : ℝ) : EReal)) (hμ : 0 < μ) :
    let r := fit cfg (fun n => ((s n : ℝ) : EReal))
    r.fin = { w := some cfg.iters, m := cfg.iters, sq := cfg.iters,
              bw := if cfg.adaptive then cfg.iters else 0 } ∧
    r.evals = List.range (cfg.iters + 1) ∧ r.stopped = false := by
  have h0 : InvLast cfg 0 (init cfg) := ⟨rfl, rfl, rfl, fun _ => rfl, rfl, rfl⟩
  have hl := loop_last cfg s μ hrb hmu hμ cfg.iters 0 (init cfg) h0
  rw [Nat.zero_add] at hl
  set stL := loop cfg (fun n => ((s n : ℝ) : EReal)) cfg.iters 0 (init cfg) with hstL
  have hfin : final cfg (fun n => ((s n : ℝ) : EReal)) stL =
      { stL with cur := { w := some cfg.iters, m := stL.cur.m, sq := stL.cur.sq,
                          bw := if cfg.adaptive && resetBandwidthBeforeSolve then cfg.iters else stL.cur.bw },
                 evals := cfg.iters :: stL.evals } := by
    simp [final, hl.notStopped, finalBody, runBody, hrb]
  simp only [fit, ← hstL, hfin]
  refine ⟨?_, by simp [hl.evals, List.range_succ], hl.notStopped⟩
  cases had : cfg.adaptive <;>
    simp [restored, restore, hrb, hl.curM, hl.curSq, had, resetBandwidthBeforeSolve, hl.curBw]

end steps
end Xrfmv.FitLoop
