/- Driver ops for C12 (none yet). -/
import Xrfmv.Drv.Common

namespace Xrfmv.Drv.C12

def ops : List (String × Handler) := []

end Xrfmv.Drv.C12
