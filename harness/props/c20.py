"""
C20 — results do not depend on how inputs are represented.

Proof: lean/Xrfmv/Props/C20.lean (`coerce_canonical`: complete finite table of the coercion model).
Correspondence: an outside recorder around `RFM.fit` records what every leaf (and split model) receives - dtype, shape,
hash of the bytes of X, y, X_val, y_val - for every documented representation of the SAME data; compared with the
driver's `coerce` answer and, byte for byte, with the reference representation (float32 tensors).
Property oracle (directly on the implementation): `predict` / `predict_proba` outputs are BIT-IDENTICAL across
representations (same code on the same canonical tensors; seeded before each fit) and have the documented
shape / dtype: regression (n, outputs) float array, classification (n,) integer array, probabilities (n, n_classes).
"""
import contextlib
import io

from harness import core
from harness.props import _xcommon as xc

MOD = 'harness.props.c20'

NP = {'float16': 'float16', 'float32': 'float32', 'float64': 'float64', 'int8': 'int8', 'int16': 'int16', 'int32': 'int32',
      'int64': 'int64', 'uint8': 'uint8', 'bool': 'bool', 'uint16': 'uint16', 'uint32': 'uint32', 'uint64': 'uint64'}

X_REPS = [('tensor', 'float32'), ('ndarray', 'float32'), ('ndarray', 'float64')]
FLOAT_Y = ['float32', 'float64']
INT_Y = ['int8', 'int16', 'int32', 'int64', 'uint8', 'uint16', 'uint32', 'uint64']


def documented_y_reps(logical):
    if logical == 'reg1':
        return [(c, dt, sh) for c in ('tensor', 'ndarray') for dt in FLOAT_Y for sh in ('vec', 'col')]
    if logical == 'regK':
        return [(c, dt, 'mat') for c in ('tensor', 'ndarray') for dt in FLOAT_Y]
    return [(c, dt, sh) for c in ('tensor', 'ndarray') for dt in INT_Y for sh in ('vec', 'col')]


def reference_y_rep(logical):
    return {'reg1': ('tensor', 'float32', 'col'), 'regK': ('tensor', 'float32', 'mat')}.get(logical, ('tensor', 'int64', 'vec'))


def convert(t, container, dtype, shape=None):
    """base tensor (float32 features/targets or int64 labels) -> the representation handed to the library"""
    import numpy as np
    import torch
    if shape == 'vec':
        t = t.reshape(-1)
    elif shape == 'col':
        t = t.reshape(-1, 1)
    a = t.numpy().astype(getattr(np, NP[dtype])).copy()
    if container == 'ndarray':
        return a
    if dtype in ('uint16', 'uint32', 'uint64'):
        return torch.as_tensor(a)
    return torch.from_numpy(a).clone()


# ------------------------------------------------------------------------------------------------
class LeafRecorder:
    """Wraps `RFM.fit` from outside: fingerprints of (X, y, X_val, y_val) of every leaf / split-model fit."""

    def __init__(self):
        self.records = []

    def __enter__(self):
        from xrfm.rfm_src import RFM
        self._cls, self._orig = RFM, RFM.fit
        recs, orig = self.records, RFM.fit

        def fit(model, train_data, val_data=None, *a, **kw):
            recs.append([xc.fp(train_data[0]), xc.fp(train_data[1]), xc.fp(val_data[0]), xc.fp(val_data[1])])
            return orig(model, train_data, val_data, *a, **kw)

        RFM.fit = fit
        return self

    def __exit__(self, *a):
        self._cls.fit = self._orig
        return False


def logical_of(task):
    return {'reg1': 'reg1', 'reg2': 'regK', 'bin': 'binary', 'multi': 'multi'}[task]


def fit_predict(p, data, xrep, yrep, qrep, vrep=None):
    """One fit + predict (+ predict_proba) for one representation. Returns dict(records, pred, proba, error)."""
    import numpy as np  # noqa: F401
    from xrfm import xRFM
    vx = vrep or xrep
    X = convert(data['X'], *xrep)
    Xv = convert(data['Xv'], *vx)
    Xq = convert(data['Xt'], *qrep)
    y = convert(data['y'], *yrep)
    yv = convert(data['yv'], *yrep)
    out = {'records': [], 'pred': None, 'proba': None, 'error': None, 'stage': None}
    xc.seed_all(p['seed'])
    kw = dict(rfm_params=xc.rfm_params(p['kernel'], diag=p['diag'], iters=p['iters']), max_leaf_size=p['max_leaf_size'],
              device='cpu', verbose=False, random_state=p['seed'], classification_mode=p['mode'],
              split_method=p['split_method'], n_trees=p.get('n_trees', 1))
    if p.get('metric'):
        kw['tuning_metric'] = p['metric']
    if p['tuning']:
        kw.update(use_temperature_tuning=True, temp_tuning_space=[0.0, 0.1, 0.5])
    else:
        kw.update(use_temperature_tuning=False, split_temperature=p.get('split_temperature'))
    rec = LeafRecorder()
    with contextlib.redirect_stdout(io.StringIO()), contextlib.redirect_stderr(io.StringIO()):
        try:
            out['stage'] = 'fit'
            with rec:
                model = xRFM(**kw)
                model.fit(X, y, Xv, yv)
            out['records'] = rec.records
            out['depth'] = max(xc.tree_depth(t) for t in model.trees)
            out['temperature'] = model.split_temperature
            out['stage'] = 'predict'
            out['pred'] = model.predict(Xq)
            if p['logical'] in ('binary', 'multi'):
                out['stage'] = 'predict_proba'
                out['proba'] = model.predict_proba(Xq)
            # the caller's query container refilled in place with other rows between two calls (one buffer object, streamed
            # chunks): the same rows handed over in a fresh container of the same kind must give the same bytes
            out['stage'] = 'predict (reused buffer)'
            half = Xq.shape[0] // 2
            if half >= 1:
                fresh = Xq[half:2 * half].clone() if hasattr(Xq, 'clone') else Xq[half:2 * half].copy()
                buf = Xq[:half].clone() if hasattr(Xq, 'clone') else Xq[:half].copy()
                model.predict(buf)
                buf[...] = fresh
                a, b = model.predict(buf), model.predict(fresh)
                if a.tobytes() != b.tobytes():
                    out['buffer'] = (f'predict through a reused {type(Xq).__name__} buffer differs from predict of the same rows in a fresh one '
                                     f'({int((np.asarray(a) != np.asarray(b)).sum())} of {a.size} entries)')
            out['stage'] = None
        except Exception as e:  # noqa: BLE001 - classified by the caller
            out['records'] = rec.records
            out['error'] = f'{type(e).__name__}: {str(e)[:140]}'
    return out


def describe(a):
    return None if a is None else {'type': type(a).__name__, 'dtype': str(a.dtype), 'shape': list(a.shape)}


def run_large_layouts(p):
    """Feature arrays of more than 2^22 elements in every memory layout NumPy hands out (C order, Fortran order as produced by
    `.T` / `asfortranarray` / `DataFrame.to_numpy()`, float32 and float64) against the float32 tensor: same predictions."""
    import numpy as np
    import torch
    from xrfm import xRFM
    res = {'family': p['family'], 'params': p, 'disagreements': [], 'failures': [], 'dist': {}}
    d, nq = p['d'], p['nq']
    data = xc.make_data(p['dseed'], p['n'], d, p['task'])
    g = torch.Generator().manual_seed(p['dseed'] + 5)
    Xq = torch.randn(nq, d, generator=g, dtype=torch.float32)
    is_class = p['task'] in ('bin', 'multi')
    with contextlib.redirect_stdout(io.StringIO()), contextlib.redirect_stderr(io.StringIO()):
        xc.seed_all(p['seed'])
        model = xRFM(rfm_params=xc.rfm_params('l2', iters=0), max_leaf_size=p['max_leaf_size'], device='cpu', verbose=False,
                     random_state=p['seed'], split_method='random', use_temperature_tuning=False)
        model.fit(data['X'], data['y'], data['Xv'], data['yv'])
        call = model.predict_proba if is_class else model.predict
        ref = call(Xq).astype(np.float64)
    base64 = Xq.numpy().astype(np.float64)
    variants = {'float64 C order': np.ascontiguousarray(base64), 'float64 Fortran order': np.asfortranarray(base64),
                'float64 transposed view': np.ascontiguousarray(base64.T).T, 'float32 Fortran order': np.asfortranarray(Xq.numpy())}
    scale = float(np.abs(ref).max()) + 1e-12
    for name, arr in variants.items():
        try:
            with contextlib.redirect_stdout(io.StringIO()), contextlib.redirect_stderr(io.StringIO()):
                got = call(arr).astype(np.float64)
        except Exception as e:  # noqa: BLE001
            res['failures'].append({'signature': f'C20:raises:{type(e).__name__}', 'detail': f'{name}, {arr.size} elements: {str(e)[:160]}'})
            continue
        if got.shape != ref.shape or not (np.abs(got - ref).max() <= 2e-3 * scale):
            bad = int((np.abs(got - ref).max(axis=-1) > 2e-3 * scale).sum()) if got.shape == ref.shape else -1
            res['failures'].append({'signature': f'C20:prediction-differs:layout',
                                    'detail': f'{arr.size}-element feature array, {name}: predictions differ from those for the float32 tensor '
                                              f'by {float(np.abs(got - ref).max()) if got.shape == ref.shape else None} ({bad} of {nq} rows)'})
    res['nontrivial'] = ['large-layouts', p['task'], p['dseed']]
    res['dist'] = {'logical': p['task'], 'elements': '> 2^22', 'layouts': len(variants)}
    res['sample'] = {'task': p['task'], 'rows': nq, 'd': d, 'layouts': list(variants)}
    return res


def run_rfm_level(p):
    """Leaf-level format restoration (`RFM.validate_samples` / `convert_to_format`): a leaf model used directly returns a
    NumPy array for NumPy samples and a tensor for tensor samples, with the same values, whatever the number of internal
    prediction blocks (`max_batch_size`)."""
    import numpy as np
    import torch
    from xrfm.rfm_src import RFM
    res = {'family': p['family'], 'params': p, 'disagreements': [], 'failures': [], 'dist': {}}
    data = xc.make_data(p['dseed'], p['n'], p['d'], p['task'])
    torch.manual_seed(p['seed'])
    with contextlib.redirect_stdout(io.StringIO()), contextlib.redirect_stderr(io.StringIO()):
        model = RFM(**dict(xc.KERNELS[p['kernel']], bandwidth=5.0, diag=p['diag'], bandwidth_mode='constant'), device='cpu', verbose=False,
                    tuning_metric='mse')
        fit_in = (lambda t: t.numpy().copy()) if p['fit_container'] == 'ndarray' else (lambda t: t)
        model.fit((fit_in(data['X']), fit_in(data['y'])), (fit_in(data['Xv']), fit_in(data['yv'])), iters=p['iters'], reg=1e-3, verbose=False,
                  early_stop_rfm=False)
        Xq = data['Xt']
        ref = model.predict(Xq)
        # float32 rounding of K @ alpha accumulated in another order when the rows are evaluated in other blocks
        Kq = model.kernel(Xq, model.centers).double().abs()
        allow = (64 * 2.0 ** -24 * (model.centers.shape[0] + 8) * (Kq @ model.weights.double().abs())).numpy() + 1e-7
    nq = Xq.shape[0]
    seen = 0
    for container in ('tensor', 'ndarray'):
        for mbs in (None, 7, max(1, nq // 2), nq, nq + 5):
            q = Xq.clone() if container == 'tensor' else Xq.numpy().copy()
            try:
                with contextlib.redirect_stdout(io.StringIO()), contextlib.redirect_stderr(io.StringIO()):
                    out = model.predict(q) if mbs is None else model.predict(q, max_batch_size=mbs)
            except Exception as e:  # noqa: BLE001
                res['failures'].append({'signature': f'C20:raises:{type(e).__name__}', 'detail': f'RFM.predict({container}, max_batch_size={mbs}): {str(e)[:160]}'})
                continue
            want = torch.Tensor if container == 'tensor' else np.ndarray
            tag = f'RFM.predict on a {container} of {nq} rows, max_batch_size={mbs}'
            if not isinstance(out, want):
                res['failures'].append({'signature': 'C20:output-format:rfm-predict', 'detail': f'{tag}: returned {type(out).__name__}, expected {want.__name__}'})
                continue
            a = out.detach().cpu().numpy() if isinstance(out, torch.Tensor) else out
            b = ref.detach().cpu().numpy()
            if a.shape != b.shape or a.dtype != b.dtype:
                res['failures'].append({'signature': 'C20:output-format:rfm-predict', 'detail': f'{tag}: {describe(a)} vs {describe(b)} for a tensor in one block'})
            elif not (np.abs(a - b) <= allow).all():
                res['failures'].append({'signature': 'C20:prediction-differs:rfm-predict', 'detail': f'{tag}: values differ from the one-block tensor call by {float(np.abs(a - b).max()):.3e}'})
            else:
                seen += 1
    res['nontrivial'] = [p['family'], p['kernel'], p['task'], p['dseed'], p['fit_container']] if seen else None
    res['dist'] = {'logical': logical_of(p['task']), 'kernel': p['kernel'], 'rfm_level_calls': seen, 'fit_container': p['fit_container']}
    res['sample'] = {'family': p['family'], 'kernel': p['kernel'], 'query_rows': nq, 'calls_equal': seen}
    return res


def execute(chunk):
    import numpy as np
    drv = core.Driver('C20')
    results = []
    try:
        for p in chunk['cases']:
            if p['family'] == 'rfm-level-formats':
                results.append(run_rfm_level(p))
                continue
            if p['family'] == 'large-array-layouts':
                results.append(run_large_layouts(p))
                continue
            res = {'family': p['family'], 'params': p, 'disagreements': [], 'failures': [], 'dist': {}}
            data = xc.make_data(p['dseed'], p['n'], p['d'], p['task'])
            logical = p['logical']
            outs = 1 if data['y'].dim() == 1 else data['y'].shape[1]
            K = int(max(2, int(data['y'].max()) + 1)) if logical in ('binary', 'multi') else 0
            d, nq = p['d'], data['Xt'].shape[0]
            fc = bool(p.get('float_class'))
            if fc:
                # labels the caller has already encoded as floats: {0,1} (or {-1,+1}) for binary, one-hot rows for multiclass
                import torch
                enc = (lambda lab: torch.nn.functional.one_hot(lab, K).float()) if logical == 'multi' else \
                      ((lambda lab: lab.float() * 2 - 1) if p.get('pm1') else (lambda lab: lab.float()))
                data['y'], data['yv'] = enc(data['y']), enc(data['yv'])
            ref_rep = ('tensor', 'float32', 'mat' if logical == 'multi' else 'col') if fc else reference_y_rep(logical)
            ref = fit_predict(p, data, ('tensor', 'float32'), ref_rep, ('tensor', 'float32'))
            if ref['error']:
                res['failures'].append({'signature': f'C20:raises:{ref["error"].split(":")[0]}',
                                        'detail': f'reference representation, {ref["stage"]}: {ref["error"]}'})
                results.append(res)
                continue
            base = {'outs': outs, 'K': K, 'd': d}
            # ---- documented output formats, checked directly --------------------------------------------------
            def check_format(tag, pred, proba):
                bad = []
                if logical in ('reg1', 'regK'):
                    if not (isinstance(pred, np.ndarray) and pred.shape == (nq, outs) and pred.dtype.kind == 'f'):
                        bad.append(('predict', f'expected float ndarray {(nq, outs)}, got {describe(pred)}'))
                else:
                    if not (isinstance(pred, np.ndarray) and pred.shape == (nq,) and pred.dtype.kind in 'iu'):
                        bad.append(('predict', f'expected integer ndarray {(nq,)}, got {describe(pred)}'))
                    if not (isinstance(proba, np.ndarray) and proba.shape == (nq, K) and proba.dtype.kind == 'f'):
                        bad.append(('predict_proba', f'expected float ndarray {(nq, K)}, got {describe(proba)}'))
                for api, why in bad:
                    res['failures'].append({'signature': f'C20:output-format:{api}', 'detail': f'{tag}: {why}'})

            check_format('reference', ref['pred'], ref['proba'])
            if ref.get('buffer'):
                res['failures'].append({'signature': f'C20:reused-buffer:{logical}', 'detail': f'float32 tensors: {ref["buffer"]}'})
            # model: output format
            for api, arr in (('predict', ref['pred']), ('predict_proba', ref['proba'])):
                m = drv.ask({'op': 'output', 'logical': logical, 'mode': p['mode'], 'api': api, **base})
                c = m.get('canon')
                if arr is None:
                    continue
                if 'error' in m or c is None:
                    res['disagreements'].append({'detail': f'{api}: model has no output format ({m}) but the call returned {describe(arr)}'})
                    continue
                want_shape = [nq] if c['ndim'] == 1 else [nq, c['cols']]
                if str(arr.dtype) != c['dtype'] or list(arr.shape) != want_shape:
                    res['disagreements'].append({'detail': f'{api}: model {c}, implementation {describe(arr)}'})
            seen = set()
            n_equal = 0
            obs = []
            for combo in p['reps']:
                xrep, yrep, qrep = tuple(combo['x']), tuple(combo['y']), tuple(combo['q'])
                vrep = tuple(combo['v']) if combo.get('v') else None
                tag = f'X={xrep} y={yrep} q={qrep}' + (f' Xval={vrep}' if vrep else '')
                got = fit_predict(p, data, xrep, yrep, qrep, vrep)
                outside = combo.get('outside', False)
                # ---- model: what do the leaves receive? --------------------------------------------------------
                mx = drv.ask({'op': 'coerce', 'role': 'X', 'container': xrep[0], 'dtype': xrep[1], 'shape': 'mat', **base})
                my = drv.ask({'op': 'coerce', 'role': 'yfc' if fc else 'y', 'container': yrep[0], 'dtype': yrep[1], 'shape': yrep[2],
                              'logical': logical, 'mode': p['mode'], **base})
                model_ok = not ('error' in mx or 'error' in my)
                if not model_ok:
                    # model unavailable: recorded; the property oracle (same predictions as the reference) still runs
                    res['disagreements'].append({'detail': f'{tag}: model rejects the descriptor: {mx} {my}'})
                    mx, my = {'canon': None, 'documented': True, 'canonical': True}, {'canon': None, 'documented': True, 'canonical': True}
                if model_ok and not outside and not (mx['documented'] and my['documented'] and mx['canonical'] and my['canonical']):
                    res['disagreements'].append({'detail': f'{tag}: harness lists the representation as documented, model says {mx} {my}'})
                if not model_ok:
                    pass
                elif my['canon'] is None:
                    if got['records']:
                        res['disagreements'].append({'detail': f'{tag}: model says no leaf is reached, but {len(got["records"])} leaf fits were recorded'})
                else:
                    for k, r in enumerate(got['records']):
                        fx, fy, fvx, fvy = r
                        for name, f_, c in (('X', fx, mx['canon']), ('X_val', fvx, mx['canon'] if vrep is None else None),
                                            ('y', fy, my['canon']), ('y_val', fvy, my['canon'])):
                            if c is None:
                                continue
                            if f_['dtype'] != c['dtype'] or len(f_['shape']) != c['ndim'] or \
                                    (c['ndim'] == 2 and f_['shape'][1] != c['cols']):
                                res['disagreements'].append({'detail': f'{tag}: leaf fit #{k} receives {name} {f_["dtype"]}{f_["shape"]}, model {c}'})
                if outside:
                    same = (got['error'] is None and np.array_equal(got['pred'], ref['pred']))
                    obs.append({'rep': tag, 'outcome': got['error'] or ('same predictions' if same else 'different predictions'),
                                'leaf_fits': len(got['records']), 'model': {'X': mx['canon'], 'y': my['canon']}})
                    continue
                # ---- property oracle ----------------------------------------------------------------------------
                if got['error']:
                    res['failures'].append({'signature': f'C20:raises:{got["error"].split(":")[0]}',
                                            'detail': f'{tag}, {got["stage"]}: {got["error"]}'})
                    continue
                check_format(tag, got['pred'], got['proba'])
                if got.get('buffer'):
                    res['failures'].append({'signature': f'C20:reused-buffer:{logical}', 'detail': f'{tag}: {got["buffer"]}'})
                for api in ('pred', 'proba'):
                    a, b = got[api], ref[api]
                    if b is None:
                        continue
                    if a is None or a.dtype != b.dtype or a.shape != b.shape or a.tobytes() != b.tobytes():
                        diff = float(np.abs(a.astype(np.float64) - b.astype(np.float64)).max()) if a is not None and a.shape == b.shape else None
                        res['failures'].append({'signature': f'C20:prediction-differs:{logical}:{"predict" if api == "pred" else "predict_proba"}',
                                                'detail': f'{tag} vs float32 tensors: {describe(a)} vs {describe(b)}, max |diff| {diff}'})
                    else:
                        n_equal += 1
                # leaf inputs byte-identical to the reference's
                if [[f['sha'] for f in r] for r in got['records']] != [[f['sha'] for f in r] for r in ref['records']]:
                    res['disagreements'].append({'detail': f'{tag}: leaf inputs differ byte-wise from those of the float32-tensor reference '
                                                           f'({len(got["records"])} vs {len(ref["records"])} leaf fits)'})
                seen.add(tag)
            res['nontrivial'] = [p['family'], logical, p['mode'], p['dseed'], p['n'], sorted(seen)] if seen or obs else None
            res['dist'] = {'logical': logical, 'mode': p['mode'], 'depth': ref.get('depth'), 'reps': len(p['reps']),
                           'leaf_fits': len(ref['records']), 'kernel': p['kernel'], 'tuning': p['tuning']}
            res['sample'] = {'logical': logical, 'mode': p['mode'], 'depth': ref.get('depth'), 'reps': len(p['reps']),
                             'bit_equal_outputs': n_equal, 'reference_leaf_inputs': ref['records'][:1],
                             'pred': describe(ref['pred']), 'proba': describe(ref['proba'])}
            if obs:
                res['observations'] = obs
            results.append(res)
    finally:
        drv.close()
    return results


# ------------------------------------------------------------------------------------------------
def gen_cases(run):
    r = run.rng
    cases = []
    quick = run.tier == 'quick'
    plan = []   # (task, mode, depth)
    if quick:
        plan = [('reg1', 'zero_one', 0), ('reg1', 'zero_one', 2), ('reg2', 'zero_one', 1), ('reg2', 'zero_one', 3),
                ('bin', 'zero_one', 1), ('bin', 'prevalence', 0), ('multi', 'zero_one', 2), ('multi', 'prevalence', 1)]
    else:
        for task in ('reg1', 'reg2', 'bin', 'multi'):
            for mode in (('zero_one', 'prevalence') if task in ('bin', 'multi') else ('zero_one',)):
                for depth in (0, 1, 2, 3):
                    for rep in range(5 if task in ('bin', 'multi') else 8):
                        plan.append((task, mode, depth))
    kernels = ['l2', 'l1', 'l2_high_dim', 'lpq', 'l2e']
    for k, (task, mode, depth) in enumerate(plan):
        logical = logical_of(task)
        L = 16
        n = {0: 14, 1: 28, 2: 56, 3: 112}[depth]
        yreps = documented_y_reps(logical)
        r.shuffle(yreps)
        combos = []
        for i, yr in enumerate(yreps):
            combos.append({'x': list(X_REPS[i % 3]), 'y': list(yr), 'q': list(X_REPS[(i + 1 + i // 3) % 3])})
        # validation features in another container than the training features
        combos.append({'x': list(X_REPS[1]), 'v': list(X_REPS[0]), 'y': list(yreps[0]), 'q': list(X_REPS[2])})
        combos.append({'x': list(X_REPS[0]), 'v': list(X_REPS[2]), 'y': list(yreps[-1]), 'q': list(X_REPS[1])})
        base = dict(family='documented-representations', task=task, logical=logical, mode=mode, n=n, d=r.choice([3, 4, 6]),
                    max_leaf_size=L, kernel=kernels[k % len(kernels)], diag=(k % 4 == 3), iters=r.choice([0, 1, 1, 2]),
                    split_method=r.choice(['top_vector_agop_on_subset', 'top_vector_agop_on_subset', 'pca', 'random_pca']),
                    tuning=(k % 3 == 0) or (task == 'reg1' and depth > 0), split_temperature=[None, 0.3][k % 2], n_trees=1 if k % 5 else 2,
                    seed=r.randint(0, 10 ** 6), dseed=r.randint(0, 10 ** 6))
        for part in core.chunks(combos, max(1, (len(combos) + 7) // 8)):
            cases.append(dict(base, reps=part))
    # labels already encoded by the caller as floats, given together with a classification metric
    fc_plan = [('bin', 0, False), ('bin', 1, True), ('bin', 2, False), ('multi', 1, False)] if quick else \
              [(t, dep, pm) for t in ('bin', 'bin', 'multi') for dep in (0, 1, 2, 3) for pm in (False, True)]
    for k, (task, depth, pm1) in enumerate(fc_plan):
        logical = logical_of(task)
        shapes = ('mat',) if task == 'multi' else ('vec', 'col')
        yreps = [(c, dt, sh) for c in ('tensor', 'ndarray') for dt in FLOAT_Y for sh in shapes]
        r.shuffle(yreps)
        combos = [{'x': list(X_REPS[i % 3]), 'y': list(yr), 'q': list(X_REPS[(i + 1) % 3])} for i, yr in enumerate(yreps)]
        base = dict(family='pre-encoded-float-labels', task=task, logical=logical, mode='zero_one', n={0: 14, 1: 28, 2: 56, 3: 112}[depth],
                    d=r.choice([3, 4]), max_leaf_size=16, kernel=kernels[k % len(kernels)], diag=False, iters=r.choice([0, 1]),
                    split_method=r.choice(['top_vector_agop_on_subset', 'pca']), tuning=(k % 2 == 0), split_temperature=None,
                    n_trees=1, seed=r.randint(0, 10 ** 6), dseed=r.randint(0, 10 ** 6), float_class=True,
                    pm1=pm1 and task == 'bin', metric=['brier', 'accuracy', 'logloss'][k % 3])
        for part in core.chunks(combos, 4):
            cases.append(dict(base, reps=part))
    # the leaf model used directly: output container follows the input container for every internal block size
    for k in range(6 if quick else 48):
        cases.append(dict(family='rfm-level-formats', task=['reg1', 'reg2'][k % 2], kernel=kernels[k % len(kernels)], diag=(k % 3 == 2),
                          iters=k % 2, n=r.randint(20, 40), d=r.randint(2, 5), fit_container=['tensor', 'ndarray'][(k // 2) % 2],
                          seed=r.randint(0, 10 ** 6), dseed=r.randint(0, 10 ** 6)))
    # feature arrays beyond 2^22 elements in every NumPy memory layout (prediction only: the model is fitted on a small tensor)
    for k in range(2 if quick else 6):
        cases.append(dict(family='large-array-layouts', task=['reg1', 'multi', 'bin'][k % 3], n=120, d=32, nq=(2 ** 22) // 32 + 4000 + 1000 * k,
                          max_leaf_size=[200, 60][k % 2], seed=r.randint(0, 10 ** 6), dseed=r.randint(0, 10 ** 6)))
    # outside the documented interface: observations + model comparison only
    outside = [
        ('reg1', {'x': ['tensor', 'float64'], 'y': ['tensor', 'float32', 'col'], 'q': ['tensor', 'float64']}),
        ('reg1', {'x': ['tensor', 'float32'], 'y': ['tensor', 'float16', 'col'], 'q': ['tensor', 'float32']}),
        ('bin', {'x': ['tensor', 'float32'], 'y': ['tensor', 'bool', 'vec'], 'q': ['tensor', 'float32']}),
        ('reg1', {'x': ['ndarray', 'float16'], 'y': ['tensor', 'float32', 'vec'], 'q': ['ndarray', 'float16']}),
    ]
    for k, (task, combo) in enumerate(outside):
        combo['outside'] = True
        cases.append(dict(family='outside-interface', task=task, logical=logical_of(task), mode='zero_one', n=28, d=4,
                          max_leaf_size=16, kernel='l2', diag=False, iters=1, split_method='top_vector_agop_on_subset',
                          tuning=False, split_temperature=None, seed=r.randint(0, 10 ** 6), dseed=r.randint(0, 10 ** 6),
                          reps=[combo]))
    return cases


def check(run):
    run.rule = ('for each kind of data (1-/2-output regression, binary, 3-class; zero_one and prevalence encodings; tree depth 0..3) '
                'the SAME float32-representable data are passed in every documented target representation (tensor/ndarray x '
                'float32/float64 or int8/16/32/64/uint8 x (n,)/(n,1)/(n,k)) with feature containers cycling over float32 tensor, '
                'float32 ndarray, float64 ndarray (also mixed between train and validation, and for the query); every leaf input is '
                'recorded and compared with the Lean coercion table and byte-wise with the float32-tensor reference; outputs '
                'compared bit-exactly; a case is non-trivial when at least one non-reference representation was fitted')
    run.assumptions = ['float64 inputs hold float32-representable values (generated as float32 and upcast): otherwise the data differ',
                       'documented interface = float32 tensors, float32/float64 arrays (features); tensors or arrays, float 32/64, '
                       'int8/16/32/64/uint8 labels, shapes (n,), (n,1), (n,k) (targets)',
                       'OUTSIDE (observations only): float64/float16 feature tensors (not converted by xRFM.fit), float16 targets, '
                       'bool labels',
                       'each fit is seeded (random/numpy/torch) immediately before construction; CPU; torch pinned to 1 thread']
    import time
    t0 = time.time()
    run.lean()
    run.extra['lean_s'] = round(time.time() - t0, 1)   # includes waiting for the shared build lock
    cases = gen_cases(run)
    run.extra['exhaustive'] = True
    run.extra['exhaustive_part'] = 'all documented target representations x all documented feature containers per kind of data'
    if run.driver_ok:
        results = core.pmap(MOD, [{'cases': [c]} for c in cases])
        run.absorb('c20', results)
        run.extra['outside_interface_observations'] = [o for r_ in results for o in (r_.get('observations') or [])]
        run.extra['fits'] = sum(len(c.get('reps', [])) + 1 for c in cases)


def replay(run, payload):
    run.lean()
    results = core.pmap(MOD, [{'cases': [payload['params']]}], workers=1)
    run.absorb('replay', results)
