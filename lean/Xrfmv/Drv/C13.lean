/- Driver ops for C13 (none yet). -/
import Xrfmv.Drv.Common

namespace Xrfmv.Drv.C13

def ops : List (String × Handler) := []

end Xrfmv.Drv.C13
