/-
Model of the adaptive bandwidth of `xrfm/rfm_src/kernels.py` (`Kernel._adapt_bandwidth`, median
mode, training set below the 5,000-row subsample limit) and of how `RFM.fit_predictor` uses it:
the bandwidth is re-adapted inside every solve, with the feature matrix current at that time.

Mathlib-free, scalar-generic (runs at `Float` in `Drv/C19.lean`, proved at `ℝ` in `Lemmas/Median.lean`).
-/
import Xrfmv.Model.Kernel
import Xrfmv.Gen.Bandwidth

namespace Xrfmv.Median
open Xrfmv Xrfmv.Kernel

section median
variable {α : Type} [LE α] [DecidableLE α]

/-- ascending sort (`torch.sort`; stable merge sort) -/
def sort (l : List α) : List α := l.mergeSort fun a b => decide (a ≤ b)

/-- **Lower median** `sorted[(n−1)/2]` — what `torch.median` returns; `none` for the empty list. -/
def lowerMedian (l : List α) : Option α := (sort l)[(l.length - 1) / 2]?

/-- Upper median `sorted[n/2]` (differs from the lower one only for even `n`). -/
def upperMedian (l : List α) : Option α := (sort l)[l.length / 2]?

end median

/-- Off-diagonal pairs: `d x_i x_j` for all `i ≠ j` (`sample_matrix[~eye]`, row-major). -/
def pairDists {α β : Type} (d : β → β → α) (pts : List β) : List α :=
  pts.zipIdx.flatMap fun xi => pts.zipIdx.filterMap fun zj =>
    if xi.2 = zj.2 then none else some (d xi.1 zj.1)

section adapt
variable {α : Type} [LE α] [DecidableLE α] [LT α] [DecidableLT α] [Mul α] [OfNat α 1]

/-- `bandwidth = base_bandwidth * (1 if median < eps else median)` — both expressions are the regenerated
`Gen.Bandwidth.adapted` / `guardMult`; `eps = 1e-14` in the code (`Gen.Bandwidth.guardEpsExp10`).
`none` when there is no off-diagonal entry (fewer than two centers: `torch.median` of an empty
tensor raises). -/
def adapt (eps base : α) (dists : List α) : Option α :=
  (lowerMedian dists).map fun m => Xrfmv.Gen.Bandwidth.adapted base (Xrfmv.Gen.Bandwidth.guardMult eps m)

end adapt

/-! ### the fit loop in adaptive mode (oracles for the linear solve and the AGOP step) -/

section fit
variable {α : Type} [Add α] [Sub α] [Mul α] [Div α] [Neg α] [OfNat α 0] [OfNat α 1] [OfNat α 2]
  [Max α] [HasExp α] [HasRpow α] [HasAbs α] [HasSqrt α] [LE α] [DecidableLE α] [LT α] [DecidableLT α]

/-- External / other-property steps of one RFM iteration:
`solve G Y` = `α` with `(G + reg·I) α = Y` (`torch.linalg.solve`; a function of the Gram matrix and the targets),
`upd K T X α` = the next feature transform from the AGOP of the predictor `Σ α_i k(x_i, ·)`
(`fit_M`: gradients, outer products, normalisation by the maximum, matrix root — C04/C14). -/
structure Oracles (α : Type) where
  solve : List (List α) → List (List α) → List (List α)
  upd : Spec α → Transform α → List (List α) → List (List α) → Transform α

/-- What one solve leaves on the object: kernel with the adapted bandwidth, the feature transform it
was adapted and solved with, the coefficients; `med` = the median distance the adaptation saw. -/
structure Iterate (α : Type) where
  K : Spec α
  T : Transform α
  alpha : List (List α)
  med : α

/-- `fit_predictor` in adaptive mode: reset, then the Gram-matrix call adapts the bandwidth to
`base × median` of the pairwise distances of the transformed centers and uses it for every entry. -/
def solveStep (O : Oracles α) (eps : α) (K0 : Spec α) (X Y : List (List α)) (T : Transform α) :
    Option (Iterate α) :=
  (lowerMedian (pairDists (dist K0 T) X)).map fun m =>
    let K := K0.withL (Xrfmv.Gen.Bandwidth.adapted K0.L (Xrfmv.Gen.Bandwidth.guardMult eps m))
    { K := K, T := T, alpha := O.solve (matrix K T X X) Y, med := m }

/-- Iterate `i` of `RFM.fit` (`K0.L` = base bandwidth): iterate 0 uses no transform (`M = None`), iterate
`i+1` the transform produced by the AGOP step from iterate `i`. -/
def iterate (O : Oracles α) (eps : α) (K0 : Spec α) (X Y : List (List α)) : Nat → Option (Iterate α)
  | 0 => solveStep O eps K0 X Y .none
  | i + 1 => (iterate O eps K0 X Y i).bind fun it => solveStep O eps K0 X Y (O.upd it.K it.T X it.alpha)

/-- matrix product `A @ B` (rows of `A` times columns of `B`) -/
def matMul (A B : List (List α)) : List (List α) :=
  let c := (B.head?.map List.length).getD 0
  A.map fun a => (List.range c).map fun j => dot a (B.map fun b => b.getD j 0)

/-- `RFM.predict`: `K(x_test, centers) @ α` with the stored kernel, transform and coefficients. -/
def predict (it : Iterate α) (X Xtest : List (List α)) : List (List α) :=
  matMul (matrix it.K it.T Xtest X) it.alpha

end fit

end Xrfmv.Median
