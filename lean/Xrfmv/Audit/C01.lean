import Xrfmv.Props.C01
#print axioms Xrfmv.Props.C01.groups_stack_eq_rec
#print axioms Xrfmv.Props.C01.predict_is_leaf_formula
#print axioms Xrfmv.Props.C01.append_hom
#print axioms Xrfmv.Props.C01.perm_equivariant
#print axioms Xrfmv.Props.C01.batch_independent
#print axioms Xrfmv.Props.C01.internal_batch_size_irrelevant
#print axioms Xrfmv.Props.C01.ensemble_rowwise
#print axioms Xrfmv.Props.C01.chunk_loops_are_tilings
#print axioms Xrfmv.Props.C01.tiling_is_rowwise
#print axioms Xrfmv.Props.C01.narrow_or_wide_blocks_are_not_rowwise
