"""
C18 — fit / predict / predict_proba / get_grads / get_state_dict do not disturb caller data or process-wide settings.

Proof: lean/Xrfmv/Props/C18.lean (`bracket_restores` for every well-bracketed trace; `inplace_sites_fresh_or_known`
by `decide` over the regenerated Gen.InPlace inventory).
Correspondence: REAL event traces (torch.get/set_num_threads, os.environ get/set/del of PYTORCH_CUDA_ALLOC_CONF,
recorded from outside while inside the call) must be accepted by the Lean grammar (driver op `accept`, proved sound)
and end in the initial state.
Property oracle (directly on the implementation, independent of the model): thread count and the variable before ==
after every returning call; every caller tensor / array byte-identical and, for tensors, `_version` unchanged.
"""
import contextlib
import io
import os

from harness import core
from harness.props import _xcommon as xc

MOD = 'harness.props.c18'
VAR = xc.ENV_VAR


# ------------------------------------------------------------------------------------------------
# outside recorder
# ------------------------------------------------------------------------------------------------
class Recorder:
    """Records thread-count and PYTORCH_CUDA_ALLOC_CONF events while active. Nothing in /repo is touched: the two torch
    functions are wrapped on the `torch` module and `os.environ` is replaced by a logging view onto the same data."""

    def __init__(self):
        self.events = []

    def __enter__(self):
        import torch
        self._torch = torch
        self._get, self._set = torch.get_num_threads, torch.set_num_threads
        ev = self.events

        def get_num_threads():
            r = self._get()
            ev.append({'e': 'getThreads', 'r': r})
            return r

        def set_num_threads(n):
            ev.append({'e': 'setThreads', 'n': int(n)})
            return self._set(n)

        torch.get_num_threads, torch.set_num_threads = get_num_threads, set_num_threads
        orig = os.environ
        self._environ = orig

        class RecEnviron(type(orig)):
            def __getitem__(s, k):
                if k == VAR:
                    ev.append({'e': 'envGet'})
                return super().__getitem__(k)

            def __setitem__(s, k, v):
                if k == VAR:
                    ev.append({'e': 'envSet', 'v': v})
                return super().__setitem__(k, v)

            def __delitem__(s, k):
                if k == VAR:
                    ev.append({'e': 'envDel'})
                return super().__delitem__(k)

        os.environ = RecEnviron(orig._data, orig.encodekey, orig.decodekey, orig.encodevalue, orig.decodevalue)
        return self

    def __exit__(self, *a):
        self._torch.get_num_threads, self._torch.set_num_threads = self._get, self._set
        os.environ = self._environ
        return False


def proc_state():
    import torch
    return {'threads': int(torch.get_num_threads()), 'env': os.environ.get(VAR)}


# ------------------------------------------------------------------------------------------------
# caller data
# ------------------------------------------------------------------------------------------------
def as_container(t, container):
    """t: float32 / int64 torch tensor -> the representation handed to the library."""
    import numpy as np
    import torch
    if container == 'tensor':
        return t.clone()
    if container == 'tensor_i32':
        return t.clone().to(torch.int32)
    if container == 'ndarray32':
        return t.numpy().astype(np.float32 if t.is_floating_point() else np.int32).copy()
    if container == 'ndarray64':
        return t.numpy().astype(np.float64 if t.is_floating_point() else np.int64).copy()
    raise ValueError(container)


class Snapshot:
    def __init__(self, named):
        import torch
        self.named = named
        self.copies, self.versions = {}, {}
        for k, a in named.items():
            if isinstance(a, torch.Tensor):
                self.copies[k] = a.clone()
                self.versions[k] = a._version
            else:
                self.copies[k] = a.copy()

    def diff(self):
        """list of (name, what) for caller objects that changed"""
        import numpy as np
        import torch
        out = []
        for k, a in self.named.items():
            c = self.copies[k]
            if isinstance(a, torch.Tensor):
                if a._version != self.versions[k]:
                    out.append((k, f'_version {self.versions[k]} -> {a._version}'))
                if a.dtype != c.dtype or a.shape != c.shape or xc.fp(a)['sha'] != xc.fp(c)['sha']:   # bytes (NaN cells compare equal to themselves)
                    out.append((k, 'tensor bytes changed'))
            else:
                if a.dtype != c.dtype or a.shape != c.shape or a.tobytes() != c.tobytes():
                    out.append((k, 'ndarray bytes changed'))
        return out


# ------------------------------------------------------------------------------------------------
def build_model(p):
    from xrfm import xRFM
    kw = dict(rfm_params=xc.rfm_params(p['kernel'], diag=p['diag'], iters=p['iters'],
                                       bandwidth_mode=p.get('bandwidth_mode', 'constant'),
                                       extra_fit=({'solver': p['solver']} if p.get('solver') else None)),
              max_leaf_size=p['max_leaf_size'], device='cpu', verbose=False, random_state=p['seed'],
              n_threads=p['n_threads'], split_method=p['split_method'], n_trees=p.get('n_trees', 1),
              classification_mode=p.get('classification_mode', 'zero_one'), refill_size=p.get('refill_size', 1500))
    if p.get('tuning_metric'):
        kw['tuning_metric'] = p['tuning_metric']
    if p.get('onehot') or p.get('pm1'):
        # float targets that are already one-hot / binarised are accepted together with a classification metric
        kw.update(tuning_metric=p.get('onehot_metric', 'brier'), classification_mode='zero_one')
    if p['routing'] == 'soft':
        kw.update(split_temperature=0.3, use_temperature_tuning=False)
    elif p['routing'] == 'hard':
        kw.update(split_temperature=None, use_temperature_tuning=False)
    else:  # 'tuned': default temperature tuning inside fit
        kw.update(use_temperature_tuning=True, temp_tuning_space=[0.0, 0.1, 0.5])
    if p['split_method'] == 'fixed_vector':
        import torch
        g = torch.Generator().manual_seed(p['seed'] + 17)
        kw['fixed_vector'] = torch.randn(p['d'], generator=g)
    return xRFM(**kw), kw.get('fixed_vector')


def run_case(p):
    """One call sequence on one model. Returns (ops, info): ops = list of per-call records."""
    import torch
    data = xc.make_data(p['dseed'], p['n'], p['d'], p['task'])
    cx, cy = p['container_x'], p['container_y']
    if p.get('pm1'):
        # binary labels already binarised by the caller as float32 {-1, +1} (accepted: "assuming that y is already binarized")
        data['y'], data['yv'] = data['y'].float() * 2 - 1, data['yv'].float() * 2 - 1
        if p.get('y_col'):
            data['y'], data['yv'] = data['y'].reshape(-1, 1), data['yv'].reshape(-1, 1)
        cy = cy if cy in ('tensor', 'ndarray32') else 'tensor'
    if p.get('onehot'):
        K = 3 if p['task'] == 'multi' else 2
        oh = lambda lab: (torch.nn.functional.one_hot(lab, K).float() if K > 2 else lab.float().reshape(-1, 1))  # noqa: E731
        data['y'], data['yv'] = oh(data['y']), oh(data['yv'])
        cy = cy if cy in ('tensor', 'ndarray32') else 'tensor'
    caller = {
        'X': as_container(data['X'], cx), 'y': as_container(data['y'], cy),
        'X_val': as_container(data['Xv'], cx), 'y_val': as_container(data['yv'], cy),
        'X_query': as_container(data['Xt'], cx),
    }
    if p['task'] in ('reg1',) and p.get('y_1d'):
        caller['y'] = caller['y'].reshape(-1)
        caller['y_val'] = caller['y_val'].reshape(-1)
    # initial process state
    torch.set_num_threads(p['threads0'])
    if p['env0'] is None:
        os.environ.pop(VAR, None)
    else:
        os.environ[VAR] = p['env0']
    model, fixed_vector = build_model(p)
    if fixed_vector is not None:
        caller['fixed_vector'] = fixed_vector
    is_class = p['task'] in ('bin', 'multi')
    ops = []

    plan = p.get('plan', 'normal')

    def call(name, fn):
        if plan != 'normal':
            torch.set_num_threads(p['threads0'])  # a raising call may have left the thread count changed
        snap = Snapshot(caller)
        s0 = proc_state()
        rec = Recorder()
        err = None
        with rec, contextlib.redirect_stdout(io.StringIO()):
            try:
                fn()
            except Exception as e:  # noqa: BLE001 - classified below
                err = f'{type(e).__name__}: {str(e)[:160]}'
        s1 = proc_state()
        ops.append({'op': name, 's0': s0, 's1': s1, 'events': rec.events, 'changed': snap.diff(), 'raised': err})

    if plan == 'predict-before-fit':
        call('predict', lambda: model.predict(caller['X_query']))
        call('predict_proba', lambda: model.predict_proba(caller['X_query']))
        call('get_grads', lambda: model.get_grads(caller['X_query']))
        return ops, {}
    if plan == 'fit-raises':  # validation features with one column less: raises inside the leaf's validation predict
        bad = caller['X_val'][:, :-1]
        caller['X_val'] = bad.clone() if isinstance(bad, torch.Tensor) else bad.copy()
    call('fit', lambda: model.fit(caller['X'], caller['y'], caller['X_val'], caller['y_val']))
    if plan == 'fit-raises':
        torch.set_num_threads(p['threads0'])
        return ops, {}
    info = {}
    if ops[-1]['raised'] is None:
        info = {'depth': max(xc.tree_depth(t) for t in model.trees), 'leaves': sum(xc.n_leaves(t) for t in model.trees),
                'temperature': model.split_temperature}
    if plan == 'wrong-shape':
        bad = caller['X_query'][:, :-1] if hasattr(caller['X_query'], 'shape') else None
        bad = bad.clone() if isinstance(bad, torch.Tensor) else bad.copy()
        caller['X_bad'] = bad
        call('predict', lambda: model.predict(bad))
        if is_class:
            call('predict_proba', lambda: model.predict_proba(bad))
        torch.set_num_threads(p['threads0'])
        return ops, info
    call('predict', lambda: model.predict(caller['X_query']))
    if is_class:
        call('predict_proba', lambda: model.predict_proba(caller['X_query']))
    if not model.split_temperature:
        call('get_grads', lambda: model.get_grads(caller['X_query']))
    call('get_state_dict', lambda: model.get_state_dict())
    # a second predict on the training features themselves (the tensor the leaf centers were taken from)
    call('predict_train', lambda: model.predict(caller['X']))
    # online scoring: requests of one and of three rows (a size-dependent code path must restore the process state like any other)
    for nrows in (1, 3):
        small = caller['X_query'][:nrows]
        small = small.clone() if isinstance(small, torch.Tensor) else small.copy()
        caller[f'X_query_{nrows}'] = small
        call(f'predict_{nrows}_rows', lambda small=small: model.predict(small))
        if is_class:
            call(f'predict_proba_{nrows}_rows', lambda small=small: model.predict_proba(small))
    if not model.split_temperature:
        call('get_grads_1_row', lambda: model.get_grads(caller['X_query_1']))
    # a query matrix with missing cells (NaN, +inf, -inf): whatever the library answers for such rows (an exception included), the
    # caller's matrix keeps its bytes
    qm = caller['X_query'].clone() if isinstance(caller['X_query'], torch.Tensor) else caller['X_query'].copy()
    if qm.shape[0] >= 3:
        qm[0, 0], qm[1, -1], qm[2, 0] = float('nan'), float('inf'), float('-inf')
        caller['X_missing'] = qm
        call('predict_missing', lambda: model.predict(qm))
        if is_class:
            call('predict_proba_missing', lambda: model.predict_proba(qm))
        if not model.split_temperature:
            call('get_grads_missing', lambda: model.get_grads(qm))
    return ops, info


def strip(events):
    return [{k: v for k, v in e.items() if k != 'r'} for e in events]


def execute(chunk):
    drv = core.Driver('C18')
    out = []
    try:
        for p in chunk['cases']:
            res = {'family': p['family'], 'params': p, 'disagreements': [], 'failures': [], 'dist': {}}
            ops, info = run_case(p)
            expect_raise = p.get('plan', 'normal') != 'normal'
            obs = {}
            n_events = 0
            for o in ops:
                ev = strip(o['events'])
                n_events += len(ev)
                tag = o['op']
                # what getThreads returned must be the state the model thinks we are in: checked through the closer
                if o['raised'] is not None and not (expect_raise or tag.endswith('_missing')):
                    res['failures'].append({'signature': f'C18:raises:{o["raised"].split(":")[0]}',
                                            'detail': f'{tag}: {o["raised"]}'})
                    continue
                if o['raised'] is not None:
                    # outside the property ("when they return"): observation + model comparison only
                    m = drv.ask({'op': 'exec', 'threads': o['s0']['threads'], 'env': o['s0']['env'], 'events': ev})
                    obs[tag] = {'raised': o['raised'][:80], 'events': len(ev),
                                'threads_restored': o['s1']['threads'] == o['s0']['threads'],
                                'env_restored': o['s1']['env'] == o['s0']['env']}
                    if 'error' in m or m['final'] != o['s1']:
                        res['disagreements'].append({'detail': f'{tag} (raising): model final state {m}, observed {o["s1"]}'})
                    if o['s1']['env'] != o['s0']['env']:
                        res['disagreements'].append({'detail': f'{tag} (raising): variable not restored by finally: '
                                                               f'{o["s0"]["env"]!r} -> {o["s1"]["env"]!r}'})
                    if o['changed']:
                        res['failures'].append({'signature': f'C18:caller-data-changed:{tag}',
                                                'detail': f'{tag} (raising): {o["changed"]}'})
                    continue
                # ---- property oracle, directly on the implementation ------------------------------------
                if o['s1']['threads'] != o['s0']['threads']:
                    res['failures'].append({'signature': f'C18:threads-not-restored:{tag}',
                                            'detail': f'{tag}: torch.get_num_threads() {o["s0"]["threads"]} -> {o["s1"]["threads"]}'})
                if o['s1']['env'] != o['s0']['env']:
                    res['failures'].append({'signature': f'C18:env-not-restored:{tag}',
                                            'detail': f'{tag}: {VAR} {o["s0"]["env"]!r} -> {o["s1"]["env"]!r}'})
                for name, what in o['changed']:
                    if name == 'fixed_vector':
                        obs.setdefault('fixed_vector_changed', []).append(tag)
                        continue
                    res['failures'].append({'signature': f'C18:caller-data-changed:{tag}',
                                            'detail': f'{tag}: caller {name} ({p["container_x"]}/{p["container_y"]}): {what}'})
                # ---- model: the trace must be in the grammar and end in the initial state --------------
                m = drv.ask({'op': 'accept', 'threads': o['s0']['threads'], 'env': o['s0']['env'], 'events': ev})
                if 'error' in m:
                    res['disagreements'].append({'detail': f'{tag}: model rejects the trace: {m["error"]}'})
                elif not m['ok']:
                    res['disagreements'].append({'detail': f'{tag}: trace of {len(ev)} events not well-bracketed at position '
                                                           f'{m["pos"]}: {ev[max(0, m["pos"] - 2):m["pos"] + 2]}'})
                elif m['final'] != o['s1'] or m['final'] != o['s0']:
                    res['disagreements'].append({'detail': f'{tag}: model final {m["final"]}, observed {o["s1"]}, initial {o["s0"]}'})
                bad_get = [e for e in o['events'] if e['e'] == 'getThreads' and e['r'] <= 0]
                if bad_get:
                    res['disagreements'].append({'detail': f'{tag}: get_num_threads returned {bad_get[0]["r"]}'})
            res['nontrivial'] = [p['family'], p['kernel'], p['diag'], p['task'], p['routing'], p['n_threads'], p['env0'],
                                 p['container_x'], p['container_y'], p['dseed'], p.get('plan')] if n_events > 0 else None
            res['dist'] = {'ops': len(ops), 'events': min(n_events // 50 * 50, 1000), 'depth': info.get('depth'),
                           'n_threads': p['n_threads'], 'env0': 'set' if p['env0'] else 'absent',
                           'container': f'{p["container_x"]}/{p["container_y"]}', 'kernel': p['kernel'], 'task': p['task'],
                           'routing': p['routing'], 'plan': p.get('plan', 'normal')}
            res['sample'] = {'params': {k: p[k] for k in ('kernel', 'task', 'routing', 'n_threads', 'env0', 'container_x')},
                             'info': info, 'ops': [{'op': o['op'], 'events': len(o['events']), 's0': o['s0'], 's1': o['s1'],
                                                    'first_events': strip(o['events'])[:6]} for o in ops][:3]}
            if obs:
                res['observations'] = obs
                res['sample']['observations'] = obs
            out.append(res)
    finally:
        drv.close()
    return out


# ------------------------------------------------------------------------------------------------
def gen_cases(run):
    r = run.rng
    cases = []
    kernels = ['l2', 'l2e', 'l2_high_dim', 'l2_high_dim_e', 'l1', 'l1e', 'lpq', 'sum_power_laplace']
    tasks = ['reg1', 'reg2', 'bin', 'multi']
    routings = ['hard', 'soft', 'tuned']
    threads = [None, 1, 3]
    envs = [None, 'max_split_size_mb:64', 'expandable_segments:True', '',     # '' = set but empty
            'expandable_segments:False,max_split_size_mb:128', 'max_split_size_mb:128,']   # the library's own option with another value; a trailing comma
    splits = ['top_vector_agop_on_subset', 'random_agop_on_subset', 'top_pc_agop_on_subset', 'random_pca', 'pca', 'linear',
              'rf_criterion', 'fixed_vector', 'random']
    n_main = 48 if run.tier == 'quick' else 800
    for k in range(n_main):
        task = tasks[k % 4]
        kernel = kernels[k % len(kernels)] if k < 2 * len(kernels) else r.choice(kernels)
        is_class = task in ('bin', 'multi')
        cx = ['tensor', 'tensor', 'ndarray32', 'ndarray64'][(k // 2) % 4]
        cy = r.choice(['tensor', 'tensor', 'ndarray64', 'ndarray32'] + (['tensor_i32'] if is_class else []))
        depth = [0, 1, 2, 1][k % 4] if k >= 4 else [1, 0, 2, 1][k]
        L = 24
        n = {0: 24, 1: 44, 2: 90}[depth]
        split = splits[k % len(splits)]
        if split == 'linear' and is_class and task == 'multi':
            split = 'pca'
        cases.append(dict(
            family='call-sequences', kernel=kernel, diag=(k % 3 == 1) and kernel != 'sum_power_laplace', task=task,
            routing=routings[k % 3], n_threads=threads[(k // 3) % 3], env0=envs[(k // 2) % len(envs)],
            threads0=[2, 4][k % 2], container_x=cx, container_y=cy, n=n, d=r.choice([3, 5]), max_leaf_size=L,
            iters=r.choice([0, 1, 1, 2]), split_method=split, seed=r.randint(0, 10 ** 6), dseed=r.randint(0, 10 ** 6),
            classification_mode=r.choice(['zero_one', 'prevalence']), n_trees=r.choice([1, 1, 2]),
            bandwidth_mode='adaptive' if (k % 5 == 2 and kernel != 'sum_power_laplace') else 'constant',
            y_1d=(k % 2 == 0), refill_size=r.choice([1500, 12])))
    # one leaf holding the caller's own float32 tensors (no indexing copy in between), every kernel, with no feature matrix yet
    # (iters=0: M stays None, the transform is the identity) and with one / two updates
    for k, (kernel, iters) in enumerate([(a, b) for a in kernels for b in (0, 1, 2)]):
        if run.tier == 'quick' and k % 2 == 1 and kernel not in ('lpq', 'l1'):
            continue
        task = tasks[k % 4]
        cases.append(dict(
            family='call-sequences', kernel=kernel, diag=False, task=task, routing='hard', n_threads=None, env0=None,
            threads0=2, container_x='tensor', container_y='tensor', n=r.choice([12, 24]), d=r.choice([3, 5]), max_leaf_size=40,
            iters=iters, split_method='pca', seed=r.randint(0, 10 ** 6), dseed=r.randint(0, 10 ** 6),
            classification_mode='zero_one', n_trees=1, bandwidth_mode='constant', y_1d=False, refill_size=1500))
    # every tuning metric scores the caller's own validation targets (single leaf: nothing is indexed in between; and with splits)
    mets = [('reg1', 'mae'), ('bin', 'accuracy'), ('reg2', 'rmse'), ('multi', 'logloss'), ('reg1', 'mse'), ('bin', 'auc'), ('reg2', 'mae'),
            ('multi', 'f1'), ('bin', 'brier'), ('bin', 'f1'), ('multi', 'accuracy'), ('bin', 'logloss')]
    for k, (task, met) in enumerate(mets if run.tier == 'quick' else mets * 4):
        single = (k // len(mets)) % 2 == 0
        cases.append(dict(
            family='call-sequences', kernel=['l2', 'l1', 'lpq'][k % 3], diag=False, task=task, routing=['hard', 'tuned'][(k // len(mets)) % 2],
            n_threads=None, env0=None, threads0=2, container_x=['tensor', 'ndarray32'][(k // 2) % 2], container_y=['tensor', 'ndarray32'][k % 2] if task.startswith('reg') else 'tensor',
            n=24 if single else 60, d=3, max_leaf_size=40 if single or met == 'auc' else 24, iters=1, split_method='pca', seed=r.randint(0, 10 ** 6),
            dseed=r.randint(0, 10 ** 6), classification_mode='zero_one', n_trees=1, bandwidth_mode='constant', y_1d=False, refill_size=1500,
            tuning_metric=met))
    # classification with float targets that are already one-hot (multi) / binarised (bin), tensors and float32 arrays
    for k in range(4 if run.tier == 'quick' else 32):
        cases.append(dict(
            family='call-sequences', kernel=['l2', 'l1'][k % 2], diag=False, task=['multi', 'bin'][k % 2 if k >= 2 else 0],
            routing=['hard', 'tuned'][k % 2], n_threads=[None, 2][k % 2], env0=None, threads0=[2, 4][k % 2],
            container_x='tensor', container_y=['tensor', 'ndarray32'][(k // 2) % 2] if k < 2 else ['ndarray32', 'tensor'][k % 2],
            n=[24, 44, 90, 44][k % 4], d=3, max_leaf_size=24, iters=1, split_method=['pca', 'random'][k % 2],
            seed=r.randint(0, 10 ** 6), dseed=r.randint(0, 10 ** 6), classification_mode='zero_one', n_trees=1,
            bandwidth_mode='constant', y_1d=False, refill_size=1500, onehot=True, onehot_metric=['brier', 'accuracy'][k % 2]))
    # leaf solvers other than the default, incl. the logistic one on binary labels given as int64 / float {0,1} / float {-1,+1}
    for k in range(8 if run.tier == 'quick' else 64):
        solver = ['log_reg', 'cholesky', 'log_reg', 'lu'][k % 4]
        logistic = solver == 'log_reg'
        cases.append(dict(
            family='call-sequences', kernel=['l2', 'l1', 'l2_high_dim'][k % 3], diag=False, task='bin' if logistic else ['reg1', 'multi'][(k // 4) % 2],
            routing=['hard', 'tuned'][(k // 2) % 2], n_threads=[None, 2][k % 2], env0=envs[k % len(envs)], threads0=[2, 4][k % 2],
            container_x=['tensor', 'ndarray32'][(k // 2) % 2], container_y=['tensor', 'ndarray32', 'tensor', 'ndarray64'][k % 4],
            n=[24, 44, 24, 90][(k // 2) % 4], d=3, max_leaf_size=24, iters=[1, 2][k % 2], split_method=['pca', 'random'][k % 2],
            seed=r.randint(0, 10 ** 6), dseed=r.randint(0, 10 ** 6), classification_mode='zero_one', n_trees=1,
            bandwidth_mode='constant', y_1d=(k % 2 == 0), refill_size=1500, solver=solver,
            pm1=logistic and (k // 2) % 3 != 2, onehot=logistic and (k // 2) % 3 == 2, y_col=(k // 4) % 2 == 1,
            onehot_metric=['accuracy', 'brier'][(k // 2) % 2]))
    # calls whose body raises (outside the property: observation + model comparison)
    n_raise = 8 if run.tier == 'quick' else 64
    for k in range(n_raise):
        plan = ['predict-before-fit', 'wrong-shape', 'fit-raises', 'wrong-shape'][k % 4]
        task = ['reg1', 'bin'][k % 2]
        deep = (k // 4) % 2 == 0
        cases.append(dict(
            family='raising-calls', plan=plan, kernel=['l2', 'l1'][k % 2], diag=False, task=task, routing='hard',
            n_threads=[3, 1, None][(k // 2) % 3], env0=envs[k % 2], threads0=2, container_x=['tensor', 'ndarray32'][k % 2],
            container_y='tensor', n=44 if deep else 24, d=4, max_leaf_size=24, iters=1,
            split_method='top_vector_agop_on_subset', seed=r.randint(0, 10 ** 6), dseed=r.randint(0, 10 ** 6)))
    return cases


def check(run):
    run.rule = ('real xRFM call sequences fit -> predict -> predict_proba -> get_grads -> get_state_dict -> predict(train X) with an '
                'outside recorder on torch.get/set_num_threads and os.environ[PYTORCH_CUDA_ALLOC_CONF]; kernels x diag x task x '
                'routing (hard/soft/tuned) x n_threads {None,1,3} x variable {absent, user value, library value} x containers '
                '(float32/int64/int32 tensors, float32/float64/int ndarrays) x tree depth 0..2; a case is non-trivial when at '
                'least one event was recorded')
    run.assumptions = ['the property speaks about calls that return: calls whose body raises are recorded as observations '
                       '(variable restored by `finally`; thread count NOT restored by xRFM.predict/fit - no try/finally)',
                       'only PYTORCH_CUDA_ALLOC_CONF is claimed; other variables (TORCHINDUCTOR_CACHE_DIR ...) may be set by torch',
                       'CPU only; Kermac (GPU) kernel classes, eigenpro.py and kernel_log_reg.py are outside the in-place inventory']
    run.trusted.append('extract/gen_inplace.py (intraprocedural alias pass: its rules are documented in the file)')
    import time
    t0 = time.time()
    run.lean()
    run.extra['lean_s'] = round(time.time() - t0, 1)   # includes waiting for the shared build lock
    cases = gen_cases(run)
    if run.driver_ok:
        results = core.pmap(MOD, [{'cases': c} for c in core.chunks(cases, 16)])
        run.absorb('c18', results)
        obs = {}
        for r_ in results:
            for k, v in (r_.get('observations') or {}).items():
                if isinstance(v, dict):
                    key = f'{k}: threads_restored={v.get("threads_restored")} env_restored={v.get("env_restored")} ' \
                          f'events={"yes" if v.get("events") else "none"}'
                    obs[key] = obs.get(key, 0) + 1
                else:
                    obs[k] = obs.get(k, 0) + 1
        run.extra['observations_raising_calls'] = obs
        run.extra['static_notes'] = [
            'stable_matrix_power adds 1e-8 to the diagonal of its ARGUMENT in place: callers pass library-computed d x d '
            'matrices only (Props/C18.lean allowList); the public helper xrfm.rfm_src.matrix_power therefore mutates a matrix '
            'a user passes to it directly (not an API named by C18)']


def replay(run, payload):
    run.lean()
    results = core.pmap(MOD, [{'cases': [payload['params']]}], workers=1)
    run.absorb('replay', results)
