/-
Model of soft routing (`xRFM._build_tree_cache`, `_predict_tree_soft`, xrfm/xrfm.py).  Mathlib-free.

* `buildCache` is the explicit STACK MACHINE of `_build_tree_cache`: entries `(node, path)`, the entry pushed
  last is popped first, explicit `next_node_id` / `next_leaf_id` counters, dictionaries as association
  lists in insertion order.  Which child is pushed first and which `took_left` flag its path receives are
  the regenerated `Gen.Soft.pushOrder` / `Gen.Soft.pathFlag`.  Termination is proved (`termination_by` the
  total size of the trees on the stack).  `leavesRec` / `gatesRec` are the obvious recursive definitions,
  `pathsSpec` the index-free specification (the gates from the root to each leaf, left to right) and
  `Tree.gatesPre` the gates in preorder.
* The real-valued part is scalar-generic (no laws assumed): the same definitions run at `Float` in the driver
  and are reasoned about at `ℝ` in `Lemmas/Soft.lean`.  Every decision is a `Gen.Soft` definition:
  `nodeLogit`, `gateTerm`, `clampLog`, `sortDescending`, `cutoff`, `maxAllowed`, `clampCount`, `keepPos`,
  `hardLeft`.
* `torch.sort` is an oracle: `finalWeights` / `softPredict` take the sorting permutation `perm` as an argument
  (contract `SortContract`, stated in `Lemmas/Soft.lean`: a permutation of the leaf positions along which the
  weights are ordered as `sortDescending` says).  `sortPerm` is one such permutation (merge sort), used by the
  driver.
* The clamp of the normaliser to `finfo.tiny` is not modelled: the normaliser of the stable soft-max is at
  least 1 and the renormaliser at least the top weight (both proved at `ℝ`), so neither clamp ever binds.
-/
import Xrfmv.Scalar
import Xrfmv.Gen.Soft

namespace Xrfmv.Soft
open Xrfmv.Gen.Soft

/-- A split node's gate: direction `v`, threshold `b`, temperature scale `σ` (`adaptive_temp_scaling`). -/
structure Gate (α : Type) where
  dir : List α
  thr : α
  scale : α

/-- A tree with leaf payloads `μ` (the leaf model / its identity). -/
inductive Tree (α μ : Type) where
  | leaf (m : μ)
  | node (g : Gate α) (left right : Tree α μ)

namespace Tree
variable {α μ : Type}

/-- number of tree nodes (leaves and splits): the termination measure -/
def weight : Tree α μ → Nat
  | leaf _ => 1
  | node _ l r => 1 + l.weight + r.weight

def nodes : Tree α μ → Nat
  | leaf _ => 0
  | node _ l r => 1 + l.nodes + r.nodes

def nleaves : Tree α μ → Nat
  | leaf _ => 1
  | node _ l r => l.nleaves + r.nleaves

def depth : Tree α μ → Nat
  | leaf _ => 0
  | node _ l r => 1 + max l.depth r.depth

/-- Gates in preorder. -/
def gatesPre : Tree α μ → List (Gate α)
  | leaf _ => []
  | node g l r => g :: (l.gatesPre ++ r.gatesPre)

end Tree

/-- `leaf_paths[leaf_id]`: pairs `(node_id, took_left)` from the root down. -/
abbrev Path := List (Nat × Bool)

/-- The traversal stack; the head of the list is the entry popped next (Python: the end of the list). -/
abbrev Stack (α μ : Type) := List (Tree α μ × Path)

def pick {α μ : Type} (s : Side) (l r : Tree α μ) : Tree α μ :=
  match s with
  | .left => l
  | .right => r

def stackWeight {α μ : Type} (st : Stack α μ) : Nat := (st.map (fun e => e.1.weight)).sum

/-- `tree['_cache']`. `leaves`: `(leaf_id, leaf_models[leaf_id], leaf_paths[leaf_id])` in `leaf_order`;
`gates`: `(node_id, (split_directions, split_thresholds, split_temp_scalings)[node_id])` in insertion order. -/
structure Cache (α μ : Type) where
  leaves : List (Nat × μ × Path)
  gates : List (Nat × Gate α)

/-- The `stack.append` calls of the split branch, in the order given by `Gen.Soft.pushOrder`. -/
def push {α μ : Type} (l r : Tree α μ) (path : Path) (nodeId : Nat) (rest : Stack α μ) : Stack α μ :=
  pushOrder.foldl (fun st s => (pick s l r, path ++ [(nodeId, pathFlag s)]) :: st) rest

/-- `while stack:` of `_build_tree_cache`. -/
def loop {α μ : Type} (st : Stack α μ) (nextNode nextLeaf : Nat) (c : Cache α μ) : Cache α μ :=
  match st with
  | [] => c
  | (.leaf m, path) :: rest =>
      loop rest nextNode (nextLeaf + 1) { c with leaves := c.leaves ++ [(nextLeaf, m, path)] }
  | (.node g l r, path) :: rest =>
      loop (push l r path nextNode rest) (nextNode + 1) nextLeaf { c with gates := c.gates ++ [(nextNode, g)] }
termination_by stackWeight st
decreasing_by
  · simp [stackWeight, Tree.weight]
  · simp [stackWeight, push, pushOrder, pick, Tree.weight]
    omega

/-- `_build_tree_cache(tree)`. -/
def buildCache {α μ : Type} (t : Tree α μ) : Cache α μ := loop [(t, [])] 0 0 ⟨[], []⟩

/-! ### The obvious recursive definitions -/

/-- Leaves left to right with ids counted from `nl`, node ids counted in preorder from `nn`, and the path
`pre` extended by `(id, true)` into the left and `(id, false)` into the right subtree. -/
def leavesRec {α μ : Type} : Tree α μ → (nn nl : Nat) → (pre : Path) → List (Nat × μ × Path)
  | .leaf m, _, nl, pre => [(nl, m, pre)]
  | .node _ l r, nn, nl, pre =>
      leavesRec l (nn + 1) nl (pre ++ [(nn, true)]) ++
      leavesRec r (nn + 1 + l.nodes) (nl + l.nleaves) (pre ++ [(nn, false)])

/-- Gates in preorder with ids counted from `nn`. -/
def gatesRec {α μ : Type} : Tree α μ → (nn : Nat) → List (Nat × Gate α)
  | .leaf _, _ => []
  | .node g l r, nn => (nn, g) :: (gatesRec l (nn + 1) ++ gatesRec r (nn + 1 + l.nodes))

/-- Index-free specification: for every leaf, left to right, its payload and the list of gates from the root
down with `true` = "the leaf lies in the left subtree of that gate". -/
def pathsSpec {α μ : Type} : Tree α μ → List (μ × List (Gate α × Bool))
  | .leaf m => [(m, [])]
  | .node g l r =>
      (pathsSpec l).map (fun e => (e.1, (g, true) :: e.2)) ++
      (pathsSpec r).map (fun e => (e.1, (g, false) :: e.2))

/-- A cached path with every node id looked up in the cached gate table. -/
def resolve {α : Type} (gates : List (Nat × Gate α)) (p : Path) : List (Option (Gate α) × Bool) :=
  p.map (fun e => (gates.lookup e.1, e.2))

/-! ### Real-valued part (scalar-generic) -/
section scalar
variable {α : Type}

def sumL [Add α] [OfNat α 0] (l : List α) : α := l.foldr (· + ·) 0

/-- `x @ v` -/
def dot [Add α] [Mul α] [OfNat α 0] (x v : List α) : α := sumL (List.zipWith (· * ·) x v)

/-- `F.logsigmoid(t) = log σ(t) = -log(1 + exp(-t))` -/
def logSigmoid [Add α] [Neg α] [OfNat α 1] [HasExp α] [HasLog α] (t : α) : α := -(log (1 + exp (-t)))

/-- `node_logits[node_id]` for one row. -/
def gateZ [Add α] [Sub α] [Mul α] [Div α] [Neg α] [OfNat α 0] (T : α) (x : List α) (g : Gate α) : α :=
  nodeLogit (dot x g.dir) g.thr T g.scale

/-- One step along a leaf's path (`none`: a node id missing from the table - never the case, `cache_paths`). -/
def pathStep [Add α] [Sub α] [Mul α] [Div α] [Neg α] [OfNat α 0] [OfNat α 1] [HasExp α] [HasLog α]
    (T : α) (x : List α) (acc : α) (e : Option (Gate α) × Bool) : α :=
  match e.1 with
  | some g => gateTerm logSigmoid e.2 acc (gateZ T x g)
  | none => acc

/-- One leaf's log-probability: `gateTerm` folded along the (resolved) path, starting from zero. -/
def pathLogP [Add α] [Sub α] [Mul α] [Div α] [Neg α] [OfNat α 0] [OfNat α 1] [HasExp α] [HasLog α]
    (T : α) (x : List α) (p : List (Option (Gate α) × Bool)) : α :=
  p.foldl (pathStep T x) 0

/-- `log_leaf_probs[leaf]` for one row, from the cache. -/
def leafLogP [Add α] [Sub α] [Mul α] [Div α] [Neg α] [OfNat α 0] [OfNat α 1] [HasExp α] [HasLog α]
    (T : α) (gates : List (Nat × Gate α)) (x : List α) (path : Path) : α :=
  pathLogP T x (resolve gates path)

def maxL [Max α] (a : α) (l : List α) : α := l.foldl max a

/-- Stable soft-max: subtract the maximum, exponentiate, normalise. -/
def softmax [Add α] [Sub α] [Div α] [OfNat α 0] [Max α] [HasExp α] (lps : List α) : List α :=
  match lps with
  | [] => []
  | a :: as =>
    let m := maxL a as
    let e := (a :: as).map (fun v => exp (v - m))
    let s := sumL e
    e.map (fun v => v / s)

/-- `weights` before truncation: clamp the log-probabilities, stable soft-max. -/
def leafWeights [Add α] [Sub α] [Div α] [Neg α] [OfNat α 0] [Max α] [HasExp α] [OfScientific α]
    (lps : List α) : List α :=
  softmax (lps.map clampLog)

/-- The order `torch.sort` puts two weights in (`a` may precede `b`). -/
def sortLe [LE α] [DecidableLE α] (a b : α) : Bool :=
  if sortDescending then decide (b ≤ a) else decide (a ≤ b)

/-- One admissible `sorted_indices` row (stable merge sort of the positions). -/
def sortPerm [OfNat α 0] [LE α] [DecidableLE α] (w : List α) : List Nat :=
  (List.range w.length).mergeSort (fun i j => sortLe (w.getD i 0) (w.getD j 0))

/-- `torch.cumsum` (running sums, inclusive). -/
def cumsumFrom [Add α] (acc : α) : List α → List α
  | [] => []
  | x :: xs => (acc + x) :: cumsumFrom (acc + x) xs

/-- `keep_counts` for one row: positions whose cumulative mass is still short of `keep`, clamped to
`max_allowed`. -/
def keepCount [Add α] [OfNat α 0] [LT α] [DecidableLT α] [LE α] [DecidableLE α]
    (keep : α) (cap n : Nat) (sortedW : List α) : Nat :=
  let cum := cumsumFrom 0 sortedW
  let count := cum.countP (fun c => cutoff c keep)
  (clampCount (count : Int) (maxAllowed (cap : Int) (n : Int))).toNat

/-- Leaf positions whose sorted position satisfies `keepPos` (the scatter of `keep_mask_sorted`). -/
def keptIdx (perm : List Nat) (kc : Nat) : List Nat :=
  (perm.zipIdx.filter (fun e => keepPos (e.2 : Int) (kc : Int))).map (fun e => e.1)

/-- `active_mask` for one row. -/
def activeMask (n : Nat) (kept : List Nat) : List Bool := (List.range n).map (fun i => kept.contains i)

/-- `torch.where(active_mask, weights, 0)` -/
def maskW [OfNat α 0] (w : List α) (mask : List Bool) : List α :=
  List.zipWith (fun wi a => if a then wi else 0) w mask

/-- `weights / weights.sum()` -/
def renorm [Add α] [Div α] [OfNat α 0] (w : List α) : List α :=
  let s := sumL w
  w.map (fun v => v / s)

/-- Truncation: the active mask and the renormalised weights of one row. -/
def finalWeights [Add α] [Div α] [OfNat α 0] [LT α] [DecidableLT α] [LE α] [DecidableLE α]
    (keep : α) (cap : Nat) (w : List α) (perm : List Nat) : List Bool × List α :=
  let sortedW := perm.map (fun i => w.getD i 0)
  let kc := keepCount keep cap w.length sortedW
  let mask := activeMask w.length (keptIdx perm kc)
  (mask, renorm (maskW w mask))

/-- `Σ_l w_l · f_l` over the ACTIVE leaves only (one output coordinate; `f` = the leaves' predictions). -/
def aggregate [Add α] [Mul α] [OfNat α 0] (w : List α) (mask : List Bool) (f : List α) : α :=
  sumL (((List.range w.length).filter (fun i => mask.getD i false)).map (fun i => w.getD i 0 * f.getD i 0))

/-- One output coordinate of one row from the leaves' log-probabilities. -/
def mixture [Add α] [Sub α] [Mul α] [Div α] [Neg α] [OfNat α 0] [Max α] [LT α] [DecidableLT α] [LE α]
    [DecidableLE α] [HasExp α] [OfScientific α]
    (keep : α) (cap : Nat) (lps : List α) (perm : List Nat) (f : List α) : α :=
  let fw := finalWeights keep cap (leafWeights lps) perm
  aggregate fw.2 fw.1 f

/-- The leaves' log-probabilities of one row, in `leaf_order`. -/
def rowLogPs [Add α] [Sub α] [Mul α] [Div α] [Neg α] [OfNat α 0] [OfNat α 1] [HasExp α] [HasLog α]
    {μ : Type} (T : α) (c : Cache α μ) (x : List α) : List α :=
  c.leaves.map (fun e => leafLogP T c.gates x e.2.2)

/-- `_predict_tree_soft` for one row and one output coordinate: `f m` is leaf model `m`'s prediction. -/
def softPredict [Add α] [Sub α] [Mul α] [Div α] [Neg α] [OfNat α 0] [OfNat α 1] [Max α] [LT α] [DecidableLT α]
    [LE α] [DecidableLE α] [HasExp α] [HasLog α] [OfScientific α]
    {μ : Type} (T keep : α) (cap : Nat) (t : Tree α μ) (x : List α) (perm : List Nat) (f : μ → α) : α :=
  let c := buildCache t
  mixture keep cap (rowLogPs T c x) perm (c.leaves.map (fun e => f e.2.1))

/-- Hard routing (`_get_leaf_groups_and_models_on_samples`): the payload of the leaf reached. -/
def hardRoute [Add α] [Mul α] [OfNat α 0] [LT α] [DecidableLT α] [LE α] [DecidableLE α]
    {μ : Type} (x : List α) : Tree α μ → μ
  | .leaf m => m
  | .node g l r => if hardLeft (dot x g.dir) g.thr then hardRoute x l else hardRoute x r

/-- Position (left to right) of the leaf reached by hard routing. -/
def hardIndex [Add α] [Mul α] [OfNat α 0] [LT α] [DecidableLT α] [LE α] [DecidableLE α]
    {μ : Type} (x : List α) : Tree α μ → Nat
  | .leaf _ => 0
  | .node g l r => if hardLeft (dot x g.dir) g.thr then hardIndex x l else l.nleaves + hardIndex x r

end scalar
end Xrfmv.Soft
