/-
Meaning of the regenerated metric chains (`Xrfmv.Gen.MetricOps`, translated on every run from the `_compute` methods of MSE, RMSE,
MAE and Brier): `(a - b).square()|.abs() .mean() [.sqrt()]` on the flattened arrays.  `Props/C16.lean` proves that these are the
metrics of `Model/Metrics.lean`.
-/
import Xrfmv.Model.Metrics
import Xrfmv.Gen.MetricOps

namespace Xrfmv.MetricOps
open Xrfmv Xrfmv.Gen.MetricOps

section
variable {α : Type} [Add α] [Sub α] [Mul α] [Div α] [OfNat α 0] [NatCast α] [HasAbs α] [HasSqrt α]

def Entry.apply : Entry → α → α
  | .square, t => t * t
  | .abs, t => HasAbs.abs t

def Post.apply : Post → α → α
  | .none, v => v
  | .sqrt, v => HasSqrt.sqrt v

/-- value of a mean-type metric on the flattened arrays `a` (minuend) and `b` (subtrahend): the mean is over all entries of `b` -/
def evalMean (m : MeanMetric) (a b : List α) : α :=
  Post.apply m.post (Metrics.sumL (List.zipWith (fun x y => Entry.apply m.entry (x - y)) a b) / ((b.length : Nat) : α))

end
end Xrfmv.MetricOps
