/-
Helper lemmas for C09 (soft routing).

Part 1 (no real numbers): the stack machine `Xrfmv.Soft.buildCache` equals the recursive definitions
(`loop_eq`, by functional induction along `loop`'s own termination order), ids are consecutive, cached paths
resolve to the index-free specification `pathsSpec`.

Part 2 (`ℝ`): stable soft-max is a point of the open simplex; the cumulative-mass count behind `keep_counts`
(`cumsum_count`, using only `cutoff_spec`, which `<` and `≤` both satisfy); the scatter of kept positions is a
prefix of the sorting permutation; masks, renormalisation and aggregation written as sums over the kept index
list; the sorting oracle's contract and its consequences; convexity; the two one-variable limits
`log σ(c/T) → 0`, `log σ(−c/T) → −∞` on `𝓝[>] 0`; the documented log-probabilities (`rowLogPs_documented`); the
split of a row's leaves at the hard-routed one (`accF_split`) and `limit_T0_main`.
-/
import Xrfmv.Model.Soft
import Xrfmv.Lemmas.RealInst
import Mathlib.Algebra.Order.BigOperators.Group.List
import Mathlib.Algebra.BigOperators.Ring.List
import Mathlib.Analysis.SpecialFunctions.Log.Basic
import Mathlib.Topology.Algebra.Order.Field

namespace Xrfmv.Soft
open Xrfmv.Gen.Soft

section cache
variable {α μ : Type}

def stackLeaves : Stack α μ → Nat → Nat → List (Nat × μ × Path)
  | [], _, _ => []
  | (t, p) :: rest, nn, nl => leavesRec t nn nl p ++ stackLeaves rest (nn + t.nodes) (nl + t.nleaves)

def stackGates : Stack α μ → Nat → List (Nat × Gate α)
  | [], _ => []
  | (t, _) :: rest, nn => gatesRec t nn ++ stackGates rest (nn + t.nodes)

theorem loop_eq (st : Stack α μ) (nn nl : Nat) (c : Cache α μ) :
    loop st nn nl c = ⟨c.leaves ++ stackLeaves st nn nl, c.gates ++ stackGates st nn⟩ := by
  induction st, nn, nl, c using loop.induct with
  | case1 nn nl c => simp [loop, stackLeaves, stackGates]
  | case2 nn nl c m path rest ih =>
    rw [loop, ih]
    simp [stackLeaves, stackGates, leavesRec, gatesRec, Tree.nodes, Tree.nleaves]
  | case3 nn nl c g l r path rest ih =>
    rw [loop, ih]
    simp [push, pushOrder, pick, pathFlag, stackLeaves, stackGates, leavesRec, gatesRec, Tree.nodes,
      Tree.nleaves, Nat.add_assoc]

theorem buildCache_eq (t : Tree α μ) : buildCache t = ⟨leavesRec t 0 0 [], gatesRec t 0⟩ := by
  simp [buildCache, loop_eq, stackLeaves, stackGates]

theorem leavesRec_ids (t : Tree α μ) (nn nl : Nat) (pre : Path) :
    (leavesRec t nn nl pre).map (fun e => e.1) = List.range' nl t.nleaves := by
  induction t generalizing nn nl pre with
  | leaf m => simp [leavesRec, Tree.nleaves]
  | node g l r ihl ihr =>
    simp [leavesRec, Tree.nleaves, ihl, ihr, List.range'_append_1]

theorem gatesRec_ids (t : Tree α μ) (nn : Nat) :
    (gatesRec t nn).map (fun e => e.1) = List.range' nn t.nodes := by
  induction t generalizing nn with
  | leaf m => simp [gatesRec, Tree.nodes]
  | node g l r ihl ihr =>
    simp [gatesRec, Tree.nodes, ihl, ihr]
    rw [show 1 + l.nodes + r.nodes = (l.nodes + r.nodes) + 1 by omega, List.range'_succ]


theorem leavesRec_models (t : Tree α μ) (nn nl : Nat) (pre : Path) :
    (leavesRec t nn nl pre).map (fun e => e.2.1) = (pathsSpec t).map (fun e => e.1) := by
  induction t generalizing nn nl pre with
  | leaf m => simp [leavesRec, pathsSpec]
  | node g l r ihl ihr => simp [leavesRec, pathsSpec, ihl, ihr, Function.comp_def]

theorem gatesRec_gates (t : Tree α μ) (nn : Nat) :
    (gatesRec t nn).map (fun e => e.2) = t.gatesPre := by
  induction t generalizing nn with
  | leaf m => simp [gatesRec, Tree.gatesPre]
  | node g l r ihl ihr => simp [gatesRec, Tree.gatesPre, ihl, ihr]

theorem lookup_of_mem {β : Type} : ∀ (l : List (Nat × β)), (l.map (fun e => e.1)).Nodup →
    ∀ e ∈ l, l.lookup e.1 = some e.2
  | [], _, e, he => by simp at he
  | (k, v) :: l, hnd, e, he => by
    simp only [List.map_cons, List.nodup_cons] at hnd
    rcases List.mem_cons.mp he with rfl | h
    · simp [List.lookup]
    · have hne : e.1 ≠ k := by
        intro hk
        apply hnd.1
        rw [← hk]
        exact List.mem_map.mpr ⟨e, h, rfl⟩
      rw [List.lookup_cons]
      have : (e.1 == k) = false := by simpa using hne
      rw [this]
      exact lookup_of_mem l hnd.2 e h

/-- With every gate of `t` resolvable in the table `G`, the cached paths resolve to the specification. -/
theorem leavesRec_resolve (G : List (Nat × Gate α)) (t : Tree α μ) (nn nl : Nat) (pre : Path)
    (hG : ∀ e ∈ gatesRec t nn, G.lookup e.1 = some e.2) :
    (leavesRec t nn nl pre).map (fun e => (e.2.1, resolve G e.2.2)) =
      (pathsSpec t).map (fun e => (e.1, resolve G pre ++ e.2.map (fun ge => (some ge.1, ge.2)))) := by
  induction t generalizing nn nl pre with
  | leaf m => simp [leavesRec, pathsSpec]
  | node g l r ihl ihr =>
    have hg : G.lookup nn = some g := hG (nn, g) (by simp [gatesRec])
    have hl : ∀ e ∈ gatesRec l (nn + 1), G.lookup e.1 = some e.2 :=
      fun e he => hG e (by simp [gatesRec, he])
    have hr : ∀ e ∈ gatesRec r (nn + 1 + l.nodes), G.lookup e.1 = some e.2 :=
      fun e he => hG e (by simp [gatesRec, he])
    simp only [leavesRec, pathsSpec, List.map_append, List.map_map]
    rw [ihl _ _ _ hl, ihr _ _ _ hr]
    simp [resolve, hg, Function.comp_def]

theorem cache_spec (t : Tree α μ) :
    (buildCache t).leaves.map (fun e => e.1) = List.range t.nleaves ∧
    (buildCache t).gates.map (fun e => e.1) = List.range t.nodes ∧
    (buildCache t).gates.map (fun e => e.2) = t.gatesPre ∧
    (buildCache t).leaves.map (fun e => (e.2.1, resolve (buildCache t).gates e.2.2)) =
      (pathsSpec t).map (fun e => (e.1, e.2.map (fun ge => (some ge.1, ge.2)))) := by
  rw [buildCache_eq]
  refine ⟨?_, ?_, ?_, ?_⟩
  · simp [leavesRec_ids, List.range_eq_range']
  · simp [gatesRec_ids, List.range_eq_range']
  · exact gatesRec_gates t 0
  · have h := leavesRec_resolve (gatesRec t 0) t 0 0 []
      (lookup_of_mem _ (by rw [gatesRec_ids]; exact List.nodup_range'))
    simpa [resolve] using h

end cache

/-! ## Real-valued part -/

theorem sumL_eq (l : List ℝ) : sumL l = l.sum := by
  induction l with
  | nil => simp [sumL]
  | cons a l ih => simp [sumL] at ih ⊢; rw [ih]

theorem exp_eq (x : ℝ) : Xrfmv.exp x = Real.exp x := rfl
theorem log_eq (x : ℝ) : Xrfmv.log x = Real.log x := rfl

theorem maxL_ge (l : List ℝ) (a : ℝ) : a ≤ maxL a l ∧ ∀ v ∈ l, v ≤ maxL a l := by
  induction l generalizing a with
  | nil => simp [maxL]
  | cons b l ih =>
    have h := ih (max a b)
    simp only [maxL, List.foldl_cons] at h ⊢
    refine ⟨le_trans (le_max_left _ _) h.1, ?_⟩
    intro v hv
    rcases List.mem_cons.mp hv with rfl | hv
    · exact le_trans (le_max_right _ _) h.1
    · exact h.2 v hv

theorem maxL_mem (l : List ℝ) (a : ℝ) : maxL a l ∈ a :: l := by
  induction l generalizing a with
  | nil => simp [maxL]
  | cons b l ih =>
    have h := ih (max a b)
    simp only [maxL, List.foldl_cons] at h ⊢
    rcases List.mem_cons.mp h with h | h
    · rw [h]; rcases max_choice a b with hm | hm <;> simp [hm]
    · simp [h]

/-- The soft-max of a non-empty list: positive entries summing to one. -/
theorem softmax_spec (lps : List ℝ) (hne : lps ≠ []) :
    (softmax lps).length = lps.length ∧ (∀ v ∈ softmax lps, 0 < v) ∧ (softmax lps).sum = 1 := by
  cases lps with
  | nil => exact absurd rfl hne
  | cons a as =>
    simp only [softmax, sumL_eq]
    set m := maxL a as
    set e := (a :: as).map (fun v => Xrfmv.exp (v - m)) with he
    have hepos : ∀ v ∈ e, 0 < v := by
      intro v hv
      rw [he] at hv
      obtain ⟨u, _, rfl⟩ := List.mem_map.mp hv
      exact Real.exp_pos _
    have hs : 0 < e.sum := List.sum_pos _ hepos (by simp [he])
    refine ⟨by simp [he], ?_, ?_⟩
    · intro v hv
      obtain ⟨u, hu, rfl⟩ := List.mem_map.mp hv
      exact div_pos (hepos u hu) hs
    · simp only [div_eq_mul_inv]
      rw [List.sum_map_mul_right]
      simp
      exact mul_inv_cancel₀ (ne_of_gt hs)

set_option linter.unusedTactic false in
set_option linter.unreachableTactic false in
/-- All that is used of the cut-off comparison: it counts every position strictly short of `keep` and
none strictly beyond (`<` and `≤` both qualify; ties stay open). -/
theorem cutoff_spec (c k : ℝ) : (c < k → cutoff c k = true) ∧ (cutoff c k = true → c ≤ k) := by
  unfold cutoff
  constructor
  · intro h; simp only [decide_eq_true_eq]; first | exact h | exact le_of_lt h
  · intro h; simp only [decide_eq_true_eq] at h; first | exact le_of_lt h | exact h

theorem cumsumFrom_length (sw : List ℝ) (a : ℝ) : (cumsumFrom a sw).length = sw.length := by
  induction sw generalizing a with
  | nil => simp [cumsumFrom]
  | cons x xs ih => simp [cumsumFrom, ih]

theorem take_sum_nonneg (xs : List ℝ) (h : ∀ v ∈ xs, 0 ≤ v) (q : ℕ) : 0 ≤ (xs.take q).sum :=
  List.sum_nonneg (fun v hv => h v (List.mem_of_mem_take hv))

theorem cumsum_count (keep : ℝ) : ∀ (sw : List ℝ) (a : ℝ), (∀ v ∈ sw, 0 ≤ v) →
    (∀ p, p < (cumsumFrom a sw).countP (fun c => cutoff c keep) → a + (sw.take (p + 1)).sum ≤ keep) ∧
    (∀ p, (cumsumFrom a sw).countP (fun c => cutoff c keep) ≤ p → p < sw.length →
      keep ≤ a + (sw.take (p + 1)).sum) := by
  intro sw
  induction sw with
  | nil => intro a _; simp [cumsumFrom]
  | cons x xs ih =>
    intro a hnn
    have hxs : ∀ v ∈ xs, 0 ≤ v := fun v hv => hnn v (List.mem_cons_of_mem _ hv)
    obtain ⟨ih1, ih2⟩ := ih (a + x) hxs
    have hmono : ∀ q, a + x ≤ a + x + (xs.take q).sum := fun q => by
      have := take_sum_nonneg xs hxs q; linarith
    simp only [cumsumFrom, List.countP_cons, List.take_succ_cons, List.sum_cons, List.length_cons]
    set k' := (cumsumFrom (a + x) xs).countP (fun c => cutoff c keep) with hk'
    by_cases hP : cutoff (a + x) keep = true
    · simp only [hP, if_true]
      have hc : a + x ≤ keep := (cutoff_spec _ _).2 hP
      constructor
      · intro p hp
        cases p with
        | zero => simpa using hc
        | succ q => have := ih1 q (by omega); linarith
      · intro p hp hlen
        cases p with
        | zero => omega
        | succ q => have := ih2 q (by omega) (by omega); linarith
    · have hc : keep ≤ a + x := by
        by_contra h
        exact hP ((cutoff_spec _ _).1 (lt_of_not_ge h))
      simp only [hP]
      constructor
      · intro p hp
        cases p with
        | zero =>
          have h0 := ih1 0 (by simpa using hp)
          have := hmono 1
          simp only [List.take_zero, List.sum_nil] at *
          linarith
        | succ q => have := ih1 q (by simp at hp; omega); linarith
      · intro p hp hlen
        cases p with
        | zero => simp; linarith
        | succ q =>
          by_cases hq : k' ≤ q
          · have := ih2 q hq (by omega); linarith
          · have := hmono (q + 1); linarith

theorem keptIdx_aux (kc : ℕ) : ∀ (l : List ℕ) (s : ℕ),
    ((l.zipIdx s).filter (fun e => keepPos (e.2 : Int) (kc : Int))).map (fun e => e.1) = l.take (kc + 1 - s)
  | [], s => by simp
  | a :: l, s => by
    rw [List.zipIdx_cons, List.filter_cons]
    by_cases h : s ≤ kc
    · have : keepPos (s : Int) (kc : Int) = true := by simp [keepPos]; omega
      simp only [this, if_true, List.map_cons]
      rw [keptIdx_aux kc l (s + 1), show kc + 1 - s = (kc - s) + 1 by omega, List.take_succ_cons]
      congr 2
      omega
    · have : keepPos (s : Int) (kc : Int) = false := by simp [keepPos]; omega
      simp only [this, Bool.false_eq_true, if_false]
      rw [keptIdx_aux kc l (s + 1), show kc + 1 - s = 0 by omega, show kc + 1 - (s + 1) = 0 by omega]
      simp

theorem keptIdx_eq_take (perm : List ℕ) (kc : ℕ) : keptIdx perm kc = perm.take (kc + 1) := by
  simpa [keptIdx] using keptIdx_aux kc perm 0

/-- `keep_count` in terms of the raw count: `min count (min cap n - 1)` (for `cap, n ≥ 1`). -/
theorem keepCount_eq (keep : ℝ) (cap n : ℕ) (sw : List ℝ) :
    keepCount keep cap n sw =
      min ((cumsumFrom 0 sw).countP (fun c => cutoff c keep)) (min cap n - 1) := by
  simp only [keepCount, clampCount, maxAllowed]
  omega

/-! ### masks, renormalisation, aggregation in terms of the kept index list -/

theorem sum_map_ite (l : List ℕ) (p : ℕ → Prop) [DecidablePred p] (g : ℕ → ℝ) :
    (l.map (fun i => if p i then g i else 0)).sum = ((l.filter (fun i => decide (p i))).map g).sum := by
  induction l with
  | nil => simp
  | cons a l ih =>
    by_cases h : p a <;> simp [h, ih]

theorem filter_mem_perm (n : ℕ) (kept : List ℕ) (hnd : kept.Nodup) (hlt : ∀ i ∈ kept, i < n) :
    ((List.range n).filter (fun i => decide (i ∈ kept))).Perm kept := by
  apply (List.perm_ext_iff_of_nodup (List.Nodup.filter _ List.nodup_range) hnd).mpr
  intro a
  simp only [List.mem_filter, List.mem_range, decide_eq_true_eq]
  exact ⟨fun h => h.2, fun h => ⟨hlt a h, h⟩⟩

/-- Total weight of the kept leaves. -/
def keptMass (w : List ℝ) (kept : List ℕ) : ℝ := (kept.map (fun i => w.getD i 0)).sum

theorem maskW_eq (w : List ℝ) (kept : List ℕ) :
    maskW w (activeMask w.length kept) =
      (List.range w.length).map (fun i => if i ∈ kept then w.getD i 0 else 0) := by
  apply List.ext_getElem
  · simp [maskW, activeMask]
  · intro i h1 h2
    have hi : i < w.length := by simpa [maskW, activeMask] using h1
    simp [maskW, activeMask, hi]

theorem maskW_sum (w : List ℝ) (kept : List ℕ) (hnd : kept.Nodup) (hlt : ∀ i ∈ kept, i < w.length) :
    (maskW w (activeMask w.length kept)).sum = keptMass w kept := by
  rw [maskW_eq, sum_map_ite, keptMass]
  exact ((filter_mem_perm _ kept hnd hlt).map _).sum_eq

theorem mask_filter (n : ℕ) (kept : List ℕ) :
    (List.range n).filter (fun i => (activeMask n kept).getD i false) =
      (List.range n).filter (fun i => decide (i ∈ kept)) := by
  apply List.filter_congr
  intro i hi
  have hi' : i < n := List.mem_range.mp hi
  simp [activeMask, List.getD_eq_getElem?_getD, hi']

theorem final_getD (w : List ℝ) (kept : List ℕ) (i : ℕ) (hi : i < w.length) (hk : i ∈ kept) (R : ℝ) :
    (((List.range w.length).map (fun i => if i ∈ kept then w.getD i 0 else 0)).map (fun v => v / R)).getD i 0 =
      w.getD i 0 / R := by
  simp [List.getD_eq_getElem?_getD, hi, hk]

theorem aggregate_eq (w : List ℝ) (kept : List ℕ) (hnd : kept.Nodup) (hlt : ∀ i ∈ kept, i < w.length)
    (f : List ℝ) :
    aggregate (renorm (maskW w (activeMask w.length kept))) (activeMask w.length kept) f =
      (kept.map (fun i => w.getD i 0 / keptMass w kept * f.getD i 0)).sum := by
  have hlen : (renorm (maskW w (activeMask w.length kept))).length = w.length := by
    simp [renorm, maskW_eq]
  simp only [aggregate, hlen, sumL_eq, mask_filter]
  rw [← ((filter_mem_perm _ kept hnd hlt).map _).sum_eq]
  congr 1
  apply List.map_congr_left
  intro i hi
  simp only [List.mem_filter, List.mem_range, decide_eq_true_eq] at hi
  simp only [renorm, sumL_eq, maskW_sum w kept hnd hlt]
  rw [maskW_eq, final_getD w kept i hi.1 hi.2]

theorem final_spec (w : List ℝ) (hw : ∀ v ∈ w, 0 ≤ v) (kept : List ℕ) (hnd : kept.Nodup)
    (hlt : ∀ i ∈ kept, i < w.length) (hR : 0 < keptMass w kept) :
    let fw := renorm (maskW w (activeMask w.length kept))
    fw.length = w.length ∧ (∀ v ∈ fw, 0 ≤ v) ∧ fw.sum = 1 ∧
    (∀ i, i < w.length → i ∉ kept → fw.getD i 0 = 0) := by
  have hwi : ∀ i, 0 ≤ w.getD i 0 := by
    intro i
    rw [List.getD_eq_getElem?_getD]
    cases h : w[i]? with
    | none => simp
    | some v => exact hw v (List.mem_of_getElem? h)
  simp only [renorm, sumL_eq, maskW_sum w kept hnd hlt]
  refine ⟨by simp [maskW_eq], ?_, ?_, ?_⟩
  · intro v hv
    obtain ⟨u, hu, rfl⟩ := List.mem_map.mp hv
    rw [maskW_eq] at hu
    obtain ⟨i, _, rfl⟩ := List.mem_map.mp hu
    apply div_nonneg _ (le_of_lt hR)
    split
    · exact hwi i
    · exact le_refl 0
  · simp only [div_eq_mul_inv]
    rw [List.sum_map_mul_right, List.map_id', maskW_sum w kept hnd hlt]
    exact mul_inv_cancel₀ (ne_of_gt hR)
  · intro i hi hk
    rw [maskW_eq]
    simp [List.getD_eq_getElem?_getD, hi, hk]

/-! ### the sorting oracle -/

/-- Contract of `torch.sort(weights, descending=…)` for one row: `perm` lists every leaf position once and
the weights read along it are ordered as `Gen.Soft.sortDescending` says.  Nothing is assumed on ties. -/
structure SortContract (w : List ℝ) (perm : List ℕ) : Prop where
  isPerm : perm.Perm (List.range w.length)
  sorted : (perm.map (fun i => w.getD i 0)).Pairwise (fun a b => sortLe a b = true)

theorem sortLe_iff (a b : ℝ) : sortLe a b = true ↔ b ≤ a := by simp [sortLe, sortDescending]

namespace SortContract
variable {w : List ℝ} {perm : List ℕ} (h : SortContract w perm)
include h

theorem nodup : perm.Nodup := (h.isPerm.nodup_iff).mpr List.nodup_range
theorem lt : ∀ i ∈ perm, i < w.length := fun _ hi => List.mem_range.mp (h.isPerm.mem_iff.mp hi)
theorem length_eq : perm.length = w.length := by simpa using h.isPerm.length_eq
theorem mem (j : ℕ) (hj : j < w.length) : j ∈ perm := h.isPerm.mem_iff.mpr (List.mem_range.mpr hj)

theorem take_nodup (m : ℕ) : (perm.take m).Nodup := h.nodup.sublist (List.take_sublist _ _)
theorem take_lt (m : ℕ) : ∀ i ∈ perm.take m, i < w.length := fun i hi => h.lt i (List.mem_of_mem_take hi)

/-- The first `m` positions of `perm` are a top-`m` set. -/
theorem top_le (m : ℕ) : ∀ i ∈ perm.take m, ∀ j, j < w.length → j ∉ perm.take m →
    w.getD j 0 ≤ w.getD i 0 := by
  intro i hi j hj hjn
  have hjp : j ∈ perm.take m ++ perm.drop m := by rw [List.take_append_drop]; exact h.mem j hj
  have hjd : j ∈ perm.drop m := by
    rcases List.mem_append.mp hjp with h1 | h1
    · exact absurd h1 hjn
    · exact h1
  have hs := h.sorted
  rw [← List.take_append_drop m perm, List.map_append, List.pairwise_append] at hs
  have := hs.2.2 (w.getD i 0) (List.mem_map.mpr ⟨i, hi, rfl⟩) (w.getD j 0) (List.mem_map.mpr ⟨j, hjd, rfl⟩)
  exact (sortLe_iff _ _).mp this

end SortContract

/-- The merge sort used by the driver meets the contract (so the contract is satisfiable for every row). -/
theorem sortPerm_contract (w : List ℝ) : SortContract w (sortPerm w) := by
  constructor
  · exact List.mergeSort_perm _ _
  · rw [List.pairwise_map]
    unfold sortPerm
    apply List.pairwise_mergeSort
    · intro a b c hab hbc
      rw [sortLe_iff] at *
      exact le_trans hbc hab
    · intro a b
      simp only [Bool.or_eq_true, sortLe_iff]
      exact le_total _ _

/-- Mass of the `k` heaviest leaves. -/
noncomputable def topMass (w : List ℝ) (perm : List ℕ) (k : ℕ) : ℝ := keptMass w (perm.take k)

theorem getD_nonneg (w : List ℝ) (hw : ∀ v ∈ w, 0 ≤ v) (i : ℕ) : 0 ≤ w.getD i 0 := by
  rw [List.getD_eq_getElem?_getD]
  cases h : w[i]? with
  | none => simp
  | some v => exact hw v (List.mem_of_getElem? h)

theorem getD_pos (w : List ℝ) (hw : ∀ v ∈ w, 0 < v) (i : ℕ) (hi : i < w.length) : 0 < w.getD i 0 := by
  rw [List.getD_eq_getElem?_getD, List.getElem?_eq_getElem hi]
  exact hw _ (List.getElem_mem hi)

/-- The truncation rule: how many leaves are kept. -/
theorem kept_spec (w : List ℝ) (hw : ∀ v ∈ w, 0 ≤ v) (hne : w ≠ []) (keep : ℝ) (cap : ℕ) (hcap : 1 ≤ cap)
    (perm : List ℕ) (hs : SortContract w perm) :
    let kc := keepCount keep cap w.length (perm.map (fun i => w.getD i 0))
    keptIdx perm kc = perm.take (kc + 1) ∧ kc + 1 ≤ min cap w.length ∧
    (1 ≤ kc → topMass w perm kc ≤ keep) ∧
    (kc + 1 < min cap w.length → keep ≤ topMass w perm (kc + 1)) := by
  intro kc
  have hn : 1 ≤ w.length := List.length_pos_iff.mpr hne
  have hkc : kc = min ((cumsumFrom 0 (perm.map (fun i => w.getD i 0))).countP (fun c => cutoff c keep))
      (min cap w.length - 1) := keepCount_eq _ _ _ _
  have hsw : ∀ v ∈ perm.map (fun i => w.getD i 0), 0 ≤ v := by
    intro v hv
    obtain ⟨i, _, rfl⟩ := List.mem_map.mp hv
    exact getD_nonneg w hw i
  obtain ⟨h1, h2⟩ := cumsum_count keep (perm.map (fun i => w.getD i 0)) 0 hsw
  have hmass : ∀ k, topMass w perm k = 0 + ((perm.map (fun i => w.getD i 0)).take k).sum := by
    intro k; simp [topMass, keptMass, List.map_take]
  refine ⟨keptIdx_eq_take _ _, by omega, ?_, ?_⟩
  · intro h
    have := h1 (kc - 1) (by omega)
    rw [hmass]
    rwa [show kc - 1 + 1 = kc by omega] at this
  · intro h
    rw [hmass]
    exact h2 kc (by omega) (by rw [List.length_map, hs.length_eq]; omega)

theorem leafWeights_spec (lps : List ℝ) (hne : lps ≠ []) :
    (leafWeights lps).length = lps.length ∧ (∀ v ∈ leafWeights lps, 0 < v) ∧ (leafWeights lps).sum = 1 := by
  have := softmax_spec (lps.map clampLog) (by simpa using hne)
  simpa [leafWeights] using this

/-- The indices kept for one row. -/
noncomputable def keptOf (keep : ℝ) (cap : ℕ) (w : List ℝ) (perm : List ℕ) : List ℕ :=
  perm.take (keepCount keep cap w.length (perm.map (fun i => w.getD i 0)) + 1)

theorem finalWeights_eq (keep : ℝ) (cap : ℕ) (w : List ℝ) (perm : List ℕ) :
    finalWeights keep cap w perm =
      (activeMask w.length (keptOf keep cap w perm),
       renorm (maskW w (activeMask w.length (keptOf keep cap w perm)))) := by
  simp [finalWeights, keptOf, keptIdx_eq_take]

theorem keptOf_mass_pos (keep : ℝ) (cap : ℕ) (w : List ℝ) (hw : ∀ v ∈ w, 0 < v) (hne : w ≠ [])
    (perm : List ℕ) (hs : SortContract w perm) : 0 < keptMass w (keptOf keep cap w perm) := by
  unfold keptMass
  apply List.sum_pos
  · intro v hv
    obtain ⟨i, hi, rfl⟩ := List.mem_map.mp hv
    exact getD_pos w hw i (hs.take_lt _ i hi)
  · have hp : perm ≠ [] := by
      intro h
      have := hs.length_eq
      rw [h] at this
      exact hne (List.length_eq_zero_iff.mp this.symm)
    cases perm with
    | nil => exact absurd rfl hp
    | cons a l => simp [keptOf]

theorem mixture_eq (keep : ℝ) (cap : ℕ) (lps : List ℝ) (perm : List ℕ)
    (hs : SortContract (leafWeights lps) perm) (f : List ℝ) :
    mixture keep cap lps perm f =
      ((keptOf keep cap (leafWeights lps) perm).map
        (fun i => (leafWeights lps).getD i 0 / keptMass (leafWeights lps) (keptOf keep cap (leafWeights lps) perm)
          * f.getD i 0)).sum := by
  simp only [mixture, finalWeights_eq]
  exact aggregate_eq _ _ (hs.take_nodup _) (hs.take_lt _) f

theorem convex_sum (K : List ℕ) (c g : ℕ → ℝ) (hc : ∀ i ∈ K, 0 ≤ c i) (h1 : (K.map c).sum = 1) (lo hi : ℝ)
    (hg : ∀ i ∈ K, lo ≤ g i ∧ g i ≤ hi) :
    lo ≤ (K.map (fun i => c i * g i)).sum ∧ (K.map (fun i => c i * g i)).sum ≤ hi := by
  constructor
  · calc lo = (K.map (fun i => c i * lo)).sum := by rw [List.sum_map_mul_right, h1, one_mul]
      _ ≤ _ := List.sum_le_sum (fun i hi => mul_le_mul_of_nonneg_left (hg i hi).1 (hc i hi))
  · calc (K.map (fun i => c i * g i)).sum ≤ (K.map (fun i => c i * hi)).sum :=
          List.sum_le_sum (fun i hi' => mul_le_mul_of_nonneg_left (hg i hi').2 (hc i hi'))
      _ = hi := by rw [List.sum_map_mul_right, h1, one_mul]

theorem kept_coeff_sum (w : List ℝ) (kept : List ℕ) (hR : 0 < keptMass w kept) :
    (kept.map (fun i => w.getD i 0 / keptMass w kept)).sum = 1 := by
  simp only [div_eq_mul_inv]
  rw [List.sum_map_mul_right]
  exact mul_inv_cancel₀ (ne_of_gt hR)

/-! ### consequences used by the property theorems -/

theorem activeMask_getD (n : ℕ) (kept : List ℕ) (i : ℕ) :
    (activeMask n kept).getD i false = true ↔ i < n ∧ i ∈ kept := by
  by_cases hi : i < n <;> simp [activeMask, List.getD_eq_getElem?_getD, hi]

theorem nleaves_pos {α μ : Type} (t : Tree α μ) : 1 ≤ t.nleaves := by
  induction t with
  | leaf m => simp [Tree.nleaves]
  | node g l r ihl _ => simp [Tree.nleaves]; omega

theorem pathsSpec_length {α μ : Type} (t : Tree α μ) : (pathsSpec t).length = t.nleaves := by
  induction t with
  | leaf m => simp [pathsSpec, Tree.nleaves]
  | node g l r ihl ihr => simp [pathsSpec, Tree.nleaves, ihl, ihr]

theorem cache_leaves_length {α μ : Type} (t : Tree α μ) : (buildCache t).leaves.length = t.nleaves := by
  have := congrArg List.length (cache_spec t).1
  simpa using this

theorem rowLogPs_length {μ : Type} (T : ℝ) (t : Tree ℝ μ) (x : List ℝ) :
    (rowLogPs T (buildCache t) x).length = t.nleaves := by
  simp [rowLogPs, cache_leaves_length]

/-- The leaves' predictions as the model reads them from the cache are the predictions of the leaves left to
right. -/
theorem cache_preds {α μ : Type} (t : Tree α μ) (f : μ → ℝ) :
    (buildCache t).leaves.map (fun e => f e.2.1) = (pathsSpec t).map (fun e => f e.1) := by
  have := congrArg (List.map (fun e : μ × _ => f e.1)) (cache_spec t).2.2.2
  simpa [Function.comp_def] using this

/-- A kept set with a single element returns that leaf's prediction. -/
theorem mixture_single (keep : ℝ) (cap : ℕ) (lps : List ℝ) (hne : lps ≠ []) (perm : List ℕ)
    (hs : SortContract (leafWeights lps) perm) (f : List ℝ) (i0 : ℕ)
    (hk : keptOf keep cap (leafWeights lps) perm = [i0]) :
    mixture keep cap lps perm f = f.getD i0 0 := by
  have hw := leafWeights_spec lps hne
  have hne' : leafWeights lps ≠ [] := by
    intro h; rw [h] at hw; exact hne (List.length_eq_zero_iff.mp hw.1.symm)
  have hR := keptOf_mass_pos keep cap (leafWeights lps) hw.2.1 hne' perm hs
  rw [mixture_eq keep cap lps perm hs f]
  rw [hk] at hR ⊢
  simp only [keptMass, List.map_cons, List.map_nil, List.sum_cons, List.sum_nil, add_zero] at hR ⊢
  rw [div_self (ne_of_gt hR), one_mul]

/-- If the heaviest leaf alone exceeds `keep`, or the cap is one, exactly that leaf is kept. -/
theorem keptOf_dominant (keep : ℝ) (cap : ℕ) (w : List ℝ) (hw : ∀ v ∈ w, 0 ≤ v) (perm : List ℕ)
    (hdom : keep < w.getD (perm.headD 0) 0 ∨ cap = 1) (hp : perm ≠ []) :
    keptOf keep cap w perm = [perm.headD 0] := by
  have hkc : keepCount keep cap w.length (perm.map (fun i => w.getD i 0)) = 0 := by
    rw [keepCount_eq]
    rcases hdom with hdom | hcap
    · have hsw : ∀ v ∈ perm.map (fun i => w.getD i 0), 0 ≤ v := by
        intro v hv
        obtain ⟨i, _, rfl⟩ := List.mem_map.mp hv
        exact getD_nonneg w hw i
      obtain ⟨h1, _⟩ := cumsum_count keep (perm.map (fun i => w.getD i 0)) 0 hsw
      have : (cumsumFrom 0 (perm.map (fun i => w.getD i 0))).countP (fun c => cutoff c keep) = 0 := by
        by_contra hpos
        have := h1 0 (Nat.pos_of_ne_zero hpos)
        cases perm with
        | nil => exact hp rfl
        | cons a l => simp at this hdom; linarith
      rw [this]; simp
    · subst hcap
      omega
  cases perm with
  | nil => exact absurd rfl hp
  | cons a l => unfold keptOf; rw [hkc]; simp

/-! ### the two one-variable limits behind `T → 0⁺` -/
section limits
open Filter Topology


theorem logSigmoid_eq (t : ℝ) : logSigmoid t = -Real.log (1 + Real.exp (-t)) := rfl

theorem logSigmoid_nonpos (t : ℝ) : logSigmoid t ≤ 0 := by
  rw [logSigmoid_eq, neg_nonpos]
  apply Real.log_nonneg
  linarith [Real.exp_pos (-t)]

theorem logSigmoid_le_self (t : ℝ) : logSigmoid t ≤ t := by
  rw [logSigmoid_eq]
  have h1 : Real.exp (-t) ≤ 1 + Real.exp (-t) := by linarith
  have h2 := Real.log_le_log (Real.exp_pos (-t)) h1
  rw [Real.log_exp] at h2
  linarith

/-- `log σ(y) → 0` as `y → +∞`. -/
theorem logSigmoid_tendsto_atTop : Tendsto (fun y : ℝ => logSigmoid y) atTop (𝓝 0) := by
  have h1 : Tendsto (fun y : ℝ => 1 + Real.exp (-y)) atTop (𝓝 (1 + 0)) :=
    tendsto_const_nhds.add Real.tendsto_exp_neg_atTop_nhds_zero
  rw [add_zero] at h1
  have h2 := (Real.continuousAt_log (one_ne_zero)).tendsto.comp h1
  rw [Real.log_one] at h2
  have h3 := h2.neg
  rw [neg_zero] at h3
  exact h3

/-- `log σ(c/T) → 0` as `T → 0⁺`, for `c > 0`. -/
theorem logSigmoid_pos_limit (c : ℝ) (hc : 0 < c) :
    Tendsto (fun T : ℝ => logSigmoid (c / T)) (𝓝[>] 0) (𝓝 0) := by
  have h : Tendsto (fun T : ℝ => c / T) (𝓝[>] 0) atTop := by
    simp only [div_eq_mul_inv]
    exact tendsto_inv_nhdsGT_zero.const_mul_atTop hc
  exact logSigmoid_tendsto_atTop.comp h

/-- `log σ(−c/T) → −∞` as `T → 0⁺`, for `c > 0`. -/
theorem logSigmoid_neg_limit (c : ℝ) (hc : 0 < c) :
    Tendsto (fun T : ℝ => logSigmoid (-(c / T))) (𝓝[>] 0) atBot := by
  have h : Tendsto (fun T : ℝ => c / T) (𝓝[>] 0) atTop := by
    simp only [div_eq_mul_inv]
    exact tendsto_inv_nhdsGT_zero.const_mul_atTop hc
  have h' : Tendsto (fun T : ℝ => -(c / T)) (𝓝[>] 0) atBot := tendsto_neg_atTop_atBot.comp h
  exact tendsto_atBot_mono (fun T => logSigmoid_le_self _) h'

end limits


/-- The stable soft-max is the textbook soft-max `exp v_i / Σ_j exp v_j`. -/
theorem softmax_textbook (cl : List ℝ) : softmax cl = cl.map (fun v => Real.exp v / (cl.map Real.exp).sum) := by
  cases cl with
  | nil => simp [softmax]
  | cons a as =>
    simp only [softmax, sumL_eq, exp_eq]
    set m := maxL a as
    have hsum : ((a :: as).map (fun v => Real.exp (v - m))).sum = ((a :: as).map Real.exp).sum * Real.exp (-m) := by
      rw [← List.sum_map_mul_right]
      congr 1
      apply List.map_congr_left
      intro v _
      rw [sub_eq_add_neg, Real.exp_add]
    rw [hsum, List.map_map]
    apply List.map_congr_left
    intro v _
    simp only [Function.comp_def]
    rw [sub_eq_add_neg, Real.exp_add, mul_div_mul_right _ _ (ne_of_gt (Real.exp_pos _))]

/-! ### the documented log-probabilities and the limit `T → 0⁺` -/
section limit
open Filter Topology


/-- The logistic function. -/
noncomputable def sigmoid (t : ℝ) : ℝ := 1 / (1 + Real.exp (-t))

/-- The documented gate term of one split on a leaf's path: `log σ(−z)` on a left branch, `log σ(z)` on a right
branch, `z = (x·v − b) / (T·σ)`. -/
noncomputable def docTerm (T : ℝ) (x : List ℝ) (ge : Gate ℝ × Bool) : ℝ :=
  Real.log (sigmoid (if ge.2 then -((dot x ge.1.dir - ge.1.thr) / (T * ge.1.scale))
                     else (dot x ge.1.dir - ge.1.thr) / (T * ge.1.scale)))

theorem log_sigmoid (t : ℝ) : Real.log (sigmoid t) = logSigmoid t := by
  rw [sigmoid, one_div, Real.log_inv, logSigmoid_eq]

theorem pathLogP_acc (T : ℝ) (x : List ℝ) (p : List (Gate ℝ × Bool)) (acc : ℝ) :
    (p.map (fun ge => ((some ge.1 : Option (Gate ℝ)), ge.2))).foldl (pathStep T x) acc =
      acc + (p.map (docTerm T x)).sum := by
  induction p generalizing acc with
  | nil => simp
  | cons ge p ih =>
    simp only [List.map_cons, List.foldl_cons, List.sum_cons]
    rw [ih]
    rcases ge with ⟨g, tl⟩
    cases tl <;> simp [pathStep, gateTerm, gateZ, nodeLogit, docTerm, log_sigmoid, add_assoc]

/-- **documented log-probability** of a leaf: the sum of the documented gate terms along its path. -/
theorem pathLogP_documented (T : ℝ) (x : List ℝ) (p : List (Gate ℝ × Bool)) :
    pathLogP T x (p.map (fun ge => (some ge.1, ge.2))) = (p.map (docTerm T x)).sum := by
  have := pathLogP_acc T x p 0
  simpa [pathLogP] using this

theorem rowLogPs_documented {μ : Type} (T : ℝ) (t : Tree ℝ μ) (x : List ℝ) :
    rowLogPs T (buildCache t) x = (pathsSpec t).map (fun e => (e.2.map (docTerm T x)).sum) := by
  have h := congrArg (List.map (fun e : μ × List (Option (Gate ℝ) × Bool) => pathLogP T x e.2)) (cache_spec t).2.2.2
  simp only [List.map_map, Function.comp_def] at h
  simp only [rowLogPs, leafLogP]
  rw [h]
  apply List.map_congr_left
  intro e _
  exact pathLogP_documented T x e.2

/-! ### `T → 0⁺` -/

/-- Leaf log-probabilities by accumulation down the tree. -/
noncomputable def accLogPs {μ : Type} (T : ℝ) (x : List ℝ) : Tree ℝ μ → ℝ → List ℝ
  | .leaf _, acc => [acc]
  | .node g l r, acc => accLogPs T x l (acc + docTerm T x (g, true)) ++ accLogPs T x r (acc + docTerm T x (g, false))

theorem accLogPs_eq {μ : Type} (T : ℝ) (x : List ℝ) (t : Tree ℝ μ) (acc : ℝ) :
    (pathsSpec t).map (fun e => acc + (e.2.map (docTerm T x)).sum) = accLogPs T x t acc := by
  induction t generalizing acc with
  | leaf m => simp [pathsSpec, accLogPs]
  | node g l r ihl ihr =>
    simp only [pathsSpec, accLogPs, List.map_append, List.map_map, Function.comp_def, List.map_cons,
      List.sum_cons, ← add_assoc]
    rw [← ihl, ← ihr]

/-- The same as functions of the temperature. -/
noncomputable def accF {μ : Type} (x : List ℝ) : Tree ℝ μ → (ℝ → ℝ) → List (ℝ → ℝ)
  | .leaf _, A => [A]
  | .node g l r, A => accF x l (fun T => A T + docTerm T x (g, true)) ++ accF x r (fun T => A T + docTerm T x (g, false))

theorem accF_eval {μ : Type} (x : List ℝ) (t : Tree ℝ μ) (A : ℝ → ℝ) (T : ℝ) :
    (accF x t A).map (fun F => F T) = accLogPs T x t (A T) := by
  induction t generalizing A with
  | leaf m => simp [accF, accLogPs]
  | node g l r ihl ihr => simp [accF, accLogPs, ihl, ihr]

theorem accF_length {μ : Type} (x : List ℝ) (t : Tree ℝ μ) (A : ℝ → ℝ) : (accF x t A).length = t.nleaves := by
  induction t generalizing A with
  | leaf m => simp [accF, Tree.nleaves]
  | node g l r ihl ihr => simp [accF, Tree.nleaves, ihl, ihr]

theorem docTerm_true (T : ℝ) (x : List ℝ) (g : Gate ℝ) :
    docTerm T x (g, true) = logSigmoid (-(((dot x g.dir - g.thr) / g.scale) / T)) := by
  simp only [docTerm, log_sigmoid, if_true]
  rw [div_mul_eq_div_div_swap]

theorem docTerm_false (T : ℝ) (x : List ℝ) (g : Gate ℝ) :
    docTerm T x (g, false) = logSigmoid (((dot x g.dir - g.thr) / g.scale) / T) := by
  simp only [docTerm, log_sigmoid, Bool.false_eq_true, if_false]
  rw [div_mul_eq_div_div_swap]

theorem docTerm_nonpos (T : ℝ) (x : List ℝ) (ge : Gate ℝ × Bool) : docTerm T x ge ≤ 0 := by
  simp only [docTerm, log_sigmoid]
  exact logSigmoid_nonpos _

theorem accF_le {μ : Type} (x : List ℝ) (t : Tree ℝ μ) (A : ℝ → ℝ) : ∀ F ∈ accF x t A, ∀ T, F T ≤ A T := by
  induction t generalizing A with
  | leaf m => intro F hF T; simp [accF] at hF; rw [hF]
  | node g l r ihl ihr =>
    intro F hF T
    simp only [accF, List.mem_append] at hF
    rcases hF with hF | hF
    · have := ihl _ F hF T; linarith [docTerm_nonpos T x (g, true)]
    · have := ihr _ F hF T; linarith [docTerm_nonpos T x (g, false)]

/-- The side hard routing takes has a gate term tending to 0, the other side to −∞ (no zero logit, σ > 0). -/
theorem docTerm_limits (x : List ℝ) (g : Gate ℝ) (hs : 0 < g.scale) (hne : dot x g.dir ≠ g.thr) :
    Tendsto (fun T => docTerm T x (g, hardLeft (dot x g.dir) g.thr)) (𝓝[>] 0) (𝓝 0) ∧
    Tendsto (fun T => docTerm T x (g, !hardLeft (dot x g.dir) g.thr)) (𝓝[>] 0) atBot := by
  rcases lt_or_gt_of_ne hne with h | h
  · -- goes left
    have hl : hardLeft (dot x g.dir) g.thr = true := by simp [hardLeft, le_of_lt h]
    have hc : 0 < -((dot x g.dir - g.thr) / g.scale) := by
      rw [neg_pos]; exact div_neg_of_neg_of_pos (by linarith) hs
    rw [hl]
    constructor
    · have := logSigmoid_pos_limit _ hc
      refine this.congr (fun T => ?_)
      rw [docTerm_true, neg_div]
    · have := logSigmoid_neg_limit _ hc
      refine this.congr (fun T => ?_)
      simp only [Bool.not_true]
      rw [docTerm_false, neg_div, neg_neg]
  · have hl : hardLeft (dot x g.dir) g.thr = false := by simp [hardLeft, h]
    have hc : 0 < (dot x g.dir - g.thr) / g.scale := div_pos (by linarith) hs
    rw [hl]
    constructor
    · have := logSigmoid_pos_limit _ hc
      refine this.congr (fun T => ?_)
      rw [docTerm_false]
    · have := logSigmoid_neg_limit _ hc
      refine this.congr (fun T => ?_)
      simp only [Bool.not_false]
      rw [docTerm_true]

theorem accF_atBot {μ : Type} (x : List ℝ) (t : Tree ℝ μ) (A : ℝ → ℝ) (hA : Tendsto A (𝓝[>] 0) atBot) :
    ∀ F ∈ accF x t A, Tendsto F (𝓝[>] 0) atBot :=
  fun F hF => tendsto_atBot_mono (accF_le x t A F hF) hA

/-- Splitting the leaves at the hard-routed one: its log-probability tends to 0, all others to −∞. -/
theorem accF_split {μ : Type} (x : List ℝ) (t : Tree ℝ μ)
    (hg : ∀ g ∈ t.gatesPre, 0 < g.scale ∧ dot x g.dir ≠ g.thr) (A : ℝ → ℝ) (hA : Tendsto A (𝓝[>] 0) (𝓝 0)) :
    ∃ F1 U F2, accF x t A = F1 ++ U :: F2 ∧ F1.length = hardIndex x t ∧ Tendsto U (𝓝[>] 0) (𝓝 0) ∧
      ∀ F ∈ F1 ++ F2, Tendsto F (𝓝[>] 0) atBot := by
  induction t generalizing A with
  | leaf m => exact ⟨[], A, [], by simp [accF], by simp [hardIndex], hA, by simp⟩
  | node g l r ihl ihr =>
    have hgg := hg g (by simp [Tree.gatesPre])
    have hgl : ∀ g' ∈ l.gatesPre, 0 < g'.scale ∧ dot x g'.dir ≠ g'.thr :=
      fun g' h => hg g' (by simp [Tree.gatesPre, h])
    have hgr : ∀ g' ∈ r.gatesPre, 0 < g'.scale ∧ dot x g'.dir ≠ g'.thr :=
      fun g' h => hg g' (by simp [Tree.gatesPre, h])
    obtain ⟨hz, hb⟩ := docTerm_limits x g hgg.1 hgg.2
    by_cases hl : hardLeft (dot x g.dir) g.thr = true
    · rw [hl] at hz hb
      simp only [Bool.not_true] at hb
      have hAl : Tendsto (fun T => A T + docTerm T x (g, true)) (𝓝[>] 0) (𝓝 0) := by
        simpa using hA.add hz
      have hAr : Tendsto (fun T => A T + docTerm T x (g, false)) (𝓝[>] 0) atBot := hA.add_atBot hb
      obtain ⟨F1, U, F2, he, hlen, hU, hF⟩ := ihl hgl _ hAl
      refine ⟨F1, U, F2 ++ accF x r (fun T => A T + docTerm T x (g, false)), ?_, ?_, hU, ?_⟩
      · simp [accF, he]
      · simp [hardIndex, hl, hlen]
      · intro F hF'
        simp only [List.mem_append] at hF'
        rcases hF' with h | h | h
        · exact hF F (List.mem_append_left _ h)
        · exact hF F (List.mem_append_right _ h)
        · exact accF_atBot x r _ hAr F h
    · have hl' : hardLeft (dot x g.dir) g.thr = false := by simpa using hl
      rw [hl'] at hz hb
      simp only [Bool.not_false] at hb
      have hAr : Tendsto (fun T => A T + docTerm T x (g, false)) (𝓝[>] 0) (𝓝 0) := by
        simpa using hA.add hz
      have hAl : Tendsto (fun T => A T + docTerm T x (g, true)) (𝓝[>] 0) atBot := hA.add_atBot hb
      obtain ⟨F1, U, F2, he, hlen, hU, hF⟩ := ihr hgr _ hAr
      refine ⟨accF x l (fun T => A T + docTerm T x (g, true)) ++ F1, U, F2, ?_, ?_, hU, ?_⟩
      · simp [accF, he]
      · simp [hardIndex, hl', hlen, accF_length]
      · intro F hF'
        simp only [List.mem_append] at hF'
        rcases hF' with (h | h) | h
        · exact accF_atBot x l _ hAl F h
        · exact hF F (List.mem_append_left _ h)
        · exact hF F (List.mem_append_right _ h)

theorem softmax_of_max (cl : List ℝ) (m : ℝ) (hm : m ∈ cl) (hle : ∀ v ∈ cl, v ≤ m) :
    softmax cl = cl.map (fun v => Real.exp (v - m) / (cl.map (fun v => Real.exp (v - m))).sum) := by
  cases cl with
  | nil => simp at hm
  | cons a as =>
    have h1 : maxL a as = m := by
      apply le_antisymm (hle _ (maxL_mem as a))
      rcases List.mem_cons.mp hm with rfl | h
      · exact (maxL_ge as _).1
      · exact (maxL_ge as a).2 m h
    simp only [softmax, sumL_eq, h1, List.map_map, Function.comp_def, exp_eq]

theorem logClamp_neg : (logClamp : ℝ) < 0 := by
  unfold logClamp; norm_num

theorem clampLog_of_le (v : ℝ) (h : v ≤ logClamp) : clampLog v = (logClamp : ℝ) := by
  simp [clampLog, max_eq_right h]

theorem clampLog_of_ge (v : ℝ) (h : logClamp ≤ v) : clampLog v = v := by
  simp [clampLog, max_eq_left h]

/-- One leaf above the clamp, all others at or below it: explicit weights. -/
theorem dominant_split (L1 L2 : List ℝ) (u : ℝ) (hL : ∀ v ∈ L1 ++ L2, v ≤ logClamp) (hu : logClamp < u) :
    (leafWeights (L1 ++ u :: L2)).getD L1.length 0 =
      1 / (1 + (((L1 ++ u :: L2).length : ℝ) - 1) * Real.exp (logClamp - u)) ∧
    ∀ i, i < (L1 ++ u :: L2).length → i ≠ L1.length →
      (leafWeights (L1 ++ u :: L2)).getD i 0 < (leafWeights (L1 ++ u :: L2)).getD L1.length 0 := by
  have h1 : L1.map clampLog = List.replicate L1.length (logClamp : ℝ) := by
    rw [List.eq_replicate_iff]
    refine ⟨by simp, ?_⟩
    intro b hb
    obtain ⟨v, hv, rfl⟩ := List.mem_map.mp hb
    exact clampLog_of_le v (hL v (List.mem_append_left _ hv))
  have h2 : L2.map clampLog = List.replicate L2.length (logClamp : ℝ) := by
    rw [List.eq_replicate_iff]
    refine ⟨by simp, ?_⟩
    intro b hb
    obtain ⟨v, hv, rfl⟩ := List.mem_map.mp hb
    exact clampLog_of_le v (hL v (List.mem_append_right _ hv))
  set b := Real.exp (logClamp - u) with hb
  have hbpos : 0 < b := Real.exp_pos _
  have hb1 : b < 1 := by
    rw [hb, ← Real.exp_zero]; exact Real.exp_lt_exp.mpr (by linarith)
  set n1 := L1.length
  set n2 := L2.length
  have hcl : (L1 ++ u :: L2).map clampLog = List.replicate n1 (logClamp : ℝ) ++ u :: List.replicate n2 (logClamp : ℝ) := by
    simp [h1, h2, clampLog_of_ge u (le_of_lt hu)]
  have hmem : u ∈ List.replicate n1 (logClamp : ℝ) ++ u :: List.replicate n2 (logClamp : ℝ) := by simp
  have hmax : ∀ v ∈ List.replicate n1 (logClamp : ℝ) ++ u :: List.replicate n2 (logClamp : ℝ), v ≤ u := by
    intro v hv
    simp only [List.mem_append, List.mem_replicate, List.mem_cons] at hv
    rcases hv with ⟨_, rfl⟩ | rfl | ⟨_, rfl⟩
    · exact le_of_lt hu
    · exact le_refl _
    · exact le_of_lt hu
  set S : ℝ := 1 + ((n1 : ℝ) + n2) * b with hS
  have hSpos : 0 < S := by positivity
  have hw : leafWeights (L1 ++ u :: L2) = List.replicate n1 (b / S) ++ (1 / S) :: List.replicate n2 (b / S) := by
    unfold leafWeights
    rw [hcl, softmax_of_max _ u hmem hmax]
    have hsum : ((List.replicate n1 (logClamp : ℝ) ++ u :: List.replicate n2 (logClamp : ℝ)).map
        (fun v => Real.exp (v - u))).sum = S := by
      simp [List.sum_replicate, hS, ← hb]; ring
    rw [hsum]
    simp [← hb]
  have hlen : ((L1 ++ u :: L2).length : ℝ) - 1 = (n1 : ℝ) + n2 := by
    simp [n1, n2]; ring
  have htop : (leafWeights (L1 ++ u :: L2)).getD n1 0 = 1 / S := by
    rw [hw, List.getD_eq_getElem?_getD, List.getElem?_append_right (by simp)]
    simp
  refine ⟨by rw [htop, hlen], ?_⟩
  intro i hi hne
  rw [htop, hw, List.getD_eq_getElem?_getD]
  have hlt : b / S < S⁻¹ := by
    have := div_lt_div_of_pos_right hb1 hSpos
    simpa [one_div] using this
  rcases lt_or_gt_of_ne hne with h | h
  · rw [List.getElem?_append_left (by simpa using h)]
    simp [h, hlt]
  · rw [List.getElem?_append_right (by simp; omega)]
    have hi' : i - n1 - 1 < n2 := by simp [n1, n2] at hi ⊢; omega
    obtain ⟨k, hk⟩ : ∃ k, i - (List.replicate n1 (b / S)).length = k + 1 := ⟨i - n1 - 1, by simp; omega⟩
    rw [hk]
    have hk2 : k < n2 := by simp at hk; omega
    simp [hk2, hlt]

theorem eventually_forall_mem {ι : Type} (l : Filter ℝ) (L : List ι) (P : ι → ℝ → Prop)
    (h : ∀ F ∈ L, ∀ᶠ T in l, P F T) : ∀ᶠ T in l, ∀ F ∈ L, P F T := by
  induction L with
  | nil => simp
  | cons a L ih =>
    have h1 := h a (by simp)
    have h2 := ih (fun F hF => h F (List.mem_cons_of_mem _ hF))
    filter_upwards [h1, h2] with T ha hL
    intro F hF
    rcases List.mem_cons.mp hF with rfl | hF
    · exact ha
    · exact hL F hF

theorem hardIndex_lt {μ : Type} (x : List ℝ) (t : Tree ℝ μ) : hardIndex x t < t.nleaves := by
  induction t with
  | leaf m => simp [hardIndex, Tree.nleaves]
  | node g l r ihl ihr =>
    simp only [hardIndex, Tree.nleaves]
    split <;> omega

theorem hard_pred {μ : Type} (x : List ℝ) (t : Tree ℝ μ) (f : μ → ℝ) :
    ((pathsSpec t).map (fun e => f e.1)).getD (hardIndex x t) 0 = f (hardRoute x t) := by
  induction t with
  | leaf m => simp [pathsSpec, hardIndex, hardRoute]
  | node g l r ihl ihr =>
    simp only [pathsSpec, hardIndex, hardRoute, List.map_append, List.map_map, Function.comp_def]
    have hll : ((pathsSpec l).map (fun e => f e.1)).length = l.nleaves := by simp [pathsSpec_length]
    split
    · rw [List.getD_eq_getElem?_getD, List.getElem?_append_left (by rw [hll]; exact hardIndex_lt x l),
        ← List.getD_eq_getElem?_getD]
      exact ihl
    · rw [List.getD_eq_getElem?_getD, List.getElem?_append_right (by rw [hll]; omega), hll,
        Nat.add_sub_cancel_left, ← List.getD_eq_getElem?_getD]
      exact ihr

/-- **T → 0⁺.** -/
theorem limit_T0_main {μ : Type} (t : Tree ℝ μ) (x : List ℝ) (keep : ℝ) (cap : ℕ) (f : μ → ℝ)
    (hg : ∀ g ∈ t.gatesPre, 0 < g.scale ∧ dot x g.dir ≠ g.thr)
    (hkeep : keep < 1 / (1 + ((t.nleaves : ℝ) - 1) * Real.exp logClamp)) :
    ∀ᶠ T in 𝓝[>] (0 : ℝ), ∀ perm, SortContract (leafWeights (rowLogPs T (buildCache t) x)) perm →
      perm.headD 0 = hardIndex x t ∧ softPredict T keep cap t x perm f = f (hardRoute x t) := by
  obtain ⟨F1, U, F2, he, hlen, hU, hF⟩ := accF_split x t hg (fun _ => 0) tendsto_const_nhds
  have ev1 : ∀ᶠ T in 𝓝[>] (0 : ℝ), ∀ F ∈ F1 ++ F2, F T ≤ logClamp :=
    eventually_forall_mem _ _ (fun F T => F T ≤ logClamp)
      (fun F h => (hF F h).eventually (eventually_le_atBot _))
  have ev2 : ∀ᶠ T in 𝓝[>] (0 : ℝ), logClamp < U T := hU.eventually (lt_mem_nhds logClamp_neg)
  have hGc : Continuous (fun u : ℝ => 1 / (1 + ((t.nleaves : ℝ) - 1) * Real.exp (logClamp - u))) := by
    apply Continuous.div continuous_const
    · exact continuous_const.add (continuous_const.mul (Real.continuous_exp.comp (continuous_const.sub continuous_id)))
    · intro u
      have : (0 : ℝ) ≤ (t.nleaves : ℝ) - 1 := by
        have := nleaves_pos t
        have : (1 : ℝ) ≤ (t.nleaves : ℝ) := by exact_mod_cast this
        linarith
      have := mul_nonneg this (le_of_lt (Real.exp_pos (logClamp - u)))
      linarith
  have ev3 : ∀ᶠ T in 𝓝[>] (0 : ℝ), keep < 1 / (1 + ((t.nleaves : ℝ) - 1) * Real.exp (logClamp - U T)) := by
    have := (hGc.tendsto 0).comp hU
    simp only [sub_zero] at this
    exact this.eventually (lt_mem_nhds hkeep)
  filter_upwards [ev1, ev2, ev3] with T h1 h2 h3
  intro perm hs
  -- the row's log-probabilities, split at the hard-routed leaf
  have hl : rowLogPs T (buildCache t) x = F1.map (fun F => F T) ++ U T :: F2.map (fun F => F T) := by
    rw [rowLogPs_documented]
    have := accLogPs_eq T x t 0
    simp only [zero_add] at this
    rw [this, ← accF_eval x t (fun _ => 0) T, he]
    simp
  have hLs : ∀ v ∈ F1.map (fun F => F T) ++ F2.map (fun F => F T), v ≤ logClamp := by
    intro v hv
    rw [← List.map_append] at hv
    obtain ⟨F, hFm, rfl⟩ := List.mem_map.mp hv
    exact h1 F hFm
  obtain ⟨htop, hstrict⟩ := dominant_split (F1.map (fun F => F T)) (F2.map (fun F => F T)) (U T) hLs h2
  rw [← hl] at htop hstrict
  have hN : (rowLogPs T (buildCache t) x).length = t.nleaves := rowLogPs_length T t x
  simp only [List.length_map, hlen, hN] at htop hstrict
  have hne : rowLogPs T (buildCache t) x ≠ [] := by
    intro h; rw [h] at hN; have := nleaves_pos t; simp at hN; omega
  have hw := leafWeights_spec _ hne
  have hp : perm ≠ [] := by
    intro h
    have h1' := hs.length_eq
    rw [h, hw.1, hN] at h1'
    have := nleaves_pos t
    simp at h1'; omega
  have hhead : perm.headD 0 = hardIndex x t := by
    by_contra hcon
    have hmem : perm.headD 0 ∈ perm := by
      cases perm with
      | nil => exact absurd rfl hp
      | cons a l => simp
    have hi0 : perm.headD 0 < t.nleaves := by
      have := hs.lt _ hmem
      rwa [hw.1, hN] at this
    have hlt := hstrict (perm.headD 0) hi0 hcon
    have htake : perm.take 1 = [perm.headD 0] := by
      cases perm with
      | nil => exact absurd rfl hp
      | cons a l => simp
    have := hs.top_le 1 (perm.headD 0) (by rw [htake]; simp) (hardIndex x t)
      (by rw [hw.1, hN]; exact hardIndex_lt x t)
      (by rw [htake]; intro h; exact hcon (List.mem_singleton.mp h).symm)
    linarith
  refine ⟨hhead, ?_⟩
  have hdom : keep < (leafWeights (rowLogPs T (buildCache t) x)).getD (perm.headD 0) 0 := by
    rw [hhead, htop]; exact h3
  have hk := keptOf_dominant keep cap _ (fun v hv => le_of_lt (hw.2.1 v hv)) perm (Or.inl hdom) hp
  simp only [softPredict, cache_preds]
  rw [mixture_single keep cap _ hne perm hs _ _ hk, hhead]
  exact hard_pred x t f

end limit

end Xrfmv.Soft
