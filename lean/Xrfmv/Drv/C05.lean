/- Driver ops for C05 (reused by C02/C19/…): kernel matrices of `Xrfmv.Kernel` at `Float`,
alias resolution through the regenerated `Gen.Alias`. -/
import Xrfmv.Drv.Common
import Xrfmv.Model.Kernel
import Xrfmv.Model.KernelGen

open Lean Xrfmv.Drv

namespace Xrfmv.Drv.C05
open Xrfmv.Kernel

def rows (a : Array (Array Float)) : List (List Float) := (a.map Array.toList).toList

def toArr (m : List (List Float)) : Array (Array Float) := (m.map List.toArray).toArray

/-- all rows have `d` entries -/
def rect (d : Nat) (m : List (List Float)) : Bool := m.all fun r => r.length == d

/-- `"transform": null | {"kind":"none"} | {"kind":"diag","v":[bits]} | {"kind":"full","cols":[[bits]]}`
(`cols[j]` = column `j` of the `d_in × d_out` matrix `mat`); `d` = number of input features. -/
def getTransform (j : Json) (d : Nat) : Except String (Transform Float) :=
  match j.getObjVal? "transform" with
  | .error _ => pure .none
  | .ok Json.null => pure .none
  | .ok t => do
    let kind ← t.getObjValAs? String "kind"
    if kind == "none" then pure .none
    else if kind == "diag" then
      let v ← getFs t "v"
      if v.size != d then throw "bad-op: diagonal transform of the wrong length"
      pure (.diag v.toList)
    else if kind == "full" then
      let c := rows (← getFss t "cols")
      if !rect d c then throw "bad-op: full transform with the wrong number of rows"
      pure (.full c)
    else throw s!"bad-op: transform kind {kind}"

/-- `"kind"` ∈ laplace | light | product | lpq | sum_power with the parameters that class takes. -/
def getSpec (j : Json) : Except String (Spec Float) := do
  let kind ← j.getObjValAs? String "kind"
  let L ← getF j "L"
  let q ← getF j "q"
  if kind == "laplace" then pure (.laplace q L)
  else if kind == "light" then pure (.light q L)
  else if kind == "product" then pure (.product q L)
  else if kind == "lpq" then pure (.lpq (← getF j "p") q L)
  else if kind == "sum_power" then pure (.sumPower q L (← getF j "c") (← getF j "P"))
  else throw s!"bad-op: kernel kind {kind}"

def getPoints (j : Json) : Except String (List (List Float) × List (List Float) × Nat) := do
  let xs := rows (← getFss j "x")
  let zs := rows (← getFss j "z")
  let d := match xs.head? with
    | some r => r.length
    | none => (zs.head?.map List.length).getD 0
  if !(rect d xs && rect d zs) then throw "bad-op: rows of x and z must have one common length"
  pure (xs, zs, d)

def className : Gen.Alias.KernelClass → String
  | .Laplace => "LaplaceKernel"
  | .LightLaplace => "LightLaplaceKernel"
  | .ProductLaplace => "ProductLaplaceKernel"
  | .Lpq => "LpqLaplaceKernel"
  | .SumPower => "SumPowerLaplaceKernel"

def argName : Gen.Alias.Arg → String
  | .bandwidth => "bandwidth"
  | .exponent => "exponent"
  | .normP => "norm_p"
  | .constMix => "const_mix"
  | .power => "power"
  | .eps => "eps"

def specJson : Spec Float → Json
  | .laplace q L => Json.mkObj [("kind", "laplace"), ("q", fJson q), ("L", fJson L)]
  | .light q L => Json.mkObj [("kind", "light"), ("q", fJson q), ("L", fJson L)]
  | .product q L => Json.mkObj [("kind", "product"), ("q", fJson q), ("L", fJson L)]
  | .lpq p q L => Json.mkObj [("kind", "lpq"), ("p", fJson p), ("q", fJson q), ("L", fJson L)]
  | .sumPower q L c P => Json.mkObj [("kind", "sum_power"), ("q", fJson q), ("L", fJson L), ("c", fJson c), ("P", fJson P)]

/-- `get_kernel_matrix(x, z, mat)` of a kernel object. -/
def opKernelMatrix : Handler := fun j => do
  let K ← getSpec j
  if !K.accepted then throw "bad-op: parameters rejected by the constructor (AssertionError)"
  let (xs, zs, d) ← getPoints j
  let T ← getTransform j d
  pure <| Json.mkObj [("K", fssJson (toArr (matrixFast K T xs zs))),
    -- the same matrix through the chain of tensor operations regenerated from `_get_kernel_matrix_impl`
    ("Kgen", fssJson (toArr (KernelOps.genMatrix K T xs zs)))]

def nanF : Float := 0.0 / 0.0

def optF (j : Json) (k : String) : Except String Float :=
  match j.getObjVal? k with
  | .ok Json.null => pure nanF
  | .ok _ => getF j k
  | .error _ => pure nanF

/-- `RFM(kernel=<alias>, bandwidth, exponent, norm_p, const_mix, power).kernel(x, z)`; `"L"` (optional)
= bandwidth in use when it differs from the configured one (adaptive mode). -/
def opAliasMatrix : Handler := fun j => do
  let alias ← j.getObjValAs? String "alias"
  let a : RfmArgs Float := {
    bandwidth := ← getF j "bandwidth", exponent := ← getF j "exponent", normP := ← optF j "norm_p",
    constMix := ← getF j "const_mix", power := ← getF j "power", eps := ← optF j "eps" }
  match specOfAlias alias a with
  | none =>
      if (Gen.Alias.aliases.lookup alias).isNone then
        throw (if Gen.Alias.unknownRaisesValueError then "bad-op: unknown alias (ValueError)" else "bad-op: unknown alias")
      else throw "bad-op: constructor parameter not passed"
  | some K0 =>
    if !K0.accepted then throw "bad-op: parameters rejected by the constructor (AssertionError)"
    let K ← match j.getObjVal? "L" with
      | .ok Json.null => pure K0
      | .ok _ => do pure (K0.withL (← getF j "L"))
      | .error _ => pure K0
    let (xs, zs, d) ← getPoints j
    let T ← getTransform j d
    let cls := ((Gen.Alias.aliases.lookup alias).map className).getD ""
    pure <| Json.mkObj [("cls", toJson cls), ("spec", specJson K),
      ("K", fssJson (toArr (matrixFast K T xs zs))),
      ("Kgen", fssJson (toArr (KernelOps.genMatrix K T xs zs)))]

/-- The regenerated alias table. -/
def opAliases : Handler := fun _ => do
  let tab := Gen.Alias.aliases.map fun (s, c) =>
    let kw := (Gen.Alias.ctorArgs.lookup s).getD []
    Json.arr #[toJson s, toJson (className c), Json.arr (kw.map fun (p, a) => Json.arr #[toJson p, toJson (argName a)]).toArray]
  pure <| Json.mkObj [("aliases", Json.arr tab.toArray),
    ("unknownRaisesValueError", toJson Gen.Alias.unknownRaisesValueError)]

def ops : List (String × Handler) :=
  [("kernel_matrix", opKernelMatrix), ("alias_matrix", opAliasMatrix), ("aliases", opAliases)]

end Xrfmv.Drv.C05
