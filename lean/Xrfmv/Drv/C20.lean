/- Driver ops for C20 (none yet). -/
import Xrfmv.Drv.Common

namespace Xrfmv.Drv.C20

def ops : List (String × Handler) := []

end Xrfmv.Drv.C20
