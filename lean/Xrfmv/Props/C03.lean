/-
C03 — Leaf model selection returns a best-validation iterate for every score history.

Statements are about `Xrfmv.FitLoop.fit`, the interpreter of the *regenerated* program
`Xrfmv.Gen.Select` (loop body, guards, snapshot plans of `RFM.fit` / `update_best_params` /
`_should_early_stop`), run on real-valued scores embedded in `EReal` (initial best `±∞`).
Iterate `i` = (weights solved in iteration `i`, feature matrix after `i` AGOP updates, bandwidth
adapted at `i`); `i = iters` is the final refit.  Unbounded: any `iters`, any score history.
-/
import Xrfmv.Lemmas.FitLoop

namespace Xrfmv.Props.C03
open Xrfmv.FitLoop

/-- The real-valued history fed to the machine. -/
noncomputable abbrev hist (s : ℕ → ℝ) : ℕ → EReal := fun n => ((s n : ℝ) : EReal)

/-- **C03(1)** With `return_best_params=True` the returned weights, feature matrix, its root and the
bandwidth all carry the tag of one *evaluated* iterate `j`, and no evaluated iterate is strictly
better than `j` in the declared direction.  (Which optimum is returned on ties is left open.) -/
theorem selected_optimal (cfg : Cfg EReal) (s : ℕ → ℝ) (μ : ℝ)
    (hrb : cfg.returnBest = true) (hmu : cfg.mult = ((μ : ℝ) : EReal)) :
    let r := fit cfg (hist s)
    ∃ j ∈ r.evals,
      r.fin = { w := some j, m := j, sq := j, bw := if cfg.adaptive then j else 0 } ∧
      ∀ k ∈ r.evals, ¬ better cfg.maximize (s k) (s j) := by
  obtain ⟨n, j, hj, _, hev, hfin, _, hsj, _, _⟩ := fit_spec cfg s μ hrb hmu
  refine ⟨j, ?_, hfin, ?_⟩
  · show j ∈ (fit cfg (hist s)).evals
    unfold hist; rw [hev]; exact List.mem_range.mpr (by omega)
  · intro k hk
    have hk' : k ∈ (fit cfg (fun n => ((s n : ℝ) : EReal))).evals := hk
    rw [hev] at hk'
    rw [hsj]
    exact runBest_optimal cfg.maximize s n k (by have := List.mem_range.mp hk'; omega)

/-- **C03(2)** The evaluated iterates are exactly `0..n`; with early stopping `n` is the *first*
iterate whose score is worse than the best so far by more than the multiplier (all earlier iterates,
and `n` itself, remain candidates by C03(1)); otherwise every iterate and the final refit (`n = iters`)
are evaluated. -/
theorem evaluated_prefix (cfg : Cfg EReal) (s : ℕ → ℝ) (μ : ℝ)
    (hrb : cfg.returnBest = true) (hmu : cfg.mult = ((μ : ℝ) : EReal)) :
    let r := fit cfg (hist s)
    ∃ n ≤ cfg.iters, r.evals = List.range (n + 1) ∧
      (∀ k < n, ¬ (cfg.earlyStop = true ∧ stopCond cfg.maximize μ s k)) ∧
      (n < cfg.iters → cfg.earlyStop = true ∧ stopCond cfg.maximize μ s n) ∧
      (r.stopped = true ↔ n < cfg.iters) := by
  obtain ⟨n, j, _, hn, hev, _, _, _, hno, hcase⟩ := fit_spec cfg s μ hrb hmu
  refine ⟨n, hn, hev, hno, ?_, ?_⟩
  · intro hlt
    rcases hcase with ⟨_, _, hes, hsc⟩ | ⟨_, hn'⟩
    · exact ⟨hes, hsc⟩
    · omega
  · rcases hcase with ⟨hst, hlt, _, _⟩ | ⟨hst, hn'⟩
    · exact ⟨fun _ => hlt, fun _ => hst⟩
    · constructor
      · intro h; rw [hst] at h; cases h
      · intro h; omega

/-- **C03(3)** The recorded `best_iter` is the selected iterate. -/
theorem best_iter_is_selected (cfg : Cfg EReal) (s : ℕ → ℝ) (μ : ℝ)
    (hrb : cfg.returnBest = true) (hmu : cfg.mult = ((μ : ℝ) : EReal)) :
    let r := fit cfg (hist s)
    ∃ j, r.bestIter = some j ∧ r.fin.w = some j := by
  obtain ⟨_, j, _, _, _, hfin, hit, _⟩ := fit_spec cfg s μ hrb hmu
  exact ⟨j, hit, by unfold hist; rw [hfin]⟩

/-- With `return_best_params=False` (not the property's case, by design of the option) the last
refit is returned and all iterates are evaluated; in particular early stopping never fires. -/
theorem returns_last (cfg : Cfg EReal) (s : ℕ → ℝ) (μ : ℝ)
    (hrb : cfg.returnBest = false) (hmu : cfg.mult = ((μ : ℝ) : EReal)) (hμ : 0 < μ) :
    let r := fit cfg (hist s)
    r.fin = { w := some cfg.iters, m := cfg.iters, sq := cfg.iters,
              bw := if cfg.adaptive then cfg.iters else 0 } ∧
    r.evals = List.range (cfg.iters + 1) ∧ r.stopped = false :=
  fit_last cfg s μ hrb hmu hμ

/-- Non-vacuity: the hypotheses are met by a concrete configuration (accuracy-like metric, early
stopping with multiplier 1.1, five iterations) and any history. -/
example : ∃ cfg : Cfg EReal, cfg.returnBest = true ∧ cfg.mult = (((1.1 : ℝ)) : EReal) ∧ cfg.iters = 5 :=
  ⟨{ maximize := true, returnBest := true, earlyStop := true, adaptive := true,
     mult := (((1.1 : ℝ)) : EReal), iters := 5 }, rfl, rfl, rfl⟩

end Xrfmv.Props.C03
