/- Driver ops for C06 (none yet). -/
import Xrfmv.Drv.Common

namespace Xrfmv.Drv.C06

def ops : List (String × Handler) := []

end Xrfmv.Drv.C06
