/-
Model of the CPU kernels of `xrfm/rfm_src/kernels.py` (`Kernel._transform_m`, `LaplaceKernel`,
`LightLaplaceKernel`, `ProductLaplaceKernel`, `LpqLaplaceKernel`, `SumPowerLaplaceKernel`:
`_get_kernel_matrix_impl`) and of the alias resolution of `RFM.kernel_from_str` (through the
regenerated `Xrfmv.Gen.Alias`).

Mathlib-free and scalar-generic: no law is assumed of the operations, so the same definitions run
at `Float` (driver, `Drv/C05.lean`) and are reasoned about at `ℝ` (`Lemmas/Kernel.lean`).
Vectors are `List α`; a matrix of points is a list of rows.
-/
import Xrfmv.Scalar
import Xrfmv.Gen.Alias

namespace Xrfmv.Kernel
open Xrfmv

/-! ### sums, dot product -/
section basic
variable {α : Type} [Add α] [Mul α] [OfNat α 0] [OfNat α 1]

/-- `Σ l` (right fold; the order of a floating-point summation is not modelled). -/
def sumL (l : List α) : α := l.foldr (· + ·) 0

/-- `⟨x, y⟩` (truncates to the shorter list; rows are well-formed in every use). -/
def dot (x y : List α) : α := sumL (List.zipWith (· * ·) x y)

/-- number of entries of `l` as a scalar (`x.shape[1]` of the sum-power kernel). -/
def count (l : List α) : α := sumL (l.map fun _ => 1)

end basic

/-! ### feature transform (`Kernel._transform_m`) -/

/-- `mat` of `get_kernel_matrix(x, z, mat)`: `None`, a vector (diagonal matrix) or a full
`d_in × d_out` matrix.  The full matrix is held **by columns** (`cols[j]` = column `j`), because the
code multiplies the row vector from the left: `(x @ mat)_j = ⟨x, mat[:, j]⟩`. -/
inductive Transform (α : Type)
  | none
  | diag (v : List α)
  | full (cols : List (List α))

section transform
variable {α : Type} [Add α] [Mul α] [OfNat α 0]

/-- `Kernel._transform_m`: `x`, `x * mat[None, :]`, `x @ mat`. -/
def applyT : Transform α → List α → List α
  | .none, x => x
  | .diag v, x => List.zipWith (· * ·) x v
  | .full cols, x => cols.map (dot x)

end transform

/-! ### distances and kernel profiles -/
section core
variable {α : Type} [Add α] [Sub α] [Mul α] [Div α] [Neg α] [OfNat α 0] [OfNat α 1] [OfNat α 2]
  [Max α] [HasExp α] [HasRpow α] [HasAbs α]

/-- `|u_d − v_d|` per coordinate. -/
def absDiffs (u v : List α) : List α := List.zipWith (fun a b => HasAbs.abs (a - b)) u v

/-- `Σ_d |u_d − v_d|^p`. -/
def powSum (p : α) (u v : List α) : α := sumL ((absDiffs u v).map fun t => rpow t p)

/-- `‖u − v‖_p = (Σ_d |u_d − v_d|^p)^(1/p)` (`torch.cdist(u, v, p)`). -/
def pdist (p : α) (u v : List α) : α := rpow (powSum p u v) (1 / p)

/-- Laplace profile `g(d) = exp(−d^q / L^q)`. -/
def lap (q L d : α) : α := exp (-(rpow d q) / rpow L q)

/-- `LpqLaplaceKernel` / `LaplaceKernel` (`p = 2`) on transformed points: `exp(−‖u−v‖_p^q / L^q)`. -/
def lpqCore (p q L : α) (u v : List α) : α := lap q L (pdist p u v)

/-- `ProductLaplaceKernel` on transformed points: `exp(−Σ_d |u_d−v_d|^q / L^q)`
(the code takes `cdist(p=q)` to the power `q`). -/
def productCore (q L : α) (u v : List α) : α := exp (-(powSum q u v) / rpow L q)

/-- `SumPowerLaplaceKernel` on transformed points:
`((1−c)·mean_d exp(−|u_d−v_d|^q / L^q) + c)^P`. -/
def sumPowerCore (q L c P : α) (u v : List α) : α :=
  let e := (absDiffs u v).map fun t => exp (-(rpow t q) / rpow L q)
  rpow ((1 - c) * (sumL e / count e) + c) P

/-- Memory-light L2: `xᵀMx − 2xᵀMz + zᵀMz` computed with `M` itself (`M` passed as `mat`). -/
def lightSq (M : Transform α) (x z : List α) : α :=
  dot (applyT M x) x - 2 * dot (applyT M x) z + dot (applyT M z) z

/-- The profile of the light kernel from its three quadratic forms: clamp at 0, power `q/2`. -/
def lightProfile (q L xx xz zz : α) : α :=
  exp (-(rpow (max (xx - 2 * xz + zz) 0) (q / 2)) / rpow L q)

/-- `LightLaplaceKernel`: `exp(−max(xᵀMx − 2xᵀMz + zᵀMz, 0)^(q/2) / L^q)`. -/
def lightEntry (q L : α) (M : Transform α) (x z : List α) : α :=
  lightProfile q L (dot (applyT M x) x) (dot (applyT M x) z) (dot (applyT M z) z)

end core

/-! ### kernel objects -/

/-- A CPU kernel object with its parameters (`L` = bandwidth in use). -/
inductive Spec (α : Type)
  | laplace (q L : α)          -- LaplaceKernel(bandwidth=L, exponent=q)
  | light (q L : α)            -- LightLaplaceKernel(bandwidth=L, exponent=q); `mat` is `M`, not its root
  | product (q L : α)          -- ProductLaplaceKernel(bandwidth=L, exponent=q)
  | lpq (p q L : α)            -- LpqLaplaceKernel(bandwidth=L, p=p, q=q)
  | sumPower (q L c P : α)     -- SumPowerLaplaceKernel(bandwidth=L, exponent=q, const_mix=c, power=P)

namespace Spec
variable {α : Type}

def isLight : Spec α → Bool
  | .light .. => true
  | _ => false

def isSumPower : Spec α → Bool
  | .sumPower .. => true
  | _ => false

/-- bandwidth in use -/
def L : Spec α → α
  | .laplace _ L | .light _ L | .product _ L | .lpq _ _ L | .sumPower _ L _ _ => L

/-- exponent `q` -/
def q : Spec α → α
  | .laplace q _ | .light q _ | .product q _ | .lpq _ q _ | .sumPower q _ _ _ => q

/-- the same kernel with another bandwidth (adaptive mode) -/
def withL : Spec α → α → Spec α
  | .laplace q _, L => .laplace q L
  | .light q _, L => .light q L
  | .product q _, L => .product q L
  | .lpq p q _, L => .lpq p q L
  | .sumPower q _ c P, L => .sumPower q L c P

/-- What the constructors assert (`assert bandwidth > 0`, `exponent > 0`, `0 < p <= 2`, `0 < q <= p`,
`0 <= const_mix < 1`); everything else is rejected by the real code with `AssertionError`. -/
def accepted [LT α] [LE α] [DecidableLT α] [DecidableLE α] [OfNat α 0] [OfNat α 1] [OfNat α 2] : Spec α → Bool
  | .laplace q L | .light q L | .product q L => decide (0 < L) && decide (0 < q)
  | .lpq p q L => decide (0 < L) && decide (0 < p) && decide (p ≤ 2) && decide (0 < q) && decide (q ≤ p)
  | .sumPower q L c _ => decide (0 < L) && decide (0 < q) && decide (0 ≤ c) && decide (c < 1)

end Spec

section matrix
variable {α : Type} [Add α] [Sub α] [Mul α] [Div α] [Neg α] [OfNat α 0] [OfNat α 1] [OfNat α 2]
  [Max α] [HasExp α] [HasRpow α] [HasAbs α]

/-- Kernel value on already transformed points (every kernel but the light one). -/
def coreEntry : Spec α → List α → List α → α
  | .laplace q L, u, v => lpqCore 2 q L u v
  | .light q L, u, v => lpqCore 2 q L u v      -- not used: the light kernel never forms `T(x)`
  | .product q L, u, v => productCore q L u v
  | .lpq p q L, u, v => lpqCore p q L u v
  | .sumPower q L c P, u, v => sumPowerCore q L c P u v

/-- `k(x, z)`: one entry of `get_kernel_matrix(x, z, mat)`.  The transform is applied to **both**
arguments; for the light kernel `mat` is `M` and enters through the three quadratic forms. -/
def entry (K : Spec α) (T : Transform α) (x z : List α) : α :=
  match K with
  | .light q L => lightEntry q L T x z
  | K => coreEntry K (applyT T x) (applyT T z)

/-- `get_kernel_matrix(x, z, mat)` as the map `(i, j) ↦ k(x_i, z_j)`. -/
def matrix (K : Spec α) (T : Transform α) (xs zs : List (List α)) : List (List α) :=
  xs.map fun x => zs.map fun z => entry K T x z

/-- The same matrix computed the way the code does (transform every row once; for the light kernel
the row forms `xᵀMx`, `zᵀMz` once): what the driver runs. -/
def matrixFast (K : Spec α) (T : Transform α) (xs zs : List (List α)) : List (List α) :=
  match K with
  | .light q L =>
      let zz := zs.map fun z => (z, dot (applyT T z) z)
      xs.map fun x =>
        let xm := applyT T x
        let xx := dot xm x
        zz.map fun zq => lightProfile q L xx (dot xm zq.1) zq.2
  | K =>
      let us := xs.map (applyT T)
      let vs := zs.map (applyT T)
      us.map fun u => vs.map fun v => coreEntry K u v

theorem matrixFast_eq (K : Spec α) (T : Transform α) (xs zs : List (List α)) :
    matrixFast K T xs zs = matrix K T xs zs := by
  cases K <;> simp [matrixFast, matrix, entry, lightEntry, List.map_map, Function.comp_def]

/-- Distance in the kernel's own norm after the transform (what `_adapt_bandwidth` takes the median
of, after its `**(1/exponent)`): `‖T(x)−T(z)‖_p` (`p = 2`, `q`, `p`), and
`sqrt(max(xᵀMx − 2xᵀMz + zᵀMz, 0))` for the light kernel.  The sum-power kernel has none. -/
def dist [HasSqrt α] (K : Spec α) (T : Transform α) (x z : List α) : α :=
  match K with
  | .laplace _ _ => pdist 2 (applyT T x) (applyT T z)
  | .light _ _ => sqrt (max (lightSq T x z) 0)
  | .product q _ => pdist q (applyT T x) (applyT T z)
  | .lpq p _ _ => pdist p (applyT T x) (applyT T z)
  | .sumPower .. => 0

end matrix

/-! ### `RFM.kernel_from_str` (CPU branch) through the regenerated table -/

/-- The arguments `RFM.__init__` forwards to `kernel_from_str`. -/
structure RfmArgs (α : Type) where
  bandwidth : α
  exponent : α
  normP : α
  constMix : α
  power : α
  eps : α

def RfmArgs.get {α : Type} (a : RfmArgs α) : Gen.Alias.Arg → α
  | .bandwidth => a.bandwidth
  | .exponent => a.exponent
  | .normP => a.normP
  | .constMix => a.constMix
  | .power => a.power
  | .eps => a.eps

/-- The kernel object `kernel_from_str(alias, …)` builds on CPU: class from `Gen.Alias.aliases`,
constructor parameters wired as `Gen.Alias.ctorArgs` says (parameter names of the constructors in
kernels.py: `bandwidth`, `exponent`, `p`, `q`, `const_mix`, `power`).  `none` = no branch matches
(the code raises `ValueError`) or a parameter the constructor requires is not passed. -/
def specOfAlias {α : Type} (alias : String) (a : RfmArgs α) : Option (Spec α) :=
  match Gen.Alias.aliases.lookup alias, Gen.Alias.ctorArgs.lookup alias with
  | some cls, some kw =>
      let arg (name : String) : Option α := (kw.lookup name).map a.get
      match cls with
      | .Laplace => do some (.laplace (← arg "exponent") (← arg "bandwidth"))
      | .LightLaplace => do some (.light (← arg "exponent") (← arg "bandwidth"))
      | .ProductLaplace => do some (.product (← arg "exponent") (← arg "bandwidth"))
      | .Lpq => do some (.lpq (← arg "p") (← arg "q") (← arg "bandwidth"))
      | .SumPower => do
          some (.sumPower (← arg "exponent") (← arg "bandwidth") (← arg "const_mix") (← arg "power"))
  | _, _ => none

end Xrfmv.Kernel
