#!/usr/bin/env python3
"""
Translator: Python `ast` of named functions of /repo/xrfm -> Lean definitions in lean/Xrfmv/Gen/.

Every Gen module is a list of *items* (one Lean declaration each).  An item is produced by a recipe
that walks the current source; when a recipe cannot find or understand its source (harmless refactor,
construct outside the translated subset) the item falls back to the text pinned in
extract/pinned.json and is reported as `tie: correspondence-only` -- never an alarm by itself.
When a recipe succeeds and the text differs from the pinned one, the Lean proofs decide.

Usage:  py2lean.py <repo> <out_dir> [--pin]     (--pin rewrites extract/pinned.json from this run)
Prints a JSON report {module: {item: "generated"|"pinned-fallback: <why>", ...}, "drift": [...]}.
"""
import ast
import json
import os
import sys

HERE = os.path.dirname(os.path.abspath(__file__))
# recipes do `import py2lean`; when this file runs as a script make that the very same module object
sys.modules.setdefault('py2lean', sys.modules[__name__])
PINNED = os.path.join(HERE, 'pinned.json')


class Unsupported(Exception):
    pass


# ------------------------------------------------------------------------------------------------
# source access
# ------------------------------------------------------------------------------------------------
class Src:
    def __init__(self, repo):
        self.repo = repo
        self._cache = {}

    def tree(self, rel):
        if rel not in self._cache:
            with open(os.path.join(self.repo, rel)) as f:
                self._cache[rel] = ast.parse(f.read())
        return self._cache[rel]

    def func(self, rel, cls, name):
        t = self.tree(rel)
        scope = t.body
        if cls is not None:
            for n in t.body:
                if isinstance(n, ast.ClassDef) and n.name == cls:
                    scope = n.body
                    break
            else:
                raise Unsupported(f'class {cls} not found in {rel}')
        for n in scope:
            if isinstance(n, ast.FunctionDef) and n.name == name:
                return n
        raise Unsupported(f'function {cls}.{name} not found in {rel}')

    def cls(self, rel, name):
        for n in self.tree(rel).body:
            if isinstance(n, ast.ClassDef) and n.name == name:
                return n
        raise Unsupported(f'class {name} not found in {rel}')


def U(node):
    return ast.unparse(node)


def strip_doc(body):
    out = []
    for s in body:
        if isinstance(s, ast.Expr) and isinstance(s.value, ast.Constant) and isinstance(s.value.value, str):
            continue
        out.append(s)
    return out


def is_print_or_verbose(s):
    """`if self.verbose: print(...)`, bare print, tqdm chatter."""
    if isinstance(s, ast.Expr) and isinstance(s.value, ast.Call) and U(s.value.func) == 'print':
        return True
    if isinstance(s, ast.If) and U(s.test) in ('self.verbose', 'verbose'):
        return all(is_print_or_verbose(b) for b in s.body) and not s.orelse
    return False


# ------------------------------------------------------------------------------------------------
# expression translation
# ------------------------------------------------------------------------------------------------
class Tr:
    """Translate Python expressions to Lean terms.

    env maps the *unparsed* Python sub-expression (e.g. 'self.max_leaf_size', 'n_samples') to a Lean
    term.  `num` gives the Lean numeric type for literals ('Int', 'α', ...)."""

    def __init__(self, env, num='Int'):
        self.env = env
        self.num = num

    def lit(self, v):
        if isinstance(v, bool):
            return 'true' if v else 'false'
        if isinstance(v, int):
            return f'({v} : {self.num})' if v >= 0 else f'(-{-v} : {self.num})'
        if isinstance(v, float):
            if v != v or v in (float('inf'), float('-inf')):
                raise Unsupported('non-finite literal')
            r = repr(v)
            if 'e' in r or 'E' in r:
                raise Unsupported(f'literal {r}')
            return f'({r} : {self.num})' if v >= 0 else f'(-{repr(-v)} : {self.num})'
        raise Unsupported(f'literal {v!r}')

    def num_expr(self, n):
        key = U(n)
        if key in self.env:
            return self.env[key]
        if isinstance(n, ast.Constant):
            return self.lit(n.value)
        if isinstance(n, ast.UnaryOp) and isinstance(n.op, ast.USub):
            if isinstance(n.operand, ast.Constant):
                return self.lit(-n.operand.value)
            return f'(-{self.num_expr(n.operand)})'
        if isinstance(n, ast.BinOp):
            a, b = self.num_expr(n.left), self.num_expr(n.right)
            if isinstance(n.op, ast.Add):
                return f'({a} + {b})'
            if isinstance(n.op, ast.Sub):
                return f'({a} - {b})'
            if isinstance(n.op, ast.Mult):
                return f'({a} * {b})'
            if isinstance(n.op, ast.Div):
                if self.num == 'Int':
                    raise Unsupported('true division on Int')
                return f'({a} / {b})'
            if isinstance(n.op, ast.FloorDiv):
                # Python // by a positive literal = floor = Lean Int `/` (Euclidean) for positive divisors
                if self.num == 'Int' and isinstance(n.right, ast.Constant) and isinstance(n.right.value, int) \
                        and n.right.value > 0:
                    return f'({a} / {b})'
                raise Unsupported('floor division by a non-literal or non-positive divisor')
            raise Unsupported(f'operator {type(n.op).__name__}')
        if isinstance(n, ast.Call):
            f = U(n.func)
            if f in ('min', 'max') and len(n.args) == 2 and not n.keywords:
                return f'({f} {self.num_expr(n.args[0])} {self.num_expr(n.args[1])})'
            if f == 'len' and len(n.args) == 1:
                k = f'len({U(n.args[0])})'
                if k in self.env:
                    return self.env[k]
            if f == 'float' and len(n.args) == 1:
                return self.num_expr(n.args[0])
        if isinstance(n, ast.IfExp):
            return f'(if {self.bool_expr(n.test)} then {self.num_expr(n.body)} else {self.num_expr(n.orelse)})'
        raise Unsupported(f'numeric expression `{key}`')

    def bool_expr(self, n):
        key = U(n)
        if key in self.env:
            return self.env[key]
        if isinstance(n, ast.Constant) and isinstance(n.value, bool):
            return self.lit(n.value)
        if isinstance(n, ast.BoolOp):
            op = ' && ' if isinstance(n.op, ast.And) else ' || '
            return '(' + op.join(self.bool_expr(v) for v in n.values) + ')'
        if isinstance(n, ast.UnaryOp) and isinstance(n.op, ast.Not):
            return f'!{self.bool_expr(n.operand)}'
        if isinstance(n, ast.Compare) and len(n.ops) == 1:
            op = n.ops[0]
            l, r = n.left, n.comparators[0]
            if isinstance(op, (ast.Is, ast.IsNot)) and isinstance(r, ast.Constant) and r.value is None:
                k = f'{U(l)} is None'
                if k in self.env:
                    return self.env[k] if isinstance(op, ast.Is) else f'!{self.env[k]}'
                raise Unsupported(f'`{key}`')
            sym = {ast.Lt: '<', ast.LtE: '≤', ast.Gt: '>', ast.GtE: '≥', ast.Eq: '=', ast.NotEq: '≠'}.get(type(op))
            if sym is None:
                raise Unsupported(f'comparison {type(op).__name__}')
            return f'decide ({self.num_expr(l)} {sym} {self.num_expr(r)})'
        raise Unsupported(f'boolean expression `{key}`')


# ------------------------------------------------------------------------------------------------
# Gen.Select  (recursive_feature_machine.py: update_best_params, _should_early_stop, fit, fit_predictor)
# ------------------------------------------------------------------------------------------------
RFM_PY = 'xrfm/rfm_src/recursive_feature_machine.py'

SELECT_HEADER = '''/-- Where a `best_*` variable is copied from when a branch of `update_best_params` fires. -/
inductive Src | weights | M | sqrtM | bandwidth | curMetric | curIter
  deriving DecidableEq, Repr

/-- Assignment plan of one branch of `update_best_params` (`none` = variable not assigned). -/
structure SnapPlan where
  metric : Option Src
  alphas : Option Src
  M : Option Src
  sqrtM : Option Src
  iter : Option Src
  bandwidth : Option Src
  deriving DecidableEq, Repr'''

STEP_DECL = '''/-- Statements of the main loop of `RFM.fit` that touch the selection state. -/
inductive Step
  | solve
  | score
  | update (ifReturnBest : Bool)
  | stopTest (ifEarlyStop : Bool) (fitMIfNotReturnBest : Bool)
  | fitM
  | delW
  deriving DecidableEq, Repr'''

RESTORE_DECL = '''/-- `RFM.fit`: attributes restored under `if return_best_params:` after the loop. -/
structure RestorePlan where
  ifReturnBest : Bool
  M : Bool
  sqrtM : Bool
  weights : Bool
  bandwidth : Bool
  deriving DecidableEq, Repr'''


def _update_chain(src):
    f = src.func(RFM_PY, 'RFM', 'update_best_params')
    body = strip_doc(f.body)
    chain = [s for s in body if isinstance(s, ast.If)]
    if len(chain) != 1:
        raise Unsupported('update_best_params: expected one if-chain')
    # the variable holding the direction flag
    flag = None
    for s in body:
        if isinstance(s, ast.Assign) and 'should_maximize' in U(s.value):
            flag = U(s.targets[0])
    if flag is None:
        raise Unsupported('update_best_params: direction flag not found')
    branches = []
    node = chain[0]
    while True:
        branches.append((node.test, node.body))
        if len(node.orelse) == 1 and isinstance(node.orelse[0], ast.If):
            node = node.orelse[0]
        elif not node.orelse:
            break
        else:
            raise Unsupported('update_best_params: else branch')
    ret = [s for s in body if isinstance(s, ast.Return)]
    if len(ret) != 1 or U(ret[0].value) != '(best_metric, best_alphas, best_M, best_sqrtM, best_iter, best_bandwidth)':
        raise Unsupported('update_best_params: return tuple changed')
    return flag, branches


def select_updateGuards(src):
    flag, branches = _update_chain(src)
    tr = Tr({flag: 'maximize', 'current_metric': 'cur', 'best_metric': 'best'}, num='α')
    gs = ', '.join(tr.bool_expr(t) for t, _ in branches)
    return ('/-- `RFM.update_best_params`: guards of the `if`/`elif` chain, in source order. -/\n'
            'def updateGuards {α : Type} [LT α] [DecidableLT α] (maximize : Bool) (cur best : α) : List Bool :=\n'
            f'  [{gs}]')


def select_updatePlans(src):
    _, branches = _update_chain(src)
    srcmap = {
        'current_metric': 'curMetric',
        'self.tensor_copy(self.weights)': 'weights',
        'current_iter': 'curIter',
        'self.kernel_obj.bandwidth + 0': 'bandwidth',
        'self.tensor_copy(self.M)': 'M',
        'self.tensor_copy(self.sqrtM)': 'sqrtM',
    }
    fields = {'best_metric': 'metric', 'best_alphas': 'alphas', 'best_M': 'M', 'best_sqrtM': 'sqrtM',
              'best_iter': 'iter', 'best_bandwidth': 'bandwidth'}
    plans = []
    for _, body in branches:
        got = {}
        for s in body:
            if is_print_or_verbose(s):
                continue
            if not (isinstance(s, ast.Assign) and len(s.targets) == 1 and U(s.targets[0]) in fields):
                raise Unsupported(f'update_best_params branch statement `{U(s)}`')
            v = U(s.value)
            if v not in srcmap:
                raise Unsupported(f'update_best_params: unknown snapshot source `{v}`')
            got[fields[U(s.targets[0])]] = srcmap[v]
        parts = ', '.join(f'{k} := ' + (f'some .{got[k]}' if k in got else 'none')
                          for k in ['metric', 'alphas', 'M', 'sqrtM', 'iter', 'bandwidth'])
        plans.append('{ ' + parts + ' }')
    return ('/-- `RFM.update_best_params`: what each branch assigns. -/\n'
            'def updatePlans : List SnapPlan :=\n  [' + ',\n   '.join(plans) + ']')


def select_shouldStop(src):
    f = src.func(RFM_PY, 'RFM', '_should_early_stop')
    body = strip_doc(f.body)
    body = [s for s in body if not (isinstance(s, ast.If) and U(s.test) == 'es_multiplier is None')]
    if len(body) != 1 or not isinstance(body[0], ast.If):
        raise Unsupported('_should_early_stop: shape')
    node = body[0]
    if not (len(node.body) == 1 and isinstance(node.body[0], ast.Return)
            and len(node.orelse) == 1 and isinstance(node.orelse[0], ast.Return)):
        raise Unsupported('_should_early_stop: branches')
    tr = Tr({'self.should_minimize': 'minimize', 'current_metric': 'cur', 'best_metric': 'best',
             'es_multiplier': 'mult'}, num='α')
    c = tr.bool_expr(node.test)
    a = tr.bool_expr(node.body[0].value)
    b = tr.bool_expr(node.orelse[0].value)
    return ('/-- `RFM._should_early_stop`. -/\n'
            'def shouldStop {α : Type} [LT α] [DecidableLT α] [Mul α] [Div α] (minimize : Bool) (cur best mult : α) : Bool :=\n'
            f'  if {c} then {a} else {b}')


def _fit(src):
    return src.func(RFM_PY, 'RFM', 'fit')


def select_initBest(src):
    f = _fit(src)
    for s in ast.walk(f):
        if isinstance(s, ast.Assign) and len(s.targets) == 1 and U(s.targets[0]) == 'best_metric' \
                and isinstance(s.value, ast.IfExp):
            v = s.value
            inf = {"float('inf')": 'HasInf.posInf', "float('-inf')": 'HasInf.negInf'}
            if U(v.body) in inf and U(v.orelse) in inf:
                tr = Tr({'self.should_minimize': 'minimize'})
                return ('/-- `RFM.fit`: initial `best_metric`. -/\n'
                        'def initBest {α : Type} [HasInf α] (minimize : Bool) : α :=\n'
                        f'  if {tr.bool_expr(v.test)} then {inf[U(v.body)]} else {inf[U(v.orelse)]}')
    raise Unsupported('fit: initial best_metric not found')


def _is_update_call(s, metric_var, iter_expr):
    """`best_... = self.update_best_params(best_..., <metric_var>[self.tuning_metric], <iter_expr>)`"""
    if not (isinstance(s, ast.Assign) and isinstance(s.value, ast.Call)
            and U(s.value.func) == 'self.update_best_params'):
        return False
    tgt = U(s.targets[0])
    if tgt != '(best_metric, best_alphas, best_M, best_sqrtM, best_iter, best_bandwidth)':
        raise Unsupported('fit: update_best_params result tuple changed')
    args = [U(a) for a in s.value.args]
    want = ['best_metric', 'best_alphas', 'best_M', 'best_sqrtM', 'best_iter', 'best_bandwidth',
            f'{metric_var}[self.tuning_metric]']
    if args[:7] != want or len(args) != 8:
        raise Unsupported(f'fit: update_best_params arguments changed: {args}')
    if args[7] not in iter_expr:
        raise Unsupported(f'fit: update_best_params iteration argument `{args[7]}`')
    return True


def _steps(body, metric_var, iter_expr, in_loop):
    steps = []
    for s in body:
        if is_print_or_verbose(s):
            continue
        txt = U(s)
        if isinstance(s, ast.If) and 'time_limit_s' in U(s.test):
            continue  # wall-clock limit: not modelled (no property quantifies over it)
        if isinstance(s, ast.If) and U(s.test) == 'callback is not None':
            continue
        if isinstance(s, ast.Assign) and U(s.value) == 'time.time()':
            continue
        if isinstance(s, ast.If) and U(s.test) == 'return_Ms':
            continue
        if isinstance(s, ast.Expr) and isinstance(s.value, ast.Call) and U(s.value.func) == 'self.fit_predictor':
            steps.append('.solve')
            continue
        if isinstance(s, ast.Assign) and isinstance(s.value, ast.Call) \
                and U(s.value.func) == 'self._compute_validation_metrics':
            if U(s.targets[0]) != metric_var:
                raise Unsupported(f'fit: metrics variable `{U(s.targets[0])}`')
            steps.append('.score')
            continue
        if isinstance(s, ast.If) and U(s.test) == 'return_best_params' and not s.orelse \
                and len(s.body) == 1 and _is_update_call(s.body[0], metric_var, iter_expr):
            steps.append('.update true')
            continue
        if _is_update_call(s, metric_var, iter_expr):
            steps.append('.update false')
            continue
        if in_loop and isinstance(s, ast.If) and U(s.test) == 'self.early_stop_rfm' and not s.orelse:
            steps.append(_stop_test(s.body, metric_var, guarded=True))
            continue
        if in_loop and isinstance(s, ast.If) and U(s.test).startswith('self._should_early_stop('):
            steps.append(_stop_test([s], metric_var, guarded=False))
            continue
        if isinstance(s, ast.Expr) and isinstance(s.value, ast.Call) and U(s.value.func) == 'self.fit_M':
            if any(k.arg == 'inplace' for k in s.value.keywords):
                raise Unsupported('fit: fit_M(inplace=...) in loop')
            steps.append('.fitM')
            continue
        if isinstance(s, ast.Delete) and txt == 'del self.weights':
            steps.append('.delW')
            continue
        raise Unsupported(f'fit: statement `{txt[:80]}`')
    return steps


def _stop_test(body, metric_var, guarded):
    cur_names = {f'{metric_var}[self.tuning_metric]'}
    test = None
    for s in body:
        if isinstance(s, ast.Assign) and U(s.value) in cur_names:
            cur_names.add(U(s.targets[0]))
            continue
        if isinstance(s, ast.If):
            test = s
            continue
        raise Unsupported(f'fit: early-stop block statement `{U(s)[:60]}`')
    if test is None or test.orelse:
        raise Unsupported('fit: early-stop test not found')
    call = test.test
    if not (isinstance(call, ast.Call) and U(call.func) == 'self._should_early_stop' and len(call.args) == 2
            and U(call.args[0]) in cur_names and U(call.args[1]) == 'best_metric' and not call.keywords):
        raise Unsupported(f'fit: early-stop call `{U(call)}`')
    fitm = False
    saw_flag = saw_break = False
    for s in test.body:
        if is_print_or_verbose(s):
            continue
        if isinstance(s, ast.If) and U(s.test) == 'not return_best_params' and not s.orelse and len(s.body) == 1 \
                and U(s.body[0]).startswith('self.fit_M('):
            fitm = True
            continue
        if U(s) == 'early_stopped = True':
            saw_flag = True
            continue
        if isinstance(s, ast.Break):
            saw_break = True
            continue
        raise Unsupported(f'fit: early-stop branch statement `{U(s)[:60]}`')
    if not (saw_flag and saw_break):
        raise Unsupported('fit: early-stop branch must set early_stopped and break')
    return f'.stopTest {"true" if guarded else "false"} {"true" if fitm else "false"}'


def _fit_parts(src):
    f = _fit(src)
    body = strip_doc(f.body)
    loop = [s for s in body if isinstance(s, ast.For)]
    if len(loop) != 1 or U(loop[0].iter) != 'range(self.iters)' or U(loop[0].target) != 'i':
        raise Unsupported('fit: main loop')
    idx = body.index(loop[0])
    after = body[idx + 1:]
    return f, loop[0], after


def select_loopBody(src):
    _, loop, _ = _fit_parts(src)
    steps = _steps(loop.body, 'val_metrics', {'i'}, in_loop=True)
    return ('/-- `RFM.fit`: body of `for i in range(self.iters)`. -/\n'
            'def loopBody : List Step :=\n  [' + ', '.join(steps) + ']')


def _final_if(after):
    for s in after:
        if isinstance(s, ast.If) and U(s.test) == 'not early_stopped' and not s.orelse:
            return s, True
    raise Unsupported('fit: `if not early_stopped:` block not found')


def select_finalBody(src):
    _, _, after = _fit_parts(src)
    blk, _ = _final_if(after)
    steps = _steps(blk.body, 'final_val_metrics', {'iters', 'self.iters'}, in_loop=False)
    return ('/-- `RFM.fit`: body of `if not early_stopped:` after the loop. -/\n'
            'def finalBody : List Step :=\n  [' + ', '.join(steps) + ']')


def select_finalGuard(src):
    _, _, after = _fit_parts(src)
    _final_if(after)
    return ('/-- `RFM.fit`: the final refit is guarded by `not early_stopped`. -/\n'
            'def finalGuardNotStopped : Bool := true')


def select_restore(src):
    _, _, after = _fit_parts(src)
    blk = None
    seen_final = False
    for s in after:
        if isinstance(s, ast.If) and U(s.test) == 'not early_stopped':
            seen_final = True
        if seen_final and isinstance(s, ast.If) and U(s.test) == 'return_best_params':
            blk = s
    if blk is None or blk.orelse:
        raise Unsupported('fit: restore block not found')
    want = {
        'self.M = None if best_M is None else best_M.to(self.device)': 'M',
        'self.sqrtM = None if best_sqrtM is None else best_sqrtM.to(self.device)': 'sqrtM',
        'self.weights = best_alphas.to(self.device)': 'weights',
        'self.kernel_obj.bandwidth = best_bandwidth': 'bandwidth',
    }
    got = set()
    for s in blk.body:
        if is_print_or_verbose(s):
            continue
        if U(s) not in want:
            raise Unsupported(f'fit: restore statement `{U(s)}`')
        got.add(want[U(s)])
    b = lambda k: 'true' if k in got else 'false'
    return ('def restore : RestorePlan :=\n'
            f'  {{ ifReturnBest := true, M := {b("M")}, sqrtM := {b("sqrtM")}, weights := {b("weights")}, '
            f'bandwidth := {b("bandwidth")} }}')


def select_resetBandwidth(src):
    f = src.func(RFM_PY, 'RFM', 'fit_predictor')
    body = strip_doc(f.body)
    reset_at = solve_at = None
    for k, s in enumerate(body):
        if isinstance(s, ast.If) and U(s.test) == "self.bandwidth_mode == 'adaptive'" \
                and 'self.reset_adaptive_bandwidth()' in U(s):
            reset_at = k
        if 'self.fit_predictor_lstsq(' in U(s) and solve_at is None:
            solve_at = k
    if solve_at is None:
        raise Unsupported('fit_predictor: solve not found')
    val = reset_at is not None and reset_at < solve_at
    return ('/-- `RFM.fit_predictor`: in adaptive mode the bandwidth is reset before the solve. -/\n'
            f'def resetBandwidthBeforeSolve : Bool := {"true" if val else "false"}')


# ------------------------------------------------------------------------------------------------
# module table
# ------------------------------------------------------------------------------------------------
def const(text):
    return lambda src: text


MODULES = {
    'Select': {
        'source': RFM_PY,
        'imports': ['Xrfmv.Scalar'],
        'items': [
            ('decls', const(SELECT_HEADER)),
            ('updateGuards', select_updateGuards),
            ('updatePlans', select_updatePlans),
            ('shouldStop', select_shouldStop),
            ('initBest', select_initBest),
            ('Step', const(STEP_DECL)),
            ('loopBody', select_loopBody),
            ('finalBody', select_finalBody),
            ('finalGuardNotStopped', select_finalGuard),
            ('RestorePlan', const(RESTORE_DECL)),
            ('restore', select_restore),
            ('resetBandwidthBeforeSolve', select_resetBandwidth),
        ],
    },
}


def register(name, source, imports, items):
    MODULES[name] = {'source': source, 'imports': imports, 'items': items}


def generate(repo, out_dir, pin=False):
    # recipes of the other Gen modules live in sibling files and register themselves
    import_errors = {}
    for mod in sorted(os.listdir(HERE)):
        if mod.startswith('gen_') and mod.endswith('.py'):
            try:
                __import__(mod[:-3])
            except Exception as e:  # a broken recipe file must not block the other modules
                import_errors[mod] = f'{type(e).__name__}: {e}'
    src = Src(repo)
    pinned = {}
    if os.path.exists(PINNED):
        with open(PINNED) as f:
            pinned = json.load(f)
    report = {}
    new_pinned = {}
    os.makedirs(out_dir, exist_ok=True)
    if import_errors:
        report['_recipe_import_errors'] = import_errors
    for mname, m in list(MODULES.items()):
        try:
            _gen_module(src, mname, m, pinned, new_pinned, out_dir, report)
        except Exception as e:
            report[mname] = {'_error': f'{type(e).__name__}: {e}'}
    if pin:
        with open(PINNED, 'w') as f:
            json.dump(new_pinned, f, indent=1, sort_keys=True)
    return report


def _gen_module(src, mname, m, pinned, new_pinned, out_dir, report):
    if True:
        rep = {}
        texts = []
        for iname, recipe in m['items']:
            key = f'{mname}.{iname}'
            try:
                text = recipe(src)
                status = 'generated'
                if key in pinned and pinned[key] != text:
                    status = 'generated (differs from pinned)'
            except (Unsupported, OSError, SyntaxError, KeyError, IndexError, AttributeError, ValueError) as e:
                if key not in pinned:
                    raise
                text = pinned[key]
                status = f'pinned-fallback: {type(e).__name__}: {e}'
            rep[iname] = status
            new_pinned[key] = text
            texts.append(text)
        # All or nothing per module: the items of one module describe one piece of source and must be mutually consistent
        # (e.g. the guards and the plans of the same branches).  If one item had to fall back to its pinned text while others
        # were regenerated from a restructured source, the mixture describes neither version; the whole module is then the
        # pinned one and the correspondence check decides whether the implementation still behaves like it.
        fell = [i for i, st in rep.items() if st.startswith('pinned-fallback')]
        keys = [f'{mname}.{iname}' for iname, _ in m['items']]
        if fell and all(k in pinned for k in keys) and any(not st.startswith('pinned-fallback') and 'differs' in st for st in rep.values()):
            texts = [pinned[k] for k in keys]
            for (iname, _), k in zip(m['items'], keys):
                new_pinned[k] = pinned[k]
                if not rep[iname].startswith('pinned-fallback'):
                    rep[iname] = f'pinned-fallback: module-wide (item {fell[0]} is unsupported)'
        header = f'-- GENERATED by extract/py2lean.py from {m["source"]} -- do not edit\n'
        header += ''.join(f'import {i}\n' for i in m['imports'])
        out = header + f'namespace Xrfmv.Gen.{mname}\n\n' + '\n\n'.join(texts) + f'\n\nend Xrfmv.Gen.{mname}\n'
        path = os.path.join(out_dir, f'{mname}.lean')
        old = None
        if os.path.exists(path):
            with open(path) as f:
                old = f.read()
        if old != out:  # keep mtime (and lake's cache) when nothing changed
            with open(path, 'w') as f:
                f.write(out)
        report[mname] = rep


if __name__ == '__main__':
    sys.path.insert(0, HERE)
    args = [a for a in sys.argv[1:] if not a.startswith('--')]
    rep = generate(args[0], args[1], pin='--pin' in sys.argv)
    print(json.dumps(rep, indent=1))
