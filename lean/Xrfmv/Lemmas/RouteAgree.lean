/- Lemmas for C08: the rank split and the `≤ median` routing rule agree off ties. -/
import Xrfmv.Model.RouteAgree
import Xrfmv.Lemmas.BuildIndex
import Mathlib.Order.Basic
import Mathlib.Order.Defs.LinearOrder

namespace Xrfmv.RouteAgree
open Xrfmv.BuildIndex Xrfmv.Gen.Split Xrfmv.Gen.Route List

variable {α : Type} [LinearOrder α]

/-- Contract of `torch.sort` + `torch.median` at one node: `sorted` is a permutation of the positions
`0..n-1` that orders the projections ascending, and the threshold is the lower median
`proj(sorted[(n-1)/2])`. -/
structure NodeContract (n : Nat) (proj : Nat → α) (sorted : List Nat) (thr : α) : Prop where
  perm : IsPermOfRange sorted n
  asc : ∀ a b, a ≤ b → b < n → proj (sorted.getD a 0) ≤ proj (sorted.getD b 0)
  med : thr = proj (sorted.getD ((n - 1) / 2) 0)

theorem mem_left_of_lt (sorted : List Nat) (n o k : Nat) (hn : sorted.length = n) (ho : o ≤ n)
    (hk : k < (n - o + 1) / 2 + o) (hkn : k < n) :
    sorted.getD k 0 ∈ maskSel n sorted (o : Int) leftMaskParts := by
  rw [maskSel_left sorted n o hn ho, ← List.take_add]
  have hk' : k < (sorted.take ((n - o + 1) / 2 + o)).length := by
    simp only [List.length_take, hn]; omega
  have : sorted.getD k 0 = (sorted.take ((n - o + 1) / 2 + o))[k] := by
    rw [List.getD_eq_getElem?_getD, List.getElem?_eq_getElem (by omega : k < sorted.length)]
    simp [List.getElem_take]
  rw [this]
  exact List.getElem_mem hk'

theorem mem_right_of_ge (sorted : List Nat) (n o k : Nat) (hn : sorted.length = n) (ho : o ≤ n)
    (hk : (n - o + 1) / 2 ≤ k) (hkn : k < n) :
    sorted.getD k 0 ∈ maskSel n sorted (o : Int) rightMaskParts := by
  rw [maskSel_right sorted n o hn ho]
  have hmem : sorted.getD k 0 ∈ sorted.drop ((n - o + 1) / 2) := by
    have hk' : k - (n - o + 1) / 2 < (sorted.drop ((n - o + 1) / 2)).length := by
      simp only [List.length_drop, hn]; omega
    have : sorted.getD k 0 = (sorted.drop ((n - o + 1) / 2))[k - (n - o + 1) / 2] := by
      rw [List.getD_eq_getElem?_getD, List.getElem?_eq_getElem (by omega : k < sorted.length)]
      simp only [List.getElem_drop, Option.getD_some]
      congr 1; omega
    rw [this]
    exact List.getElem_mem hk'
  have hsplit : sorted.drop ((n - o + 1) / 2) =
      (sorted.drop ((n - o + 1) / 2)).take o ++ sorted.drop ((n - o + 1) / 2 + o) := by
    rw [← List.drop_drop, List.take_append_drop]
  rw [hsplit] at hmem
  simp only [List.mem_append] at hmem ⊢
  tauto

/-- **Per-node agreement**: a position whose projection is not tied with the threshold is sent, by the
`≤ threshold goes left` rule, to a child that received it from the rank split (any overlap, odd or even `n`). -/
theorem node_agree (n o : Nat) (proj : Nat → α) (sorted : List Nat) (thr : α)
    (hc : NodeContract n proj sorted thr) (ho : o + 2 ≤ n) (i : Nat) (hi : i < n) (hne : proj i ≠ thr) :
    (goesLeft (proj i) thr = true → sideMask n sorted (o : Int) .left i = true) ∧
    (goesLeft (proj i) thr = false → sideMask n sorted (o : Int) .right i = true) := by
  have hn := hc.perm.length
  -- i occurs at some rank k of the sorted list
  have hmem : i ∈ sorted := (hc.perm.mem i).mpr hi
  obtain ⟨k, hk, hki⟩ := List.mem_iff_getElem.mp hmem
  have hkn : k < n := by omega
  have hgetD : sorted.getD k 0 = i := by
    rw [List.getD_eq_getElem?_getD, List.getElem?_eq_getElem hk]; simpa using hki
  have hmn : (n - 1) / 2 < n := by omega
  simp only [goesLeft, decide_eq_true_eq, decide_eq_false_iff_not, not_le, sideMask, List.contains_iff_mem]
  constructor
  · intro hle
    have hlt : proj i < thr := lt_of_le_of_ne hle hne
    -- rank k must be below the median rank
    have hk2 : k < (n - 1) / 2 := by
      by_contra hcon
      have := hc.asc ((n - 1) / 2) k (by omega) hkn
      rw [hgetD, ← hc.med] at this
      exact absurd hlt (not_lt.mpr this)
    rw [← hgetD]
    exact mem_left_of_lt sorted n o k hn (by omega) (by omega) hkn
  · intro hgt
    have hk2 : (n - 1) / 2 < k := by
      by_contra hcon
      have := hc.asc k ((n - 1) / 2) (by omega) hmn
      rw [hgetD, ← hc.med] at this
      exact absurd hgt (not_lt.mpr this)
    rw [← hgetD]
    exact mem_right_of_ge sorted n o k hn (by omega) (by omega) hkn

end Xrfmv.RouteAgree

namespace Xrfmv.RouteAgree
open Xrfmv.BuildIndex Xrfmv.Gen.Split Xrfmv.Gen.Route List

variable {α : Type} [LinearOrder α]

/-- The sample's projection is not tied with the threshold at any node on its predicted route. -/
def Untied (P : ProjOracles α) : ITree → List Bool → Nat → Prop
  | .node l r, path, x =>
      P.projO path x ≠ P.thrO path ∧
      (if goesLeft (P.projO path x) (P.thrO path) then Untied P l (path ++ [false]) x
       else Untied P r (path ++ [true]) x)
  | _, _, _ => True

/-- The sort/median contract holds at every split node the construction reaches, and every split keeps
at least two unshared samples. -/
def Consistent (cfg : Cfg) (O : Oracles) (P : ProjOracles α) :
    (fuel : Nat) → (path : List Bool) → (idx : List Nat) → (count : Nat) → Prop
  | 0, _, _, _ => True
  | fuel + 1, path, idx, count =>
    if shouldCreateLeaf idx.length cfg.maxLeaf cfg.nsplits.isNone count (cfg.nsplits.getD 0) then True
    else
      NodeContract idx.length (fun i => P.projO path (idx.getD i 0)) (O.sortO path idx.length) (P.thrO path) ∧
      (∃ o : Nat, O.ov idx.length = (o : Int) ∧ o + 2 ≤ idx.length) ∧
      Consistent cfg O P fuel (path ++ [false])
        (selectBy (sideMask idx.length (O.sortO path idx.length) (O.ov idx.length) leftChild.idx) idx) (count + 1) ∧
      Consistent cfg O P fuel (path ++ [true])
        (selectBy (sideMask idx.length (O.sortO path idx.length) (O.ov idx.length) rightChild.idx) idx)
        (build cfg O fuel (path ++ [false])
          (selectBy (sideMask idx.length (O.sortO path idx.length) (O.ov idx.length) leftChild.idx) idx)
          (!leftChild.isRootFalse) (count + 1)).2

/-- **Routing agrees with assignment**: a training sample that is untied along its predicted route reaches
a leaf that holds it (as a center or as a moved validation sample). -/
theorem route_agree (cfg : Cfg) (O : Oracles) (P : ProjOracles α) (hperm : ∀ path n, IsPermOfRange (O.permO path n) n) :
    ∀ (fuel : Nat) (path : List Bool) (idx : List Nat) (isRoot : Bool) (count : Nat),
      Consistent cfg O P fuel path idx count →
      (build cfg O fuel path idx isRoot count).1.ok = true →
      ∀ x ∈ idx, Untied P (build cfg O fuel path idx isRoot count).1 path x →
        ∃ l ∈ (build cfg O fuel path idx isRoot count).1.leaves,
          l.1 = routeTo P (build cfg O fuel path idx isRoot count).1 path x ∧ x ∈ l.2.1 ++ l.2.2 := by
  intro fuel
  induction fuel with
  | zero => intro path idx isRoot count _ h; simp [build, ITree.ok] at h
  | succ fuel ih =>
    intro path idx isRoot count hcons
    simp only [Consistent] at hcons
    simp only [build]
    split
    · -- leaf
      split
      · intro _ x hx _
        refine ⟨(path, (refill cfg O path idx).1, (refill cfg O path idx).2), by simp [ITree.leaves],
          by simp [routeTo], ?_⟩
        exact (refill_perm cfg O path idx (hperm path idx.length)).mem_iff.mpr hx
      · intro _ x hx _
        exact ⟨(path, idx, []), by simp [ITree.leaves], by simp [routeTo], by simpa using hx⟩
    · rename_i hleaf
      rw [if_neg hleaf] at hcons
      obtain ⟨hnode, ⟨o, hov, ho2⟩, hcl, hcr⟩ := hcons
      split
      · intro h; simp [ITree.ok] at h
      · intro hok x hx hunt
        simp only [ITree.ok, Bool.and_eq_true] at hok
        simp only [Untied] at hunt
        obtain ⟨hne, hrest⟩ := hunt
        obtain ⟨i, hi, hget⟩ := List.mem_iff_getElem.mp hx
        have hg : idx[i]? = some x := by rw [List.getElem?_eq_getElem hi, hget]
        have hgd : idx.getD i 0 = x := by rw [List.getD_eq_getElem?_getD, hg]; rfl
        have hne' : (fun i => P.projO path (idx.getD i 0)) i ≠ P.thrO path := by
          show P.projO path (idx.getD i 0) ≠ P.thrO path
          rw [hgd]; exact hne
        have hag := node_agree idx.length o _ _ _ hnode ho2 i hi hne'
        simp only [hgd] at hag
        simp only [routeTo, ITree.leaves]
        by_cases hgo : goesLeft (P.projO path x) (P.thrO path) = true
        · rw [if_pos hgo] at hrest ⊢
          have hin : x ∈ selectBy (sideMask idx.length (O.sortO path idx.length) (O.ov idx.length) leftChild.idx) idx := by
            rw [hov]; simp only [leftChild]
            exact (mem_selectBy _ _ _).mpr ⟨i, hi, hg, hag.1 hgo⟩
          obtain ⟨l, hl, hpath, hmem⟩ := ih _ _ _ _ hcl hok.1 x hin hrest
          exact ⟨l, List.mem_append.mpr (Or.inl hl), hpath, hmem⟩
        · have hgo' : goesLeft (P.projO path x) (P.thrO path) = false := by simpa using hgo
          rw [if_neg hgo] at hrest ⊢
          have hin : x ∈ selectBy (sideMask idx.length (O.sortO path idx.length) (O.ov idx.length) rightChild.idx) idx := by
            rw [hov]; simp only [rightChild]
            exact (mem_selectBy _ _ _).mpr ⟨i, hi, hg, hag.2 hgo'⟩
          obtain ⟨l, hl, hpath, hmem⟩ := ih _ _ _ _ hcr hok.2 x hin hrest
          exact ⟨l, List.mem_append.mpr (Or.inr hl), hpath, hmem⟩

end Xrfmv.RouteAgree
