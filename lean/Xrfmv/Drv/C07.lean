/- Driver ops for C07/C08: the index-level model of `_build_tree`. -/
import Xrfmv.Drv.Common
import Xrfmv.Model.BuildIndex

open Lean Xrfmv.Drv

namespace Xrfmv.Drv.C07
open Xrfmv.BuildIndex

def pathStr (p : List Bool) : String := String.mk (p.map fun b => if b then '1' else '0')

def lookupList (tbl : Json) (p : List Bool) : List Nat :=
  match tbl.getObjValAs? (List Nat) (pathStr p) with
  | .ok l => l
  | .error _ => []

/-- `{"op":"buildindex","L":..,"ns":null|k,"minVal":..,"n":..,"sort":{path:[..]},"perm":{path:[..]},
"nval":{path:k},"ov":[..],"frac":[..]}`; paths are strings of 0 (left) / 1 (right), the root is "". -/
def opBuildIndex : Handler := fun j => do
  let L ← j.getObjValAs? Nat "L"
  let n ← j.getObjValAs? Nat "n"
  let minVal ← j.getObjValAs? Nat "minVal"
  let ov ← j.getObjValAs? (Array Int) "ov"
  let frac ← j.getObjValAs? (Array Int) "frac"
  let sortT ← j.getObjVal? "sort"
  let permT ← j.getObjVal? "perm"
  let nvalT ← j.getObjVal? "nval"
  if ov.size < n + 1 ∨ frac.size < n + 1 then throw "bad-op: tables shorter than n+1"
  let ns : Option Nat := match j.getObjValAs? Nat "ns" with
    | .ok k => some k
    | .error _ => none
  let cfg : Cfg := { maxLeaf := L, nsplits := ns, minVal := minVal }
  let O : Oracles := {
    sortO := fun p _ => lookupList sortT p
    permO := fun p _ => lookupList permT p
    nvalO := fun p => match nvalT.getObjValAs? Nat (pathStr p) with | .ok k => k | .error _ => 0
    ov := fun m => ov.getD m 0
    frac := fun m => frac.getD m 0 }
  let (t, c) := build cfg O (n + 2 + ns.getD 0) [] (List.range n) true 0
  let leaves := t.leaves.map fun l =>
    Json.mkObj [("path", toJson (pathStr l.1)), ("centers", toJson l.2.1), ("moved", toJson l.2.2)]
  pure <| Json.mkObj [("ok", toJson t.ok), ("count", toJson c), ("leaves", toJson leaves)]

def ops : List (String × Handler) := [("buildindex", opBuildIndex)]

end Xrfmv.Drv.C07
